"""C15 — integration, binning and crop/trim/pad/append/resample keep the spectrum well-formed.

Tie: Model/Spectrum.lean (trapz, integrate, bin, the five resizing operations with their refusals) is hand-written and
compared with lentil.radiometry.Spectrum step by step: every operation of a random history is replayed on the model from
the implementation's state *before* the step (exact rationals of the float64 data), so rounding cannot accumulate.
Selections (crop/trim/append) are compared exactly; linspace/interpolation results with relative tolerance 1e-11."""
import warnings
from fractions import Fraction
import math
import numpy as np
import vlib
from harness.speccommon import *

LEVEL_TEXT = ('Lean 4 theorems about an executable list model of Spectrum whose comparison operators and scalar formulas (crop guards and drop '
              'tests, integrate\'s keep test, trim\'s tolerance test and refusal and the slice bounds it keeps (Gen.trimSliceStart/Stop; trim_slice_is_code), append\'s overlap test (Gen.appendRefusesAt; append_guard_is_code, append_guard_refuses_touching, append_single_refused), pad\'s sample counts and placement (Gen.padLeft*/padRight*: linspace end points and the deleted index of each block; pad_placement_is_code: the point removed from each block is the spectrum\'s own end sample), the ends="inside" edges and the two inserted Simpson quarter points (Gen.binInsideEdgeLo/Hi, binInsideLo/Hi; bin_inside_points_are_code on two and three centres, bin_inside_quarter_points), bin mid-points/end edges and the '
              'trapezoid/Simpson terms) are regenerated from radiometry.py (Gen/SpectrumOps.lean): the invariant (strictly increasing wavelengths, '
              'one value per wavelength) is preserved by crop/trim/pad/append/resample and by every history, also when an operation is refused; '
              'crop keeps exactly the closed range and is covariant under a change of unit (crop_scale_covariant); trim keeps first-to-last '
              'sample above tolerance; retained samples are unaltered; `integrate s a b` (the model of method="trapz"; the default "simps" is not modelled) is linear in the values and additive at a sample '
              '(integrate_linear, integrate_additive_at_sample; with the default bounds start=None/end=None, regenerated as Gen.integrateDefaultStart/End, it is the trapezoid sum over the whole grid: integrate_default_is_whole) and exact for piecewise-linear data relative to the hand-defined reference `pwLinearIntegral` (trapz_exact_piecewise_linear, integrate_exact_piecewise_linear: equal to the sum over segments of the increments of a primitive of each segment\'s line; trapz_exact_linear_segment for one global line); both rules return one bin per centre (bin_length); trapezoid bins of a non-negative spectrum are non-negative for non-negative fill values and strictly increasing centres (bin_trapz_nonneg, about `bin` itself; hypotheses 0 ≤ fill_below, 0 ≤ fill_above, StrictInc centres; the zero-raw-sum case under preserve_power is covered: the code\'s translated guard `total != 0` leaves the raw bins unchanged), exact for a spectrum whose samples lie on ONE line with all bin edges inside the sampled range (bin_trapz_exact_linear) and, per bin, whenever the two edges of the bin lie in one data segment — the spectrum is linear across that bin, whatever it does elsewhere — the bin is the exact integral of the line of that segment (bin_trapz_exact_per_bin); Simpson bins (float centres, no power preservation) are non-negative for both end treatments (bin_simps_nonneg: bin_simps_nonneg_symmetric, bin_simps_nonneg_inside); with power preservation the TRAPEZOID bins sum to the trapezoid `integrate` over the centres\' span whenever the un-normalised bins do not sum to zero, and are the un-normalised bins themselves when they do (bin_preserve_power_sum); bins normalised by a supplied integral I sum to I for either rule, same two cases (bin_preserve_power_sum_given); '
              ' refusals leave the spectrum (append/resample/trim/pad) or an emptied grid (crop).')
LEVEL_NOTE = ('partial: non-negativity of Simpson bins for integer-dtype centres / under preserve_power (float centres without it: proved for both end treatments, bin_simps_nonneg = bin_simps_nonneg_symmetric + bin_simps_nonneg_inside), exactness of Simpson bins with ends="inside" or integer-dtype centres '
              'and every scipy.integrate.simpson clause are oracle-only; Simpson bins with symmetric ends on UNIFORM float centres are exact for a spectrum on one line with all sample points inside the data (bin_simps_exact_linear_uniform: same exactBins over the same edges as bin_trapz_exact_linear). Open known findings KF-C15-bin-integer-centres and KF-C15-bin-raw-sum-zero-nonzero-integral (preserve_power: when every sample point of the rule falls on a zero of the spectrum or outside the data the un-normalised bins sum to exactly zero while the integral over the centres\' span does not — the bins stay zero, the sum clause fails there; model witness kf_bin_raw_sum_zero_nonzero_integral; bin_preserve_power_sum* prove the sum clause exactly for a non-zero raw sum and bins = raw otherwise). '
              'Trusted: scipy interp1d(kind=linear) = piecewise-linear interpolant with fill; np.linspace, np.delete, np.trapz as modelled.')
TECHNIQUE = 'Lean 4 proof (induction over lists and over operation histories) about a hand model + per-step differential correspondence at ℚ'
GEN = ['SpectrumOps', 'Units']
OPS = ['C15']
RULE = ('streams: badarg (every refusal on an ARGUMENT outside the documented options: append of a non-Spectrum, integrate(method=?), pad(mode=?), pad(sampling=left/right/list) i.e. the three raises of _sampling, bin(ends=?) for both rules, bin(interp_method=?): must be ValueError with the spectrum bit-identical afterwards), histories, integrate, setvalue (sample/bin, assign `value`/`wave`, sample/bin again on the same object), bin (zero-raw-sum stream in three sub-classes: dark spectrum, centres outside the data, sample points of the rule on zeros of a non-dark spectrum [known finding]; own/other/default unit, integer-dtype centres int16/32/64 up to the top of the range), unit (sample/resample across units), extremes (number scales, histories > 32 ops in search/thorough). histories of 5..12 (quick) / 5..30 (thorough) operations drawn from crop/trim/pad/append/resample with parameters relative to the '
        'current range (inside, at, and outside it; refusals included: non-increasing grids, overlapping appends, wrong lengths, '
        'non-positive pads, tol>=1) on dyadic spectra of 2..10 samples (one in five stored as int64); integrate with random bounds, linear/additive/exactness probes; '
        'bin with 2..7 centres (uniform and non-uniform), trapz/simps, symmetric/inside, preserve_power on/off, scalar and pair '
        'fill values. distinct = (kind, sizes, op kinds, first data); non-trivial = a history with >= 2 different op kinds or a bin/integrate '
        'whose range cuts the data')
TRUSTED = ['scipy.interpolate.interp1d(kind="linear", bounds_error=False, fill_value=…) is the piecewise-linear interpolant with fill',
           'np.linspace(a,b,n)[i] = a + i(b-a)/(n-1); np.delete/np.where/np.append/np.hstack semantics; np.trapz',
           'scipy.integrate.simpson (used by integrate(method="simps") and by preserve_power with simps) is taken from the implementation']
UNPROVEN = [            'integrate theorems (linearity, additivity at a sample, piecewise-linear exactness) are about method="trapz"; the DEFAULT method "simps" (scipy.integrate.simpson) is not modelled: oracle/implementation only, also inside preserve_power for Simpson bins',
            'non-negativity of Simpson bins for integer-dtype centres or with preserve_power (float centres without it: bin_simps_nonneg, both end treatments — bin_simps_nonneg_symmetric, bin_simps_nonneg_inside)',
            'Simpson binning with integer-dtype centres (open known finding KF-C15-bin-integer-centres: mid-points truncated)',
            'preserve_power when the un-normalised bins sum to exactly zero but the integral over the span of the centres does not: the sum clause is FALSE there (open known finding KF-C15-bin-raw-sum-zero-nonzero-integral); proven instead: the bins are the un-normalised ones (bin_preserve_power_sum*), exhibited by kf_bin_raw_sum_zero_nonzero_integral',
            'Simpson bins: exactness for linear spectra on uniform centres is proved for symmetric ends, float centres, no power preservation (bin_simps_exact_linear_uniform); ends="inside" (quarter points), integer-dtype centres and preserve_power: oracle only',
            'integrate(method="simps") (scipy.integrate.simpson is not modelled)',
            ]
ASSUMPTIONS = ['badarg stream: spectra of >= 3 samples only — pad(sampling="left"/"right") on a TWO-sample spectrum passes _sampling\'s length test, _sampling(wave[0]) of a scalar returns None and pad fails with an accidental TypeError (spectrum unchanged); not generated, no clause covers it; a string other than min/left/right as sampling is np.isscalar and likewise ends in a TypeError', 'preserve_power classes are told apart by the un-normalised bins of the same call (a second call with preserve_power=False on an equal spectrum; its sum is compared with the model\'s raw sum): raw sum exactly zero and integral zero => all-zero bins demanded; raw sum exactly zero and integral non-zero => known finding; otherwise the bins must sum to the integral',
               'append() ignores the wavelength unit of the appended spectrum (its numbers are appended as they are and keep the caller\'s unit label): generated (tag append:other-unit), model and oracle follow the code — the result is well-formed, which is all the property claims; reported as an observation',
               'bin(interp_method="simps", preserve_power=True) raises ValueError (from scipy.integrate.simpson) when no data sample lies inside the span of the centres; such calls are outside the modelled scope',
               'spectra are 1-D with finite data; histories run under every unit label (nm/um/angstrom/m; also at x2^-30 and x2^10 number scales); sample, resample and bin are also run with abscissae in another unit or the default nm (the code converts a copy)',
               'histories continue after a refusal with the object as the refused call left it']

OPK = ['crop', 'trim', 'pad', 'append', 'resample']
UNITS = ['m', 'um', 'nm', 'angstrom']
MPU = {'m': Fraction(1), 'um': Fraction(1, 10**6), 'nm': Fraction(1, 10**9), 'angstrom': Fraction(1, 10**10)}
NOTES = {}     # id(case) -> tags discovered while running the implementation
REFUSED = {}   # id(case) -> (refused steps, accepted steps) of a history

def _spec(rng, n=None, tiny_ends=False):
    n = int(rng.integers(2, 11)) if n is None else n
    wave = inc_grid(rng, n, bits=3)
    value = [dyadic(rng, 0, 16, 3) for _ in range(n)]
    if tiny_ends or rng.integers(0, 3) == 0:
        for i in range(int(rng.integers(0, 3))): value[i] = [0.0, 2.0 ** -16][int(rng.integers(0, 2))]
        for i in range(int(rng.integers(0, 3))): value[-1 - i] = [0.0, 2.0 ** -16][int(rng.integers(0, 2))]
    if rng.integers(0, 25) == 0: value = [0.0] * n
    if rng.integers(0, 25) == 0: value = [-abs(v) for v in value]
    return wave, value

FR = [-0.5, -0.25, -0.125, 0.0, 0.125, 0.25, 0.5, 0.75, 1.0, 1.25, 1.5]

def _op(rng):
    k = OPK[int(rng.integers(0, 5))]
    fr = lambda: FR[int(rng.integers(0, len(FR)))]
    if k == 'crop':
        a, b = fr(), fr()
        if rng.integers(0, 5) and a > b: a, b = b, a
        return {'k': 'crop', 'a': a, 'b': b, 'snap': bool(rng.integers(0, 2))}
    if k == 'trim':
        return {'k': 'trim', 'tol': [None, 2.0 ** -20, 2.0 ** -4, 0.25, 0.5, 1.0, 2.0][int(rng.integers(0, 7))]}
    if k == 'pad':
        sm = None if rng.integers(0, 2) else [0.125, 0.5, 1.0, 3.0][int(rng.integers(0, 4))]
        mode = ['constant', 'constant2', 'default', 'edge'][int(rng.integers(0, 4))]
        return {'k': 'pad', 'a': [-0.25, -0.01, 0.0, 0.1, 0.25, 0.5, 1.0, 30.0][int(rng.integers(0, 8))], 'b': [-0.25, 0.0, 0.1, 0.25, 0.5, 1.0][int(rng.integers(0, 6))],
                'sampling': sm, 'mode': mode, 'vals': [dyadic(rng, 0, 4, 2), dyadic(rng, 0, 4, 2)]}
    if k == 'append':
        t = int(rng.integers(0, 8))
        m = {0: 'same', 1: 'one', 2: 'other'}.get(t, 'same')
        return {'k': 'append', 'len': m, 'gap': [-1.0, 0.0, 0.125, 0.5, 2.0][int(rng.integers(0, 5))], 'copy': bool(rng.integers(0, 3) == 0),
                'steps': [int(x) / 8 for x in rng.integers(1, 24, 12)], 'vals': [dyadic(rng, 0, 16, 3) for _ in range(12)],
                'shuffle': bool(rng.integers(0, 8) == 0)}
    t = int(rng.integers(0, 10))
    return {'k': 'resample', 'n': int(rng.integers(1, 9)) if t else 0, 'a': fr(), 'b': fr(), 'bad': ['dup', 'dec', 'neg'][t - 7] if t >= 7 else None,
            'fill': [0.0, 1.5, [0.5, 2.0]][int(rng.integers(0, 3))], 'jit': [int(x) / 16 for x in rng.integers(0, 8, 9)]}

def generate(rng, tier):
    n, lmin, lmax = {'quick': (200, 5, 12), 'thorough': (4000, 5, 30), 'search': (800, 5, 16)}[tier]
    out = []
    for i in range(n):
        t = i % 10
        if t < 4:
            w, v = _spec(rng)
            out.append({'kind': 'history', 'wave': w, 'value': v, 'ops': [_op(rng) for _ in range(int(rng.integers(lmin, lmax + 1)))]})
            # the same grids at metre-like (x 2^-30 ~ 1e-9) and large (x 2^10) magnitudes: the operations must not depend on the
            # absolute size of the wavelength numbers (exact: powers of two), and histories of more than 32 operations
            # the spectrum's unit label (the resizing operations work on the numbers; arguments are given in the spectrum's unit);
            # an appended spectrum may carry ANOTHER unit label: append ignores it (observation, tag append:other-unit)
            if rng.integers(0, 3) == 0:
                out[-1]['unit'] = UNITS[int(rng.integers(0, 4))]
                for o in out[-1]['ops']:
                    if o['k'] == 'append' and rng.integers(0, 2): o['ounit'] = UNITS[int(rng.integers(0, 4))]
            r = int(rng.integers(0, 40 if tier == 'quick' else 6))
            if r < 2:
                hs = [2.0 ** -30, 2.0 ** 10][r]
                out[-1]['hscale'] = hs; out[-1]['wave'] = [x * hs for x in w]
            elif r == 2 and tier != 'quick':
                out[-1]['ops'] = [_op(rng) for _ in range(int(rng.integers(33, 49)))]
        elif t < 6:
            w, v = _spec(rng)
            v2 = [dyadic(rng, 0, 16, 3) for _ in w]
            out.append({'kind': 'integrate', 'wave': w, 'value': v, 'value2': v2, 'ca': dyadic(rng, -4, 4, 2), 'cb': dyadic(rng, -4, 4, 2),
                        **(lambda x, y, sw: {'a': max(x, y) if sw else min(x, y), 'b': min(x, y) if sw else max(x, y)})(FR[int(rng.integers(0, len(FR)))], FR[int(rng.integers(0, len(FR)))], rng.integers(0, 8) == 0), 'split': int(rng.integers(0, len(w))),
                        'lin': [dyadic(rng, -2, 2, 3), dyadic(rng, 0, 8, 3)]})
        else:
            w, v = _spec(rng, n=int(rng.integers(3, 11)))
            lin = bool(rng.integers(0, 3) == 0)
            if lin:
                a, b = dyadic(rng, 0, 2, 3), dyadic(rng, 0, 8, 3)
                v = [a * x + b for x in w]
            m = int(rng.integers(2, 8))
            uni = bool(rng.integers(0, 2))
            ia = int(rng.integers(3 if lin else 0, 7))
            ib = int(rng.integers(ia + 1, len(FR) - (2 if lin else 0)))
            out.append({'kind': 'bin', 'wave': w, 'value': v, 'linear': [a, b] if lin else None, 'm': m if rng.integers(0, 20) else 1, 'uniform': uni,
                        'fa': FR[ia], 'fb': FR[ib],
                        'jit': [int(x) / 8 for x in rng.integers(0, 7, 8)],
                        'simps': bool(rng.integers(0, 2)), 'ends': ['symmetric', 'inside'][int(rng.integers(0, 2))], 'pp': bool(rng.integers(0, 2)),
                        'fill': [0.0, 0.0, 1.5, [0.5, 2.0]][int(rng.integers(0, 4))], 'unit': ['nm', 'nm', 'um', 'angstrom', 'm'][int(rng.integers(0, 5))]})
            c = out[-1]
            # requested unit of the centres: the spectrum's own, another one (bin converts a copy), or none given (default 'nm')
            r = int(rng.integers(0, 6))
            c['req'] = c['unit'] if r < 3 else UNITS[int(rng.integers(0, 4))] if r < 5 else 'nm'
            c['omit_unit'] = (r == 5)
            # integer-dtype centre array (only meaningful where the data scale is 1)
            c['cen_int'] = bool(c['unit'] == 'nm' and c['req'] == 'nm' and rng.integers(0, 3) == 0)
            if c['cen_int']:
                # integer dtypes as instruments deliver them; with wavelengths of 10^4 (x 512) an int16 sum of two centres overflows
                c['cen_dtype'] = ['int64', 'int32', 'int16'][int(rng.integers(0, 3))]
                if c['cen_dtype'] != 'int64' and rng.integers(0, 2): c['wscale'] = True
    # unit-conversion paths of sample/resample: spectrum in unit U, abscissae in unit R (explicit, or the default 'nm')
    for i in range(max(n // 10, 12)):
        w, v = _spec(rng, n=int(rng.integers(2, 9)))
        u = UNITS[int(rng.integers(0, 4))]
        r = int(rng.integers(0, 3))
        out.append({'kind': 'unit', 'wave': w, 'value': v, 'unit': u, 'req': 'nm' if r == 2 else UNITS[int(rng.integers(0, 4))], 'omit_unit': r == 2,
                    'fr': [FR[int(x)] for x in sorted(rng.choice(len(FR), int(rng.integers(1, 6)), replace=False))],
                    'fill': [0.0, 1.5, [0.5, 2.0]][int(rng.integers(0, 3))], 'vu': [None, 'wlam'][int(rng.integers(0, 2))]})
    # integer-dtype centres at the top of a small dtype's range, trapezoid rule, linear spectra (exact bins known): arithmetic
    # carried out in the centres' dtype overflows here
    for i in range({'quick': 3, 'thorough': 40, 'search': 40}[tier]):
        w, _v = _spec(rng, n=int(rng.integers(4, 10)))
        a_, b_ = dyadic(rng, 0, 2, 3), dyadic(rng, 0, 8, 3)
        out.append({'kind': 'bin', 'wave': w, 'value': [a_ * x + b_ for x in w], 'linear': [a_, b_], 'm': int(rng.integers(3, 7)), 'uniform': bool(rng.integers(0, 2)),
                    'fa': 0.25, 'fb': [0.75, 1.0][int(rng.integers(0, 2))], 'jit': [int(x) / 8 for x in rng.integers(0, 7, 8)], 'simps': False,
                    'ends': ['symmetric', 'inside'][int(rng.integers(0, 2))], 'pp': False, 'fill': 0.0, 'unit': 'nm', 'req': 'nm', 'omit_unit': bool(rng.integers(0, 2)),
                    'cen_int': True, 'cen_dtype': ['int16', 'int32'][int(rng.integers(0, 2))], 'wscale': True})
    # preserve_power with a zero raw sum: an all-zero spectrum, or all centres outside the data with fill 0 (bins must be zeros, never 0/0)
    for i in range(2 if tier == 'quick' else 20):
        w, v = _spec(rng, n=int(rng.integers(3, 8)))
        zero = bool(i % 2)
        out.append({'kind': 'bin', 'wave': w, 'value': [0.0] * len(w) if zero else v, 'linear': None, 'm': int(rng.integers(2, 6)), 'uniform': True,
                    'fa': 0.25 if zero else 1.25, 'fb': 0.75 if zero else 1.5, 'jit': [0.0] * 8, 'simps': bool(rng.integers(0, 2)), 'ends': ['symmetric', 'inside'][int(rng.integers(0, 2))],
                    'pp': True, 'fill': 0.0, 'unit': 'nm', 'req': 'nm', 'omit_unit': False, 'cen_int': False, 'zero_sum': True})
    # ... and the third sub-class: raw sum zero although the integral over the span is NOT zero (every sample point of the rule falls
    # on a zero of the spectrum or outside the data): power cannot be preserved — open known finding KF-C15-bin-raw-sum-zero-nonzero-integral
    for i in range(1 if tier == 'quick' else 6):
        lo_, d_ = float(rng.integers(1, 60)), float(rng.integers(1, 5))
        simps_ = bool(i % 2)
        v = [float(x) for x in rng.integers(1, 16, 9)]
        for j in ([0, 3, 6] if simps_ else [3]): v[j] = 0.0
        out.append({'kind': 'bin', 'wave': [lo_ + d_ * j for j in range(9)], 'value': v, 'linear': None, 'm': 3, 'uniform': True, 'fa': 0.0, 'fb': 1.5, 'jit': [0.0] * 8,
                    'simps': simps_, 'ends': 'symmetric', 'pp': True, 'fill': 0.0, 'unit': 'nm', 'req': 'nm', 'omit_unit': False, 'cen_int': False, 'zero_sum': True,
                    'dtype': ['int', 'float'][int(rng.integers(0, 2))]})
    # the same object sampled / binned, given new values through the `value` setter (and new wavelengths through `wave`), and
    # sampled / binned again: the second answers must be those of the new data
    for i in range(max(n // 12, 10)):
        w, v = _spec(rng, n=int(rng.integers(2, 9)))
        out.append({'kind': 'setvalue', 'wave': w, 'value': v, 'value2': [dyadic(rng, 0, 16, 3) for _ in w], 'shift': [0.0, 0.5, 4.0][int(rng.integers(0, 3))],
                    'fr': [FR[int(x)] for x in sorted(rng.choice(len(FR), int(rng.integers(2, 6)), replace=False))],
                    'fill': [0.0, 1.5, [0.5, 2.0]][int(rng.integers(0, 3))], 'fill2': [0.0, 2.5][int(rng.integers(0, 2))], 'method': ['linear', 'linear', 'quadratic'][int(rng.integers(0, 3))]})
    # refusals on a bad ARGUMENT (not on bad data): every `raise ValueError` of append/integrate/pad/_sampling/bin that no other stream reaches
    for i, call in enumerate(BADARG):
        for _ in range(2 if tier == 'quick' else 6):
            w, v = _spec(rng, n=int(rng.integers(3, 9)))
            out.append({'kind': 'badarg', 'wave': w, 'value': v, 'call': call, 'lo': w[0] - dyadic(rng, 1, 4, 2), 'hi': w[-1] + dyadic(rng, 1, 4, 2)})
    # storage dtype: integer-valued spectra (0/1 bandpasses, counts) stored as int64
    for c in out:
        if c.get('linear') is None and '_corpus' not in c and rng.integers(0, 5) == 0:
            c['dtype'] = 'int'
            c['value'] = [float(int(v)) for v in c['value']]
    return out

BADARG = ['append:ndarray', 'append:float', 'integrate:method', 'pad:mode', 'pad:sampling-left', 'pad:sampling-right', 'pad:sampling-list',
          'bin:trapz-ends', 'bin:simps-ends', 'bin:method']

def _badarg_call(s, c):
    k, lo, hi = c['call'], c['lo'], c['hi']
    cen = np.linspace(c['wave'][0], c['wave'][-1], 4)
    if k == 'append:ndarray': return s.append(np.array([hi, hi + 1.0]))
    if k == 'append:float': return s.append(hi)
    if k == 'integrate:method': return s.integrate(method='romberg')
    if k == 'pad:mode': return s.pad((lo, hi), mode='reflect')
    if k == 'pad:sampling-left': return s.pad((lo, hi), sampling='left')
    if k == 'pad:sampling-right': return s.pad((lo, hi), sampling='right')
    if k == 'pad:sampling-list': return s.pad((lo, hi), sampling=[0.5, 0.25])
    if k == 'bin:trapz-ends': return s.bin(cen, interp_method='trapz', ends='outside')
    if k == 'bin:simps-ends': return s.bin(cen, interp_method='simps', ends='outside')
    if k == 'bin:method': return s.bin(cen, interp_method='romberg')
    raise KeyError(k)

def _vals(c):
    v = np.array(c['value'])
    return v.astype(np.int64) if c.get('dtype') == 'int' else v

def signature(c):
    if c['kind'] == 'badarg': return 'badarg %s n=%d %s' % (c['call'], len(c['wave']), c['wave'][:2])
    if c['kind'] == 'history': return 'history%s%s n=%d %s %s' % (c.get('unit', ''), '' if 'hscale' not in c else '*%g' % c['hscale'], len(c['wave']), ','.join(o['k'] for o in c['ops']), c['wave'][:2])
    if c['kind'] == 'setvalue': return 'setvalue n=%d %s %s %s %s' % (len(c['wave']), c['fr'], c['shift'], c['method'], c['wave'][:2])
    if c['kind'] == 'unit': return 'unit %s>%s%s n=%d %s %s' % (c['unit'], c['req'], '*' if c['omit_unit'] else '', len(c['wave']), c['fr'], c['wave'][:2])
    if c['kind'] == 'integrate': return 'integrate n=%d %s %s %s' % (len(c['wave']), c['a'], c['b'], c['wave'][:2])
    return 'bin n=%d m=%d %s %s %s %s>%s%s %s' % (len(c['wave']), c['m'], c['simps'], c['ends'], c['pp'], c['unit'], c.get('req', c['unit']), (c.get('cen_dtype', 'i') + str(c.get('wscale', ''))) if c.get('cen_int') else '', c['wave'][:2])

def nontrivial(c):
    # histories: at least one refused AND one accepted step (known once the implementation has run); bins/integrals: always
    if c['kind'] == 'history':
        r = REFUSED.get(id(c))
        return (r[0] >= 1 and r[1] >= 1) if r else len({o['k'] for o in c['ops']}) >= 2
    return True

def tags(c):
    t = [c['kind'], 'dtype:' + c.get('dtype', 'float')]
    if c['kind'] == 'badarg': t.append('badarg:' + c['call'])
    if c['kind'] == 'history': t += sorted({'op:' + o['k'] for o in c['ops']}) + ['scale:%g' % c.get('hscale', 1.0), 'history-unit:' + c.get('unit', 'nm')] + (['append:other-unit'] if any(o.get('ounit') not in (None, c.get('unit', 'nm')) for o in c['ops']) else []) + (['long-history'] if len(c['ops']) > 32 else [])
    if c['kind'] == 'bin':
        t += ['bin:' + ('simps' if c['simps'] else 'trapz'), 'bin:' + c['ends'], 'bin:unit=' + c['unit'], 'bin:pp=%s' % c['pp'],
              'bin:requested=' + ('default' if c.get('omit_unit') else 'own' if c.get('req', c['unit']) == c['unit'] else 'other')]
        if c.get('cen_int'): t.append('bin:integer-centres:' + c.get('cen_dtype', 'int64') + ('*top-of-range' if c.get('wscale') else ''))
    t += NOTES.pop(id(c), [])
    if c['kind'] == 'history' and id(c) in REFUSED: t += ['history:refused-steps'] * REFUSED[id(c)][0] + ['history:accepted-steps'] * REFUSED[id(c)][1]
    return t

# ------------------------------------------------------------------------------------------ implementation
def _R():
    vlib.import_lentil()
    import lentil.radiometry as R
    return R

def _resolve(o, s, R, hs=1.0):
    """absolute parameters of a relative op description on the current state (all arithmetic in float64, recorded)"""
    w = np.asarray(s.wave, dtype=float)
    lo, hi = (float(w.min()), float(w.max())) if w.size else (1.0, 2.0)
    span = (hi - lo) if hi > lo else 1.0 * hs
    k = o['k']
    if k == 'crop':
        a, b = lo + o['a'] * span, lo + o['b'] * span
        if o['snap'] and w.size: a = float(w[min(int(abs(o['a']) * w.size), w.size - 1)])
        return {'k': 'crop', 'lo': a, 'hi': b}
    if k == 'trim': return {'k': 'trim', 'tol': o['tol']}
    if k == 'pad':
        vals = {'constant': o['vals'][0], 'constant2': list(o['vals']), 'default': None, 'edge': None}[o['mode']]
        return {'k': 'pad', 'e0': lo - o['a'] * span, 'e1': hi + o['b'] * span, 'sampling': None if o['sampling'] is None else o['sampling'] * hs, 'mode': 'edge' if o['mode'] == 'edge' else 'constant', 'values': vals}
    if k == 'append':
        m = {'same': w.size, 'one': 1, 'other': max(1, (w.size + 1) // 2 + 1) if w.size != 3 else 2}[o['len']]
        m = max(1, min(m, 12))
        x = hi + o['gap'] * (span / max(w.size, 1) if o['gap'] > 0 else span)
        ow = []
        for i in range(m): ow.append(x); x = x + o['steps'][i] * hs
        if o['shuffle'] and m > 1: ow[0], ow[-1] = ow[-1], ow[0]
        return {'k': 'append', 'wave': ow, 'value': o['vals'][:m], 'copy': o['copy']}
    n = o['n']
    a, b = lo + min(o['a'], o['b']) * span, lo + max(o['a'], o['b']) * span
    if a <= 0 and o['bad'] != 'neg': a = lo / 2
    xs = [a + (b - a) * i / max(n - 1, 1) + (o['jit'][i] * span / 64 if 0 < i < n - 1 else 0.0) for i in range(n)]
    xs = sorted(set(xs))
    if o['bad'] == 'dup' and len(xs) > 1: xs[1] = xs[0]
    if o['bad'] == 'dec' and len(xs) > 1: xs[0], xs[-1] = xs[-1], xs[0]
    if o['bad'] == 'neg' and xs: xs[0] = -abs(xs[0]) if xs[0] != 0 else -1.0
    return {'k': 'resample', 'xs': xs, 'fill': o['fill']}

def _apply(s, p, R):
    k = p['k']
    if k == 'crop': return s.crop(p['lo'], p['hi'])
    if k == 'trim': return s.trim() if p['tol'] is None else s.trim(p['tol'])
    if k == 'pad':
        kw = {} if p['values'] is None else {'values': p['values']}
        return s.pad([p['e0'], p['e1']], sampling='min' if p['sampling'] is None else p['sampling'], mode=p['mode'], **kw)
    if k == 'append':
        o = R.Spectrum(np.array(p['wave']), np.array(p['value']), waveunit=s.waveunit) if p['_valid'] else p['_other']
        return s.append(o, copy=p['copy'])
    if k == 'resample': return s.resample(np.array(p['xs'], dtype=float), fill_value=_pyfill(p['fill']), waveunit=s.waveunit)

def _state(s):
    return {'wave': [float(x) for x in np.asarray(s.wave, dtype=float).ravel()], 'value': [float(x) for x in np.asarray(s.value, dtype=float).ravel()],
            'shapes': [list(np.shape(s.wave)), list(np.shape(s.value))]}

def impl(c):
    from harness.c13 import guard
    g = guard(seconds=30, extra=3 << 30)
    out = None
    with g:
        out = _impl(c)
    if g.msg: return {'guard': g.msg}
    return out

def _impl(c):
    R = _R()
    with warnings.catch_warnings():
        warnings.simplefilter('ignore')
        k = c['kind']
        if k == 'badarg':
            s = R.Spectrum(np.array(c['wave']), _vals(c))
            before = _state(s)
            try:
                r = _badarg_call(s, c)
                res = {'returned': repr(type(r).__name__)}
            except Exception as e:
                res = {'exc': type(e).__name__, 'msg': str(e)[:120]}
            return {'before': before, 'after': _state(s), 'res': res}
        if k == 'history':
            s = R.Spectrum(np.array(c['wave']), _vals(c), waveunit=c.get('unit', 'nm'))
            steps = []
            for o in c['ops']:
                if np.size(s.wave) > 1500: break          # repeated pads grow the grid geometrically: stop the history there
                p = _resolve(o, s, R, c.get('hscale', 1.0))
                before = _state(s)
                if p['k'] == 'pad' and np.size(s.wave) >= 1 and (p['sampling'] is not None or np.size(s.wave) >= 2):
                    dw_ = p['sampling'] if p['sampling'] is not None else float(np.diff(s.wave).min())
                    if dw_ > 0 and (abs(float(s.wave.min()) - p['e0']) + abs(p['e1'] - float(s.wave.max()))) / dw_ > 3000:
                        steps.append({'p': p, 'before': before, 'after': before, 'exc': None, 'skipped': True}); continue      # absurdly long pad: not run
                if p['k'] == 'append':
                    # the other spectrum must itself be constructible; otherwise the step is a no-op
                    try:
                        p['_other'] = R.Spectrum(np.array(p['wave']), np.array(p['value']), waveunit=o.get('ounit', c.get('unit', 'nm'))); p['_valid'] = False
                    except ValueError:
                        steps.append({'p': {kk: v for kk, v in p.items() if not kk.startswith('_')}, 'before': before, 'after': before, 'exc': None, 'skipped': True}); continue
                exc, ret = None, None
                try:
                    ret = _apply(s, p, R)
                except (ValueError, IndexError, TypeError) as e:
                    exc = type(e).__name__
                st = {'p': {kk: v for kk, v in p.items() if not kk.startswith('_')}, 'before': before, 'after': _state(s), 'exc': exc}
                if p['k'] == 'append' and p['copy'] and exc is None:
                    st['returned'] = _state(ret)
                steps.append(st)
            NOTES[id(c)] = sorted({'step:%s:%s' % (st['p']['k'], 'skipped' if st.get('skipped') else (st['exc'] or 'ok')) for st in steps})
            REFUSED[id(c)] = (sum(1 for st in steps if st['exc']), sum(1 for st in steps if not st['exc'] and not st.get('skipped')))
            return {'steps': steps}
        if k == 'setvalue':
            w = np.array(c['wave']); lo, hi = float(w[0]), float(w[-1])
            xs = np.array([lo + a * (hi - lo) for a in c['fr']])
            cen = np.array(sorted({round((lo + a * (hi - lo)) * 64) / 64 for a in c['fr']}))
            meth = c['method'] if len(w) >= 3 else 'linear'
            s = R.Spectrum(w, _vals(c))
            def look(fill):
                o = {'sample': [float(x) for x in s.sample(xs, method=meth, fill_value=_pyfill(fill))]}
                if len(cen) >= 2: o['bins'] = [float(x) for x in s.bin(cen, interp_method='trapz', preserve_power=False, fill_value=_pyfill(fill), sample_method=meth)]
                return o
            out = {'xs': [float(x) for x in xs], 'cen': [float(x) for x in cen], 'method': meth, 'first': look(c['fill'])}
            s.value = np.array(c['value2'])                       # value setter
            out['second'] = look(c['fill2'])                      # same grid, new values, another fill
            if c['shift']:
                s.wave = w + c['shift']                           # wave setter
                out['third'] = look(c['fill2'])
            return out
        if k == 'unit':
            w, v = np.array(c['wave']), _vals(c)
            scale = 2.0 ** -10 if c['unit'] != 'nm' else 1.0
            f = float(MPU[c['unit']] / MPU[c['req']])
            kden = f if c['vu'] else 1.0
            s = R.Spectrum(w * scale, v, waveunit=c['unit'], valueunit=c['vu'])
            wave_req = (s.wave * f) if c['req'] != c['unit'] else s.wave
            val_req = (s.value / kden) if (c['req'] != c['unit'] and c['vu']) else np.asarray(s.value, dtype=float)
            lo, hi = float(wave_req[0]), float(wave_req[-1])
            xs = [lo + a * (hi - lo) for a in c['fr']]
            kw = {} if c['omit_unit'] else {'waveunit': c['req']}
            before = _state(s)
            sam = s.sample(np.array(xs), fill_value=_pyfill(c['fill']), **kw)
            out = {'xs': xs, 'wave_req': [float(x) for x in wave_req], 'val_req': [float(x) for x in val_req], 'sample': [float(x) for x in sam],
                   'sample_unchanged': _state(s) == before and s.waveunit == c['unit']}
            try:
                s.resample(np.array(xs), fill_value=_pyfill(c['fill']), **kw); out['exc'] = None
            except ValueError as e:
                out['exc'] = 'ValueError'
            out['after'] = _state(s); out['unit_after'] = s.waveunit; out['vunit_after'] = s.valueunit
            return out
        if k == 'integrate':
            w, v, v2 = np.array(c['wave']), _vals(c), np.array(c['value2'])
            s = R.Spectrum(w, v)
            lo, hi = float(w.min()), float(w.max()); span = hi - lo
            a, b = lo + c['a'] * span, lo + c['b'] * span
            mid = float(w[c['split']])
            lin = c['lin'][0] * w + c['lin'][1]
            return {'a': a, 'b': b, 'I': float(s.integrate(a, b, method='trapz')), 'full': float(s.integrate(method='trapz')),
                    'I2': float(R.Spectrum(w, v2).integrate(a, b, method='trapz')),
                    'Icomb': float(R.Spectrum(w, c['ca'] * v + c['cb'] * v2).integrate(a, b, method='trapz')),
                    'left': float(s.integrate(lo, mid, method='trapz')), 'right': float(s.integrate(mid, hi, method='trapz')),
                    'lin': float(R.Spectrum(w, lin).integrate(method='trapz')), 'lin_simps': float(R.Spectrum(w, lin).integrate(method='simps'))}
        if k == 'bin':
            w, v = np.array(c['wave']), _vals(c)
            lo, hi = float(w.min()), float(w.max()); span = hi - lo
            scale = 1.0 if (c['unit'] == 'nm' or 'centres_abs' in c) else 2.0 ** -10      # a dyadic factor keeps the data exact in the other unit
            if c.get('wscale') and scale == 1.0:
                # integer centres near the top of the small dtype's range (power-of-two scale: exact): sums of two centres overflow it
                top = {'int16': 32767.0, 'int32': 2147483647.0}.get(c.get('cen_dtype'), 32767.0)
                scale = 2.0 ** int(np.floor(np.log2(top / max(lo + max(c['fb'], 1.0) * span, 1.0))))
            s = R.Spectrum(w * scale, v, waveunit=c['unit'])
            a, b = lo + c['fa'] * span, lo + c['fb'] * span
            m = c['m']
            if c['uniform'] or m < 3: cen = [a + (b - a) * i / max(m - 1, 1) for i in range(m)]
            else:
                cen = sorted({a + (b - a) * (i + (c['jit'][i] - 0.4 if 0 < i < m - 1 else 0)) / (m - 1) for i in range(m)})
            # dyadic centres (multiples of 2^-6 in the data's own scale): edges and midpoints are then exact in float64, so the
            # implementation and the exact model take the same in-range/out-of-range decisions at the ends of the data
            cen = sorted({round(x * 64) / 64 for x in cen})
            if c.get('cen_int') and not c.get('wscale'): cen = sorted({float(round(x)) for x in cen})
            req = c.get('req', c['unit'])
            f = float(MPU[c['unit']] / MPU[req])                      # spectrum unit -> requested unit
            cen = [(x * scale) * f if req != c['unit'] else x * scale for x in cen]
            if 'centres_abs' in c: cen = list(c['centres_abs'])
            method = 'simps' if c['simps'] else 'trapz'
            wave_req = s.wave * f if req != c['unit'] else s.wave
            if req != c['unit'] and len(cen) >= 2:
                # converted wavelengths are not dyadic: keep every sample point of the bins away from the two ends of the data, where
                # float64 and exact arithmetic could take different in-range/out-of-range decisions on a 1-ulp difference
                lo_, hi_ = float(wave_req[0]), float(wave_req[-1])
                for _ in range(4):
                    mids = [(x + y) / 2 for x, y in zip(cen, cen[1:])]
                    pts = cen + mids + [cen[0] - (cen[1] - cen[0]) / 2, cen[-1] + (cen[-1] - cen[-2]) / 2, (cen[0] + mids[0]) / 2, (cen[-1] + mids[-1]) / 2]
                    if not any(abs(x - e) < 1e-9 * (hi_ - lo_) for x in pts for e in (lo_, hi_)): break
                    cen = [x + (hi_ - lo_) * 2.0 ** -12 for x in cen]
            out = {'centres': cen, 'wave': [float(x) for x in wave_req]}
            before = _state(s)
            carr = np.array(cen).astype(getattr(np, c.get('cen_dtype', 'int64'))) if c.get('cen_int') else np.array(cen)
            if c.get('cen_int') and [float(x) for x in carr] != cen: carr = np.array(cen).astype(np.int64)      # not representable in the small dtype
            kw = {} if c.get('omit_unit') else {'waveunit': req}
            try:
                bins = s.bin(carr, interp_method=method, ends=c['ends'], preserve_power=c['pp'], fill_value=_pyfill(c['fill']), **kw)
                out['bins'] = [float(x) for x in bins]
            except (ValueError, IndexError) as e:
                out['exc'] = type(e).__name__
            if c['pp'] and 'bins' in out:
                # the un-normalised bins of the same call (a fresh, equal spectrum): decides whether power CAN be preserved
                try: out['raw'] = [float(x) for x in R.Spectrum(w * scale, v, waveunit=c['unit']).bin(carr, interp_method=method, ends=c['ends'], preserve_power=False, fill_value=_pyfill(c['fill']), **kw)]
                except (ValueError, IndexError): pass
            if len(cen) >= 2:
                # the integral over the span of the centres in the requested unit, on an independently converted spectrum
                sel = [(x, y) for x, y in zip(wave_req, np.asarray(v, dtype=float)) if min(cen) <= x <= max(cen)]
                xs_, ys_ = np.array([p_[0] for p_ in sel]), np.array([p_[1] for p_ in sel])
                if c['simps']:
                    import scipy.integrate
                    try: out['norm'] = float(scipy.integrate.simpson(x=xs_, y=ys_))
                    except ValueError: pass
                else:
                    out['norm'] = float(np.trapz(ys_, xs_))
            out['caller_unchanged'] = (_state(s) == before)
            out['after'] = _state(s); out['unit_after'] = s.waveunit
            return out

def _pyfill(f):
    return tuple(f) if isinstance(f, list) else f      # scipy wants a tuple for (below, above)

def _fill(f):
    return (f, f) if not isinstance(f, list) else (f[0], f[1])

def _op_req(p):
    k = p['k']
    if k == 'crop': return {'k': 'crop', 'lo': q(p['lo']), 'hi': q(p['hi'])}
    if k == 'trim': return {'k': 'trim', 'tol': q(1e-4 if p['tol'] is None else p['tol'])}
    if k == 'append': return {'k': 'append', 'other': {'wave': qs(p['wave']), 'value': qs(p['value'])}}
    if k == 'pad':
        v = p['values']
        vl, vr = (0.0, 0.0) if v is None else ((v, v) if not isinstance(v, list) else (v[0], v[1]))
        return {'k': 'pad', 'e0': q(p['e0']), 'e1': q(p['e1']), 'sampling': None if p['sampling'] is None else q(p['sampling']), 'edge': p['mode'] == 'edge', 'vL': q(vl), 'vR': q(vr)}
    fl, fr = _fill(p['fill'])
    return {'k': 'resample', 'xs': qs(p['xs']), 'fillL': q(fl), 'fillR': q(fr)}

def requests(c, io):
    k = c['kind']
    if '_harness_exc' in io or 'guard' in io or k == 'badarg': return []
    if k == 'history':
        out = []
        for st in io['steps']:
            if st.get('skipped'): continue
            out.append({'op': 'c15.step', 'wave': qs(st['before']['wave']), 'value': qs(st['before']['value']), 'opd': _op_req(st['p'])})
        return out
    if k == 'setvalue':
        if io['method'] != 'linear': return []
        fl, fr = _fill(c['fill2'])
        return [{'op': 'c15.sample', 'wave': qs(c['wave']), 'value': qs(c['value2']), 'xs': qs(io['xs']), 'fillL': q(fl), 'fillR': q(fr)}]
    if k == 'unit':
        fl, fr = _fill(c['fill'])
        return [{'op': 'c15.step', 'wave': qs(io['wave_req']), 'value': qs(io['val_req']), 'opd': {'k': 'resample', 'xs': qs(io['xs']), 'fillL': q(fl), 'fillR': q(fr)}}]
    if k == 'integrate':
        base = {'op': 'c15.integrate', 'wave': qs(c['wave']), 'a': q(io['a']), 'b': q(io['b'])}
        return [dict(base, value=qs(c['value'])), dict(base, value=qs(c['value2']))]
    if k == 'bin':
        fl, fr = _fill(c['fill'])
        pp = 'none' if not c['pp'] else ('given' if c['simps'] else 'model')
        r = {'op': 'c15.bin', 'wave': qs(io['wave']), 'value': qs(c['value']), 'centres': qs(io['centres']), 'simps': c['simps'], 'symmetric': c['ends'] == 'symmetric',
             'fillL': q(fl), 'fillR': q(fr), 'pp': pp, 'intC': False}
        if pp == 'given':
            nv = io.get('norm', 0.0)
            r['norm'] = q(nv if np.isfinite(nv) else 0.0)
        if c.get('cen_int'): return [dict(r, intC=True), r]      # as the code does it today (truncating) / as float centres would give
        return [r]
    return []

def _simps_pp_empty(c, io):
    """Simpson + preserve_power when no data sample lies inside the span of the centres: scipy.integrate.simpson raises
    ValueError on the empty selection (documented scope: Simpson's rule is claimed for uniformly sampled data only)"""
    cen = io['centres']
    return c['simps'] and c['pp'] and io.get('exc') == 'ValueError' and not any(min(cen) <= x <= max(cen) for x in io['wave'])

def _fl(ps): return [float(unq(p)) for p in ps]

def compare(c, io, mo):
    k = c['kind']
    if 'guard' in io or k == 'badarg': return None
    if k == 'history':
        live = [st for st in io['steps'] if not st.get('skipped')]
        for i, (st, m) in enumerate(zip(live, mo)):
            what = f"step {i} {st['p']['k']}"
            if not m.get('ok'): return f'{what}: model: {m}'
            if m['exc'] != st['exc']: return f"{what} {st['p']}: impl exc {st['exc']} model {m['exc']}"
            mw, mv = _fl(m['wave']), _fl(m['value'])
            exact = st['p']['k'] in ('crop', 'trim', 'append')
            rel = 0.0 if exact else 1e-11
            atol = 0.0 if exact else 1e-11 * (1.0 + max([abs(x) for x in st['before']['value']] + [0.0]))
            got = st.get('returned', st['after'])
            if 'returned' in st and st['after'] != st['before']: return f'{what}(copy=True) changed the caller'
            st = dict(st, after=got)
            if not all_close(mw, st['after']['wave'], rel): return f"{what} {st['p']}: wave impl {st['after']['wave']} model {mw}"
            if not all_close(mv, st['after']['value'], rel, atol): return f"{what} {st['p']}: value impl {st['after']['value']} model {mv}"
        return None
    if k == 'setvalue':
        if not mo: return None
        m = mo[0]
        if not m.get('ok'): return f'model: {m}'
        if not all_close(_fl(m['v']), io['second']['sample'], 1e-11, 1e-11 * (1 + max(c['value2']))): return f"sample after `s.value = …`: impl {io['second']['sample']} model {_fl(m['v'])}"
        return None
    if k == 'unit':
        m = mo[0]
        if not m.get('ok'): return f'model: {m}'
        atol = 1e-11 * (1.0 + max(abs(x) for x in io['val_req']))
        if m['exc'] is None and not all_close(_fl(m['value']), io['sample'], 1e-11, atol): return f"sample in {c['req']}: impl {io['sample']} model {_fl(m['value'])}"
        if m['exc'] != io['exc']: return f"resample in {c['req']}: impl exc {io['exc']} model {m['exc']}"
        if m['exc'] is None and (not all_close(_fl(m['wave']), io['after']['wave'], 0.0) or not all_close(_fl(m['value']), io['after']['value'], 1e-11, atol)):
            return f"resample in {c['req']}: impl {io['after']} model {_fl(m['wave'])} {_fl(m['value'])}"
        return None
    if k == 'integrate':
        for key, m in zip(('I', 'I2'), mo):
            if not close(float(unq(m['q'])), io[key], 1e-13): return f"integrate({io['a']},{io['b']}): impl {io[key]!r} model {float(unq(m['q']))!r}"
        return None
    if k == 'bin':
        if not mo: return None
        errs = [_cmp_bin(c, io, m) for m in mo]
        # integer centres: the model of today's truncating code must agree, or (should the truncation be fixed upstream) the
        # float-centre model — either way the implementation is explained by the model
        return None if any(e is None for e in errs) else errs[0]
    return None

def _cmp_bin(c, io, m):
    if 'exc' in io and _simps_pp_empty(c, io): return None
    if 'exc' in io: return None if (not m.get('ok') and m.get('err') == io['exc']) else f"bin: impl raised {io['exc']}, model {str(m)[:120]}"
    if not m.get('ok'): return f"bin: model refused ({m.get('err')}), impl answered"
    mb = _fl(m['v'])
    if any(not np.isfinite(x) for x in io['bins']): return f"bins are not finite ({io['bins']}); the model's un-normalised bins sum to {float(unq(m['rawsum']))}, model bins {mb}"
    if c['pp'] and 'raw' in io:
        # the class of the call (can the power be preserved at all?) is decided by the raw sum: model and code must agree on it
        rs = float(unq(m['rawsum']))
        if (unq(m['rawsum']) == 0) != (math.fsum(io['raw']) == 0) or not close(math.fsum(io['raw']), rs, 1e-10, 1e-13 * (1 + abs(rs))):
            return f"un-normalised bins: impl {io['raw']} (sum {math.fsum(io['raw'])!r}), model sum {rs!r}"
    if not all_close(mb, io['bins'], 1e-10, 1e-13): return f"bins: impl {io['bins']} model {mb}"
    return None

# ------------------------------------------------------------------------------------------ oracle
def _wf(st):
    w = st['wave']
    if st['shapes'][0] != st['shapes'][1]: return f"wave has shape {st['shapes'][0]} but value {st['shapes'][1]}"
    if any(not (a < b) for a, b in zip(w, w[1:])): return f'wavelengths not strictly increasing: {w}'
    return None

def _is_block(small, big):
    """indices i such that big[i:i+len(small)] == small (pairs compared exactly)"""
    n = len(small)
    return [i for i in range(len(big) - n + 1) if big[i:i + n] == small]

def oracle(c, io):
    k = c['kind']
    if 'guard' in io: return f"{k} on a spectrum of {len(c['wave'])} samples did not finish within its time/memory budget ({io['guard']})"
    if k == 'badarg':
        # a call with an argument outside the documented set is refused with ValueError and leaves the spectrum as it was
        if io['res'].get('exc') != 'ValueError': return f"{c['call']}: an argument outside the documented options is not refused with ValueError: {io['res']}"
        if io['after'] != io['before']: return f"{c['call']}: the refused call changed the spectrum: {io['before']} -> {io['after']}"
        return _wf(io['after'])
    if k == 'history':
        for i, st in enumerate(io['steps']):
            p, b, a = st['p'], st['before'], st['after']
            what = f"step {i} {p['k']}"
            bad = _wf(a)
            if bad: return f'{what} {p}: {bad}'
            pb, pa = list(zip(b['wave'], b['value'])), list(zip(a['wave'], a['value']))
            if p['k'] == 'crop':
                want = [x for x in pb if p['lo'] <= x[0] <= p['hi']]
                if st['exc'] is None and pa != want: return f"{what}({p['lo']},{p['hi']}): kept {a['wave']}, samples inside the closed range are {[x[0] for x in want]}"
                if st['exc'] is not None and not (len(want) == 0 or len(pb) == 0): return f"{what}({p['lo']},{p['hi']}) raised {st['exc']} although samples lie inside the range"
                if st['exc'] is not None and pa != want and pa != pb: return f'{what}: refused and left neither the input nor the cropped spectrum'
            elif p['k'] == 'trim':
                tol = 1e-4 if p['tol'] is None else p['tol']
                v = b['value']
                if not any(v):
                    want = pb
                else:
                    mx = max(v)
                    idx = [j for j, x in enumerate(v) if mx > 0 and Fraction(x) / Fraction(mx) > Fraction(tol)]
                    want = pb[idx[0]:idx[-1] + 1] if idx else None
                if st['exc'] is None:
                    if want is None: return f'{what}(tol={tol}) accepted although no sample is above the tolerance'
                    if pa != want: return f"{what}(tol={tol}): kept {a['wave']}, first..last above tolerance is {[x[0] for x in want]}"
                else:
                    if want is not None and max(v) > 0: return f'{what}(tol={tol}) raised {st["exc"]} although samples are above the tolerance'
                    if pa != pb: return f'{what}: refused but changed the spectrum'
            elif p['k'] in ('pad', 'append'):
                if st['exc'] is None:
                    tgt = st.get('returned', a)
                    pt = list(zip(tgt['wave'], tgt['value']))
                    if st.get('returned') and pa != pb: return f'{what}(copy=True) changed the caller'
                    bad = _wf(tgt)
                    if bad: return f'{what}: returned spectrum: {bad}'
                    if not _is_block(pb, pt): return f'{what} {p}: the retained samples were altered'
                    if p['k'] == 'append' and not st.get('skipped'):
                        if pt != pb + list(zip(p['wave'], p['value'])): return f'{what}: result is not the concatenation'
                    if p['k'] == 'pad':
                        j = _is_block(pb, pt)[0]
                        if j > 0 and not close(pt[0][0], p['e0'], 1e-12): return f"{what}: padded grid starts at {pt[0][0]}, requested {p['e0']}"
                        if j + len(pb) < len(pt) and not close(pt[-1][0], p['e1'], 1e-12): return f"{what}: padded grid ends at {pt[-1][0]}, requested {p['e1']}"
                elif pa != pb: return f'{what}: refused ({st["exc"]}) but changed the spectrum'
            elif p['k'] == 'resample':
                if st['exc'] is None:
                    if a['wave'] != [float(x) for x in p['xs']]: return f'{what}: wavelengths are not the requested grid'
                    fl, fr = _fill(p['fill'])
                    ref = np.interp(np.array(p['xs'], dtype=float), np.array(b['wave']), np.array(b['value']), left=fl, right=fr) if p['xs'] else []
                    if not all_close(a['value'], list(ref), 1e-11, 1e-300): return f"{what}: values {a['value']} are not the linear interpolant {list(ref)}"
                elif pa != pb: return f'{what}: refused ({st["exc"]}) but changed the spectrum (wave {a["shapes"][0]}, value {a["shapes"][1]})'
        return None
    if k == 'setvalue':
        import scipy.interpolate
        def ref(wave, value, fill):
            fl, fr = _fill(fill)
            f = scipy.interpolate.interp1d(np.array(wave), np.array(value, dtype=float), kind=io['method'], bounds_error=False, fill_value=(fl, fr))
            o = {'sample': [float(x) for x in f(np.array(io['xs']))]}
            cen = io['cen']
            if len(cen) >= 2:
                mids = [c0 + (c1 - c0) / 2 for c0, c1 in zip(cen, cen[1:])]
                e = np.array([cen[0] - (cen[1] - cen[0]) / 2] + mids + [cen[-1] + (cen[-1] - cen[-2]) / 2])
                fe = f(e)
                o['bins'] = [float(0.5 * (fe[j] + fe[j + 1]) * (e[j + 1] - e[j])) for j in range(len(e) - 1)]
            return o
        stages = [('first', c['wave'], c['value'], c['fill'], 'a fresh spectrum'), ('second', c['wave'], c['value2'], c['fill2'], 'the same object after `s.value = new values`')]
        if 'third' in io: stages.append(('third', [x + c['shift'] for x in c['wave']], c['value2'], c['fill2'], 'the same object after `s.wave = shifted grid`'))
        for key, wv, vv, fill, what in stages:
            r = ref(wv, vv, fill)
            at = 1e-10 * (1 + max(abs(x) for x in vv))
            for q_ in ('sample', 'bins'):
                if q_ in io[key] and not all_close(io[key][q_], r[q_], 1e-10, at):
                    return f"{q_} ({io['method']}, fill {fill}) on {what}: {io[key][q_]}, the data now stored give {r[q_]}"
        return None
    if k == 'unit':
        what = f"spectrum in {c['unit']} ({c['vu']}), abscissae in {'<default nm>' if c['omit_unit'] else c['req']}"
        if not io['sample_unchanged']: return f'sample changed the spectrum ({what})'
        fl, fr = _fill(c['fill'])
        ref = list(np.interp(np.array(io['xs']), np.array(io['wave_req']), np.array(io['val_req']), left=fl, right=fr))
        atol = 1e-11 * (1.0 + max(abs(x) for x in io['val_req']))
        if not all_close(io['sample'], ref, 1e-11, atol): return f"sample: {io['sample']} is not the interpolant of the same physical spectrum {ref} ({what})"
        bad = _wf(io['after'])
        if bad: return f'resample: {bad} ({what})'
        if io['exc'] is None:
            if io['unit_after'] != c['req'] or io['after']['wave'] != io['xs']: return f"resample: grid/unit afterwards {io['unit_after']} {io['after']['wave']} ({what})"
            if not all_close(io['after']['value'], ref, 1e-11, atol): return f"resample: values {io['after']['value']} are not the interpolant {ref} ({what})"
        elif io['unit_after'] != c['unit']: return f'resample refused but changed the unit ({what})'
        return None
    if k == 'integrate':
        w, v = c['wave'], c['value']
        # first: the definition — trapezoid over exactly the samples inside the closed range [a, b] (bounds beyond the data add nothing)
        sel0 = [(x, y) for x, y in zip(w, v) if io['a'] <= x <= io['b']]
        ref0 = sum((x1 - x0) * (y0 + y1) / 2 for (x0, y0), (x1, y1) in zip(sel0, sel0[1:]))
        if not close(io['I'], ref0, 1e-12, 1e-12):
            where = ('; start is below the first sample' if io['a'] < w[0] else '') + ('; end is above the last sample' if io['b'] > w[-1] else '')
            return f"integrate({io['a']},{io['b']}) on data spanning [{w[0]}, {w[-1]}] = {io['I']!r}, the exact integral of the piecewise-linear data over the samples inside = {ref0!r}{where}"
        if not close(io['Icomb'], c['ca'] * io['I'] + c['cb'] * io['I2'], 1e-12, 1e-9): return f"integration not linear: ∫(a f + b g) = {io['Icomb']!r}, a∫f + b∫g = {c['ca'] * io['I'] + c['cb'] * io['I2']!r}"
        if not close(io['left'] + io['right'], io['full'], 1e-12, 1e-12): return f"not additive at the sample {w[c['split']]}: {io['left']!r} + {io['right']!r} != {io['full']!r}"
        a_, b_ = c['lin']
        exact = a_ * (w[-1] ** 2 - w[0] ** 2) / 2 + b_ * (w[-1] - w[0])
        if not close(io['lin'], exact, 1e-12, 1e-9): return f"trapezoid integral of linear data {io['lin']!r}, exact {exact!r}"
        if not close(io['lin_simps'], exact, 1e-10, 1e-9): return f"Simpson integral of linear data {io['lin_simps']!r}, exact {exact!r}"
        # independent trapezoid over the closed range
        sel = [(x, y) for x, y in zip(w, v) if io['a'] <= x <= io['b']]
        ref = sum((x1 - x0) * (y0 + y1) / 2 for (x0, y0), (x1, y1) in zip(sel, sel[1:]))
        if not close(io['I'], ref, 1e-12, 1e-12): return f"integrate({io['a']},{io['b']}) = {io['I']!r}, trapezoid over the samples inside = {ref!r}"
        return None
    if k == 'bin':
        cen = io['centres']
        if len(cen) < 2:
            return None if io.get('exc') == 'ValueError' else f"bin with {len(cen)} centre(s) did not raise ValueError"
        if 'exc' in io and _simps_pp_empty(c, io): return None      # scope: scipy.integrate.simpson refuses an empty sample set
        req = c.get('req', c['unit'])
        tag = (f"bin({'simps' if c['simps'] else 'trapz'},{c['ends']},pp={c['pp']},unit={c['unit']},waveunit={'<default>' if c.get('omit_unit') else req}"
               + (',integer-dtype centres' if c.get('cen_int') else '') + ')')
        if 'exc' in io: return f"{tag} raised {io['exc']}"
        if not io['caller_unchanged']: return f'{tag}: the caller\'s spectrum was changed'
        bins = io['bins']
        if len(bins) != len(cen): return f'{tag}: {len(bins)} bins for {len(cen)} centres'
        fl, fr = _fill(c['fill'])
        uniform = all(close(cen[i + 1] - cen[i], cen[1] - cen[0], 1e-12) for i in range(len(cen) - 1))
        finite = all(np.isfinite(x) for x in bins)
        if not finite: return f'{tag}: bins are not finite: {bins}'
        if c.get('zero_sum') and any(x != 0 for x in bins): return f'{tag}: nothing to bin (dark spectrum, or every bin outside the data with fill 0) but bins {bins}'
        if min(c['value']) >= 0 and fl >= 0 and fr >= 0 and not (c['simps'] and c['pp']):
            if min(bins) < -1e-12 * (1 + max(abs(x) for x in bins)): return f'{tag}: negative bin {min(bins)!r} for a non-negative spectrum'
        if c['linear'] and not c['pp'] and (uniform or not c['simps']):
            a_, b_ = c['linear']
            # value = a_*w + b_ with w the wavelength in the generator's scale; wavelength in the requested unit = w * sc
            sc = io['wave'][-1] / c['wave'][-1]
            mids = [(x + y) / 2 for x, y in zip(cen, cen[1:])]
            e = ([cen[0] - (cen[1] - cen[0]) / 2] if c['ends'] == 'symmetric' else [cen[0]]) + mids + ([cen[-1] + (cen[-1] - cen[-2]) / 2] if c['ends'] == 'symmetric' else [cen[-1]])
            wlo, whi = io['wave'][0], io['wave'][-1]
            if e[0] >= wlo and e[-1] <= whi:
                ref = [(a_ / sc) * (y * y - x * x) / 2 + b_ * (y - x) for x, y in zip(e, e[1:])]
                if not all_close(bins, ref, 1e-10, 1e-12 * (1 + abs(ref[0]))): return f'{tag}: spectrum linear across every bin, bins {bins} but exact integrals {ref}'
        if not c['simps'] and not c['pp']:
            # the definition, recomputed: chained trapezoid over the bin edges of the linear interpolant (fill outside the data)
            mids = [(x + y) / 2 for x, y in zip(cen, cen[1:])]
            e = ([cen[0] - (cen[1] - cen[0]) / 2] if c['ends'] == 'symmetric' else [cen[0]]) + mids + ([cen[-1] + (cen[-1] - cen[-2]) / 2] if c['ends'] == 'symmetric' else [cen[-1]])
            fe = np.interp(np.array(e), np.array(io['wave']), np.array(c['value'], dtype=float), left=fl, right=fr)
            ref = [0.5 * (fe[j] + fe[j + 1]) * (e[j + 1] - e[j]) for j in range(len(e) - 1)]
            wlo, whi = io['wave'][0], io['wave'][-1]
            edge_tie = any(0 < abs(x - b_) < 1e-9 * (whi - wlo) for x in e for b_ in (wlo, whi))
            if not edge_tie and not all_close(bins, ref, 1e-9, 1e-12 * (1 + max(abs(x) for x in ref))):
                return f'{tag}: bins {bins}; trapezoid rule over the bin edges {e} gives {ref}'
        if c['pp'] and 'raw' in io and math.fsum(io['raw']) == 0:
            # guarded rescaling: nothing to rescale, the un-normalised bins are returned as they are
            if bins != io['raw']: return f"{tag}: the un-normalised bins {io['raw']} sum to zero but the bins returned are {bins}"
            if 'norm' in io and np.isfinite(io['norm']) and io['norm'] != 0:
                return (f"{tag}: {RAWZERO}: bins sum to {sum(bins)!r}, the integral over the centres' span (in {req}) is {io['norm']!r} "
                        f"(the rule samples the spectrum only at the bin edges{' and mid-points' if c['simps'] else ''}, where it is zero or outside the data)")
            return None
        if c['pp'] and 'norm' in io and np.isfinite(io['norm']):
            if not close(sum(bins), io['norm'], 1e-10, 1e-12 * (1 + abs(io['norm']))):
                return f"{tag}: bins sum to {sum(bins)!r}, the integral over the centres' span (in {req}) is {io['norm']!r}"
        return None

def shrink(c):
    if c['kind'] == 'history':
        ops = c['ops']
        for i in range(len(ops)):
            yield dict(c, ops=ops[:i] + ops[i + 1:])

# ------------------------------------------------------------------------------------------ known findings
RAWZERO = 'power cannot be preserved, the un-normalised bins sum to exactly zero'
KF_RAWZERO = 'KF-C15-bin-raw-sum-zero-nonzero-integral'
KF_WITNESS = ([33, 36, 39, 42, 45, 48, 51, 54, 57], [13, 5, 10, 0, 11, 12, 9, 0, 14], [33., 51., 69.])

def matches_finding(kf, case, msg):
    m = kf.get('match', {})
    if kf.get('id') == KF_RAWZERO:
        # exactly this class: preserve_power, un-normalised bins summing to exactly zero, integral over the centres' span non-zero
        return case.get('kind') == 'bin' and bool(case.get('pp')) and RAWZERO in msg
    return (case.get('kind') == 'bin' and bool(case.get('cen_int')) and bool(case.get('simps')) and 'integer-dtype centres' in msg
            and m.get('interp_method') == 'simps')

def replay_finding(kf):
    R = _R()
    if kf.get('id') == KF_RAWZERO:
        w, v, cen = KF_WITNESS
        s = R.Spectrum(np.array(w), np.array(v))
        b = s.bin(np.array(cen), interp_method='trapz', preserve_power=True)
        I = s.integrate(min(cen), max(cen), method='trapz')
        return I != 0 and not (np.all(np.isfinite(b)) and np.isclose(np.sum(b), I))
    w = np.arange(500., 521.)
    s = R.Spectrum(w, 2 * w + 1)
    b = s.bin(np.array([503, 506, 509, 512]), preserve_power=False)
    return not np.allclose(b, [3021, 3039, 3057, 3075])
