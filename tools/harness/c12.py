"""C12 — Zernike fit, compose and remove are mutually inverse for any mode set.

Tie.  Gen/ZernikeCalls.lean (regenerated): the coefficient-position -> Noll-index map of zernike_compose and the structural
argument bindings of zernike_basis / zernike_fit / zernike_remove (same modes and coordinates for the fit and the subtraction,
C-order flattening, library-default normalisation).  Model/ZernikeFit.lean (hand, executable, generic in the scalar): basis matrix
from the C11 mode model, fit by the normal equations (Cramer), compose, remove — run at Float by Driver/Ops/C12.lean and proved in
Props/C12.lean to be the abstract `zfit/zcompose/zremove` the property theorems speak about.

Cases are call HISTORIES: several compose/fit/remove calls in one process on the same mask with different coordinates,
normalisations, mode orders and memory layouts (Fortran order, transposed views, strided views, float32, bool/int masks); every call is
compared with the stateless model answer for that call alone, so hidden state or layout dependence shows up as a disagreement,
and the property itself (fit∘compose = id, fit∘remove = 0, idempotence, span -> 0, order independence) is evaluated on the results.

The caller's arrays (one mask per layout, one rho/theta pair per coordinate choice and layout) are created ONCE per history and handed
to every call; each is compared with a private copy after every library call — a call that writes into the caller's OPD, mask or
coordinates is reported as a violation with that call as the failing input (the next call would otherwise silently fit other
coordinates than compose used).  The model always receives the coordinates the caller MEANT.  Masks, coordinates and the conditioning
of every mode set are computed by a small numpy reference in this file, never by the library under test, so a changed library cannot
crash the generator or push a case out of the judged range."""
import math, numpy as np
from harness.common import *
import vlib

LEVEL_TEXT = ('Lean 4 theorems (Mathlib matrices), for every basis matrix B with invertible BᵀB, i.e. every mask, mode subset, ordering, '
              'normalisation and caller coordinates on which the modes are linearly independent: fit(compose c) = c; fit(remove opd) = 0; '
              'remove is idempotent; remove(compose c) = 0; the residual is orthogonal to the removed modes and no other coefficient vector '
              'leaves a smaller sum of squares; permuting the requested modes permutes the coefficients. The executable model (basis from the '
              'C11 mode model, Cramer solution of the normal equations, compose, remove — wired through the REGENERATED call-site argument projections and, for zernike_remove, the REGENERATED returned expression opd - einsum(basis, coeffs) with its data flow (Gen.removeResidual; remove_subtracts_composed_fit)) is proved equal to these abstract objects; IsUnit det(BtB) is proved equivalent to linear independence of the sampled modes over ordered fields; remove leaves samples outside the mask untouched; a '
              'coefficient vector for zernike_compose with the coefficients at the (regenerated) positions of the requested modes composes '
              'B·c; the OPD selection `np.where(mask != 0, opd, 0)` of zernike_fit (89e13b8) is REGENERATED (Gen.fitSelect) and consumed by the model and the driver: samples outside the mask do not influence the fit, by the selection itself and for any scalar type incl. Float NaN/inf (fit_ignores_outside_mask); the two einsum contractions are REGENERATED from their subscript strings (Gen.fitContract / Gen.removeContract: the model\'s B·c is the generated contraction, and the generated fit contraction applied to the transposed pseudo-inverse is the abstract fit), the sample numbering of opd.ravel() and basis.reshape(k,-1) is regenerated with its order and proved to agree (C order on both sides); and three concrete Zernike bases (two unnormalised over Q with an all-true mask; one with the DEFAULT normalisation over R on a partial mask: modes [1,2,3], a masked-out sample, det(BtB) = 36) (one ray; a 2x2 array with cosine, sine and radial modes) satisfy the independence hypothesis. fit, compose and remove are linear maps (fit_compose_remove_linear). The formula (BᵀB)⁻¹Bᵀ used for np.linalg.pinv(basis) is proved to satisfy the four Penrose equations and to be the ONLY matrix X with BXB = B and (BX)ᵀ = BX (pinv_formula_is_moore_penrose), so what is trusted is NumPy\'s documented contract "pinv returns the Moore-Penrose inverse". PARTIAL: that np.linalg.pinv(basis)·opd is the '
              'normal-equation solution, and that the code builds exactly this basis, are checked by correspondence only.')
LEVEL_NOTE = ('Sign convention inherited from C11: odd-j modes are -sin(|m| theta) (the code evaluates sin(m theta) with m < 0), opposite to Noll (1976); fit, compose and remove use the same basis, so every clause here is independent of it. Trusted: Lean kernel and Mathlib; np.linalg.pinv(basis) = (BᵀB)⁻¹Bᵀ for full column rank and np.einsum contractions (compared on '
              'every call with the Lean model run at Float; basis/compose values to 1e-8, fit/remove to 1e-10 x max(1, cond²) — the bound on the Float model\'s own rounding — while '
              'the property itself is judged on the library\'s results at 1e-12 x cond); the harness\'s numpy reference for conditioning and coordinates; float rounding; generator coverage (general histories of 6-9 calls; the ill-conditioned, medium-conditioned, duplicate-mode and non-finite-outside classes have 1-4 calls each; layouts, dtypes).')
TECHNIQUE = 'Lean 4 proof over Mathlib matrices + executable Lean model of basis/fit/compose/remove with differential correspondence on call histories'
GEN = ['ZernikeCalls', 'ZernikeR', 'Mesh', 'Util', 'UtilWindow', 'UtilCentroid', 'UtilRebin', 'Helper', 'Helper20', 'Hex', 'Extent', 'FieldAccum', 'FieldDispatch', 'FieldIdx', 'FieldMerge']      # every Gen module imported transitively
OPS = ['C11', 'C12']
RULE = ('extra cases: a mode requested twice (observed: remove unchanged, coefficient split) and OPDs with NaN / +-inf outside the mask (must give exactly the result of zeros there); cases = call histories of 6-9 compose/fit/remove calls in one process on one mask (circular / hexagonal / segmented / off-centre / '
        'irregular weighted, sizes 9..22 even and odd; all built by the harness, not by the library): same modes with default then caller-supplied (shifted, rotated) coordinates, both '
        'normalisations, reversed/permuted mode orders, repeated calls; non-empty mode subsets of Noll 1..36 of size 1..6 in random order (never '
        'exactly 1..k), half of the histories with sets made of PAIRS OF ADJACENT indices (all 16 cosine/sine partner pairs (2,3)…(35,36) in rotation, every one in every quick run, and arbitrary (j, j+1); one history in ten with pairs from Noll 37..66), given as list, ndarray or scalar; '
        'the caller\'s coordinate / mask arrays are created ONCE per history and handed to every call (inputs must come back untouched); the conditioning of every mode set is computed by an independent numpy reference, never by the library; OPDs with and without content outside the mask; a third of all histories (and half of the conditioning streams) at PHYSICAL amplitudes — OPDs and coefficients of 1 nm .. 120 nm expressed in metres (2^-30, 2^-25, 2^-23), every tolerance relative to the amplitude; inputs C-ordered, Fortran-ordered, '
        'transposed views, strided views, float32 OPDs, bool/int/float32 masks; zernike_basis observed directly (cube and vectorised); medium-conditioned '
        'histories (cond 1e2..1e4, with residual) compared with the model; ill-conditioned full-rank histories (cond up to 1e9, zero residual) judged by the '
        'oracle only; distinct = (mask kind, shape, step list) signature')
TRUSTED = ['np.linalg.pinv returns the Moore-Penrose inverse (NumPy\'s documented contract); for a full-column-rank B that is (BᵀB)⁻¹Bᵀ and nothing else (pinv_formula_is_moore_penrose); compared numerically with the Lean normal-equation solution on every call',
           'np.einsum contractions as matrix-vector products; ndarray.ravel() / reshape(k, -1) enumerate samples in C order']
UNPROVEN = ['zernike_fit returns the normal-equation (least-squares) solution: rests on the pinv contract — correspondence only',
            'zernike_basis / zernike_compose evaluate the C11 mode model at the requested Noll indices and coordinates: the argument bindings and the '
            'position -> Noll index map are regenerated from the source (Gen/ZernikeCalls), the values are compared on every call — no theorem about the Python code itself (zernike_remove: its data flow coeffs/basis -> einsum -> returned expression IS regenerated, Gen.removeResidual, and proved to be opd minus the composed fit: remove_subtracts_composed_fit)']
ASSUMPTIONS = ['the OPD is finite at every MASKED sample (content outside the mask — finite, NaN or ±inf — is generated and must not matter)',
               'modes linearly independent on the mask (IsUnit det(BᵀB)); numerically: the property is judged on the real functions for cond(B) <= 1e9 with '
               'tolerance 1e-12 x cond x scale (what a backward-stable least-squares solver delivers); the Lean model (Cramer at Float) is compared for k <= 6, cond <= 1e4',
               'zernike_remove always uses the library-default normalisation (normalize=True; it has no normalize parameter)',
               'requested modes are pairwise distinct (a mode requested twice makes BᵀB singular: outside the theorems; generated and observed only — the pseudo-inverse splits the coefficient between the copies and zernike_remove is unchanged)',
               'coefficient vectors for zernike_compose are 1-D (a 2-D array is summed along its rows by the code: not generated)']

TOL = 1e-9
LAYOUTS = ['C', 'F', 'T', 'S']

# ------------------------------------------------------------------------------------------ reference (numpy only)
# The generator never calls the library under test: masks, coordinates and the conditioning of a mode set are computed here from the
# textbook definitions, so a changed library can neither crash the generation nor move a case outside the judged range.
def _grid(shape, shift=(0.0, 0.0)):
    nr, nc = shape
    ii, jj = np.mgrid[0:nr, 0:nc]
    return ii - nr // 2 - shift[0], jj - nc // 2 - shift[1]

def _disc(shape, r, shift=(0, 0)):
    rr, cc = _grid(shape, shift)
    return (rr * rr + cc * cc <= r * r).astype(float)

def _hexm(shape, r, shift=(0, 0), rotate=False):
    rr, cc = _grid(shape, shift)
    a, b = (np.abs(rr), np.abs(cc)) if rotate else (np.abs(cc), np.abs(rr))
    h = r * math.sqrt(3) / 2
    return ((b <= h) & (a / 2 * math.sqrt(3) + b / 2 <= h)).astype(float)

def ref_coords(mask, shift=None, rotate=0.0):
    """polar coordinates as documented: origin at the centroid of the support (or array centre + shift), rho = 1 at the farthest
    sample of the support, theta measured from the x axis (columns), y up (= -rows), rotated by `rotate` degrees"""
    sup = np.asarray(mask) != 0
    nr, nc = sup.shape
    if shift is None:
        ii, jj = np.nonzero(sup)
        shift = (ii.mean() - nr // 2, jj.mean() - nc // 2)
    rr, cc = _grid(sup.shape, shift)
    r = np.hypot(rr, cc)
    a = np.deg2rad(90.0 - rotate)
    return r / (r * sup).max(), np.angle((-rr + 1j * cc) * np.exp(1j * a))

def ref_noll(j):
    n = 0
    while (n + 1) * (n + 2) // 2 < j: n += 1
    k = j - n * (n + 1) // 2                                    # 1..n+1 within the row
    m = 2 * (k // 2) if n % 2 == 0 else 2 * ((k - 1) // 2) + 1
    return (m if j % 2 == 0 else -m), n

def ref_mode(j, rho, theta, sup, normalize):
    m, n = ref_noll(j); am = abs(m)
    f = math.factorial
    rad = sum((-1) ** k * f(n - k) / (f(k) * f((n + am) // 2 - k) * f((n - am) // 2 - k)) * rho ** (n - 2 * k) for k in range((n - am) // 2 + 1))
    ang = 1.0 if m == 0 else np.cos(m * theta) if m > 0 else np.sin(m * theta)
    nrm = (math.sqrt(n + 1) if m == 0 else math.sqrt(2 * (n + 1))) if normalize else 1.0
    return nrm * rad * ang * sup

def ref_cond(mask, modes, rho, theta):
    sup = (np.asarray(mask) != 0).astype(float)
    return max(float(np.linalg.cond(np.array([ref_mode(j, rho, theta, sup, nz).ravel() for j in modes]).T)) for nz in (True, False))

def _case_coords(c, spec):
    """the coordinate arrays of one coordinate choice of a history (None = what the library computes by default)"""
    sh = tuple(c['shape']); mask = np.array(c['mask']).reshape(sh)
    if spec and 'pupil_radius' in spec: return ref_coords(_disc(sh, spec['pupil_radius']))      # global pupil coordinates
    if spec: return ref_coords(mask, shift=tuple(spec['shift']), rotate=spec['rotate'])
    return ref_coords(mask)

# ------------------------------------------------------------------------------------------ generation
def _mask(rng, kind, n):
    if kind == 'circle':
        m = _disc((n, n), n / 2 - 1 - rng.integers(0, 2))
    elif kind == 'hexagon':
        m = _hexm((n, n), n / 2 - 1.5, rotate=bool(rng.integers(0, 2)))
    elif kind == 'segmented':
        r = max(2.0, n / 7); g = 1.0 + int(rng.integers(0, 2)); pitch = r * math.sqrt(3) + g
        m = np.zeros((n, n))
        for q in range(7):                                            # a hexagon and its ring of six, separated by gaps
            ang = math.pi / 3 * q + math.pi / 6
            ctr = (0.0, 0.0) if q == 6 else (round(pitch * math.sin(ang)), round(pitch * math.cos(ang)))
            m = np.maximum(m, _hexm((n, n), r, shift=ctr, rotate=True))
    elif kind == 'offcentre':
        m = _disc((n, n + int(rng.integers(0, 4))), n / 3.5, shift=(int(rng.integers(-2, 3)), int(rng.integers(-2, 3))))
    else:
        m = (rng.uniform(size=(n, n + 1)) < 0.6).astype(float)
        m *= rng.integers(1, 4, m.shape)           # weights: only the support may matter
    return np.asarray(m, dtype=float)

def _lay(rng, p_plain=0.45):
    return 'C' if rng.uniform() < p_plain else LAYOUTS[int(rng.integers(1, 4))]

def _coords(rng):
    return {'shift': [int(rng.integers(-6, 7)) / 4, int(rng.integers(-6, 7)) / 4], 'rotate': float(rng.integers(-90, 91))}

def _cond(mask, modes, coords):
    rho, theta = ref_coords(mask, shift=tuple(coords['shift']), rotate=coords['rotate']) if coords else ref_coords(mask)
    return ref_cond(mask, modes, rho, theta)

def _ill_case(rng, N, r, nm, few=False):
    """ill-conditioned but full-rank: many modes over a small off-centre segment of a large pupil, with the caller supplying the
    GLOBAL pupil coordinates (cond 1e5..1e8). Oracle-only (the Cramer model is for k <= 6, cond <= 1e4)."""
    R = N // 2 - 1
    sh = (int(rng.integers(N // 5, N // 3)) * (1 if rng.integers(0, 2) else -1), int(rng.integers(N // 6, N // 4)))
    seg = _disc((N, N), r, shift=sh)
    G = {'pupil_radius': R}
    modes = [int(x) for x in rng.permutation(np.arange(1, nm + 1))]
    cond = ref_cond(seg, modes, *ref_coords(_disc((N, N), R)))
    L = {'opd': 'C', 'mask': 'C', 'coords': 'C'}
    def opd(): return [int(x) / 16 for x in rng.integers(-64, 65, seg.size)]
    def coeffs(): return [int(x) / 8 for x in rng.integers(-40, 41, nm)]
    steps = [{'t': 'rt', 'modes': modes, 'normalize': True, 'coords': G, 'coeffs': coeffs(), 'layout': dict(L)},
             {'t': 'span', 'modes': modes, 'coords': G, 'coeffs': coeffs(), 'layout': dict(L, opd='F')}]
    if not few:
        # only consistent (zero-residual) problems: for data with a residual the least-squares solution itself is sensitive to cond^2
        steps += [{'t': 'rt', 'modes': modes[::-1], 'normalize': False, 'coords': G, 'coeffs': coeffs(), 'layout': dict(L, opd='T')},
                  {'t': 'span', 'modes': modes[::-1], 'coords': G, 'coeffs': coeffs(), 'layout': dict(L)}]
    for s_ in steps: s_['modes_form'] = 'list'; s_['mask_outside'] = False
    return {'kind': 'illcond', 'shape': [N, N], 'mask': [float(x) for x in seg.ravel()], 'mask_dtype': 'float64', 'steps': steps, 'cond': cond,
            'oracle_only': True}

def _medium_case(rng):
    """moderately ill-conditioned (cond 1e2..1e4), WITH residual, k <= 6: compared with the Lean model"""
    N = int(rng.integers(32, 49)); R = N // 2 - 1; r = int(rng.integers(3, 5))
    sh = (int(rng.integers(N // 5, N // 3)) * (1 if rng.integers(0, 2) else -1), int(rng.integers(N // 6, N // 4)))
    seg = _disc((N, N), r, shift=sh)
    G = {'pupil_radius': R}
    nm = int(rng.integers(5, 7))
    modes = [int(x) for x in rng.permutation(np.arange(1, nm + 1))]          # the low orders look alike on a small patch: cond 1e2..1e3
    if rng.integers(0, 2): modes[int(rng.integers(0, nm))] = int(rng.integers(nm + 1, 16))
    cond = ref_cond(seg, modes, *ref_coords(_disc((N, N), R)))
    L = {'opd': 'C', 'mask': 'C', 'coords': 'C'}
    def opd(): return [int(x) / 16 for x in rng.integers(-64, 65, seg.size)]
    steps = [{'t': 'fit', 'modes': modes, 'normalize': True, 'coords': G, 'opd': opd(), 'layout': dict(L)},
             {'t': 'rm', 'modes': modes, 'coords': G, 'opd': opd(), 'layout': dict(L, opd='F')},
             {'t': 'basis', 'modes': modes, 'normalize': False, 'coords': G, 'vectorize': True, 'layout': dict(L)},
             {'t': 'rt', 'modes': modes[::-1], 'normalize': False, 'coords': G, 'coeffs': [int(x) / 8 for x in rng.integers(-40, 41, nm)], 'layout': dict(L)}]
    for s_ in steps: s_['modes_form'] = 'list'; s_['mask_outside'] = bool(rng.integers(0, 2))
    return {'kind': 'medium-cond', 'shape': [N, N], 'mask': [float(x) for x in seg.ravel()], 'mask_dtype': 'float64', 'steps': steps, 'cond': cond}

def _special_cases(rng, tier):
    """duplicate mode requests (outside the theorems' hypothesis: what is observed is that a repeated mode changes nothing but the split of
    its coefficient) and OPDs that are finite on the mask but NaN / inf outside it (must equal the zero-outside result)"""
    out = []
    for q in range({'quick': 2, 'thorough': 30, 'search': 6}[tier]):
        size = int(rng.integers(10, 19)); m = _mask(rng, ['circle', 'hexagon', 'offcentre', 'irregular'][q % 4], size)
        nm = int(rng.integers(2, 6))
        modes = [int(x) for x in rng.choice(np.arange(1, 22), size=nm, replace=False)]
        L = {'opd': 'C', 'mask': 'C', 'coords': 'C'}
        def opd(): return [int(x) / 16 for x in rng.integers(-64, 65, m.size)]
        dup = list(modes); dup.insert(int(rng.integers(0, nm + 1)), modes[int(rng.integers(0, nm))])
        steps = [{'t': 'dup', 'modes': dup, 'normalize': bool(rng.integers(0, 2)), 'coords': None if q % 2 else _coords(rng), 'opd': opd(), 'layout': dict(L),
                  'modes_form': 'list', 'mask_outside': bool(rng.integers(0, 2))}]
        out.append({'kind': 'duplicate-modes', 'shape': list(m.shape), 'mask': [float(x) for x in m.ravel()], 'mask_dtype': 'float64', 'steps': steps,
                    'cond': _cond(m, modes, steps[0]['coords']), 'oracle_only': True})
        bad = ['nan', 'inf', '-inf'][q % 3]
        steps = [{'t': 'fit' if q % 2 else 'rm', 'modes': modes, 'normalize': True, 'coords': None, 'opd': opd(), 'layout': dict(L), 'modes_form': 'list',
                  'mask_outside': True, 'outside': bad}]
        out.append({'kind': 'nonfinite-outside', 'shape': list(m.shape), 'mask': [float(x) for x in m.ravel()], 'mask_dtype': 'float64', 'steps': steps,
                    'cond': _cond(m, modes, None), 'oracle_only': True})
    return out

# physical amplitudes: an OPD in metres is a few nanometres to a hundred nanometres.  Dyadic factors (2^-30 ~ 0.93 nm, 2^-25 ~ 30 nm,
# 2^-23 ~ 119 nm) keep the generated dyadic values exactly representable, also in float32.
PHYSICAL = [2.0 ** -30, 2.0 ** -25, 2.0 ** -23]

def _scaled(c, S):
    """the same history with every OPD and coefficient multiplied by S (the case stores the actual values)"""
    c = dict(c, scale=S, steps=[dict(s_) for s_ in c['steps']])
    for s_ in c['steps']:
        for key in ('opd', 'coeffs'):
            if key in s_: s_[key] = [float(x) * S for x in s_[key]]
    return c

def generate(rng, tier):
    out = _generate(rng, tier) + _special_cases(rng, tier)
    # every third history and special case at a physical amplitude (metres): nothing in the property has an absolute scale
    out = [_scaled(c, PHYSICAL[(i // 3) % 3]) if i % 3 == 0 else c for i, c in enumerate(out)]
    med = [_medium_case(rng) for _ in range({'quick': 4, 'thorough': 60, 'search': 12}[tier])]
    out = [_scaled(c, PHYSICAL[i % 3]) if i % 2 else c for i, c in enumerate(med)] + out
    # extremes: ill-conditioned full-rank mode sets (a small sample in the quick tier, the large ones only in the deeper tiers)
    ill = {'quick': [(48, 6, 22), (40, 5, 18)], 'thorough': [(48, 6, 22), (64, 8, 22), (96, 10, 22), (40, 5, 16), (56, 6, 21)],
           'search': [(48, 6, 22), (64, 8, 22), (96, 10, 22), (40, 5, 18)]}[tier]
    out = [_scaled(c, PHYSICAL[0]) if i % 2 else c for i, c in enumerate([_ill_case(rng, *a) for a in ill])] + out
    if tier in ('search', 'thorough'): out.append(_ill_case(rng, 256, 20, 22, few=True))
    return out

# the cosine/sine partners (same n and |m|) among Noll 1..36: (2,3), (5,6), (7,8), ... (35,36)
def _partners(lo, hi): return [(j, j + 1) for j in range(lo, hi) if ref_noll(j)[1] == ref_noll(j + 1)[1] and abs(ref_noll(j)[0]) == abs(ref_noll(j + 1)[0])]
PARTNERS = _partners(1, 36)
PARTNERS_HI = _partners(37, 66)            # radial orders 8..10

def _generate(rng, tier):
    n = {'quick': 26, 'thorough': 400, 'search': 100}[tier]
    kinds = ['circle', 'hexagon', 'segmented', 'offcentre', 'irregular']
    out = []
    ptr = int(rng.integers(0, len(PARTNERS)))
    for k in range(n):
        kind = kinds[k % 5]
        paired = k % 2 == 1
        high = paired and k % 10 == 7          # Noll 37..66 on the larger masks (3 histories of a quick run)
        size = int(rng.integers(17, 21)) if high else int(rng.integers(14, 20)) if paired else int(rng.integers(9, 23))
        m = _mask(rng, kind, size)
        nm = int(rng.integers(1, 7))
        top = 37 if (k % 4 == 2 and size >= 14) else 22
        if paired:
            # mode sets made of PAIRS OF ADJACENT Noll indices up to 36: the cosine/sine partners in rotation (every partner pair occurs in
            # every quick run), sometimes one arbitrary adjacent pair (j, j+1) — two modes that a defect makes coincide are both requested
            prs = []
            pool = PARTNERS_HI if high else PARTNERS
            for _ in range(int(rng.integers(1, 4))): prs.append(pool[ptr % len(pool)]); ptr += 1
            if rng.integers(0, 2):
                j = int(rng.integers(37, 66)) if high else int(rng.integers(1, 36))
                if all(j not in p_ and j + 1 not in p_ for p_ in prs): prs[-1] = (j, j + 1)
            modes = [x for p_ in prs for x in p_]
            modes = [modes[i] for i in rng.permutation(len(modes))]
            if modes == [1, 2]: modes = [2, 1]
            nm = len(modes)
        while not paired:
            modes = [int(x) for x in rng.choice(np.arange(1, top), size=nm, replace=False)]
            if modes != list(range(1, nm + 1)): break
        A, B, C = None, _coords(rng), _coords(rng)
        nrm = bool(rng.integers(0, 2))
        def opd(): return [int(x) / 16 for x in rng.integers(-64, 65, m.size)]
        def coeffs(k_): return [int(x) / 8 for x in rng.integers(-40, 41, k_)]
        def lay(): return {'opd': _lay(rng) if rng.integers(0, 5) else 'f32', 'mask': _lay(rng, 0.6), 'coords': _lay(rng, 0.6)}
        rev = modes[::-1]
        perm = [modes[i] for i in rng.permutation(nm)]
        o1, o2 = opd(), opd()
        steps = [
            {'t': 'fit', 'modes': modes, 'normalize': nrm, 'coords': A, 'opd': o1, 'layout': lay()},
            {'t': 'fit', 'modes': modes, 'normalize': nrm, 'coords': B, 'opd': o1, 'layout': lay()},        # same mask/modes, other coordinates
            {'t': 'rm', 'modes': modes, 'coords': B, 'opd': o2, 'layout': lay()},
            {'t': 'rm', 'modes': modes, 'coords': C if k % 2 else A, 'opd': o2, 'layout': lay()},
            {'t': 'rt', 'modes': perm, 'normalize': not nrm, 'coords': C, 'coeffs': coeffs(nm), 'layout': lay()},
            {'t': 'fit', 'modes': rev, 'normalize': not nrm, 'coords': A, 'opd': o2, 'layout': lay()},
            {'t': 'span', 'modes': modes, 'coords': B if k % 3 else A, 'coeffs': coeffs(nm), 'layout': lay()},
            {'t': 'rt', 'modes': modes, 'normalize': nrm, 'coords': A, 'coeffs': coeffs(nm), 'layout': lay()},
            {'t': 'fit', 'modes': modes, 'normalize': nrm, 'coords': A, 'opd': o1, 'layout': lay()},        # repetition of the first call
        ]
        steps.insert(int(rng.integers(0, len(steps))), {'t': 'basis', 'modes': perm, 'normalize': bool(rng.integers(0, 2)), 'coords': B if k % 2 else A,
                                                        'vectorize': bool(rng.integers(0, 2)), 'layout': lay()})
        if rng.integers(0, 3) == 0: steps = [steps[i] for i in rng.permutation(len(steps))[:int(rng.integers(6, 10))]]
        for s in steps:
            s['modes_form'] = 'scalar' if len(s['modes']) == 1 and rng.integers(0, 2) else ('ndarray' if rng.integers(0, 3) == 0 else 'list')
            s['mask_outside'] = bool(rng.integers(0, 2))      # OPD keeps its content outside the mask
        cond = max(_cond(m, modes, c) for c in (A, B, C))
        out.append({'kind': kind, 'shape': list(m.shape), 'mask': [float(x) for x in m.ravel()],
                    'mask_dtype': ['float64', 'float64', 'bool', 'int', 'float32'][int(rng.integers(0, 5))], 'steps': steps, 'cond': cond})
    return out

def signature(c):
    return f"{c['kind']} {c['shape']} {vlib.jhash([c['mask'], [(s['t'], s['modes'], s.get('normalize'), s['coords'], s['layout']) for s in c['steps']]])}"
def nontrivial(c): return len(c['steps']) > 1 or c['kind'] in ('duplicate-modes', 'nonfinite-outside')
def tags(c):
    t = [c['kind'], 'model-compared' if _judged(c) and not c.get('oracle_only') else 'oracle-only', 'mask:' + c['mask_dtype'],
         'cond<=1e4' if c['cond'] <= 1e4 else 'cond<=1e9' if c['cond'] <= 1e9 else 'unjudged(cond>1e9)']
    if max(c['shape']) > 64: t.append('large-array')
    t.append('amplitude:metres(1e-9..1e-7)' if c.get('scale', 1.0) < 1e-3 else 'amplitude:unit')
    for s in c['steps']:
        if s.get('outside'): t.append('opd-outside-mask:' + s['outside'])
        if len(set(s['modes'])) < len(s['modes']): t.append('modes:duplicate')
        t += ['step:' + s['t'], 'opd-layout:' + s['layout']['opd'], 'modes:' + s['modes_form'],
              'coords:supplied' if s['coords'] else 'coords:default']
        if s['coords'] and s['layout']['coords'] != 'C': t.append('coords-layout:' + s['layout']['coords'])
        if s['layout']['mask'] != 'C': t.append('mask-layout:' + s['layout']['mask'])
        if max(s['modes']) > 21: t.append('modes:noll>21')
        if max(s['modes']) > 36: t.append('modes:noll>36')
        if any(a in s['modes'] and b in s['modes'] for a, b in PARTNERS): t.append('modes:cos-sin-partners')
        if any(j + 1 in s['modes'] for j in s['modes']): t.append('modes:adjacent-indices')
    return t

# ------------------------------------------------------------------------------------------ implementation
def _layout(a, how):
    """same values, different memory layout / dtype"""
    a = np.asarray(a)
    if how == 'F': return np.asfortranarray(a)
    if how == 'T': return np.ascontiguousarray(a.T).T
    if how == 'S':
        big = np.zeros((2 * a.shape[0], 2 * a.shape[1] + 1), dtype=a.dtype)
        big[::2, 1::2] = a
        return big[::2, 1::2]
    if how == 'f32': return a.astype(np.float32)
    return np.ascontiguousarray(a)

def _modes(s):
    if s['modes_form'] == 'scalar': return s['modes'][0]
    if s['modes_form'] == 'ndarray': return np.array(s['modes'])
    return list(s['modes'])

def _fl(a): return [float(x) for x in np.asarray(a, dtype=float).ravel()]

class _Watch:
    """every argument array handed to the library is compared with a private copy after the call: the caller's OPD, mask and
    coordinate arrays belong to the caller (the same arrays are handed to the next call of the history)"""
    def __init__(self): self.touched = []
    def __call__(self, step, fname, fn, **arrays):
        snap = {k: np.array(v, copy=True) for k, v in arrays.items() if isinstance(v, np.ndarray)}
        try: return fn()
        finally:
            for k, v in snap.items():
                if not np.array_equal(arrays[k], v, equal_nan=True):
                    bad = ~((arrays[k] == v) | ((arrays[k] != arrays[k]) & (v != v)))
                    ix = tuple(int(x) for x in np.argwhere(bad)[0])
                    self.touched.append({'step': step, 'call': fname, 'arg': k, 'n': int(bad.sum()), 'at': list(ix),
                                         'before': float(v[ix]), 'after': float(arrays[k][ix])})

def impl(c):
    vlib.import_lentil()
    import lentil
    sh = tuple(c['shape'])
    mask64 = np.array(c['mask']).reshape(sh)
    mask_t = {'float64': mask64, 'bool': mask64 != 0, 'int': (mask64 != 0).astype(int) * 3, 'float32': mask64.astype(np.float32)}[c['mask_dtype']]
    outs = []; W = _Watch()
    held = {}            # the caller's arrays: ONE array per (coordinate choice, layout) and per mask layout, reused by every call of the history
    def hold(key, make):
        if key not in held: held[key] = make()
        return held[key]
    try:
        for i, s in enumerate(c['steps']):
            L = s['layout']
            mask = hold(('mask', L['mask']), lambda: _layout(mask_t, L['mask']))
            ck = vlib.jhash(s['coords'])
            rho0, theta0 = hold(('ref', ck), lambda: tuple(_fl(a) for a in _case_coords(c, s['coords'])))       # what the caller meant (kept as lists)
            if s['coords']:
                rho, theta = hold(('arr', ck, L['coords']), lambda: tuple(_layout(np.array(a).reshape(sh), L['coords']) for a in (rho0, theta0)))
                kw = {'rho': rho, 'theta': theta}
            else: kw = {}
            modes = _modes(s); ml = s['modes']
            o = {} if c.get('oracle_only') else {'rho': rho0, 'theta': theta0}
            if s['t'] in ('fit', 'rm', 'dup'):
                opd = np.array(s['opd']).reshape(sh)
                if not s['mask_outside']: opd = opd * (mask64 != 0)
                o['opd_in'] = _fl(opd)
                if s.get('outside'):
                    opd_fin = _layout(opd * (mask64 != 0), L['opd'])                 # the same data with zeros outside the mask
                    opd = np.where(mask64 != 0, opd, float(s['outside']))
                opd = _layout(opd, L['opd'])
            if s.get('outside'):
                f_ = lentil.zernike_fit if s['t'] == 'fit' else lentil.zernike_remove
                kw2 = dict(kw, normalize=s['normalize']) if s['t'] == 'fit' else kw
                got = np.asarray(W(i, f_.__name__, lambda: f_(opd, mask, modes, **kw2), opd=opd, mask=mask, **kw), dtype=float)
                ref = np.asarray(f_(opd_fin, mask, modes, **kw2), dtype=float)
                sel = (mask64 != 0) if s['t'] == 'rm' else np.ones(got.shape, bool)      # remove: judged on the masked samples
                o['nonfinite'] = int((~np.isfinite(got[sel])).sum()); o['n_judged'] = int(sel.sum())
                o['dev'] = float(np.abs(got[sel] - ref[sel]).max()) if not o['nonfinite'] else None
                outs.append(o); continue
            if s['t'] == 'dup':
                uniq = list(dict.fromkeys(ml))
                fd = np.asarray(W(i, 'zernike_fit', lambda: lentil.zernike_fit(opd, mask, ml, normalize=s['normalize'], **kw), opd=opd, mask=mask, **kw))
                fu = np.asarray(lentil.zernike_fit(opd, mask, uniq, normalize=s['normalize'], **kw))
                o['fit_dup_sum'] = [float(sum(fd[q_] for q_ in range(len(ml)) if ml[q_] == u)) for u in uniq]; o['fit_uniq'] = _fl(fu)
                o['fit_dup'] = _fl(fd)
                rd = np.asarray(W(i, 'zernike_remove', lambda: lentil.zernike_remove(opd, mask, ml, **kw), opd=opd, mask=mask, **kw))
                ru = np.asarray(lentil.zernike_remove(opd, mask, uniq, **kw))
                o['rem_dev'] = float(np.abs(rd - ru).max())
                outs.append(o); continue
            if s['t'] == 'basis':
                bz = W(i, 'zernike_basis', lambda: lentil.zernike_basis(mask, modes, vectorize=s['vectorize'], normalize=s['normalize'], **kw), mask=mask, **kw)
                o['basis_shape'] = list(np.shape(bz)); o['basis'] = _fl(bz)
            elif s['t'] == 'fit':
                o['fit'] = _fl(W(i, 'zernike_fit', lambda: lentil.zernike_fit(opd, mask, modes, normalize=s['normalize'], **kw), opd=opd, mask=mask, **kw))
                rv = ml[::-1]
                fp = W(i, 'zernike_fit', lambda: lentil.zernike_fit(opd, mask, rv if len(ml) > 1 else modes, normalize=s['normalize'], **kw), opd=opd, mask=mask, **kw)
                o['fit_rev'] = _fl(fp)[::-1]
            elif s['t'] == 'rm':
                rem = W(i, 'zernike_remove', lambda: lentil.zernike_remove(opd, mask, modes, **kw), opd=opd, mask=mask, **kw)
                o['rem'] = _fl(rem); o['rem_shape'] = list(np.shape(rem))
                o['fit_rem'] = _fl(W(i, 'zernike_fit', lambda: lentil.zernike_fit(rem, mask, modes, normalize=True, **kw), opd=rem, mask=mask, **kw))
                rem2 = W(i, 'zernike_remove', lambda: lentil.zernike_remove(rem, mask, modes, **kw), opd=rem, mask=mask, **kw)
                o['rem2_diff'] = float(np.abs(np.asarray(rem2) - rem).max())
            elif s['t'] in ('rt', 'span'):
                nrm = True if s['t'] == 'span' else s['normalize']
                full = np.zeros(max(ml)); full[np.array(ml) - 1] = np.array(s['coeffs'])
                o['full'] = _fl(full)
                oc = W(i, 'zernike_compose', lambda: lentil.zernike_compose(mask, full, normalize=nrm, **kw), coeffs=full, mask=mask, **kw)
                o['opd_c'] = _fl(oc)
                ocl = _layout(oc, L['opd'] if L['opd'] != 'f32' else 'F')
                if s['t'] == 'rt': o['fit'] = _fl(W(i, 'zernike_fit', lambda: lentil.zernike_fit(ocl, mask, modes, normalize=nrm, **kw), opd=ocl, mask=mask, **kw))
                else: o['rem'] = _fl(W(i, 'zernike_remove', lambda: lentil.zernike_remove(ocl, mask, modes, **kw), opd=ocl, mask=mask, **kw))
            outs.append(o)
        return {'steps': outs, 'touched': W.touched}
    except Exception as e:
        return {'exc': type(e).__name__, 'msg': str(e)[:300], 'at_step': len(outs), 'touched': W.touched}

def requests(c, io):
    if 'exc' in io or c.get('oracle_only'): return []
    mk = [int(x != 0) for x in c['mask']]
    reqs = []
    for s, o in zip(c['steps'], io['steps']):
        base = {'rho': vlib.fl(o['rho']), 'theta': vlib.fl(o['theta']), 'mask': mk, 'modes': s['modes']}
        if s['t'] == 'basis':
            reqs.append(dict(base, op='zbasis', normalize=s['normalize']))
        elif s['t'] == 'fit':
            reqs.append(dict(base, op='zfit', normalize=s['normalize'], opd=vlib.fl(o['opd_in'])))
        elif s['t'] == 'rm':
            reqs.append(dict(base, op='zremove', opd=vlib.fl(o['opd_in'])))
        else:
            nrm = True if s['t'] == 'span' else s['normalize']
            reqs.append(dict(base, op='zcompose', normalize=nrm, coeffs=vlib.fl(o['full'])))
            if s['t'] == 'rt': reqs.append(dict(base, op='zfit', normalize=nrm, opd=vlib.fl(o['opd_c'])))
            else: reqs.append(dict(base, op='zremove', opd=vlib.fl(o['opd_c'])))
    return reqs

def _judged(c): return c['cond'] <= 1e4

def _ctol(c):
    # the model solves the normal equations by Cramer/Laplace at Float: error ~ cond^2 x epsilon x k! x cancellation in the 6x6 Laplace
    # expansion; measured on 80 medium-conditioned histories: median 2e-14 x cond^2, worst seen 1.6e-11 x cond^2.  The library itself is
    # judged far more tightly by the oracle (1e-12 x cond), so this only bounds the MODEL's own rounding.
    return max(1e-10, 1e-10 * c['cond'] ** 2)

def _where(c, i, s):
    return (f"call {i + 1}/{len(c['steps'])} ({s['t']}, modes {s['modes']} as {s['modes_form']}, "
            f"coords {'supplied' if s['coords'] else 'default'}, layouts {s['layout']}, mask dtype {c['mask_dtype']})")

def compare(c, io, mo):
    if 'exc' in io or c.get('oracle_only') or io.get('touched'): return None          # judged by the oracle
    for m in mo:
        if not m.get('ok'): return f"model refused: {m.get('err')}"
    S = c.get('scale', 1.0)          # amplitude scale of the history: every tolerance is relative to it (OPDs in metres are ~1e-9..1e-7)
    k = 0
    for i, (s, o) in enumerate(zip(c['steps'], io['steps'])):
        if s['t'] == 'basis':
            want = np.array([vlib.unfl(row) for row in mo[k]['basis']]); k += 1          # (modes, samples)
            km = len(s['modes'])
            wshape = [km, want.shape[1]] if s['vectorize'] else [km] + c['shape']
            if o['basis_shape'] != wshape: return f"{_where(c, i, s)}: zernike_basis(vectorize={s['vectorize']}) returned shape {o['basis_shape']}, expected {wshape}"
            got = np.array(o['basis']).reshape(km, -1)
            sc = max(1.0, np.abs(want).max())          # basis values are O(1) whatever the OPD scale
            if np.abs(got - want).max() > TOL * sc * 10:
                a_, b_ = np.unravel_index(np.abs(got - want).argmax(), got.shape)
                return f"{_where(c, i, s)}: zernike_basis plane {a_} (mode {s['modes'][a_]}) sample {b_}: impl {got[a_, b_]} model {want[a_, b_]}"
        elif s['t'] == 'fit':
            want = np.array(vlib.unfl(mo[k]['fit'])); k += 1
            if _judged(c):
                sc = max(S, np.abs(o['opd_in']).max(), np.abs(want).max())
                if np.abs(np.array(o['fit']) - want).max() > _ctol(c) * sc:
                    return f"{_where(c, i, s)}: zernike_fit {o['fit']} differs from the model's normal-equation solution {list(want)}"
        elif s['t'] == 'rm':
            want = np.array(vlib.unfl(mo[k]['residual'])); k += 1
            if o['rem_shape'] != c['shape']: return f"{_where(c, i, s)}: zernike_remove returned shape {o['rem_shape']}"
            if _judged(c):
                sc = max(S, np.abs(o['opd_in']).max()) * len(s['modes'])
                if np.abs(np.array(o['rem']) - want).max() > _ctol(c) * sc:
                    return f"{_where(c, i, s)}: zernike_remove differs from the model's opd - B·fit(opd) (max {np.abs(np.array(o['rem']) - want).max():.3e})"
        elif s['t'] in ('rt', 'span'):
            wc = np.array(vlib.unfl(mo[k]['opd'])); k += 1
            sc = max(S, np.abs(wc).max())
            if np.abs(np.array(o['opd_c']) - wc).max() > TOL * sc * 10:
                return f"{_where(c, i, s)}: zernike_compose differs from the model (coefficient i <-> Noll i+1) by {np.abs(np.array(o['opd_c']) - wc).max():.3e}"
            if s['t'] == 'rt':
                want = np.array(vlib.unfl(mo[k]['fit'])); k += 1
                if _judged(c) and np.abs(np.array(o['fit']) - want).max() > _ctol(c) * sc:
                    return f"{_where(c, i, s)}: zernike_fit of the composed OPD {o['fit']} differs from the model {list(want)}"
            else:
                want = np.array(vlib.unfl(mo[k]['residual'])); k += 1
                if _judged(c) and np.abs(np.array(o['rem']) - want).max() > _ctol(c) * sc:
                    return f"{_where(c, i, s)}: zernike_remove of the composed OPD differs from the model"
    return None

# ------------------------------------------------------------------------------------------ oracle (real code only)
def _touched(c, io):
    for t in io.get('touched') or []:
        s = c['steps'][t['step']]
        return (f"{_where(c, t['step'], s)}: {t['call']} overwrote the caller's `{t['arg']}` array in place ({t['n']} samples; at {t['at']}: {t['before']} -> {t['after']}) — "
                f"the next call of the history receives the same array and no longer sees the arguments the caller supplied")
    return None

def oracle(c, io):
    t = _touched(c, io)
    if t: return t
    if 'exc' in io: return f"call {io.get('at_step', 0) + 1} raised {io['exc']}: {io.get('msg')}"
    if c['cond'] > 1e9: return None      # modes not (numerically) independent on this mask: outside the property's hypothesis
    S = c.get('scale', 1.0)              # amplitude scale of the history: every tolerance is relative to it
    # a backward-stable least-squares solution is accurate to ~cond x machine epsilon (measured for pinv: ~1e-16 x cond); a solver that
    # squares the conditioning (normal equations) is off by ~cond^2 x epsilon and must not pass
    tol = 1e-12 * max(c['cond'], 10.0)                 # consistent problems (compose -> fit, span -> remove)
    tol_r = 1e-12 * max(c['cond'], 10.0) ** 2           # arbitrary data: the least-squares problem itself is sensitive to cond^2 x residual
    first = {}
    for i, (s, o) in enumerate(zip(c['steps'], io['steps'])):
        w = _where(c, i, s)
        if s['t'] == 'basis': continue
        if s.get('outside'):
            what = 'zernike_fit' if s['t'] == 'fit' else 'zernike_remove (on the masked samples)'
            if o['nonfinite']:
                return (f"{w}: the OPD is finite on every masked sample and {s['outside']} outside the mask: {what} returned {o['nonfinite']} non-finite "
                        f"values of {o['n_judged']} — samples outside the mask must not matter")
            if o['dev'] > tol_r * max(S, np.abs(o['opd_in']).max()):
                return f"{w}: {what} changes by {o['dev']:.3e} when the samples outside the mask are set to {s['outside']} — samples outside the mask must not matter"
            continue
        if s['t'] == 'dup':
            sc = max(S, np.abs(o['opd_in']).max())
            if o['rem_dev'] > tol_r * sc: return f"{w}: requesting a mode twice changes zernike_remove by {o['rem_dev']:.3e}"
            for u, a, b in zip(dict.fromkeys(s['modes']), o['fit_dup_sum'], o['fit_uniq']):
                if abs(a - b) > tol_r * sc: return f"{w}: requesting a mode twice: the coefficients of mode {u} sum to {a}, requested once it is {b}"
            continue
        if s['t'] == 'rt':
            sc = max(S, np.abs(o['opd_c']).max())
            for m_, a, b in zip(s['modes'], o['fit'], s['coeffs']):
                if abs(a - b) > tol * sc: return f'{w}: fit(compose(c)) != c — coefficient of mode {m_} is {a}, composed with {b}'
        elif s['t'] == 'span':
            sc = max(S, np.abs(o['opd_c']).max())
            if np.abs(o['rem']).max() > tol * sc: return f"{w}: removing the modes from an OPD made only of them leaves {np.abs(o['rem']).max():.3e}"
        elif s['t'] == 'rm':
            sc = max(S, np.abs(o['opd_in']).max())
            if np.abs(o['fit_rem']).max() > tol_r * sc: return f"{w}: fit(remove(opd)) = {o['fit_rem']} is not zero"
            if o['rem2_diff'] > tol_r * sc: return f"{w}: remove is not idempotent (max change {o['rem2_diff']:.3e})"
        else:
            sc = max(S, np.abs(o['opd_in']).max())
            for a, b in zip(o['fit'], o['fit_rev']):
                if abs(a - b) > tol_r * sc: return f"{w}: fit depends on the order of the requested modes: {o['fit']} vs {o['fit_rev']} (reversed request)"
            # the same call (same values of every argument) must give the same answer whenever and however it is made
            key = vlib.jhash([s['modes'], s['normalize'], s['coords'], o['opd_in']])
            if key in first:
                j, prev = first[key]
                if np.abs(np.array(prev) - np.array(o['fit'])).max() > tol_r * sc:
                    return f'{w}: same arguments as call {j + 1} but the fit changed from {prev} to {o["fit"]} (history or memory-layout dependence)'
            else: first[key] = (i, o['fit'])
    return None

def shrink(c):
    if len(c['steps']) > 1:
        for i in range(len(c['steps'])):
            d = dict(c); d['steps'] = c['steps'][:i] + c['steps'][i + 1:]; yield d
    for i, s in enumerate(c['steps']):
        if any(v != 'C' for v in s['layout'].values()):
            d = dict(c); d['steps'] = list(c['steps']); d['steps'][i] = dict(s, layout={'opd': 'C', 'mask': 'C', 'coords': 'C'}); yield d
    if c['mask_dtype'] != 'float64': d = dict(c); d['mask_dtype'] = 'float64'; yield d
    for i, s in enumerate(c['steps']):                      # fewer modes in one call (the conditioning bound of the case stays: it only gets better)
        if len(s['modes']) > 1 and s['t'] != 'dup':
            for q in range(len(s['modes'])):
                t = dict(s, modes=s['modes'][:q] + s['modes'][q + 1:])
                if 'coeffs' in s: t['coeffs'] = s['coeffs'][:q] + s['coeffs'][q + 1:]
                d = dict(c); d['steps'] = list(c['steps']); d['steps'][i] = t; yield d
