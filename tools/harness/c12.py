"""C12 — Zernike fit, compose and remove are mutually inverse for any mode set.

Tie: the theorems of Props/C12.lean are about `fit = (BᵀB)⁻¹Bᵀ·opd`, `compose = B·c`, `remove = opd − B·fit` for the basis matrix B
of the requested modes. The correspondence rebuilds B from the Lean mode model (Model/Zernike.lean `zernAt`, run at Float by the
C11 driver ops on the very (rho, theta, mask) the implementation used) and checks on every case that (1) zernike_basis equals
that B, (2) zernike_fit returns the solution of the normal equations BᵀB·c = Bᵀ·opd (the trusted pinv contract, checked
numerically), (3) zernike_remove returns opd − B·fit. The oracle evaluates the property itself on the real functions."""
import math, numpy as np
from harness.common import *
import vlib

LEVEL_TEXT = ('Lean 4 theorems (Mathlib matrices), for every basis matrix B with invertible BᵀB, i.e. every mask, mode subset, ordering, '
              'normalisation and caller coordinates on which the modes are linearly independent: fit(compose c) = c; fit(remove opd) = 0; '
              'remove is idempotent; remove(compose c) = 0; the residual is orthogonal to the removed modes (normal equations) and no other '
              'coefficient vector leaves a smaller sum of squares (least squares, over any linearly ordered field).')
LEVEL_NOTE = ('Trusted: Lean kernel and Mathlib; np.linalg.pinv(basis) = (BᵀB)⁻¹Bᵀ for full column rank (contract, checked numerically on every '
              'case through the normal equations); the basis matrix is the C11 mode model (compared on every case); float rounding only through the '
              '1e-9 tolerance; generator coverage.')
TECHNIQUE = 'Lean 4 proof over Mathlib matrices (nonsingular inverse) + differential correspondence of basis/fit/remove against the Lean mode model'
GEN = []
OPS = ['C11']
RULE = ('cases: masks circular / hexagonal / segmented (hex_segments) / off-centre / irregular with weights, array sizes 9..22 even and odd; '
        'non-empty mode subsets of Noll 1..21 of size 1..6 in random order (never exactly 1..k); both normalisations; default and '
        'caller-supplied (shifted, rotated) coordinates; random coefficient vectors and random OPDs; cases whose basis is ill-conditioned '
        '(cond > 1e6, the property\'s independence hypothesis) are counted but not judged; distinct = (mask kind, shape, modes, flags)')
TRUSTED = ['np.linalg.pinv returns (BᵀB)⁻¹Bᵀ for a full-column-rank B (checked numerically via the normal equations, not proved)',
           'np.einsum contractions as matrix-vector products']
UNPROVEN = []
ASSUMPTIONS = ['modes linearly independent on the mask (IsUnit det(BᵀB)); numerically: cond(B) <= 1e6',
               'zernike_remove always uses normalize=True (it has no normalize parameter)']

TOL = 1e-9

def _mask(rng, kind, n):
    vlib.import_lentil()
    import lentil
    if kind == 'circle':
        m = lentil.circle((n, n), n / 2 - 1 - rng.integers(0, 2), antialias=False)
    elif kind == 'hexagon':
        m = lentil.hexagon((n, n), n / 2 - 1.5, rotate=bool(rng.integers(0, 2)), antialias=False)
    elif kind == 'segmented':
        m = lentil.hex_segments(1, max(2.0, n / 7), 1.0, antialias=False, flatten=True, pad=1 + int(rng.integers(0, 2)))
    elif kind == 'offcentre':
        m = lentil.circle((n, n + int(rng.integers(0, 4))), n / 3.5, shift=(int(rng.integers(-2, 3)), int(rng.integers(-2, 3))), antialias=False)
    else:
        m = (rng.uniform(size=(n, n + 1)) < 0.6).astype(float)
        m *= rng.integers(1, 4, m.shape)           # weights: only the support may matter
    return np.asarray(m, dtype=float)

def generate(rng, tier):
    n = {'quick': 150, 'thorough': 3000, 'search': 600}[tier]
    kinds = ['circle', 'hexagon', 'segmented', 'offcentre', 'irregular']
    out = []
    for k in range(n):
        kind = kinds[k % 5]
        size = int(rng.integers(9, 23))
        m = _mask(rng, kind, size)
        nm = int(rng.integers(1, 7))
        while True:
            modes = [int(x) for x in rng.choice(np.arange(1, 22), size=nm, replace=False)]
            if modes != list(range(1, nm + 1)): break
        c = {'kind': kind, 'shape': list(m.shape), 'mask': [float(x) for x in m.ravel()], 'modes': modes, 'normalize': bool(rng.integers(0, 2)),
             'coeffs': [int(x) / 8 for x in rng.integers(-40, 41, nm)], 'opd': [int(x) / 16 for x in rng.integers(-64, 65, m.size)],
             'coords': None}
        if k % 3 == 2:
            c['coords'] = {'shift': [int(rng.integers(-6, 7)) / 4, int(rng.integers(-6, 7)) / 4], 'rotate': float(rng.integers(-90, 91))}
        out.append(c)
    return out

def signature(c): return f"{c['kind']} {c['shape']} {c['modes']} n={c['normalize']} coords={c['coords']} {vlib.jhash(c['mask'])}"
def nontrivial(c): return True
def tags(c):
    return [c['kind'], f"modes:{len(c['modes'])}", 'normalized' if c['normalize'] else 'raw', 'coords:supplied' if c['coords'] else 'coords:default',
            'modes:sorted' if c['modes'] == sorted(c['modes']) else 'modes:unsorted', 'with-piston' if 1 in c['modes'] else 'no-piston']

# ------------------------------------------------------------------------------------------ implementation
def _setup(c):
    import sys
    Z = sys.modules['lentil.zernike']
    sh = tuple(c['shape'])
    mask = np.array(c['mask']).reshape(sh)
    if c['coords']:
        rho, theta = Z.zernike_coordinates(mask, shift=tuple(c['coords']['shift']), rotate=c['coords']['rotate'])
        kw = {'rho': rho, 'theta': theta}
    else:
        rho, theta = Z.zernike_coordinates(mask)
        kw = {}
    return Z, sh, mask, rho, theta, kw

def impl(c):
    vlib.import_lentil()
    import lentil
    Z, sh, mask, rho, theta, kw = _setup(c)
    modes, nrm = c['modes'], c['normalize']
    try:
        B = lentil.zernike_basis(mask, modes, vectorize=True, normalize=nrm, **kw)          # (k, P)
        B1 = B if nrm else lentil.zernike_basis(mask, modes, vectorize=True, normalize=True, **kw)
        cond = float(np.linalg.cond(B.T)); cond1 = float(np.linalg.cond(B1.T))
        coeffs = np.array(c['coeffs'])
        full = np.zeros(max(modes)); full[np.array(modes) - 1] = coeffs
        opd_c = lentil.zernike_compose(mask, full, normalize=nrm, **kw)
        fit_c = lentil.zernike_fit(opd_c, mask, modes, normalize=nrm, **kw)
        opd = np.array(c['opd']).reshape(sh) * (mask != 0)
        fit_r = lentil.zernike_fit(opd, mask, modes, normalize=nrm, **kw)
        rem = lentil.zernike_remove(opd, mask, modes, **kw)
        fit_rem = lentil.zernike_fit(rem, mask, modes, normalize=True, **kw)
        rem2 = lentil.zernike_remove(rem, mask, modes, **kw)
        full1 = np.zeros(max(modes)); full1[np.array(modes) - 1] = coeffs
        opd_c1 = lentil.zernike_compose(mask, full1, normalize=True, **kw)
        rem_span = lentil.zernike_remove(opd_c1, mask, modes, **kw)
        # permuting the request permutes the answer
        perm = list(reversed(range(len(modes))))
        fit_p = lentil.zernike_fit(opd, mask, [modes[i] for i in perm], normalize=nrm, **kw)
        return {'cond': cond, 'cond1': cond1, 'basis': [float(x) for x in B.ravel()], 'opd_c': [float(x) for x in np.ravel(opd_c)],
                'fit_c': [float(x) for x in fit_c], 'fit_r': [float(x) for x in fit_r], 'rem': [float(x) for x in np.ravel(rem)],
                'fit_rem': [float(x) for x in fit_rem], 'rem2_diff': float(np.abs(rem2 - rem).max()), 'rem_span': float(np.abs(rem_span).max()),
                'fit_perm': [float(fit_p[perm.index(i)]) for i in range(len(modes))],
                'rho': [float(x) for x in rho.ravel()], 'theta': [float(x) for x in theta.ravel()],
                'opd_scale': float(np.abs(opd).max()), 'opdc_scale': float(max(1.0, np.abs(opd_c).max(), np.abs(opd_c1).max()))}
    except Exception as e:
        return {'exc': type(e).__name__, 'msg': str(e)[:300]}

def requests(c, io):
    if 'exc' in io: return []
    mk = [int(x != 0) for x in c['mask']]
    reqs = []
    for nrm in ([c['normalize']] if c['normalize'] else [False, True]):
        for j in c['modes']:
            reqs.append({'op': 'zernike', 'j': j, 'normalize': nrm, 'rho': vlib.fl(io['rho']), 'theta': vlib.fl(io['theta']), 'mask': mk})
    return reqs

def _judged(io): return io['cond'] <= 1e6 and io['cond1'] <= 1e6

def compare(c, io, mo):
    if 'exc' in io: return None          # judged by the oracle
    k = len(c['modes'])
    for m in mo:
        if not m.get('ok'): return f"model refused: {m.get('err')}"
    Bm = np.array([vlib.unfl(m['values']) for m in mo[:k]]).T                 # P x k, requested normalisation
    B1 = Bm if c['normalize'] else np.array([vlib.unfl(m['values']) for m in mo[k:2 * k]]).T
    Bi = np.array(io['basis']).reshape(k, -1).T
    scale = max(1.0, np.abs(Bm).max())
    if np.abs(Bi - Bm).max() > TOL * scale:
        p, i = np.unravel_index(np.abs(Bi - Bm).argmax(), Bi.shape)
        return f"zernike_basis column {i} (mode {c['modes'][i]}) sample {p}: impl {Bi[p, i]} model {Bm[p, i]}"
    # compose = B c
    oc = np.array(io['opd_c'])
    if np.abs(oc - Bm @ np.array(c['coeffs'])).max() > TOL * scale * max(1.0, np.abs(c['coeffs']).max()) * k:
        return 'zernike_compose is not B·c for the model basis of the requested modes'
    if not _judged(io): return None
    # fit solves the normal equations of the model basis (pinv contract)
    opd = (np.array(c['opd']).reshape(c['shape']) * (np.array(c['mask']).reshape(c['shape']) != 0)).ravel()
    G = Bm.T @ Bm; rhs = Bm.T @ opd; f = np.array(io['fit_r'])
    if np.abs(G @ f - rhs).max() > TOL * (np.abs(G).max() * max(1.0, np.abs(f).max()) * k + np.abs(rhs).max()) * max(1.0, io['cond'] ** 2 * 1e-6):
        return f'zernike_fit does not solve the normal equations BᵀB c = Bᵀ opd of the model basis (residual {np.abs(G @ f - rhs).max():.3e})'
    # remove = opd − B₁ (B₁ᵀB₁)⁻¹ B₁ᵀ opd   (always normalised)
    f1 = np.linalg.solve(B1.T @ B1, B1.T @ opd)
    want = opd - B1 @ f1
    if np.abs(np.array(io['rem']) - want).max() > TOL * max(1.0, io['opd_scale']) * max(1.0, io['cond1']) * 10:
        return 'zernike_remove is not opd − B·(BᵀB)⁻¹Bᵀ·opd for the model basis'
    return None

# ------------------------------------------------------------------------------------------ oracle (real code only)
def oracle(c, io):
    if 'exc' in io: return f"{io['exc']}: {io.get('msg')}"
    if not _judged(io): return None       # modes not (numerically) independent on this mask: outside the property's hypothesis
    k = len(c['modes'])
    amp = max(1.0, max(abs(x) for x in c['coeffs']))
    tol = TOL * max(io['cond'], io['cond1'], 1.0) * 10
    for i, (a, b) in enumerate(zip(io['fit_c'], c['coeffs'])):
        if abs(a - b) > tol * amp * io['opdc_scale']:
            return (f"fit(compose(c)) != c for modes {c['modes']} (normalize={c['normalize']}, coords={'supplied' if c['coords'] else 'default'}): "
                    f"coefficient of mode {c['modes'][i]} is {a}, composed with {b}")
    s = max(1.0, io['opd_scale'])
    if max(abs(x) for x in io['fit_rem']) > tol * s: return f"fit(remove(opd)) = {io['fit_rem']} is not zero for modes {c['modes']}"
    if io['rem2_diff'] > tol * s: return f"remove is not idempotent for modes {c['modes']}: max change {io['rem2_diff']:.3e}"
    if io['rem_span'] > tol * amp * io['opdc_scale']:
        return f"removing modes {c['modes']} from an OPD made only of them leaves {io['rem_span']:.3e}"
    for a, b in zip(io['fit_perm'], io['fit_r']):
        if abs(a - b) > tol * s: return f"fit depends on the order of the requested modes: {io['fit_perm']} vs {io['fit_r']}"
    return None

def shrink(c):
    if len(c['modes']) > 1:
        for i in range(len(c['modes'])):
            d = dict(c); d['modes'] = c['modes'][:i] + c['modes'][i + 1:]; d['coeffs'] = c['coeffs'][:i] + c['coeffs'][i + 1:]
            if d['modes'] != list(range(1, len(d['modes']) + 1)) or len(d['modes']) == 1: yield d
    if c['coords']: d = dict(c); d['coords'] = None; yield d
