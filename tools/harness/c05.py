"""C05 — propagation conserves energy.

Tie: the propagators are the C02 model (`propagateField`, window kernel regenerated; driver op c02.propagate_dft) and the C09 model
(`propagateFft`; driver op c09.propagate_fft), `normalize_power` is Model/Energy.lean `normalizePower` (factor regenerated; driver op
c05.normalize), `Wavefront.insert(out, weight)` is the C07 loop model `viewRun Gen.insertWiring` on the C02 model's fields (op c05.insert_weighted); run at complex doubles against the real lentil.propagate_dft / propagate_fft / Wavefront.intensity /
util.normalize_power on commensurate samplings. C05 has no hand model of a propagator of its own: the theorems of Props/C05 are about
those models (`propagateWindow` in Lemmas/Energy.lean is a proof device defining the plane function `fieldAt`, to which the C02
model's samples are proved equal).
Oracle: Σ intensity vs Σ|input field|² on the real code, window nesting, non-negativity, normalised power."""
import numpy as np
import vlib
from vlib import fbits, bitsf

LEVEL_TEXT = ('Lean 4 theorems at ℂ/ℝ, stated over the C02 propagation model (window kernel Gen.dftWindow regenerated from propagate.py) and '
              'the dft2 model tied to fourier.py by the regenerated wiring: for tilt-free fields (propagate_dft_samples, propagate_dft_energy, propagate_dft_nested_windows are about untilted fields only; tilted fields have the covered-period equalities and the window bounds inside a covered period below) the fields propagate_dft produces are samples of one function of '
              'the integer frequency coordinate; for any number of tilt-free fields on the wavefront canvas, any output extent / mask box / '
              'propagation shape and any set of output samples inside one period (α = 1/K, 1/L, K, L ≥ canvas, K ≠ L allowed) the summed '
              'intensity is ≤ Σ|total input field|², with equality over the whole period; for two calls on tilt-free fields with nested evaluated windows the first call\'s energy over any sample set is ≤ the second\'s (propagate_dft_nested_windows), and as one chain 0 ≤ E(W₁) ≤ E(W₂) ≤ input power inside one period (propagate_dft_nested_windows_le_input_power), nested sample sets of one call are monotone; intensity ≥ 0; a '
              'tilted field, several fields sharing one tilt, or fields with different tilts (against the power of the coherently summed ramped inputs) keep their energy over a covered period, and any smaller set of samples of that period captures a non-negative energy no larger (common_tilt_window_energy_le, multi_tilt_window_energy_le); '
              'through C09 fft_eq_propagate_dft (which contains fftshift∘fft2(ortho)∘ifftshift = centred unitary dft2, C09 fft_path_is_unitary_dft_complex — cited, not restated here) the whole FFT propagator (grid shape, padding or scratch, crop; any number of '
              'fields; isotropic dx·du, or — propagate_fft_energy_consistent — a possibly non-square grid consistent with both samplings, S0·dx0·du0 = S1·dx1·du1) returns at most the input power and exactly it on the full grid (both clauses instantiated on accepted calls by `example`s: plain 4×4 call; explicit shape, dirty scratch, non-square consistent grid); normalize_power (factor and default target regenerated from util.py; the call that omits the target yields unit power: normalize_power_default_power) '
              'yields power p ≥ 0 for every input of non-zero power at every input scale, a pupil images to its amplitude·mask power (through C07 Plane.multiply), and as one statement a pupil whose amplitude is normalize_power(a, p) images to total exactly p (normalized_pupil_images_to_p: monolithic mask, propagate_dft, full period; normalized_pupil_images_to_p_fft: the same pupil through the C09 model of propagate_fft, whole grid returned, isotropic or grid-consistent sampling). The propagate_dft correspondence runs the C02 model itself (Gen.dftWindow, Gen.maskShape/Shift, dftAlpha) '
              'at doubles, the propagate_fft correspondence runs the C09 model propagateFft (generated grid shape, guards, scratch regions); normalize_power runs Model/Energy.lean. Wavefront.insert(out, weight) of a propagated wavefront (wavefront_insert_weighted_energy): the loop as regenerated from wavefront.py (Gen.insertWiring: reduce, intensity, weight passed on) and field.insert\'s regenerated accumulation statement add weight·|Σ fields|² to every sample of any accumulator and weight·Σ|input|² in total over a covered period; the op c05.insert_weighted runs that loop on the C02 model\'s fields against the real call; and the array Wavefront.intensity itself returns (wfIntensity = viewRun Gen.intensityWiring: fresh zeros, reduce, intensity, default weight — regenerated) has every sample |Σ fields|² and sums to Σ|input|² over a covered period (wavefront_intensity_period_energy).')
LEVEL_NOTE = ('Trusted, stated plainly: the FFT clauses rest on C09\'s model of _fft2 (generated index maps, fft2 contract): that NumPy\'s '
              'fft2(norm="ortho") computes the unitary DFT sum, and that fftshift/ifftshift are the stated index maps, is assumed there and only observed '
              'differentially. Wavefront.intensity = |Wavefront.field|² and reduce keeping the total are C07/C06 theorems, cited not '
              'restated; for differently tilted fields the reference power is that of the coherent sum of the ramped inputs (multi_tilt_period_energy). np.dot/np.exp as in C01; floating-point rounding is not modelled.')
TECHNIQUE = 'Lean 4 proof (roots-of-unity orthogonality, Finset sums) over a generic executable model + differential correspondence'
GEN = ['FourierWiring', 'Window', 'Extent', 'NormalizePower', 'FftScratch', 'FieldDispatch', 'FieldIdx', 'FieldMerge', 'Helper', 'Helper20', 'Hex', 'Mesh', 'PlaneHandover', 'PlanePhase', 'PlanePx', 'PlaneType', 'PropagateMeta', 'TiltFit', 'Util', 'FieldAccum', 'WfViews']
OPS = ['C01', 'C05', 'C02', 'C09']
RULE = ('cases: wavefronts of shape 1..5 x 1..5 (one full field, or 2-3 sub-fields with offsets, possibly overlapping), complex '
        'Gaussian data, oversample 1..4, full period K x L = (shape·os) with K ≥ rows, L ≥ cols drawn independently per axis; '
        'propagate_dft on the full period, on a smaller centred window (shape), and on a window nested in it (smaller shape / '
        'prop_shape / off-centre mask box), pupil→image and image→pupil, scalar and per-axis input sampling dx, untilted / common tilt (integer + sub-pixel, incl. the displaced full period) / per-field sub-pixel tilts, Wavefront.insert with weight ≠ 1; propagate_fft full and cropped, with and without scratch; normalize_power of complex '
        'arrays and of pupil amplitudes that are then imaged. distinct = (kind, field shapes/offsets, K, L, os, windows); '
        'non-trivial = not (square, isotropic, single field) i.e. outside what the test-suite samples A ≈5 % sample (search tier: a leading block of 150 + padded FFT grids of 2048², 4096×1024, 1024×4100 checked by their totals) comes from an extremes stream: normalize_power targets within 1e-7 … 3e-5 relative or 1e-8 absolute of the present power at amplitude scales 1e-9 … 1e3, field amplitudes at 1e-9 / 1e9, wavelengths / distances / pixel sizes from 1e-9 to 1e6 with near-equal per-axis dx, 33–47 fields per wavefront; the quick tier runs one 4096×1024 FFT grid; all tolerances are relative to Σ|f_k|² resp. the target power. About 10 % of the cases are segmented pupils (3-D mask, 2-3 disjoint segments) on wider-than-tall and taller-than-wide arrays, amplitude normalised to p, imaged over one period by both propagators and judged against the plane\'s amplitude·mask power (oracle only). propagate_fft with a scratch array on critically sampled grids (FFT grid = wavefront shape, one full-frame field at offset 0: the coincident-field path of field.insert on the scratch view; 10 per quick run, 150 thorough, a leading block of 40 in the search tier). One FFT case in six asks for a shape larger than the grid allows or passes a scratch smaller than the grid (both must raise ValueError, as the C09 model does). Overlapping fields with different sub-pixel tilts are generated and judged against the power of the coherently summed ramped inputs; one-sample windows are generated for multi-field wavefronts too.')
TRUSTED = ['np.fft.fft2(norm="ortho") is the unitary DFT with origin at index 0; np.fft.fftshift / ifftshift follow their documented '
           'index maps (modelled in C09, observed through the c09.propagate_fft correspondence)',
           'np.dot / np.exp / np.abs / np.sum as written in the model; Wavefront.intensity merges coincident output fields (C06)',
           'lentil.field.reduce / field.insert as modelled in C06/C07 (Model/Plane.lean viewRun, insertArr): Wavefront.insert\'s loop is their composition, wiring regenerated (Gen.insertWiring), observed by c05.insert_weighted']
UNPROVEN = ['"images to total p" is proved for a monolithic pupil on the fresh wavefront through propagate_dft (normalized_pupil_images_to_p, amplitude vanishing outside the mask) and through propagate_fft when the whole grid is returned (normalized_pupil_images_to_p_fft); for '
            'segmented masks it is the composition with C03 segmented = monolithic, not restated; evaluated by the oracle',
            'Wavefront.insert(out, weight): proved for tilt-free fields of propagate_dft into any accumulator of the output shape (wavefront_insert_weighted_energy: every sample gains weight·|Σ fields|², over a covered period the array gains weight·input power) and run by the op c05.insert_weighted; for tilted fields and for propagate_fft outputs it is the oracle only',
            'propagate_fft_energy(_consistent) needs isotropic dx·du or a grid consistent with both samplings (C09: the FFT propagator reports one '
            'wavelength for two grids otherwise — known finding D9)']
ASSUMPTIONS = ['generator scope: sub-fields are never one element off the origin and pupil supports / segment boxes span more than one pixel — lentil treats a one-element Field as a broadcast constant, not a pixel (C06 documented rule; open known finding KF-C07-one-pixel-segment)',
               'commensurate sampling: 1/α is an integer number of samples per axis, at least the wavefront shape',
               'sample sets lie inside one period; all fields lie on the wavefront canvas (Fits)',
               'normalize_power: target p ≥ 0 and an input of non-zero, finite power (the code returns nan / inf for a zero-power input and nan for p < 0; the model\'s x/0 = 0 says nothing there) — neither is generated']

TOL = 1e-9


# ------------------------------------------------------------------------------------------ generation
def _cdata(rng, k):
    return [float(x) for x in rng.normal(size=k)], [float(x) for x in rng.normal(size=k)]

def _fields(rng, wshape):
    m, n = wshape
    if rng.integers(0, 2) == 0 or m * n == 1:
        re, im = _cdata(rng, m * n)
        return [{'shape': [m, n], 'off': [0, 0], 're': re, 'im': im}]
    out = []
    for _ in range(int(rng.integers(2, 4))):
        a = int(rng.integers(1, m + 1)); b = int(rng.integers(1, n + 1))
        # place the sub-field inside the wavefront: rows [r0, r0+a) of the m rows, origin at floor(n/2)
        r0 = int(rng.integers(0, m - a + 1)); c0 = int(rng.integers(0, n - b + 1))
        off = [r0 + a // 2 - m // 2, c0 + b // 2 - n // 2]
        if a == 1 and b == 1 and off != [0, 0]:
            a = min(2, m); b = b if a > 1 else min(2, n)      # one-element fields are broadcast constants, not pixels
            if a * b == 1: off = [0, 0]
            r0 = min(r0, m - a); c0 = min(c0, n - b); off = [r0 + a // 2 - m // 2, c0 + b // 2 - n // 2]
        re, im = _cdata(rng, a * b)
        out.append({'shape': [a, b], 'off': off, 're': re, 'im': im})
    return out

def _phys(rng):
    dx = float(rng.uniform(1e-4, 1e-2))
    if rng.integers(0, 2): dx = [dx, float(rng.uniform(1e-4, 1e-2))]          # per-axis input sampling
    return {'wl': float(rng.uniform(4e-7, 2e-6)), 'z': float(rng.uniform(0.5, 20)), 'dx': dx}

def _dx(c):
    d = c['phys']['dx']
    return (d, d) if not isinstance(d, list) else tuple(d)

def _sub(rng, s):
    """a shape ≤ s componentwise (≥ 1)"""
    return [int(rng.integers(1, s[0] + 1)), int(rng.integers(1, s[1] + 1))]

def _seg_case(rng, kmax):
    """a segmented pupil (3-D mask: one slice per segment) on a wider-than-tall or taller-than-wide array, amplitude normalised to p,
    imaged over one full period by propagate_dft and propagate_fft: the image total must be the plane's amplitude·mask power p"""
    while True:
        m, n = int(rng.integers(2, 9)), int(rng.integers(2, 9))
        if m != n or rng.integers(0, 6) == 0: break
    os_ = int(rng.integers(1, 4))
    s = [-(-m // os_) + int(rng.integers(0, 3)), -(-n // os_) + int(rng.integers(0, 3))]
    # disjoint rectangular segments: split the longer axis into 2-3 strips, each segment a box (> 1 pixel) inside its strip
    k = int(rng.integers(2, 4)); axis = 0 if m >= n else 1
    L = (m, n)[axis]
    k = min(k, L // 2) if L >= 4 else 1
    cuts = [round(i * L / k) for i in range(k + 1)]
    boxes = []
    for i in range(k):
        lo, hi = cuts[i], cuts[i + 1]
        other = (n, m)[axis]
        o0 = int(rng.integers(0, max(1, other - 1))); o1 = int(rng.integers(o0 + 1, other + 1))
        if (hi - lo) * (o1 - o0) < 2: o0, o1 = 0, other
        boxes.append([lo, hi, o0, o1] if axis == 0 else [o0, o1, lo, hi])
    return {'kind': 'seg', 'wshape': [m, n], 'os': os_, 'full': s, 'phys': _phys(rng), 'boxes': boxes,
            'amp': [float(x) for x in rng.uniform(0.5, 1.5, m * n)], 'opd': [float(x) for x in rng.normal(size=m * n) * 5e-8],
            'power': float(rng.uniform(0.5, 8.0))}

def _case(rng, kmax):
    if rng.integers(0, 10) == 0: return _seg_case(rng, kmax)
    t = int(rng.integers(0, 10))
    kind = 'dft' if t < 5 else 'fft' if t < 8 else 'norm'
    m, n = int(rng.integers(1, 6)), int(rng.integers(1, 6))
    if rng.integers(0, 6) == 0: n = m
    os_ = int(rng.integers(1, 5))
    def full(k):
        lo = -(-k // os_)
        hi = max(lo, kmax // os_)
        return int(rng.integers(lo, hi + 1))
    s = [full(m), full(n)]
    if rng.integers(0, 8) == 0: s = [-(-m // os_), -(-n // os_)]
    c = {'kind': kind, 'wshape': [m, n], 'os': os_, 'full': s, 'phys': _phys(rng)}
    if kind == 'norm':
        cplx = bool(rng.integers(0, 3) == 0)
        amp = rng.uniform(0.1, 2.0, m * n) * (rng.uniform(size=m * n) < 0.8)
        # scope (C06/C07): a pupil whose support is one pixel is a one-element Field, which lentil treats as a broadcast
        # constant (and drops when off-centre); such pupils are not generated, the support always spans > 1 pixel or all of 1x1
        if np.count_nonzero(amp) < 2: amp = rng.uniform(0.1, 2.0, m * n)
        if not cplx and rng.integers(0, 5) == 0:
            # integer-dtype amplitudes, including values whose squares do not fit the dtype (fixed in 8e13caf: squares in floating point)
            c['amp_dtype'] = ['int16', 'int32', 'uint8', 'int8'][int(rng.integers(0, 4))]
            hi = {'int16': 3000, 'int32': 60000, 'uint8': 255, 'int8': 127}[c['amp_dtype']]
            amp = np.minimum(np.round(amp * hi / 2) + 1, hi)
        if rng.integers(0, 6) == 0: c['default_power'] = True
        c.update({'amp': [float(x) for x in amp], 'amp_im': [float(x) for x in rng.normal(size=m * n)] if cplx else None,
                  'opd': [float(x) for x in rng.normal(size=m * n) * 1e-7], 'power': float(rng.uniform(0.1, 50)),
                  'via': 'fft' if rng.integers(0, 2) else 'dft'})
        if c.get('default_power'): c['power'] = 1.0
        return c
    c['fields'] = _fields(rng, (m, n))
    if rng.integers(0, 4) == 0: c['ptype'] = 'image'                          # image -> pupil direction
    if kind == 'dft':
        if rng.integers(0, 2): c['weight'] = float(rng.uniform(0.2, 5.0))
        t = int(rng.integers(0, 5))
        if t == 0: c['tilt'] = {'kind': 'common', 'shift': [float(rng.uniform(-3.7, 3.7)), float(rng.uniform(-3.7, 3.7))]}
        elif t == 1: c['tilt'] = {'kind': 'subpixel', 'shifts': None}
        w2 = _sub(rng, s) if rng.integers(0, 4) else list(s)
        how = ['shape', 'prop_shape', 'mask'][int(rng.integers(0, 3))]
        S = [w2[0] * os_, w2[1] * os_]
        if how == 'mask':
            r0 = int(rng.integers(0, S[0])); r1 = int(rng.integers(r0 + 1, S[0] + 1))
            c0 = int(rng.integers(0, S[1])); c1 = int(rng.integers(c0 + 1, S[1] + 1))
            w1 = {'how': 'mask', 'shape': w2, 'box': [r0, r1, c0, c1]}
        else:
            w1 = {'how': how, 'shape': _sub(rng, w2)}
        c['w2'] = w2; c['w1'] = w1
        if c.get('tilt', {}).get('kind') == 'subpixel':
            c['tilt']['shifts'] = [[float(rng.uniform(-0.95, 0.95)), float(rng.uniform(-0.95, 0.95))] for _ in c['fields']]
    else:
        c['crop'] = _sub(rng, s) if rng.integers(0, 2) else None
        c['scratch'] = [int(rng.integers(0, 4)), int(rng.integers(0, 4))] if rng.integers(0, 3) == 0 else None
        t = int(rng.integers(0, 12))
        if t == 0:      # a requested shape larger than the grid allows must be refused (ValueError), not silently cropped
            c['crop'] = [s[0] + int(rng.integers(1, 3)), s[1]] if rng.integers(0, 2) else [s[0], s[1] + int(rng.integers(1, 3))]; c['bad'] = 'shape'
        elif t == 1:    # a scratch buffer smaller than the grid must be refused (ValueError)
            c['scratch'] = [-int(rng.integers(1, 3)), int(rng.integers(0, 2))] if rng.integers(0, 2) else [0, -1]
            if s[0] * os_ + c['scratch'][0] < 1 or s[1] * os_ + c['scratch'][1] < 1: c['scratch'] = None
            else: c['bad'] = 'scratch'; c['crop'] = None
    return c

def _big_fft(rng, grid):
    """propagate_fft on a padded grid of millions of samples (summary only: Σ intensity = Σ|field|²)"""
    m, n = int(rng.integers(2, 5)), int(rng.integers(2, 5))
    re, im = _cdata(rng, m * n)
    return {'kind': 'fft', 'wshape': [m, n], 'os': 1, 'full': list(grid), 'phys': {'wl': 1e-6, 'z': 2.0, 'dx': 1e-3},
            'fields': [{'shape': [m, n], 'off': [0, 0], 're': re, 'im': im}], 'crop': None, 'scratch': None, 'summary': True}

def _extreme(rng, kmax):
    """the extremes stream: what a small random sample never reaches — targets within 1e-5 / 1e-8 of the current power, amplitudes and
    physical units from 1e-9 to 1e9, more than 32 fields, near-equal per-axis sampling"""
    t = int(rng.integers(0, 6))
    c = _case(rng, kmax)
    if c['kind'] == 'seg': return c
    if t in (0, 1) or c['kind'] == 'norm':
        # normalize_power with the target (almost) equal to the present power, at every amplitude scale
        m, n = c['wshape']
        k = [1.0, 1e-5, 1e-9, 1e3, 3e-5][int(rng.integers(0, 5))]
        amp = rng.uniform(0.1, 2.0, m * n) * k
        cplx = bool(rng.integers(0, 2))
        im = rng.normal(size=m * n) * k if cplx else None
        total = float(np.sum(amp ** 2) + (np.sum(im ** 2) if cplx else 0.0))
        d = [1e-6, -8e-6, 1e-7, 3e-5, 0.5, 0.0][int(rng.integers(0, 6))]
        power = total * (1 + d)
        if k <= 3e-5 and rng.integers(0, 2): power = total + float([5e-9, 9e-9, 2e-9][int(rng.integers(0, 3))])     # within 1e-8 absolute
        return {'kind': 'norm', 'wshape': [m, n], 'os': c['os'], 'full': c['full'], 'phys': c['phys'], 'amp': [float(x) for x in amp],
                'amp_im': [float(x) for x in im] if cplx else None, 'opd': [float(x) for x in rng.normal(size=m * n) * 1e-7],
                'power': float(power), 'via': 'fft' if rng.integers(0, 2) else 'dft'}
    if t == 2:      # amplitudes at 1e-9 / 1e9
        k = [1e-9, 1e9, 1e-6][int(rng.integers(0, 3))]
        for f in c['fields']: f['re'] = [x * k for x in f['re']]; f['im'] = [x * k for x in f['im']]
        return c
    if t == 3:      # physical units from nanometres to kilometres; near-equal per-axis input sampling
        dx = float([1e-9, 1e-6, 1.0, 1e3][int(rng.integers(0, 4))])
        c['phys'] = {'wl': float([1e-9, 5e-7, 1e-3, 0.21][int(rng.integers(0, 4))]), 'z': float([1e-3, 1.0, 1e6][int(rng.integers(0, 3))]),
                     'dx': [dx, dx * (1 + [1e-9, 1e-6, 1e-3][int(rng.integers(0, 3))])] if rng.integers(0, 2) else dx}
        return c
    if t == 4 and c['kind'] in ('dft', 'fft'):      # more than 32 fields (segments) on one wavefront
        m, n = 6, 8
        c['wshape'] = [m, n]; os_ = c['os']
        c['full'] = [max(c['full'][0], -(-m // os_)), max(c['full'][1], -(-n // os_))]
        fs = []
        for _ in range(int(rng.integers(33, 48))):
            a, b = (1, 2) if rng.integers(0, 2) else (2, 1)
            r0 = int(rng.integers(0, m - a + 1)); c0 = int(rng.integers(0, n - b + 1))
            re, im = _cdata(rng, a * b)
            fs.append({'shape': [a, b], 'off': [r0 + a // 2 - m // 2, c0 + b // 2 - n // 2], 're': re, 'im': im})
        c['fields'] = fs
        if c['kind'] == 'dft':
            c.pop('tilt', None); c['w2'] = list(c['full']); c['w1'] = {'how': 'shape', 'shape': [max(1, c['full'][0] - 1), c['full'][1]]}
        return c
    return c

def _critical_fft(rng):
    """propagate_fft WITH a scratch array on a critically sampled grid: the FFT grid equals the wavefront shape (no zero padding) and the
    wavefront is one full-frame field at offset (0, 0), so field.insert takes its coincident-field path on the scratch view; scratch
    of exactly the grid size or larger; whole grid or a cropped shape. The image total must still be the input power."""
    os_ = int(rng.integers(1, 4))
    a, b = int(rng.integers(1, 4)), int(rng.integers(1, 4))
    if os_ * a * os_ * b == 1: b = 2
    m, n = a * os_, b * os_
    re, im = _cdata(rng, m * n)
    s = [a, b]
    return {'kind': 'fft', 'wshape': [m, n], 'os': os_, 'full': s, 'phys': _phys(rng),
            'fields': [{'shape': [m, n], 'off': [0, 0], 're': re, 'im': im}],
            'crop': _sub(rng, s) if rng.integers(0, 3) == 0 else None,
            'scratch': [0, 0] if rng.integers(0, 2) else [int(rng.integers(0, 4)), int(rng.integers(0, 4))], 'critical': True}

def generate(rng, tier):
    n, kmax = {'quick': (200, 10), 'thorough': (3000, 16), 'search': (350, 10)}[tier]
    out = []
    if tier == 'search':                 # only run once a tie is already broken: the nasty inputs first
        out += [_critical_fft(rng) for _ in range(40)]
        out += [_seg_case(rng, kmax) for _ in range(40)] + [_extreme(rng, kmax) for _ in range(150)]
        out += [_big_fft(rng, g) for g in ((2048, 2048), (4096, 1024), (1024, 4100))]
    for i in range(n):
        out.append(_extreme(rng, kmax) if (tier != 'search' and i % 20 == 7) else _case(rng, kmax))
    if tier == 'quick': out.append(_big_fft(rng, (4096, 1024)))
    # appended after the main stream, so that the cases of existing seeds are unchanged
    if tier != 'search': out += [_critical_fft(rng) for _ in range({'quick': 10, 'thorough': 150}[tier])]
    if tier == 'thorough': out += [_extreme(rng, kmax) for _ in range(150)] + [_big_fft(rng, g) for g in ((2048, 2048), (4096, 1024))]
    return out

def signature(c):
    base = f"{c['kind']} {c['wshape']} os={c['os']} full={c['full']}"
    if c['kind'] == 'norm': return base + f" p={c['power']:.6g} via={c['via']} cplx={c['amp_im'] is not None}"
    if c['kind'] == 'seg': return base + f" seg={c['boxes']} p={c['power']:.6g}"
    fs = ' '.join(f"{f['shape']}@{f['off']}" for f in c['fields'])
    if c['kind'] == 'dft': return base + f" {fs} w2={c['w2']} w1={c['w1']} t={c.get('tilt')} w={c.get('weight')} p={c.get('ptype')}"
    return base + f" {fs} crop={c['crop']} scratch={c['scratch']} bad={c.get('bad')}"

def nontrivial(c):
    if c['kind'] == 'seg': return True
    K, L = c['full'][0] * c['os'], c['full'][1] * c['os']
    return not (K == L and c['wshape'][0] == c['wshape'][1] and c['kind'] != 'norm' and len(c['fields']) == 1)

def tags(c):
    K, L = c['full'][0] * c['os'], c['full'][1] * c['os']
    t = [c['kind'], f"os={c['os']}"]
    if c['kind'] == 'seg':
        t.append('seg:' + ('wide' if c['wshape'][1] > c['wshape'][0] else 'tall' if c['wshape'][0] > c['wshape'][1] else 'square'))
        t.append(f"seg:n={len(c['boxes'])}"); return t
    if K != L: t.append('K!=L')
    if K % 2 or L % 2: t.append('odd-period')
    if K > c['wshape'][0] or L > c['wshape'][1]: t.append('period>input')
    if c['kind'] != 'norm' and len(c['fields']) > 1: t.append('multi-field')
    if c['kind'] == 'dft': t.append('w1:' + c['w1']['how'])
    if c.get('ptype') == 'image': t.append('image->pupil')
    if isinstance(c['phys']['dx'], list): t.append('per-axis-dx')
    if 'weight' in c: t.append('insert-weight')
    if 'tilt' in c: t.append('tilt:' + c['tilt']['kind'])
    if c['kind'] == 'fft':
        if c['crop']: t.append('fft:crop')
        if c['scratch']: t.append('fft:scratch')
        if c.get('critical'): t.append('fft:critical-grid+scratch')
        if c.get('bad'): t.append('fft:refused-' + c['bad'])
    if c['kind'] == 'norm': t.append('norm:' + ('complex' if c['amp_im'] is not None else 'pupil-' + c['via']))
    if c.get('summary'): t.append('fft-grid>=2048^2')
    if c['kind'] != 'norm' and len(c['fields']) > 32: t.append('fields>32')
    return t


# ------------------------------------------------------------------------------------------ implementation
def _fdata(f): return (np.array(f['re']) + 1j * np.array(f['im'])).reshape(f['shape'])

def _du(c):
    p = c['phys']; dx = _dx(c)
    return (p['wl'] * p['z'] / (dx[0] * c['full'][0]), p['wl'] * p['z'] / (dx[1] * c['full'][1]))

class _FixedShift:
    """tilt-interface stub: adds a prescribed focal-plane displacement (x, y); Field.shift turns it into (row, col) samples"""
    def __init__(self, x, y): self.x, self.y = x, y
    def shift(self, xs=0, ys=0, z=0, wavelength=None, **kw): return xs + self.x, ys + self.y

def _shifts(c):
    """total (row, col) shift of every field in output samples"""
    t = c.get('tilt')
    if not t: return [[0.0, 0.0] for _ in c['fields']]
    if t['kind'] == 'common': return [list(t['shift']) for _ in c['fields']]
    return [list(x) for x in t['shifts']]

def _wavefront(c):
    import lentil
    from lentil.field import Field
    p = c['phys']; dx = _dx(c); du = _du(c); os_ = c['os']
    w = lentil.Wavefront.empty(wavelength=p['wl'], pixelscale=dx, focal_length=p['z'], shape=tuple(c['wshape']),
                               ptype=lentil.image if c.get('ptype') == 'image' else lentil.pupil)
    w.data = []
    for f, (sr, sc) in zip(c['fields'], _shifts(c)):
        # Field.shift: (row, col) = (-(y / du0 * os), x / du1 * os)
        tilt = [_FixedShift(sc * du[1] / os_, -sr * du[0] / os_)] if (sr, sc) != (0.0, 0.0) else None
        w.data.append(Field(data=_fdata(f), pixelscale=dx, offset=list(f['off']), tilt=tilt))
    return w

def _I(w, summary=False):
    a = np.asarray(w.intensity, dtype=float)
    if summary:      # big grids: only what the energy statement needs
        return {'shape': list(a.shape), 'sum': float(a.sum()), 'min': float(a.min()) if a.size else 0.0, 'finite': bool(np.all(np.isfinite(a)))}
    return {'shape': list(a.shape), 'v': [float(x) for x in a.ravel()]}

def impl(c):
    lentil = vlib.import_lentil()
    du = _du(c); os_ = c['os']
    if c['kind'] == 'dft':
        w = _wavefront(c)
        full = lentil.propagate_dft(w, pixelscale=du, shape=tuple(c['full']), oversample=os_)
        w2 = lentil.propagate_dft(_wavefront(c), pixelscale=du, shape=tuple(c['w2']), oversample=os_)
        w1d = c['w1']
        if w1d['how'] == 'shape':
            w1 = lentil.propagate_dft(_wavefront(c), pixelscale=du, shape=tuple(w1d['shape']), oversample=os_)
        elif w1d['how'] == 'prop_shape':
            w1 = lentil.propagate_dft(_wavefront(c), pixelscale=du, shape=tuple(c['w2']), prop_shape=tuple(w1d['shape']), oversample=os_)
        else:
            r0, r1, c0, c1 = w1d['box']
            mask = np.zeros((c['w2'][0] * os_, c['w2'][1] * os_)); mask[r0:r1, c0:c1] = 1
            w1 = lentil.propagate_dft(_wavefront(c), pixelscale=du, shape=tuple(c['w2']), mask=mask, oversample=os_)
        res = {'full': _I(full), 'w2': _I(w2), 'w1': _I(w1)}
        if 'weight' in c:
            base = 0.25 * float(np.max(full.intensity)) if np.size(full.intensity) else 0.25       # a non-empty accumulator
            acc = np.full(tuple(np.asarray(full.shape)), base)
            got = full.insert(acc, weight=c['weight'])
            res['weighted'] = {'shape': list(got.shape), 'v': [float(x) for x in (np.asarray(got) - base).ravel()], 'base': base}
        if c.get('tilt', {}).get('kind') == 'common':
            mg = _margin(c)
            big = lentil.propagate_dft(_wavefront(c), pixelscale=du, shape=(c['full'][0] + mg[0], c['full'][1] + mg[1]),
                                       prop_shape=tuple(c['full']), oversample=os_)
            res['tfull'] = _I(big)
        return res
    if c['kind'] == 'fft':
        K, L = c['full'][0] * os_, c['full'][1] * os_
        kw = {}
        if c['scratch'] is not None:
            kw['scratch'] = np.full((K + c['scratch'][0], L + c['scratch'][1]), 3.0 + 1.0j, dtype=complex)
        if c.get('bad'):
            try:
                if c['bad'] == 'shape': lentil.propagate_fft(_wavefront(c), pixelscale=du, shape=tuple(c['crop']), oversample=os_, **kw)
                else: lentil.propagate_fft(_wavefront(c), pixelscale=du, oversample=os_, **kw)
                return {'refusal': {'exc': None}}
            except Exception as e:
                return {'refusal': {'exc': type(e).__name__, 'msg': str(e)[:120]}}
        full = lentil.propagate_fft(_wavefront(c), pixelscale=du, oversample=os_, **kw)
        if c.get('summary'): return {'full': _I(full, True)}
        res = {'full': _I(full)}
        if c['crop']:
            res['crop'] = _I(lentil.propagate_fft(_wavefront(c), pixelscale=du, shape=tuple(c['crop']), oversample=os_, **kw))
        return res
    if c['kind'] == 'seg':
        m, n = c['wshape']; p = c['phys']
        masks = np.zeros((len(c['boxes']), m, n))
        for k, (r0, r1, c0, c1) in enumerate(c['boxes']): masks[k, r0:r1, c0:c1] = 1
        if len(c['boxes']) == 1: masks = masks[0]
        union = masks if masks.ndim == 2 else masks.sum(axis=0)
        amp = lentil.util.normalize_power(np.array(c['amp']).reshape(m, n) * union, c['power'])
        pupil = lentil.Pupil(amplitude=amp, opd=np.array(c['opd']).reshape(m, n), mask=masks, pixelscale=_dx(c), focal_length=p['z'])
        w = lentil.Wavefront(wavelength=p['wl']) * pupil
        res = {'plane_shape': [int(x) for x in pupil.shape], 'wf_shape': [int(x) for x in w.shape], 'n_fields': len(w.data),
               'plane_power': float(np.sum(np.abs(amp * union) ** 2)), 'field_power': float(np.sum(np.abs(w.field) ** 2))}
        res['dft'] = _I(lentil.propagate_dft(w, pixelscale=du, shape=tuple(c['full']), oversample=os_), True)
        w2 = lentil.Wavefront(wavelength=p['wl']) * pupil
        res['fft'] = _I(lentil.propagate_fft(w2, pixelscale=du, oversample=os_), True)
        return res
    # normalize_power
    m, n = c['wshape']; p = c['phys']
    amp = np.array(c['amp']).reshape(m, n)
    if c.get('amp_dtype'): amp = amp.astype(c['amp_dtype'])
    npow = (lambda a: lentil.util.normalize_power(a)) if c.get('default_power') else (lambda a: lentil.util.normalize_power(a, c['power']))
    if c['amp_im'] is not None:
        a = npow(amp + 1j * np.array(c['amp_im']).reshape(m, n))
        return {'a': {'re': [float(x) for x in a.real.ravel()], 'im': [float(x) for x in a.imag.ravel()]}}
    a = npow(amp)
    pupil = lentil.Pupil(amplitude=a, opd=np.array(c['opd']).reshape(m, n), pixelscale=_dx(c), focal_length=p['z'])
    w = lentil.Wavefront(wavelength=p['wl']) * pupil
    if c['via'] == 'dft': out = lentil.propagate_dft(w, pixelscale=du, shape=tuple(c['full']), oversample=os_)
    else: out = lentil.propagate_fft(w, pixelscale=du, oversample=os_)
    return {'a': {'re': [float(x) for x in np.real(a).ravel()], 'im': [float(x) for x in np.imag(a).ravel()]}, 'image': _I(out)}


# ------------------------------------------------------------------------------------------ model requests / comparison
def _fld_req(f):
    return {'shape': f['shape'], 'off': f['off'], 're': [fbits(x) for x in f['re']], 'im': [fbits(x) for x in f['im']]}

def _margin(c):
    """extra output shape (per axis, in detector pixels) so that the period displaced by the common tilt stays on the canvas"""
    sh = c['tilt']['shift']; os_ = c['os']
    return [2 * (-(-int(abs(np.fix(sh[0]))) // os_)) + 2, 2 * (-(-int(abs(np.fix(sh[1]))) // os_)) + 2]

def _window(S, obox, P, fix):
    """evaluated window of propagate_dft in canvas index coordinates: out box ∩ (prop box of size P centred at fix) ∩ canvas;
    None when empty. Independent restatement of the extent logic (origin at floor(n/2))."""
    out = []
    for k in (0, 1):
        lo = max(obox[2 * k], S[k] // 2 + fix[k] - P[k] // 2, 0)
        hi = min(obox[2 * k + 1], S[k] // 2 + fix[k] - P[k] // 2 + P[k], S[k])
        if lo >= hi: return None
        out += [lo, hi]
    return tuple(out)

def _boxes(c):
    """[(name, canvas shape, window in canvas index coordinates or None)] for the propagate_dft calls of the case"""
    os_ = c['os']
    fix = [int(np.fix(x)) for x in _shifts(c)[0]]          # all fields of a case share the integer part
    K, L = c['full'][0] * os_, c['full'][1] * os_
    S2 = (c['w2'][0] * os_, c['w2'][1] * os_)
    whole = lambda S: (0, S[0], 0, S[1])
    out = [('full', (K, L), _window((K, L), whole((K, L)), (K, L), fix)), ('w2', S2, _window(S2, whole(S2), S2, fix))]
    w1 = c['w1']
    if w1['how'] == 'shape':
        S1 = (w1['shape'][0] * os_, w1['shape'][1] * os_); out.append(('w1', S1, _window(S1, whole(S1), S1, fix)))
    elif w1['how'] == 'prop_shape':
        P = (w1['shape'][0] * os_, w1['shape'][1] * os_); out.append(('w1', S2, _window(S2, whole(S2), P, fix)))
    else:
        out.append(('w1', S2, _window(S2, tuple(w1['box']), S2, fix)))
    if c.get('tilt', {}).get('kind') == 'common':
        mg = _margin(c); Sb = ((c['full'][0] + mg[0]) * os_, (c['full'][1] + mg[1]) * os_)
        out.append(('tfull', Sb, _window(Sb, whole(Sb), (K, L), fix)))
    return out

def _calls(c):
    """the propagate_dft calls of a dft case: (name, shape, prop_shape, mask box or None) in detector pixels / canvas indices"""
    out = [('full', c['full'], c['full'], None), ('w2', c['w2'], c['w2'], None)]
    w1 = c['w1']
    if w1['how'] == 'shape': out.append(('w1', w1['shape'], w1['shape'], None))
    elif w1['how'] == 'prop_shape': out.append(('w1', c['w2'], w1['shape'], None))
    else: out.append(('w1', c['w2'], c['w2'], w1['box']))
    if c.get('tilt', {}).get('kind') == 'common':
        mg = _margin(c); out.append(('tfull', [c['full'][0] + mg[0], c['full'][1] + mg[1]], c['full'], None))
    return out

def requests(c, io):
    if c.get('summary') or c['kind'] == 'seg': return []          # oracle only (too large / Plane.multiply is C03/C07's model)
    os_ = c['os']
    K, L = c['full'][0] * os_, c['full'][1] * os_
    if c['kind'] == 'dft':
        # the C02 propagation model itself (Gen.dftWindow, Gen.maskShape/maskShift, dftAlpha): the window arithmetic is the
        # regenerated kernel, not a restatement by this harness; only np.fix (truncation) is restated for the shift split
        dx = _dx(c); du = _du(c); p = c['phys']
        fs = []
        for f, sh in zip(c['fields'], _shifts(c)):
            fx = [int(np.fix(sh[0])), int(np.fix(sh[1]))]
            fs.append({**_fld_req(f), 'fix': fx, 'sub': [fbits(sh[0] - fx[0]), fbits(sh[1] - fx[1])]})
        reqs = []
        for (_, shape, prop, box) in _calls(c):
            r = {'op': 'c02.propagate_dft', 'fields': fs, 'dx': [fbits(dx[0]), fbits(dx[1])], 'du': [fbits(du[0]), fbits(du[1])],
                 'wl': fbits(p['wl']), 'z': fbits(p['z']), 'os': os_, 'shape': list(shape), 'prop_shape': list(prop)}
            if box is not None: r['mask'] = [box[0], box[1] - 1, box[2], box[3] - 1]
            reqs.append(r)
        if 'weighted' in io:
            # Wavefront.insert(acc, weight): the C02 model's fields of the full call accumulated by the C07 model wfInsert (regenerated
            # loop wiring Gen.insertWiring + field.insert's accumulation statement) into the same constant accumulator
            reqs.append({**reqs[0], 'op': 'c05.insert_weighted', 'base': fbits(io['weighted']['base']), 'weight': fbits(c['weight'])})
        return reqs
    if c['kind'] == 'fft':
        # the C09 model of propagate_fft itself (generated _fft_shape / guards / scratch regions, padding, _fft2, crop)
        dx = _dx(c); du = _du(c); p = c['phys']
        base = {'op': 'c09.propagate_fft', 'fields': [_fld_req(f) for f in c['fields']], 'ntilt': [0] * len(c['fields']), 'wshape': c['wshape'],
                'dx': [fbits(dx[0]), fbits(dx[1])], 'du': [fbits(du[0]), fbits(du[1])], 'wl': fbits(p['wl']), 'z': fbits(p['z']), 'os': os_,
                'scratch': None}
        if c['scratch'] is not None:
            sh = [K + c['scratch'][0], L + c['scratch'][1]]
            base['scratch'] = {'shape': sh, 're': [fbits(3.0)] * (sh[0] * sh[1]), 'im': [fbits(1.0)] * (sh[0] * sh[1])}
        if c.get('bad'): return [{**base, 'shape': list(c['crop']) if c['bad'] == 'shape' else None}]
        reqs = [{**base, 'shape': None}]
        if c['crop']: reqs.append({**base, 'shape': list(c['crop'])})
        return reqs
    im = c['amp_im'] if c['amp_im'] is not None else [0.0] * len(c['amp'])
    return [{'op': 'c05.normalize', 'shape': c['wshape'], 're': [fbits(x) for x in c['amp']], 'im': [fbits(x) for x in im],
             'power': fbits(c['power']), **({'default': True} if c.get('default_power') else {})}]

def _power(c):
    """Σ|field|² of the input wavefront: coherent sum of the embeddings (independent of lentil)"""
    m, n = c['wshape']
    cv = np.zeros((m, n), dtype=complex)
    K, L = c['full'][0] * c['os'], c['full'][1] * c['os']
    shifts = _shifts(c) if (c['kind'] == 'dft' and c.get('tilt')) else [[0.0, 0.0]] * len(c['fields'])
    for f, (sr, sc) in zip(c['fields'], shifts):
        a, b = f['shape']; r0 = f['off'][0] - a // 2 + m // 2; c0 = f['off'][1] - b // 2 + n // 2
        d = _fdata(f)
        if (sr, sc) != (0.0, 0.0):
            # a tilted field is the field times its phase ramp exp(2πi(α_r X s_r + α_c Y s_c)), X = row − ⌊a/2⌋ + offset (α = 1/K, 1/L):
            # differently tilted, overlapping fields interfere — this is the input power the image total must equal
            X = (np.arange(a) - a // 2 + f['off'][0])[:, None]; Y = (np.arange(b) - b // 2 + f['off'][1])[None, :]
            d = d * np.exp(2j * np.pi * (X * sr / K + Y * sc / L))
        cv[r0:r0 + a, c0:c0 + b] += d
    return float(np.sum(np.abs(cv) ** 2))

def _scale(c):
    """Σ_k Σ|f_k|²: the magnitude rounding errors scale with (tolerances are relative to it: nano- and giga-scale amplitudes
    are judged alike)"""
    return max(float(sum(np.sum(np.abs(_fdata(f)) ** 2) for f in c['fields'])), 1e-300)

def _arr(d): return np.array(d['v'], dtype=float).reshape(d['shape'])
def _marr(d): return np.array([bitsf(x) for x in d['v']], dtype=float).reshape(d['shape'])

def compare(c, io, mo):
    if c.get('summary') or c['kind'] == 'seg': return None
    if c.get('bad'):
        m = mo[0]
        want = None if m.get('ok') else m.get('err')
        return None if io['refusal']['exc'] == want else f"propagate_fft refusal: implementation {io['refusal']['exc']}, model {want}"
    for m in mo:
        if not m.get('ok'): return f"model refused: {m.get('err')}"
    if c['kind'] == 'dft':
        tol = TOL * _scale(c)
        for (name, shape, _, _), m in zip(_calls(c), mo):
            got = _arr(io[name])
            cv = m['canvas']
            want = (np.array([bitsf(x) for x in cv['re']]) ** 2 + np.array([bitsf(x) for x in cv['im']]) ** 2).reshape(cv['shape'])
            if got.shape != want.shape: return f'{name}: intensity shape {got.shape}, model canvas {want.shape}'
            d = float(np.max(np.abs(got - want)))
            if not d <= tol: return f'{name}: max |impl - model| intensity = {d:.3e} > {tol:.1e}'
        if 'weighted' in io:
            m = mo[len(_calls(c))]['acc']
            base = io['weighted']['base']; w = c['weight']
            if any(bitsf(x) != 0.0 for x in m['im']): return 'Wavefront.insert model: the accumulator acquired an imaginary part'
            want = np.array([bitsf(x) for x in m['re']]).reshape(m['shape']) - base
            got = _arr(io['weighted'])
            if got.shape != want.shape: return f'Wavefront.insert(weight): shape {got.shape}, model {want.shape}'
            d = float(np.max(np.abs(got - want)))
            if not d <= tol * max(1.0, w) + 1e-14 * base * max(1.0, w): return f'Wavefront.insert(weight={w}): max |impl - model| = {d:.3e}'
        return None
    if c['kind'] == 'fft':
        tol = TOL * _scale(c)
        K, L = c['full'][0] * c['os'], c['full'][1] * c['os']
        for name, m in zip(['full'] + (['crop'] if c['crop'] else []), mo):
            if m.get('fft_shape') != [K, L]: return f"fft {name}: model grid {m.get('fft_shape')}, period {[K, L]}"
            cv = m['canvas']
            want = (np.array([bitsf(x) for x in cv['re']]) ** 2 + np.array([bitsf(x) for x in cv['im']]) ** 2).reshape(cv['shape'])
            got = _arr(io[name])
            if got.shape != want.shape: return f'fft {name}: shape {got.shape} vs model {want.shape}'
            d = float(np.max(np.abs(got - want)))
            if not d <= tol: return f'fft {name}: max |impl - model| intensity = {d:.3e} > {tol:.1e}'
        return None
    a = np.array(io['a']['re']) + 1j * np.array(io['a']['im'])
    m = mo[0]['a']; b = np.array([bitsf(x) for x in m['re']]) + 1j * np.array([bitsf(x) for x in m['im']])
    d = float(np.max(np.abs(a - b)))
    tol = TOL * max(float(np.max(np.abs(a))), float(np.max(np.abs(b))), 1e-300)
    return None if d <= tol else f'normalize_power: max |impl - model| = {d:.3e} > {tol:.1e}'


# ------------------------------------------------------------------------------------------ oracle (real code only)
def oracle(c, io):
    if c['kind'] == 'seg':
        p = c['power']; m, n = c['wshape']
        if io['plane_shape'] != [m, n]: return f"segmented plane of array shape {[m, n]} reports shape {io['plane_shape']}"
        if io['wf_shape'] != [m, n]: return f"wavefront after the segmented pupil has shape {io['wf_shape']}, expected {[m, n]}"
        if io['n_fields'] != len(c['boxes']): return f"{len(c['boxes'])} segments gave {io['n_fields']} fields"
        if not abs(io['plane_power'] - p) <= TOL * p: return f"amplitude·mask power is {io['plane_power']}, normalised to {p}"
        if not abs(io['field_power'] - p) <= TOL * p: return f"Σ|Wavefront.field|² = {io['field_power']!r} but the plane's amplitude·mask power is {p!r} (segments clipped?)"
        K, L = c['full'][0] * c['os'], c['full'][1] * c['os']
        for via in ('dft', 'fft'):
            d = io[via]
            if d['shape'] != [K, L]: return f"propagate_{via}: image shape {d['shape']}, expected one period {[K, L]}"
            if not d['finite'] or d['min'] < 0: return f'propagate_{via}: negative or non-finite intensity'
            if not abs(d['sum'] - p) <= TOL * p:
                return f"segmented pupil {[m, n]} (power {p!r}) images to total {d['sum']!r} via propagate_{via} over the full period {[K, L]}"
        return None
    if c['kind'] == 'norm':
        a = np.array(io['a']['re']) + 1j * np.array(io['a']['im']); p = c['power']
        pw = float(np.sum(np.abs(a) ** 2))
        if not abs(pw - p) <= TOL * p: return f'normalize_power(…, {p!r}) has power {pw!r} (input power {float(np.sum(np.array(c["amp"]) ** 2 + (np.array(c["amp_im"]) ** 2 if c["amp_im"] is not None else 0)))!r})'
        if 'image' in io:
            I = _arr(io['image'])
            if I.size and I.min() < 0: return f'negative intensity {I.min()}'
            if not abs(I.sum() - p) <= TOL * p: return f"normalised pupil (power {p}) images to total {I.sum()} via {c['via']}"
        return None
    if c.get('bad'):
        if io['refusal']['exc'] != 'ValueError':
            return (f"propagate_fft accepted a {'shape ' + str(c['crop']) + ' larger than the grid allows' if c['bad'] == 'shape' else 'scratch smaller than the grid'}"
                    f" (raised {io['refusal']['exc']})")
        return None
    P = _power(c); tol = TOL * _scale(c)
    if c.get('summary'):
        d = io['full']
        if not d['finite'] or d['min'] < 0: return f"fft grid {d['shape']}: negative or non-finite intensity"
        if not abs(d['sum'] - P) <= tol:
            return f"fft full period {d['shape']} ({d['shape'][0] * d['shape'][1]} samples): Σ intensity = {d['sum']!r} but Σ|field|² = {P!r}"
        return None
    for k, d in io.items():
        I = _arr(d)
        if I.size and I.min() < 0: return f'{k}: negative intensity {I.min()}'
    full = _arr(io['full'])
    fix = [int(np.fix(x)) for x in _shifts(c)[0]] if c['kind'] == 'dft' else [0, 0]
    displaced = fix != [0, 0]
    if not displaced and not abs(full.sum() - P) <= tol:
        return f"{c['kind']} full period {list(full.shape)}: Σ intensity = {full.sum()!r} but Σ|field|² = {P!r}"
    if displaced and not full.sum() <= P + tol:
        return f'tilted field: the clipped period has more energy ({full.sum()}) than the input ({P})'
    if 'tfull' in io:
        e = _arr(io['tfull']).sum()
        if not abs(e - P) <= tol: return f"tilted field (shift {c['tilt']['shift']}): Σ intensity over the displaced period = {e!r} but Σ|field|² = {P!r}"
    if 'weighted' in io:
        d = float(np.max(np.abs(_arr(io['weighted']) - c['weight'] * full)))
        if not d <= tol * max(1.0, c['weight']) + 1e-14 * io['weighted'].get('base', 0.25) * max(1.0, c['weight']): return f"Wavefront.insert(weight={c['weight']}) differs from weight·intensity by {d:.3e}"
    if c['kind'] == 'dft':
        e2, e1 = _arr(io['w2']).sum(), _arr(io['w1']).sum()
        if not (e1 <= e2 + tol and e2 <= P + tol): return f'window energies not monotone: E(W1)={e1}, E(W2)={e2}, input power={P}'
        # a window only selects samples of the full-period image (compared where the full-period call evaluated them)
        K, L = full.shape
        fb = _boxes(c)[0][2]
        for (name, S, b) in _boxes(c)[1:]:
            got = _arr(io[name])
            if got.shape != tuple(S): return f'{name}: intensity shape {got.shape}, expected {tuple(S)}'
            if b is None or fb is None: continue
            for i in range(b[0], b[1]):
                for j in range(b[2], b[3]):
                    r, q = i - S[0] // 2 + K // 2, j - S[1] // 2 + L // 2
                    if fb[0] <= r < fb[1] and fb[2] <= q < fb[3] and not abs(got[i, j] - full[r, q]) <= tol:
                        return f'{name}: sample ({i},{j}) differs from the same sample of the full-period image by {abs(got[i, j] - full[r, q]):.3e}'
    else:
        if c['crop']:
            e = _arr(io['crop']).sum()
            if not e <= P + tol: return f'cropped FFT image has more energy ({e}) than the input ({P})'
    return None
