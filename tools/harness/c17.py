"""C17 — resampling a plane changes its sampling, not its optics.

Tie: Model/Rescale.lean (shape = ceil(n*s), pixel scale = px/s, coordinate map, identity at scale 1) is run at exact
rationals by the driver and compared with the attributes of the plane returned by the real Plane.rescale/resample;
Gen/Effects.lean (effect-site scan) carries "original untouched". The interpolation-accuracy clause (power and image
preserved) has no theorem: it is measured here on smooth apertures with tolerances the unchanged tree meets with margin."""
import math, warnings
from fractions import Fraction as Fr
import numpy as np
from harness.common import *
import vlib

LEVEL_TEXT = ('partial. Lean 4 theorems (exact arithmetic): rescaling by s divides each axis of the pixel scale by exactly s (absent stays absent); '
              'resample refuses exactly planes without / with non-uniform pixel scale, otherwise yields the requested pixel scale, and is '
              'invariant under the unit of length; arrays get ceil(n*s) samples; the physical extent is preserved to within one new sample (per axis for a per-axis pixel scale); the grid overshoots the input sample centres by less than half an input pixel (grid_rim_bounds); the '
              'interpolation grid is uniform with spacing 1/s and maps centre to centre; at s = 1 every output sample is interpolated at its own '
              'integer coordinate, so the operation is the identity for any interpolator reproducing samples there; a constant aperture keeps its '
              'power up to the one-sample rim (n0 n1 a^2 <= P\' <= (n0+1/s)(n1+1/s) a^2) because the amplitude is divided by s; on the regenerated grid (order 0, mode constant) every resampled mask layer '
              'takes only the values 0/1, the number of layers is kept and, at samples whose coordinate lies inside the input array, the union of disjoint segments is the resampled union (resampled_layers_binary_count_union); disjoint segments stay disjoint on the whole output grid (segments_stay_disjoint_on_grid), also after the post-mask factor of util.rescale (segments_stay_disjoint_with_postmask), and on the rim beyond the first/last input sample every segment is zero (a border-filling mask loses its trailing rim: all-ones 5x5 at s = 2 keeps 81 of 100); a plane rescaled by 1 keeps pixel scale, factors, shape and samples every array at its own integer coordinates (plane_rescale_one_is_identity); s then 1/s returns pixel scale and (for integer n*s) shape; the grid of util.rescale is REGENERATED from the source (each axis centred and sized with its own lengths); the original is untouched (regenerated effect table); the explicit shape= argument of util.rescale (scalar and pair branches REGENERATED: Gen.rescaleCeilArgScalar/rescaleCeilArgPair) gives ceil(m*s) samples per axis from its own entry, equals the default for the own shape of the image (rescale_explicit_shape) and changes the field of view only — same coordinates shifted by c samples when the sizes differ by 2c, m input samples covered to within one output sample (explicit_shape_same_sampling); complex images are interpolated part by part on the same grid under the support of img != 0 and agree with the real path when the imaginary part vanishes (complex_rescale_by_parts, over the regenerated Gen.rescaleComplexParts). Compared with the code on every case: shapes, '
              'per-axis pixel scale, the amplitude factor 1/s on top of util.rescale, the whole interpolation grid, refusals. Power/image/amplitude/OPD '
              'preservation "to interpolation accuracy" is measured, not proved.')
LEVEL_NOTE = ('partial: bookkeeping theorems over a hand model whose grid (shape argument, row/column coordinates, coordinate order) is regenerated from util.py (Gen/RescaleGrid.lean, now including the shape= scalar/pair branches, the complex real/imag branch and the interpolation keyword options, exercised by a direct util.rescale stream: explicit shapes compared with the model op rs.coords_arg, complex results with an independent scipy part-by-part reference); the wiring of Plane.rescale/resample (copy, ndim guards, /scale, interpolation options, binarise/cast/slice, per-axis pixel scale, guards) is regenerated too (Gen/PlaneRescale.lean, plane_rescale_wiring); cubic-spline interpolation accuracy (scipy map_coordinates) is an '
              'external analytic fact — unproven clause, measured on smooth apertures; the sample count follows float64 semantics of ceil(n*s) at the '
              'float seam (ASSUMPTIONS); segment coverage is oracle-only.')
TECHNIQUE = 'Lean 4 proof (ordered-field algebra with Int.ceil) over a hand model + differential correspondence at exact rationals; measured interpolation clause'
GEN = ['Effects', 'Extent', 'FieldDispatch', 'FieldIdx', 'FieldMerge', 'PlaneRescale', 'RescaleGrid']     # every Gen module the model, lemmas, theorems and driver ops import (transitively)
OPS = ['C17']
RULE = ('histories (8 per quick run, 60 per search): the plane is first rescaled, in the same process, by ANOTHER scale factor with the same output shape (result discarded), then the judged rescale/resample runs and is held to every clause; direct util.rescale calls (30 per quick run) on 12..32 grids with shape= absent / scalar / pair (half to 7 more than the image), real or complex (amplitude times exp(i phase)) smooth images, order 1/3, mode nearest/constant; cases: planes with smooth (super-Gaussian edge) amplitude and low-order polynomial OPD on grids 24..56 (even/odd, non-square), '
        'monolithic or 2..3 segment masks, float or integer mask dtype, uniform / per-axis (px, 1.5 px) / absent pixel scale, scalar '
        'amplitude or OPD, planes already carrying recorded tilt, already rescaled planes (rescale of a rescale), dyadic scale factors '
        '0.5..4 incl. non-integers and 1, resample to target pixel scales and resample refusals (no / non-uniform pixel scale); after '
        'every call the RESULT is worked on in place (fit_tilt(inplace), += on opd/amplitude, tilt.append, mask overwrite, opd '
        'assignment) and the original is compared again (bytes, tilt list, slices, memory sharing); the interpolation grid is read '
        'back from the code by rescaling linear ramps and compared with the model grid sample by sample; distinct = (shape, '
        'segments, scale, kind, pixel-scale mode, scalar flags); non-trivial = scale != 1 or segmented or non-square or refusal')
TRUSTED = ['scipy.ndimage.map_coordinates reproduces the samples at integer coordinates (hypothesis of rescale_one_is_identity; observed to 1e-12) '
           'and its order-1 interpolant reproduces linear ramps (used to read the grid back)',
           'float64 multiplication n*s and division px/s as performed by NumPy (the model receives the float product, see ASSUMPTIONS: float seam)']
UNPROVEN = ['transmitted power sum|amplitude|^2 is preserved to interpolation accuracy: measured (relative tolerance 2e-3 down-sampling, '
            '1e-3 otherwise, on apertures smooth on the grid; the unchanged tree stays below 2e-4)',
            'rescaled amplitude (times s) and OPD equal the generating aperture/surface functions on the new grid (registration about the '
            'geometric centre): measured on every case (tolerances 1e-2 / 5e-2 of the OPD scale; unchanged tree below 1.4e-3 / 8e-3)',
            'the propagated image at a fixed output sampling is preserved to interpolation accuracy: measured (peak-normalised tolerance 3e-3; unchanged tree below 3e-4)',
            'which arrays Plane.rescale interpolates and that it leaves the original untouched under later in-place work on the result: '
            'modelled (Model/Rescale.lean planePixelscale/amplitudeFactor/interpolated) and compared (amplitude factor observed against util.rescale of the original), original-untouched via the regenerated '
            'effect table (copy.copy counts as sharing) plus snapshots; not a theorem about NumPy',
            'segment masks stay non-empty and cover the aperture support: oracle only; disjointness is proved on the regenerated grid (segments_stay_disjoint_on_grid) under the nearest-sample contract of map_coordinates(order=0, mode=constant), which is trusted',
            'hard-edged and border-filling apertures are outside the quantifier of the measured clauses: generated with loose tolerances, bookkeeping and the exact constant-aperture power bound are checked on them']
ASSUMPTIONS = ['apertures and OPDs are smooth on the sampling grid (property quantifier)',
               'util.rescale is modelled and exercised as Plane.rescale calls it (unitary=False, mask=None) and, since wave 12, directly with shape= (scalar / pair) and complex input '
               '(orders 1 and 3, modes nearest and constant); its default unitary=True renormalisation and the mask= argument are not modelled here (unitary=True is exercised by C19 pixelate); '
               'non-integer or negative shape= entries are not generated',
               'mask support does not touch the array border: the half-pixel rim beyond the first/last sample centre is outside the array for the mask\'s '
               'mode=\'constant\' (deliberate: outside the array there is no aperture), so an aperture filling the array loses about 3 % of its mask samples at '
               's = 2 (all-ones 5x5: 81 of 100) and a segment living ONLY on border pixels can come back empty (Plane.rescale then raises IndexError in '
               '_plane_slice: 3x3 plane with 4 label segments at s = 1.25); generated segments always have interior pixels',
               'FLOAT SEAM of the documented formula: the sample count is ceil(fl(n*s)) with the product formed in float64. For non-dyadic s it '
               'differs by one from the exact ceil(n*s) (s the float) exactly when n*s is within an ulp of an integer — e.g. 30 samples x 1.1 give 33 '
               '(exact 34, decimal intent 33), 50 x 1.1 give 56 (exact 56, decimal intent 55), resample of 27 samples 2e-4 -> 3e-4 gives 19 (s = '
               '0.6666666666666667 > 2/3). The extent clause then holds up to float rounding (new - old extent within [-1e-12 rel, one new sample]); '
               'judged float semantics of the formula, not a violation: model and oracle take ceil of the float64 product (driver receives fl(n*s)); '
               'cases where it differs from the exact ceiling are tagged float-seam in the input distribution; theorems are about exact arithmetic']

SCALES = [0.5, 0.75, 1.0, 1.25, 1.5, 2.0, 2.5, 3.0, 4.0]
DECIMAL_SCALES = [1.1, 2.2, 0.7, 3.7, 0.9, 1.3, 2.6, 0.55]      # non-dyadic: n*s is formed in float64 and can land on either side of an integer

def gen_extreme(rng):
    """seams: nano-scale and huge pixel scales (absolute tolerances bite there), target pixel scales a hair away from the current one,
    planes with more than 54 segments, large one-dimension-like grids"""
    t = int(rng.integers(0, 4))
    base = {'kind': 'rescale', 'segments': 1, 'pxmode': 'uniform', 'hseed': int(rng.integers(0, 2**31)), 'amp_scalar': False, 'opd_scalar': False,
            'pre_tilt': False, 'int_mask': False, 'twice': False, 'propagate': False}
    if t == 0:      # many segments
        S = int(rng.choice([56, 60, 64, 70]))
        return {**base, 'shape': [int(rng.integers(24, 30)), int(2.5 * S) + int(rng.integers(0, 9))], 'segments': S,
                'scale': float(rng.choice([0.75, 1.25, 1.5, 2.0, 2.5])), 'px': 1e-3, 'extreme': 'many-segments'}
    n0 = int(rng.integers(24, 41)); n1 = int(rng.integers(24, 41))
    px = float(rng.choice([1e-9, 3.3e-9, 1e-8, 2.5e-7, 1e3]))
    sc = float(rng.choice([0.5, 0.75, 1.25, 1.5, 2.0, 3.0]))
    if t == 1:
        return {**base, 'shape': [n0, n1], 'scale': sc, 'px': px, 'extreme': 'tiny/huge-pixelscale', 'propagate': bool(rng.integers(0, 2) and px < 1)}
    if t == 2:
        return {**base, 'kind': 'resample', 'shape': [n0, n1], 'scale': sc, 'px': px, 'new_px': px / sc, 'extreme': 'tiny/huge-pixelscale'}
    return {**base, 'shape': [int(rng.integers(24, 28)), int(rng.integers(300, 700))], 'scale': float(rng.choice([0.5, 1.5])), 'px': 1e-3, 'extreme': 'long-grid'}

def generate(rng, tier):
    n = {'quick': 70, 'thorough': 700, 'search': 150}[tier]
    out = []
    for _ in range({'quick': 4, 'thorough': 40, 'search': 60}[tier]): out.append(gen_extreme(rng))
    for k in range(n):
        n0 = int(rng.integers(24, 57)); n1 = n0 if rng.integers(0, 3) == 0 else int(rng.integers(24, 57))
        c = {'kind': 'rescale', 'shape': [n0, n1], 'segments': [1, 1, 2, 3][int(rng.integers(0, 4))], 'scale': SCALES[int(rng.integers(0, len(SCALES)))],
             'px': [1e-3, 2.5e-3, 0.5][int(rng.integers(0, 3))], 'pxmode': 'uniform', 'hseed': int(rng.integers(0, 2**31)),
             'amp_scalar': False, 'opd_scalar': False, 'pre_tilt': bool(rng.integers(0, 2)),
             'int_mask': bool(rng.integers(0, 4) == 0), 'twice': bool(rng.integers(0, 5) == 0), 'propagate': bool(k % 4 == 0)}
        c['aperture'] = ['smooth', 'smooth', 'smooth', 'hard', 'full'][int(rng.integers(0, 5))]
        if c['aperture'] != 'smooth': c['propagate'] = False
        if k % 7 == 3: c['scale'] = 1.0
        elif k % 6 == 1: c['scale'] = DECIMAL_SCALES[int(rng.integers(0, len(DECIMAL_SCALES)))]; c['twice'] = False
        t = k % 10
        if t == 4: c['kind'] = 'resample'; c['new_px'] = c['px'] / c['scale']
        elif t == 5: c['pxmode'] = 'peraxis'; c['propagate'] = False
        elif t == 6: c['pxmode'] = 'none'; c['propagate'] = False; c['pre_tilt'] = False
        elif t == 7: c['opd_scalar'] = True; c['pre_tilt'] = False
        elif t == 8 and k % 20 == 8: c['amp_scalar'] = True; c['propagate'] = False
        elif t == 9:
            c['kind'] = 'refuse'; c['pxmode'] = ['none', 'peraxis'][int(rng.integers(0, 2))]; c['new_px'] = c['px'] / c['scale']
            c['propagate'] = False; c['twice'] = False; c['pre_tilt'] = False
        out.append(c)
    # direct util.rescale calls: explicit `shape=` (scalar / pair) and complex images (appended last: earlier streams keep their draws)
    for k in range({'quick': 30, 'thorough': 240, 'search': 80}[tier]): out.append(gen_util(rng, k))
    # histories: the SAME process first rescales the plane by another scale factor that gives the same output shape (result discarded), then
    # performs the judged call — a result must depend on the current arguments only (anything memoised on shapes alone would go stale)
    for k in range({'quick': 8, 'thorough': 80, 'search': 60}[tier]): out.append(gen_warm(rng, k))
    return out

def gen_warm(rng, k):
    n0 = int(rng.integers(24, 49)); n1 = n0 if k % 2 == 0 else int(rng.integers(24, 49))
    sc = float(rng.choice([0.5, 0.75, 1.25, 1.5, 2.0, 0.7, 1.1, 1.3]))
    S0, S1 = math.ceil(n0 * sc), math.ceil(n1 * sc)
    lo, hi = max((S0 - 1) / n0, (S1 - 1) / n1), min(S0 / n0, S1 / n1)      # scales with the same output shape: (lo, hi], contains sc
    cand = [lo + f * (hi - lo) for f in (0.15, 0.5, 0.85, 1.0)]
    cand = [w for w in cand if math.ceil(n0 * w) == S0 and math.ceil(n1 * w) == S1 and abs(w - sc) > 0.1 * (hi - lo)]
    warm = float(max(cand, key=lambda w: abs(w - sc))) if cand else None
    c = {'kind': 'rescale' if k % 3 else 'resample', 'shape': [n0, n1], 'segments': 1 if k % 4 else 2, 'scale': sc, 'px': 1e-3, 'pxmode': 'uniform',
         'hseed': int(rng.integers(0, 2**31)), 'amp_scalar': False, 'opd_scalar': False, 'pre_tilt': False, 'int_mask': False, 'twice': False,
         'propagate': bool(k % 2), 'aperture': 'smooth', 'warm': warm}
    if c['kind'] == 'resample': c['new_px'] = c['px'] / sc
    return c

def gen_util(rng, k):
    n0 = int(rng.integers(12, 33)); n1 = n0 if rng.integers(0, 3) == 0 else int(rng.integers(12, 33))
    sc = float(SCALES[int(rng.integers(0, len(SCALES)))]) if k % 5 else float(DECIMAL_SCALES[int(rng.integers(0, len(DECIMAL_SCALES)))])
    form = ['scalar', 'pair', 'default'][k % 3]
    if form == 'scalar': arg = [int(rng.integers(max(4, min(n0, n1) // 2), max(n0, n1) + 7))]
    elif form == 'pair': arg = [int(rng.integers(max(4, n0 // 2), n0 + 7)), int(rng.integers(max(4, n1 // 2), n1 + 7))]
    else: arg = None
    return {'kind': 'util', 'shape': [n0, n1], 'scale': sc, 'arg': arg, 'complex': bool(form == 'default' or rng.integers(0, 2)),
            'order': int(rng.choice([1, 3])), 'mode': str(rng.choice(['nearest', 'constant'])), 'hseed': int(rng.integers(0, 2**31)),
            'segments': 1, 'pxmode': 'uniform', 'px': 1e-3, 'int_mask': False, 'twice': False, 'amp_scalar': False, 'opd_scalar': False,
            'pre_tilt': False, 'propagate': False, 'aperture': 'smooth'}

def _util_img(c):
    n0, n1 = c['shape']
    yy, xx = np.mgrid[0:n0, 0:n1]
    amp, opd = _analytic(c, yy.astype(float), xx.astype(float))
    amp[amp < 1e-6] = 0
    return amp * np.exp(1j * opd / 5e-8) if c['complex'] else amp

def _impl_util(c, lentil):
    from scipy.ndimage import map_coordinates
    img = _util_img(c); img.flags.writeable = False
    snap = img.tobytes()
    n0, n1 = c['shape']; s = c['scale']
    arg = None if c['arg'] is None else (c['arg'][0] if len(c['arg']) == 1 else tuple(c['arg']))
    try:
        out = lentil.rescale(img, s, shape=arg, order=c['order'], mode=c['mode'], unitary=False)
        dflt = lentil.rescale(img, s, order=c['order'], mode=c['mode'], unitary=False)
        ry = np.repeat(np.arange(n0, dtype=float)[:, None], n1, axis=1); rx = np.repeat(np.arange(n1, dtype=float)[None, :], n0, axis=0)
        gy = lentil.rescale(ry, s, shape=arg, mask=np.ones_like(ry), order=1, mode='nearest', unitary=False)
        gx = lentil.rescale(rx, s, shape=arg, mask=np.ones_like(rx), order=1, mode='nearest', unitary=False)
    except Exception as e:
        return {'exc': type(e).__name__, 'msg': str(e)[:160], 'untouched': img.tobytes() == snap}
    S0, S1 = out.shape
    # independent reference: each part interpolated by scipy on the documented grid, times the interpolated support of img != 0
    yi = (np.arange(S0) - S0 / 2) / s + n0 / 2; xi = (np.arange(S1) - S1 / 2) / s + n1 / 2
    YI, XI = np.meshgrid(yi, xi, indexing='ij')
    M = map_coordinates((img != 0).astype(float), [YI, XI], order=1, mode='nearest'); M[M < np.finfo(float).eps] = 0
    mc = lambda a: map_coordinates(np.ascontiguousarray(a), [YI, XI], order=c['order'], mode=c['mode'])
    ref = (mc(img.real) + 1j * mc(img.imag)) * M if c['complex'] else mc(img) * M
    res = {'shape': [int(S0), int(S1)], 'complex_out': bool(np.iscomplexobj(out)), 'dtype': str(out.dtype), 'ref_err': float(np.max(np.abs(out - ref))) if out.size else 0.0,
           'grid_y': [float(v) for v in gy[:, 0]], 'grid_x': [float(v) for v in gx[0, :]], 'grid_shape': [int(gy.shape[0]), int(gx.shape[1])],
           'dflt_shape': [int(v) for v in dflt.shape], 'untouched': img.tobytes() == snap, 'peak': float(np.max(np.abs(out))) if out.size else 0.0}
    d0, d1 = S0 - dflt.shape[0], S1 - dflt.shape[1]
    if d0 % 2 == 0 and d1 % 2 == 0:
        # same parity: the explicit-shape result must be the centre crop / zero-free pad region of the default result
        def ov(S, D): c_ = (S - D) // 2; return (slice(max(c_, 0), min(S, D + c_)), slice(max(-c_, 0), max(-c_, 0) + min(S, D + c_) - max(c_, 0)))
        a0, b0 = ov(S0, dflt.shape[0]); a1, b1 = ov(S1, dflt.shape[1])
        res['crop_err'] = float(np.max(np.abs(out[a0, a1] - dflt[b0, b1])))
    return res

def _util_prod(c):
    s = c['scale']; a = c['arg']
    m = c['shape'] if a is None else ([a[0], a[0]] if len(a) == 1 else a)
    return m, [m[0] * s, m[1] * s]

def _requests_util(c, io):
    m, prod = _util_prod(c)
    base = {'shape': c['shape'], 'scale': _rat(c['scale']), 'prod': [_rat(prod[0]), _rat(prod[1])]}
    return [{'op': 'rs.coords', **base} if c['arg'] is None else {'op': 'rs.coords_arg', 'arg': c['arg'], **base}]

def _compare_util(c, io, mo):
    if 'exc' in io: return f"util.rescale raised {io['exc']}: {io['msg']}"
    m = mo[0]
    if not m.get('ok'): return f"model refused {m.get('err')}"
    if io['shape'] != m['shape']: return f"shape: implementation {io['shape']}, model {m['shape']} (shape={c['arg']})"
    mm, prod = _util_prod(c)
    if all(math.ceil(p) == math.ceil(k * Fr(c['scale'])) for p, k in zip(prod, mm)) and io['shape'] != m['exact_shape']:
        return f"shape: implementation {io['shape']}, regenerated shape branch {m['exact_shape']} (shape={c['arg']})"
    if io['grid_shape'] != m['shape']: return f"grid shape {io['grid_shape']} vs model {m['shape']}"
    n0, n1 = c['shape']
    for name, got, want, n in (('row', io['grid_y'], m['y'], n0), ('column', io['grid_x'], m['x'], n1)):
        if len(got) != len(want): return f'{name} grid length {len(got)} vs {len(want)}'
        for k, (g, wq) in enumerate(zip(got, want)):
            wv = Fr(wq[0], wq[1])
            if 0 <= wv <= n - 1 and abs(g - float(wv)) > 1e-9 * (1 + n): return f"{name} coordinate of output sample {k}: implementation {g!r}, model {float(wv)!r} (shape={c['arg']})"
    return None

def _oracle_util(c, io):
    if 'exc' in io: return f"util.rescale(shape={c['arg']}, complex={c['complex']}) raised {io['exc']}: {io['msg']}"
    mm, prod = _util_prod(c)
    want = [math.ceil(prod[0]), math.ceil(prod[1])]
    if io['shape'] != want: return f"shape {io['shape']} for shape={c['arg']}, expected ceil(m*s) = {want}"
    if io['complex_out'] != c['complex']: return f"complex input {c['complex']} gave dtype {io['dtype']}"
    if not io['untouched']: return 'util.rescale modified its input image'
    if io['ref_err'] > 1e-12 * (1 + io['peak']): return (f"result differs from the part-by-part interpolation on the documented grid by {io['ref_err']:.3g} "
                                                          f"(complex={c['complex']}, shape={c['arg']}, order={c['order']}, mode={c['mode']})")
    if 'crop_err' in io and io['crop_err'] > 1e-12 * (1 + io['peak']): return f"explicit shape {c['arg']} is not the centre crop/pad of the default result ({io['crop_err']:.3g})"
    return None

def signature(c):
    if c['kind'] == 'util': return f"util {c['shape']} s={c['scale']} shape={c['arg']} complex={c['complex']} order={c['order']} mode={c['mode']}"
    return _signature_plane(c) + (f" after-rescale-by={c['warm']}" if c.get('warm') else '')
def _signature_plane(c): return (f"{c['kind']} {c['shape']} seg={c['segments']} s={c['scale']} px={c['pxmode']} int={c['int_mask']} twice={c['twice']} "
                          f"a0={c['amp_scalar']} o0={c['opd_scalar']} {c.get('aperture', 'smooth')}")
def nontrivial(c): return c['scale'] != 1.0 or c['segments'] > 1 or c['shape'][0] != c['shape'][1] or c['kind'] == 'refuse'
def tags(c):
    t = [c['kind'], f"scale:{c['scale']}", f"segments:{min(c['segments'], 55)}{'+' if c['segments'] >= 55 else ''}", 'px:' + c['pxmode']]
    if c.get('extreme'): t.append('extreme:' + c['extreme'])
    if c.get('warm'): t.append('history:earlier-rescale-same-output-shape-other-scale')
    if c['kind'] == 'util':
        t.append('util-shape:' + ('default' if c['arg'] is None else 'scalar' if len(c['arg']) == 1 else 'pair'))
        t.append('util-complex' if c['complex'] else 'util-real')
    t.append('aperture:' + c.get('aperture', 'smooth'))
    if c['scale'] in DECIMAL_SCALES: t.append('non-dyadic-scale')
    sf_ = c['scale']; 
    if any(math.ceil(n * sf_) != math.ceil(n * Fr(sf_)) for n in c['shape']): t.append('float-seam: ceil(fl(n*s)) != ceil(n*s)')
    if c['shape'][0] != c['shape'][1]: t.append('non-square')
    if c['shape'][0] % 2: t.append('odd-rows')
    if c['int_mask']: t.append('int-mask')
    if c['twice']: t.append('rescale-of-rescale')
    if c['amp_scalar']: t.append('scalar-amplitude')
    if c['opd_scalar']: t.append('scalar-opd')
    if c['pre_tilt']: t.append('plane-with-recorded-tilt')
    return t

def _px2(c):
    if c['pxmode'] == 'none': return None
    if c['pxmode'] == 'peraxis': return (c['px'], c['px'] * 1.5)
    return (c['px'], c['px'])

def _analytic(c, yi, xi):
    """amplitude and OPD of the test plane at (fractional) array coordinates yi (rows), xi (cols)"""
    n0, n1 = c['shape']
    co = np.random.default_rng(c['hseed']).uniform(-1, 1, 5)
    y = (yi - n0 // 2) / (0.36 * n0); x = (xi - n1 // 2) / (0.36 * n1)
    r2 = x * x + y * y
    ap = c.get('aperture', 'smooth')
    amp = np.exp(-r2 ** 4) if ap == 'smooth' else (r2 <= 1.8).astype(float) if ap == 'hard' else np.ones_like(r2)   # hard edge cut by the border / fills the array
    opd = 5e-8 * (co[0] * x + co[1] * y + co[2] * x * y + co[3] * (2 * r2 - 1) + co[4] * (x * x - y * y))
    return amp, opd

def _plane(c, lentil):
    n0, n1 = c['shape']
    yy, xx = np.mgrid[0:n0, 0:n1]
    amp, opd = _analytic(c, yy.astype(float), xx.astype(float))   # smooth-edged aperture, ~0 at the array border
    amp[amp < 1e-6] = 0
    opd = opd * (amp > 0)
    S = c['segments']
    base = (amp > 0).astype(float)
    if S == 1: mask = base
    else:
        mask = np.zeros((S, n0, n1)); e = np.linspace(0, n1, S + 1).astype(int)
        if S > 8:       # many narrow strips: keep them inside the well-supported columns, the outer strips take the margins
            e = np.linspace(0.1 * n1, 0.9 * n1, S + 1).astype(int); e[0] = 0; e[-1] = n1
        for s in range(S): mask[s, :, e[s]:e[s + 1]] = base[:, e[s]:e[s + 1]]
    if c['int_mask']: mask = mask.astype(int)
    P = lentil.Pupil(amplitude=(0.75 if c['amp_scalar'] else amp), opd=(2.5e-8 if c['opd_scalar'] else opd), mask=mask,
                     pixelscale=_px2(c), focal_length=10.0)
    if c['pre_tilt'] and S == 1: P.fit_tilt(inplace=True)      # a plane that already carries recorded tilt
    return P

def _state(P):
    return (np.asarray(P.amplitude).tobytes(), np.asarray(P.opd).tobytes(), np.asarray(P.mask).tobytes(), P.pixelscale,
            [(float(t.x), float(t.y)) for t in P.tilt], str(P.ptype), [(s[0].start, s[0].stop, s[1].start, s[1].stop) for s in P._slice] if P._slice and P._slice != [Ellipsis] and all(isinstance(s, tuple) for s in P._slice) else repr(P._slice))

def _shares(a, b):
    a, b = np.asarray(a), np.asarray(b)
    return bool(a is b or np.shares_memory(a, b))

def impl(c):
    lentil = vlib.import_lentil()
    if c['kind'] == 'util': return _impl_util(c, lentil)
    P = _plane(c, lentil)
    before = _state(P)
    res = {}
    with warnings.catch_warnings():
        warnings.simplefilter('ignore')
        try:
            if c.get('warm'):       # earlier call in the same process: other scale factor, same output shape; its result is discarded
                P.rescale(c['warm'])
                lentil.rescale(np.asarray(P.amplitude), scale=c['warm'], shape=None, mask=None, order=3, mode='nearest', unitary=False)
                lentil.rescale(np.ones(c['shape']), c['warm'], mask=np.ones(c['shape']), order=1, mode='nearest', unitary=False)
                if _state(P) != before: return {'exc': 'HistoryError', 'msg': 'the warm-up rescale modified the plane', 'untouched': False}
            if c['kind'] in ('resample', 'refuse'): Q = P.resample(c['new_px'])
            else: Q = P.rescale(c['scale'])
            if c['twice']:
                Q2 = Q.rescale(1 / c['scale'])
                res['twice_shape'] = list(Q2.shape); res['twice_px'] = None if Q2.pixelscale is None else [float(v) for v in Q2.pixelscale]
        except Exception as e:
            return {'exc': type(e).__name__, 'msg': str(e)[:160], 'untouched': _state(P) == before}
        m = np.asarray(Q.mask)
        A = np.asarray(Q.amplitude); O = np.asarray(Q.opd)
        res.update({'shape': list(Q.shape), 'amp_shape': list(A.shape), 'opd_shape': list(O.shape), 'mask_shape': list(m.shape),
                    'px': None if Q.pixelscale is None else [list(float(v).as_integer_ratio()) for v in Q.pixelscale],
                    'mask_values': sorted(set(np.unique(m).tolist())), 'mask_dtype': str(m.dtype), 'nseg': int(Q.size), 'is_new': Q is not P,
                    'seg_overlap': int(np.max(np.sum(m, axis=0))) if m.ndim == 3 else 1,
                    'seg_nonempty': bool(all(np.any(x) for x in (m if m.ndim == 3 else [m])))})
        if m.ndim == 3:
            # segment structure: the union of the rescaled segments must be the rescaled union (the same plane with the flattened mask)
            import copy as _copy
            Pm = lentil.Pupil(amplitude=np.asarray(P.amplitude), opd=np.asarray(P.opd), mask=(np.sum(np.asarray(P.mask) != 0, axis=0) > 0).astype(float),
                              pixelscale=P.pixelscale, focal_length=10.0)
            Qm = Pm.resample(c['new_px']) if c['kind'] == 'resample' else Pm.rescale(c['scale'])
            um = np.asarray(Qm.mask)
            res['union_diff'] = int(np.sum(um != m.sum(axis=0))) if um.shape == m.shape[1:] else -1
        if not c['amp_scalar']:
            res['power0'] = float(np.sum(np.abs(P.amplitude) ** 2)); res['power1'] = float(np.sum(np.abs(A) ** 2))
            # the factor Plane.rescale applies on top of util.rescale's interpolation (model: amplitudeFactor = 1/s)
            U = lentil.rescale(np.asarray(P.amplitude), scale=_eff_scale(c), shape=None, mask=None, order=3, mode='nearest', unitary=False)
            nzu = np.abs(U) > 1e-3
            res['amp_factor'] = [float(np.min(A[nzu] / U[nzu])), float(np.max(A[nzu] / U[nzu]))] if U.shape == A.shape and nzu.any() else None
            # direct comparison with the generating functions on the new grid (physical registration: the geometric centre is kept)
            S0, S1 = A.shape; n0, n1 = c['shape']; s = _eff_scale(c)
            yi = (np.arange(S0) - S0 / 2) / s + n0 / 2; xi = (np.arange(S1) - S1 / 2) / s + n1 / 2
            YI, XI = np.meshgrid(yi, xi, indexing='ij')
            ra, ro = _analytic(c, YI, XI)
            inner = ra > 0.5
            if c.get('aperture', 'smooth') != 'smooth':
                # hard-edged / border-filling apertures: only samples at least two input pixels away from an edge are compared
                from scipy.ndimage import binary_erosion
                inner = binary_erosion(ra > 0.5, iterations=max(4, int(np.ceil(6 * s)))) if (ra > 0.5).any() else inner
                if not inner.any(): inner = np.zeros_like(inner); inner[S0 // 2, S1 // 2] = True
            res['amp_err'] = float(np.max(np.abs(A * s - ra)[inner]))
            if not c['opd_scalar'] and not c['pre_tilt']: res['opd_err'] = float(np.max(np.abs(O - ro)[inner]) / 5e-8)
            gm = m if m.ndim == 2 else m.sum(axis=0)
            res['mask_covers_support'] = bool(np.all(gm[(ra > 0.05) if c.get('aperture', 'smooth') == 'smooth' else inner] == 1))
        else:
            res['amp_same'] = bool(A.shape == () and float(A) == 0.75)
        if c['opd_scalar']: res['opd_same'] = bool(O.shape == () and float(O) == 2.5e-8)
        # the interpolation grid, read back from the code: rescale linear ramps with the first-order interpolant
        n0, n1 = c['shape']
        ry = np.repeat(np.arange(n0, dtype=float)[:, None], n1, axis=1); rx = np.repeat(np.arange(n1, dtype=float)[None, :], n0, axis=0)
        gy = lentil.rescale(ry, _eff_scale(c), mask=np.ones_like(ry), order=1, mode='nearest', unitary=False)
        gx = lentil.rescale(rx, _eff_scale(c), mask=np.ones_like(rx), order=1, mode='nearest', unitary=False)
        res['grid_y'] = [float(v) for v in gy[:, 0]]; res['grid_x'] = [float(v) for v in gx[0, :]]
        if c['scale'] == 1.0:
            res['id_amp'] = float(np.max(np.abs(A - np.asarray(P.amplitude)))); res['id_opd'] = float(np.max(np.abs(O - np.asarray(P.opd))) / 5e-8)
            res['id_mask'] = bool(np.array_equal(m, (np.asarray(P.mask) != 0).astype(int)))
        if c['propagate']:
            du = 650e-9 * 10.0 / (c['px'] * c['shape'][1]) / 3     # ~3 samples per lambda*f/D
            def img2(pl):
                w = lentil.Wavefront(650e-9) * pl
                return lentil.propagate_dft(w, pixelscale=du, shape=32, oversample=2).intensity
            a, b = img2(P), img2(Q)
            res['img_diff'] = float(np.max(np.abs(a - b)) / np.max(a))
        # ---- follow-up in-place work on the RESULT: the original must not notice
        res['shares'] = [k for k, (x, y) in {'amplitude': (Q.amplitude, P.amplitude), 'opd': (Q.opd, P.opd), 'mask': (Q.mask, P.mask)}.items() if _shares(x, y)]
        res['tilt_list_shared'] = Q.tilt is P.tilt
        try:
            if Q.pixelscale is not None and O.ndim == 2: Q.fit_tilt(inplace=True)
            for arr in (Q.opd, Q.amplitude):
                if isinstance(arr, np.ndarray) and arr.flags.writeable: arr += arr * 1e-3 + 1e-12
            Q.tilt.append(lentil.Tilt(x=1e-6, y=-1e-6))
            if isinstance(Q.mask, np.ndarray) and Q.mask.flags.writeable: Q.mask[...] = 0
            Q.opd = np.zeros(Q.shape)
        except Exception as e:
            res['followup_exc'] = f'{type(e).__name__}: {e}'[:120]
    res['untouched'] = _state(P) == before
    return res

def _eff_scale(c):
    """the scale factor the code works with: `scale` itself, or `pixelscale[0] / new` as a float64 quotient for resample"""
    if c['kind'] in ('resample', 'refuse'): return c['px'] / c['new_px']
    return c['scale']

def _fr(x): return Fr(x)
def _rat(x): f = Fr(x); return [f.numerator, f.denominator]
def requests(c, io):
    if c['kind'] == 'util': return _requests_util(c, io)
    px2 = _px2(c)
    pj = None if px2 is None else [_rat(px2[0]), _rat(px2[1])]
    if c['kind'] == 'refuse':
        return [{'op': 'rs.resample_guard', 'px2': pj, 'new': _rat(c['new_px'])}]
    sc = _eff_scale(c)
    r = [{'op': 'rs.coords', 'shape': c['shape'], 'scale': _rat(sc), 'prod': [_rat(c['shape'][0] * sc), _rat(c['shape'][1] * sc)]},
         {'op': 'rs.plane', 'scale': _rat(sc), 'px2': pj, 'amp_ndim': 0 if c['amp_scalar'] else 2, 'opd_ndim': 0 if c['opd_scalar'] else 2}]
    if c['kind'] == 'resample':
        r.append({'op': 'rs.resample_guard', 'px2': pj, 'new': _rat(c['new_px'])})
    return r

def compare(c, io, mo):
    if c['kind'] == 'util': return _compare_util(c, io, mo)
    if c['kind'] == 'refuse':
        g = mo[0]
        if g.get('ok'): return 'model accepts the resample'
        return None if io.get('exc') == g.get('err') else f"resample guard: implementation {io.get('exc', 'returned a plane')}, model {g.get('err')}"
    if 'exc' in io: return f"implementation raised {io['exc']}: {io['msg']}"
    m, pl = mo[0], mo[1]
    if not m.get('ok') or not pl.get('ok'): return f"model refused {m.get('err')} {pl.get('err')}"
    if io['shape'] != m['shape']: return f"shape: implementation {io['shape']}, model {m['shape']}"
    if io['mask_shape'][-2:] != m['shape']: return f"mask shape {io['mask_shape']}, model {m['shape']}"
    if io['amp_shape'] != (m['shape'] if pl['amp_interp'] else []): return f"amplitude shape {io['amp_shape']} (interpolated: {pl['amp_interp']})"
    if io['opd_shape'] != (m['shape'] if pl['opd_interp'] else []): return f"opd shape {io['opd_shape']} (interpolated: {pl['opd_interp']})"
    # pixel scale, per axis
    if (io['px'] is None) != (pl['px'] is None): return f"pixelscale: implementation {io['px']}, model {pl['px']}"
    if io['px'] is not None:
        for k in range(2):
            got = Fr(*io['px'][k]); want = Fr(*pl['px'][k])
            if abs(got - want) > Fr(1, 10**14) * abs(want): return f"pixelscale[{k}]: implementation {float(got)!r}, model {float(want)!r}"
    if not c['amp_scalar']:
        want_f = float(Fr(*pl['amp_factor']))
        if io['amp_factor'] is None or max(abs(io['amp_factor'][0] - want_f), abs(io['amp_factor'][1] - want_f)) > 1e-12 * want_f:
            return f"amplitude factor on top of the interpolation: implementation {io['amp_factor']}, model {want_f!r}"
    # the interpolation grid itself (centre convention and spacing), wherever the coordinate lies inside the input array
    n0, n1 = c['shape']
    for name, got, want, n in (('row', io['grid_y'], m['y'], n0), ('column', io['grid_x'], m['x'], n1)):
        if len(got) != len(want): return f'{name} grid length {len(got)} vs {len(want)}'
        for k, (g, wq) in enumerate(zip(got, want)):
            wv = Fr(wq[0], wq[1])
            if 0 <= wv <= n - 1 and abs(g - float(wv)) > 1e-9 * (1 + n): return f"{name} coordinate of output sample {k}: implementation {g!r}, model {float(wv)!r}"
    if c['kind'] == 'resample':
        g = mo[2]
        if not g.get('ok'): return f"model refuses the resample ({g.get('err')})"
        if abs(Fr(*g['scale']) - _fr(c['scale'])) > Fr(1, 10**12): return 'model: resample scale is not px/new'
    return None

def oracle(c, io):
    if c['kind'] == 'util': return _oracle_util(c, io)
    if c['kind'] == 'refuse':
        want = 'ValueError' if c['pxmode'] == 'none' else 'NotImplementedError'
        if io.get('exc') != want: return f"resample of a plane with {c['pxmode']} pixel scale: {io.get('exc', 'accepted')}, expected {want}"
        return None if io['untouched'] else 'refused resample modified the plane'
    if 'exc' in io: return f"{c['kind']} raised {io['exc']}: {io['msg']}"
    sf = _eff_scale(c); s = _fr(sf); n0, n1 = c['shape']
    # the documented formula evaluated as documented, in float64: ceil(fl(n*s)); where fl(n*s) is an integer although n*s is not
    # (or vice versa) this differs by one sample from the exact ceiling — float semantics of the formula, see ASSUMPTIONS
    want_shape = [math.ceil(n0 * sf), math.ceil(n1 * sf)]
    if io['shape'] != want_shape: return f"shape {io['shape']}, expected ceil(n*s) = {want_shape}"
    px2 = _px2(c)
    if px2 is None:
        if io['px'] is not None: return f"plane without pixel scale came back with {io['px']}"
    else:
        px = [v[0] / v[1] for v in io['px']]
        for k in range(2):
            want_px = px2[k] / sf
            if abs(px[k] - want_px) > 1e-14 * want_px: return f"pixel scale {px}, expected {[p / sf for p in px2]}"
            ext_new, ext_old = px[k] * io['shape'][k], px2[k] * c['shape'][k]
            if not (-1e-12 * ext_old <= ext_new - ext_old <= px[k] * (1 + 1e-12)): return f'extent changed by more than one sample: {ext_old} -> {ext_new}'
    if not set(io['mask_values']) <= {0, 1}: return f"mask not binary: {io['mask_values'][:5]}"
    if not io['mask_dtype'].startswith('int'): return f"mask dtype {io['mask_dtype']}"
    if io['nseg'] != c['segments']: return f"{io['nseg']} segments, had {c['segments']}"
    if io['seg_overlap'] > 1: return 'rescaled segment masks overlap'
    if not io['seg_nonempty']: return 'a segment mask came back empty'
    if io.get('union_diff', 0) != 0:
        return (f"segment structure not kept: the union of the rescaled segment masks differs from the rescaled union mask at {io['union_diff']} samples "
                f"(scale {c['scale']}, {c['segments']} segments)")
    # ---- original untouched, also after in-place work on the result
    if not io['is_new']: return 'rescale returned the plane itself'
    if io['shares']: return f"the rescaled plane shares memory with the original: {io['shares']}"
    if io['tilt_list_shared']: return 'the rescaled plane shares its tilt list with the original'
    if not io['untouched']: return 'the original plane changed (possibly through in-place work on the rescaled plane)'
    if 'followup_exc' in io: return f"in-place work on the rescaled plane raised {io['followup_exc']}"
    if c['amp_scalar'] and not io['amp_same']: return 'a scalar amplitude was changed by rescale'
    if c['opd_scalar'] and not io['opd_same']: return 'a scalar OPD was changed by rescale'
    if c['scale'] == 1.0 and not c['amp_scalar']:
        if io['id_amp'] > 1e-12 or io['id_opd'] > 1e-9 or not io['id_mask']: return f"scale 1 is not the identity (amp {io['id_amp']:.2g}, opd {io['id_opd']:.2g}, mask {io['id_mask']})"
    if c['twice']:
        back = [math.ceil(math.ceil(n * sf) * (1 / sf)) for n in (n0, n1)]
        if io['twice_shape'] != back: return f"rescale of a rescaled plane: shape {io['twice_shape']}, expected {back}"
        if px2 is not None and any(abs(p - q) > 1e-14 * q for p, q in zip(io['twice_px'], px2)): return f"rescale by s then 1/s: pixel scale {io['twice_px']}"
    # ---- measured clauses (unproven): interpolation accuracy on smooth apertures
    if not c['amp_scalar']:
        rel = abs(io['power1'] - io['power0']) / io['power0']
        tol = 2e-3 if c['scale'] < 1 else 1e-3      # unchanged tree: <= 1.8e-4 / 8.1e-5 on seeds 0-5
        if c.get('aperture', 'smooth') != 'smooth':
            # not smooth on the grid: outside the quantifier of the measured clauses; the exact part still applies to a border-filling
            # constant aperture (theorem constant_aperture_power): n0 n1 <= P'/a^2 <= (n0 + 1/s)(n1 + 1/s)
            if c['aperture'] == 'full':
                sf_ = _eff_scale(c); lo = n0 * n1; hi = (n0 + 1 / sf_) * (n1 + 1 / sf_)
                if not (lo * (1 - 1e-9) <= io['power1'] <= hi * (1 + 1e-9)): return f"constant aperture: power {io['power1']} outside [{lo}, {hi}]"
            tol = 0.2
        if rel > tol: return f"transmitted power changed by {rel:.3g} (tolerance {tol}) at scale {c['scale']}"
        if io['amp_err'] > (AMP_TOL if c.get('aperture', 'smooth') == 'smooth' else 0.1): return f"rescaled amplitude (x s) differs from the aperture function on the new grid by {io['amp_err']:.3g}"
        if 'opd_err' in io and io['opd_err'] > (OPD_TOL if c.get('aperture', 'smooth') == 'smooth' else 0.2): return f"rescaled OPD differs from the surface on the new grid by {io['opd_err']:.3g} of its scale"
        if not io['mask_covers_support']: return 'the rescaled mask does not cover the support of the aperture'
    if c['propagate'] and io['img_diff'] > 3e-3: return f"propagated image changed by {io['img_diff']:.3g} of the peak at scale {c['scale']}"
    return None

AMP_TOL = 1e-2     # unchanged tree: <= 1.4e-3 (seeds 0-3); a half-sample registration error gives ~1e-1
OPD_TOL = 5e-2     # unchanged tree: <= 8e-3 of the OPD scale
