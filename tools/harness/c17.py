"""C17 — resampling a plane changes its sampling, not its optics.

Tie: Model/Rescale.lean (shape = ceil(n*s), pixel scale = px/s, coordinate map, identity at scale 1) is run at exact
rationals by the driver and compared with the attributes of the plane returned by the real Plane.rescale/resample;
Gen/Effects.lean (effect-site scan) carries "original untouched". The interpolation-accuracy clause (power and image
preserved) has no theorem: it is measured here on smooth apertures with tolerances the unchanged tree meets with margin."""
import math, warnings
from fractions import Fraction as Fr
import numpy as np
from harness.common import *
import vlib

LEVEL_TEXT = ('partial. Lean 4 theorems: rescaling by s divides the pixel scale by exactly s; resampling to a pixel scale yields it; arrays '
              'get ceil(n*s) samples; the physical extent is preserved to within one new sample (0 <= (px/s)*ceil(n s) - px*n < px/s); '
              'at s = 1 every output sample is interpolated at its own integer coordinate, so the operation is the identity for any '
              'interpolator reproducing samples at integer coordinates; the mask stays binary and keeps its segments; the original is '
              'untouched (regenerated effect table). Power/image preservation "to interpolation accuracy" is measured, not proved.')
LEVEL_NOTE = ('partial: the property is carried by bookkeeping theorems; cubic-spline interpolation accuracy (scipy map_coordinates) is an '
              'external analytic fact — unproven clause, measured on smooth apertures.')
TECHNIQUE = 'Lean 4 proof (ordered-field algebra with Int.ceil) over a hand model + differential correspondence at exact rationals; measured interpolation clause'
GEN = ['Effects']
OPS = ['C17']
RULE = ('cases: planes with smooth (super-Gaussian edge) amplitude and low-order polynomial OPD on grids 24..56 (even/odd, non-square), '
        'monolithic or 2..3 segment masks, float or integer mask dtype, already rescaled planes (rescale of a rescale), dyadic scale '
        'factors 0.5..4 incl. non-integers and 1, resample to target pixel scales; distinct = (shape, segments, scale, kind); '
        'non-trivial = scale != 1 or segmented or non-square')
TRUSTED = ['scipy.ndimage.map_coordinates reproduces the samples at integer coordinates (hypothesis of rescale_one_is_identity; observed to 1e-12)',
           'np.ceil / float division agree with exact rational arithmetic on the dyadic scale factors used']
UNPROVEN = ['transmitted power sum|amplitude|^2 is preserved to interpolation accuracy: measured (relative tolerance 2e-3 down-sampling, '
            '1e-3 otherwise, on apertures smooth on the grid; the unchanged tree stays below 2e-4)',
            'the propagated image at a fixed output sampling is preserved to interpolation accuracy: measured (peak-normalised tolerance 3e-3; unchanged tree below 3e-4)']
ASSUMPTIONS = ['apertures and OPDs are smooth on the sampling grid (property quantifier); scale factors are dyadic so float and exact ceil agree']

SCALES = [0.5, 0.75, 1.0, 1.25, 1.5, 2.0, 2.5, 3.0, 4.0]

def generate(rng, tier):
    n = {'quick': 60, 'thorough': 600, 'search': 150}[tier]
    out = []
    for k in range(n):
        n0 = int(rng.integers(24, 57)); n1 = n0 if rng.integers(0, 3) == 0 else int(rng.integers(24, 57))
        c = {'kind': 'rescale', 'shape': [n0, n1], 'segments': [1, 1, 2, 3][int(rng.integers(0, 4))], 'scale': SCALES[int(rng.integers(0, len(SCALES)))],
             'px': [1e-3, 2.5e-3, 0.5][int(rng.integers(0, 3))], 'hseed': int(rng.integers(0, 2**31)),
             'int_mask': bool(rng.integers(0, 4) == 0), 'twice': bool(rng.integers(0, 5) == 0), 'propagate': bool(k % 4 == 0)}
        if k % 7 == 3: c['scale'] = 1.0
        if k % 5 == 4:
            c['kind'] = 'resample'; c['new_px'] = c['px'] / c['scale']
        out.append(c)
    return out

def signature(c): return f"{c['kind']} {c['shape']} seg={c['segments']} s={c['scale']} int={c['int_mask']} twice={c['twice']}"
def nontrivial(c): return c['scale'] != 1.0 or c['segments'] > 1 or c['shape'][0] != c['shape'][1]
def tags(c):
    t = [c['kind'], f"scale:{c['scale']}", f"segments:{c['segments']}"]
    if c['shape'][0] != c['shape'][1]: t.append('non-square')
    if c['shape'][0] % 2: t.append('odd-rows')
    if c['int_mask']: t.append('int-mask')
    if c['twice']: t.append('rescale-of-rescale')
    return t

def _plane(c, lentil):
    rng = np.random.default_rng(c['hseed'])
    n0, n1 = c['shape']
    yy, xx = np.mgrid[0:n0, 0:n1]
    y = (yy - n0 // 2) / (0.36 * n0); x = (xx - n1 // 2) / (0.36 * n1)
    r2 = x * x + y * y
    amp = np.exp(-r2 ** 4)                       # smooth-edged aperture, ~0 at the array border
    amp[amp < 1e-6] = 0
    co = rng.uniform(-1, 1, 5)
    opd = 5e-8 * (co[0] * x + co[1] * y + co[2] * x * y + co[3] * (2 * r2 - 1) + co[4] * (x * x - y * y)) * (amp > 0)
    S = c['segments']
    base = (amp > 0).astype(float)
    if S == 1: mask = base
    else:
        mask = np.zeros((S, n0, n1)); e = np.linspace(0, n1, S + 1).astype(int)
        for s in range(S): mask[s, :, e[s]:e[s + 1]] = base[:, e[s]:e[s + 1]]
    if c['int_mask']: mask = mask.astype(int)
    return lentil.Pupil(amplitude=amp, opd=opd, mask=mask, pixelscale=c['px'], focal_length=10.0)

def _state(P):
    return (np.asarray(P.amplitude).tobytes(), np.asarray(P.opd).tobytes(), np.asarray(P.mask).tobytes(), P.pixelscale, len(P.tilt))

def impl(c):
    lentil = vlib.import_lentil()
    P = _plane(c, lentil)
    before = _state(P)
    with warnings.catch_warnings():
        warnings.simplefilter('ignore')
        try:
            if c['kind'] == 'resample': Q = P.resample(c['new_px'])
            else: Q = P.rescale(c['scale'])
            res = {}
            if c['twice']:
                Q2 = Q.rescale(1 / c['scale'])
                res['twice_shape'] = list(Q2.shape); res['twice_px'] = [float(v) for v in Q2.pixelscale]
        except Exception as e:
            return {'exc': type(e).__name__, 'msg': str(e)[:160]}
    m = np.asarray(Q.mask)
    res.update({'shape': list(Q.shape), 'amp_shape': list(np.shape(Q.amplitude)), 'opd_shape': list(np.shape(Q.opd)), 'mask_shape': list(m.shape),
                'px': [list(float(v).as_integer_ratio()) for v in Q.pixelscale], 'mask_values': sorted(set(np.unique(m).tolist())),
                'mask_dtype': str(m.dtype), 'nseg': int(Q.size), 'untouched': _state(P) == before, 'is_new': Q is not P,
                'power0': float(np.sum(np.abs(P.amplitude) ** 2)), 'power1': float(np.sum(np.abs(Q.amplitude) ** 2)),
                'seg_overlap': int(np.max(np.sum(m, axis=0))) if m.ndim == 3 else 1})
    if c['scale'] == 1.0:
        res['id_amp'] = float(np.max(np.abs(Q.amplitude - P.amplitude))); res['id_opd'] = float(np.max(np.abs(Q.opd - P.opd)) / 5e-8)
        res['id_mask'] = bool(np.array_equal(np.asarray(Q.mask), (np.asarray(P.mask) != 0).astype(int)))
    if c['propagate']:
        def img(pl):
            w = lentil.Wavefront(650e-9) * pl
            return lentil.propagate_dft(w, pixelscale=5e-6 * 1e-3 / c['px'] * (1 if c['px'] < 0.1 else 1), shape=32, oversample=2).intensity
        du = 650e-9 * 10.0 / (c['px'] * c['shape'][1]) / 3     # ~3 samples per lambda*f/D
        def img2(pl):
            w = lentil.Wavefront(650e-9) * pl
            return lentil.propagate_dft(w, pixelscale=du, shape=32, oversample=2).intensity
        a, b = img2(P), img2(Q)
        res['img_diff'] = float(np.max(np.abs(a - b)) / np.max(a)); res['img_sum'] = [float(a.sum()), float(b.sum())]
    return res

def _fr(x): return Fr(x)
def requests(c, io):
    s = _fr(c['scale']); px = _fr(c['px'])
    r = [{'op': 'rs.meta', 'shape': c['shape'], 'scale': [s.numerator, s.denominator], 'px': [px.numerator, px.denominator]}]
    if c['kind'] == 'resample':
        nw = _fr(c['new_px'])
        r.append({'op': 'rs.resample', 'px': [px.numerator, px.denominator], 'new': [nw.numerator, nw.denominator]})
    return r

def compare(c, io, mo):
    m = mo[0]
    if 'exc' in io: return f"implementation raised {io['exc']}: {io['msg']}"
    if not m.get('ok'): return f"model refused {m.get('err')}"
    for key in ('shape', 'amp_shape', 'opd_shape'):
        if io[key] != m['shape']: return f"{key}: implementation {io[key]}, model {m['shape']}"
    if io['mask_shape'][-2:] != m['shape']: return f"mask shape {io['mask_shape']}, model {m['shape']}"
    want = Fr(m['pixelscale'][0], m['pixelscale'][1])
    for v in io['px']:
        got = Fr(v[0], v[1])
        if abs(got - want) > Fr(1, 10**14) * abs(want): return f"pixelscale: implementation {float(got)!r}, model {float(want)!r}"
    if c['kind'] == 'resample':
        w2 = Fr(mo[1]['pixelscale'][0], mo[1]['pixelscale'][1])
        if abs(w2 - _fr(c['new_px'])) > Fr(1, 10**14) * w2: return 'model: resample does not give the requested pixel scale'
    return None

def oracle(c, io):
    if 'exc' in io: return f"{c['kind']} raised {io['exc']}: {io['msg']}"
    s = _fr(c['scale']); n0, n1 = c['shape']
    want_shape = [math.ceil(n0 * s), math.ceil(n1 * s)]
    if io['shape'] != want_shape: return f"shape {io['shape']}, expected ceil(n*s) = {want_shape}"
    px = [v[0] / v[1] for v in io['px']]
    want_px = c['px'] / c['scale'] if c['kind'] == 'rescale' else c['new_px']
    if any(abs(p - want_px) > 1e-14 * want_px for p in px): return f"pixel scale {px}, expected {want_px}"
    if not set(io['mask_values']) <= {0, 1}: return f"mask not binary: {io['mask_values'][:5]}"
    if io['nseg'] != c['segments']: return f"{io['nseg']} segments, had {c['segments']}"
    if io['seg_overlap'] > 1: return 'rescaled segment masks overlap'
    if not io['untouched'] or not io['is_new']: return 'the original plane was modified'
    for k in range(2):
        ext_new, ext_old = px[k] * io['shape'][k], c['px'] * c['shape'][k]
        if not (-1e-12 * ext_old <= ext_new - ext_old < px[k] * (1 + 1e-12)): return f'extent changed by more than one sample: {ext_old} -> {ext_new}'
    if c['scale'] == 1.0:
        if io['id_amp'] > 1e-12 or io['id_opd'] > 1e-9 or not io['id_mask']: return f"scale 1 is not the identity (amp {io['id_amp']:.2g}, opd {io['id_opd']:.2g}, mask {io['id_mask']})"
    if c['twice']:
        back = [math.ceil(math.ceil(n * s) / s) for n in (n0, n1)]
        if io['twice_shape'] != back: return f"rescale of a rescaled plane: shape {io['twice_shape']}, expected {back}"
        if any(abs(p - c['px']) > 1e-14 * c['px'] for p in io['twice_px']): return f"rescale by s then 1/s: pixel scale {io['twice_px']}"
    # ---- measured clause (unproven): interpolation accuracy on smooth apertures
    rel = abs(io['power1'] - io['power0']) / io['power0']
    tol = 2e-3 if c['scale'] < 1 else 1e-3      # unchanged tree: <= 1.8e-4 / 8.1e-5 on seeds 0-5
    if rel > tol: return f"transmitted power changed by {rel:.3g} (tolerance {tol}) at scale {c['scale']}"
    if c['propagate'] and io['img_diff'] > 3e-3: return f"propagated image changed by {io['img_diff']:.3g} of the peak at scale {c['scale']}"
    return None
