"""helpers shared by the per-property harnesses"""
import numpy as np

def ext_of(shape, off):
    """independent re-statement of the extent convention: origin sample at index floor(n/2)"""
    s0, s1 = (1, 1) if len(shape) < 2 else shape
    rmin = off[0] - s0 // 2; cmin = off[1] - s1 // 2
    return (rmin, rmin + s0 - 1, cmin, cmin + s1 - 1)

def gi_field(rng, shape, off, lo=-3, hi=4):
    """field case with small Gaussian-integer data (float64 arithmetic on it is exact)"""
    n = int(np.prod(shape)) if len(shape) else 1
    re = rng.integers(lo, hi, n); im = rng.integers(lo, hi, n)
    return {'shape': list(map(int, shape)), 'off': [int(off[0]), int(off[1])], 're': [int(x) for x in re], 'im': [int(x) for x in im]}

def np_data(f):
    d = np.array(f['re'], dtype=float) + 1j * np.array(f['im'], dtype=float)
    return d.reshape(f['shape']) if len(f['shape']) else d.reshape(())

def to_model_field(f):
    """0-d data is a 1x1 array for the model"""
    g = dict(f)
    if len(f['shape']) < 2: g['shape'] = [1, 1]
    return g

def field_json(F):
    """lentil Field -> exact integer description (data must be integer valued)"""
    d = np.asarray(F.data)
    re, im = np.real(d).ravel(), np.imag(d).ravel()
    if not (np.all(re == np.round(re)) and np.all(im == np.round(im))): raise ValueError('non-integer field data')
    shape = list(d.shape)
    return {'shape': shape, 'off': [int(F.offset[0]), int(F.offset[1])], 're': [int(x) for x in re], 'im': [int(x) for x in im]}

def canvas(fields, box):
    """sum of the embeddings of `fields` on the closed coordinate box (rmin,rmax,cmin,cmax); complex ndarray"""
    r0, r1, c0, c1 = box
    out = np.zeros((r1 - r0 + 1, c1 - c0 + 1), dtype=complex)
    for f in fields:
        d = np_data(f)
        if d.ndim < 2: d = d.reshape(1, 1)
        e = ext_of(d.shape, f['off'])
        for i in range(d.shape[0]):
            for j in range(d.shape[1]):
                r, c = e[0] + i, e[2] + j
                if r0 <= r <= r1 and c0 <= c <= c1: out[r - r0, c - c0] += d[i, j]
    return out

def box_of(field_lists, margin=2):
    es = [ext_of(f['shape'], f['off']) for fl in field_lists for f in fl]
    if not es: return (-2, 2, -2, 2)
    return (min(e[0] for e in es) - margin, max(e[1] for e in es) + margin,
            min(e[2] for e in es) - margin, max(e[3] for e in es) + margin)

def pick_shape(rng, kmax=6, allow_one=True):
    """shapes with forced coverage of one-element, even/odd and non-square"""
    t = rng.integers(0, 8)
    if t == 0 and allow_one: return (1, 1)
    if t == 1: return (int(rng.integers(1, kmax + 1)), 1) if rng.integers(0, 2) else (1, int(rng.integers(2, kmax + 1)))
    return (int(rng.integers(1, kmax + 1)), int(rng.integers(1, kmax + 1)))
