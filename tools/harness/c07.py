"""C07 — wavefront views agree with each other and planes act as pointwise phasors.

Tie: Gen/PlanePx.lean (`_mul_pixelscale`, four None-patterns), Gen/PlaneLoop.lean (the loop body of Plane.multiply at one
sample: mask selection, amp/opd branches, phasor data, slice_offset arguments, append guard) and Gen/Helper.lean
(`slice_offset`) are regenerated from lentil/plane.py and lentil/helper.py; Model/Plane.lean + Model/PlaneMeta.lean (Plane.multiply loop, phasor construction,
boundary_slice, Wavefront.field/intensity/insert, metadata hand-over) are hand-written and compared here with the real
lentil on two streams: `gi` (small integer amplitudes, OPD = k*lambda/4 so the phasor is a power of i: exact comparison
after rounding the implementation's 1e-16 dust) and `cf` (generic floats, tolerance 1e-9*(1+|input|))."""
import itertools, json, math, numpy as np
from harness.common import *
import vlib

LEVEL_TEXT = ('Lean 4 theorems, for all shapes/offsets/data and any number of overlapping fields (the plane statements under the hypothesis that no segment bounding box and no multiplied field has exactly one element: hbig / h1, see LEVEL_NOTE): Wavefront.intensity is |Wavefront.field|^2 '
              'sample by sample; Wavefront.insert adds weight*intensity and nothing else; Plane.multiply multiplies the embedded field by '
              'amplitude*exp(2 pi i opd/lambda) inside the mask and by 0 outside, for scalar/array amplitude, OPD and mask in every '
              'combination (explicit Complex.exp for any segment list and for scalar masks); wavelength is handed over unchanged, the focal length passes through a plane unchanged when truthy and becomes inf when None/0 (generated Wavefront.__init__ rule), a Pupil hands over its focal length, along any chain of Plane/Pupil/Image steps the wavelength never changes and every phasor uses that wavelength (chain_keeps_wavelength), the plane with default attributes returns the very same wavefront (default_plane_changes_nothing; one-element fields: default_plane_identity), '
              '_mul_pixelscale (regenerated from plane.py on every run) refuses exactly the defined-and-different pairs, independently of the unit of length; the phase argument, the metadata hand-over of Plane/Pupil/Image.multiply and the wiring of the three views (which goes through reduce, intensity flag, weight) are regenerated from the source and consumed by the model; insert/intensity always return (C06 reduce_defined). The array plumbing '
              'is a hand model checked against the implementation on exact and floating-point data; its per-segment phasor is proved equal, sample by sample, to the loop body regenerated from plane.py:456-467 (Gen/PlaneLoop: loop_body_is_segPhasor, loop_mask_and_keep; the res.size > 0 guard keeps exactly the products the filterMap of the model keeps: loop_keep_matches_filterMap, plane_multiply_keeps_nonempty); the model of Wavefront.insert uses field.insert\'s default weight 1 where the regenerated wiring does not pass weight=weight, so the flag decides the value (wavefront_insert_uses_weight, wfInsert_eq: a source that drops the keyword breaks them and wavefront_insert_weight); Plane.shape, Plane.size and the ndim dispatch of _plane_slice are regenerated (Gen/PlaneGeom) and proved to give the model\'s shape, segment count and one bounding slice per layer for 0-d, 2-D and 3-D masks with any number of layers incl. one (plane_geometry_matches_model).')
LEVEL_NOTE = ('Partial: (1) fields/segments with exactly one element are excluded by hypothesis (lentil treats every size-1 array as a '
              'broadcastable scalar; open known finding KF-C07-one-pixel-segment, which includes one-sample fields off centre under a default plane; not repaired because C06 as given makes a (1,1) array a broadcastable constant: the two properties conflict on that input and the code follows C06); '
              '(2) chains that interleave planes and propagations are covered step by step by theorems and as a whole by correspondence and oracle only; '
              '(3) views on shape-() / zero-dimensional data are oracle-only; (4) multiply overrides other than Plane/Pupil/Image/Tilt are not exercised. Trusted: Lean kernel, py2lean subset '
              'semantics, NumPy slicing/broadcast/exp semantics as modelled, generator coverage of the correspondence.')
TECHNIQUE = 'Lean 4 proof (omega/induction/ring) over translator-regenerated kernels + hand model with differential correspondence'
GEN = ['Extent', 'FieldDispatch', 'FieldIdx', 'FieldMerge', 'Helper', 'Helper20', 'Hex', 'Mesh', 'PlaneHandover', 'PlanePhase', 'PlanePx', 'PropagateMeta', 'TiltFit', 'Util', 'Window', 'WfViews', 'FieldAccum', 'PlaneLoop', 'PlaneGeom']
OPS = ['C07', 'C03']
RULE = ('cases: chains of 1..4 planes on a fresh wavefront, the class drawn per plane among Plane, Pupil, Image, Tilt, Plane(ptype=pupil) within the '
        'admitted plane types, scalar/array amplitude, OPD and None/scalar/2-D/3-D mask in every combination (segments 1..5, overlapping boxes, '
        'overlapping layers, non-binary mask entries), pixel scales None/equal/different; chains of planes AND propagations (pupil planes -> '
        'propagate_dft incl. single-sample windows -> image planes / Tilt -> optional second propagation -> optional pupil-type plane; Pupil focal lengths incl. None/0/inf in plain chains) with field and intensity compared after every element and insert at '
        'the end; wavefronts with 1..6 arbitrary overlapping fields; accumulation targets with prior content and weights; all _mul_pixelscale '
        'None-patterns; an extremes stream (physical units 1e-9..1e3, nanometre OPD maps, near-equal float pixel scales; 5 % of quick/thorough, half '
        'of the failing-input search); oracle-only views on shape-() wavefronts, zero-dimensional fields and a single (1,1) field; planes with an OFF-CENTRE mask box (monolithic 2-D / one-layer 3-D / 2..3 bands) that are rescaled (x0.5..3) or resampled before multiplying a fresh wavefront, judged against the rescaled plane\'s own public amplitude/opd/mask (oracle-only; 4 % of quick/thorough, 10 % of the failing-input search). '
        'distinct = canonical (mode, plane kinds, attribute kinds, shapes, boxes) signature; non-trivial = at least one array attribute or more than one field')
TRUSTED = ['the constructor\'s mask normalisation (mask != 0, mask=None -> amplitude != 0) is applied by the harness (plane_mask_layers) before the model sees a plane; Plane.__init__ is pinned',
           'the model\'s MaskM (.scalar / .segs s0 s1 layers) is built by the harness from mask.ndim and mask.shape; that Plane.shape / Plane.size / _plane_slice read a mask of that ndim/shape the same way is proved over the regenerated Gen/PlaneGeom (plane_geometry_matches_model); 1-D masks (ndim 1: Ellipsis slice, shape (n,)) are not generated',
           'NumPy casting in out[...] += ...: accumulation targets are float64 arrays',
           'NumPy slicing and elementwise product/broadcast: the loop body of Plane.multiply (which attribute is sliced under which size test, the * mask[s] factor of both branches, amp*np.exp(..), slice_offset(s, self.shape), the res.size > 0 guard, the ndim < 3 mask selection) is regenerated into Gen/PlaneLoop.lean as its value at one sample of the slice and proved equal to the hand model segPhasor (loop_body_is_segPhasor, loop_mask_and_keep); that A[s] reads the samples of the slice and that * is elementwise is the trusted reading; util.boundary (first/last set row/column) is modelled by hand in Model/Plane.lean (bboxSlice), the clamping arithmetic of helper.boundary_slice on top of it is regenerated (Gen/Helper20, C03 segment_slices_are_boundary_slices)',
           'pixel scales are compared for equality only; the model carries them as integers',
           'np.exp(1j*t) = cos t + i sin t (Float model) ; |z**2| = re^2 + im^2 up to rounding']
UNPROVEN = ['fields and segment phasors with exactly one element are outside the theorems (known finding KF-C07-one-pixel-segment)',
            'chains of planes AND propagations: each step is covered by a theorem (plane: plane_multiply_*; views after any step: intensity_eq_normSq_field, wavefront_insert_weight; '
            'chain of planes: C03 chain_distrib / chain_exp; propagation: C02/C03; a masked plane after a propagation: C03 plane_after_propagation), the interleaved chain as a whole by correspondence (c03.chain) and oracle only',
            'views on shape-() wavefronts and zero-dimensional / single (1,1) fields: oracle only (the array model has no 0-d data; C06 reduceZ covers the merge)',
            'planes returned by Plane.rescale / Plane.resample (state carried over by the deep copy: _slice and anything cached next to it): oracle only (rescaled class; the interpolation itself is C17); skipped when rescale raises IndexError for a vanished layer or a rescaled segment has one element',
            'multiply overrides other than Plane/Pupil/Image/Tilt: DispersiveTilt/Grism (tilt bookkeeping, C04), LensletArray are not exercised; DispersiveAberration.multiply raises NotImplementedError; '
            'Rotate/Flip.multiply raise AttributeError (open known finding of C08)',
            'the plane-type admission test of Plane.multiply (C08) and tilt bookkeeping (C04) are not part of this model',
            'the constructor\'s mask normalisation (mask != 0, mask=None -> amplitude) is applied by the harness before the model sees the plane (Plane.__init__ is pinned)']
ASSUMPTIONS = ['accumulation targets of Wavefront.insert are float64 arrays (an int64 target raises NumPy\'s casting error, float32 rounds)',
               'every segment bounding box and every intermediate field that is multiplied by a further plane has more than one element (a propagation window of a single output sample is generated: the views of one-element fields are defined since the repo fix of _merge_shape)',
               'attribute arrays have the shape of the mask (otherwise NumPy raises or broadcasts; malformed input)']

WL_GI = 2.0 ** -20      # k*WL_GI/4 is exact in float64

# ------------------------------------------------------------------------------------------ generators
def _support(rng, shape, p):
    while True:
        m = (rng.random(shape) < p).astype(int)
        if m.sum() >= 2: return m

def _bbox(m):
    rows = np.where(m.any(axis=1))[0]; cols = np.where(m.any(axis=0))[0]
    return int(rows[0]), int(rows[-1]) + 1, int(cols[0]), int(cols[-1]) + 1

def _ok_layer(m):
    if not m.any(): return False
    r0, r1, c0, c1 = _bbox(m)
    return (r1 - r0) * (c1 - c0) > 1

def partition(rng, M, k, interleave):
    """split the support of M into k layers with pairwise disjoint supports; `interleave` -> random labels (bounding boxes
    overlap), else bands along one axis; None when some layer would be a single pixel"""
    idx = np.argwhere(M != 0)
    if len(idx) < 2 * k: return None
    if interleave:
        lab = rng.integers(0, k, len(idx))
    else:
        ax = int(rng.integers(0, 2))
        order = np.argsort(idx[:, ax], kind='stable')
        lab = np.empty(len(idx), dtype=int)
        cuts = np.sort(rng.choice(np.arange(1, len(idx)), size=k - 1, replace=False)) if k > 1 else []
        lab[order] = np.searchsorted(cuts, np.arange(len(idx)), side='right')
    layers = []
    for n in range(k):
        L = np.zeros_like(M)
        for (i, j) in idx[lab == n]: L[i, j] = 1
        if not _ok_layer(L): return None
        layers.append(L)
    return layers

def _attr(rng, mode, what, shape, scalar):
    if mode == 'gi':
        draw = (lambda n: rng.integers(-2, 4, n)) if what == 'amp' else (lambda n: rng.integers(-3, 6, n))
        conv = int
    else:
        draw = (lambda n: np.round(rng.normal(0, 1, n), 3)) if what == 'amp' else (lambda n: np.round(rng.uniform(-2, 2, n), 4))
        conv = float
    if scalar:
        v = conv(draw(1)[0])
        if what == 'amp' and v == 0: v = conv(1)
        return {'scalar': v}
    v = draw(shape[0] * shape[1])
    return {'shape': [int(shape[0]), int(shape[1])], 'v': [conv(x) for x in v]}

def _plane(rng, mode, shape, kind, force=None):
    """one plane description; mask kinds: none / scalar / 2d / 3d / 3d-overlapping layers"""
    t = force or ['none', 'scalar', '2d', '2d', '3d', '3d', '3d', '3dov'][int(rng.integers(0, 8))]
    amp_scalar = bool(rng.integers(0, 3) == 0)
    opd_scalar = bool(rng.integers(0, 3) == 0)
    if t == 'default':
        pl = {'amp': {'scalar': 1 if mode == 'gi' else 1.0}, 'opd': {'scalar': 0 if mode == 'gi' else 0.0}, 'mask': None}
    else:
        for _ in range(50):
            amp = _attr(rng, mode, 'amp', shape, amp_scalar)
            opd = _attr(rng, mode, 'opd', shape, opd_scalar)
            mask = None
            if t == 'none':
                if not amp_scalar:
                    a = np.array(amp['v']).reshape(shape)
                    if not _ok_layer(a != 0): continue
            elif t == 'scalar':
                mask = {'scalar': int(rng.integers(0, 3)) if rng.integers(0, 4) == 0 else 1}
            else:
                M = _support(rng, shape, float(rng.uniform(0.4, 0.95)))
                if t == '2d':
                    if not _ok_layer(M): continue
                    layers = [M]
                elif t == '3d':
                    k = int(rng.integers(1, 6))          # k = 1: a 3-D mask with a single layer
                    layers = [M] if k == 1 else partition(rng, M, k, interleave=bool(rng.integers(0, 2)))
                    if k == 1 and not _ok_layer(M): continue
                    if layers is None: continue
                else:
                    k = int(rng.integers(2, 4))
                    layers = [_support(rng, shape, 0.5) for _ in range(k)]
                    if not all(_ok_layer(L) for L in layers): continue
                # raw mask entries other than 0/1 test the constructor's normalisation
                scale = int(rng.choice([1, 1, 1, 2, -1]))
                mask = {'shape': [int(shape[0]), int(shape[1])], 'ndim': 2 if t == '2d' else 3,
                        'layers': [[int(x) * scale for x in L.ravel()] for L in layers]}
            pl = {'amp': amp, 'opd': opd, 'mask': mask}
            break
        else:
            return _plane(rng, mode, shape, kind, force='default')
    pl['kind'] = kind
    pl['px'] = None
    if kind == 'pupil': pl['fl'] = float(rng.integers(1, 20))
    return pl

def _shape(rng, kmax=6):
    while True:
        s = (int(rng.integers(1, kmax + 1)), int(rng.integers(1, kmax + 1)))
        if s[0] * s[1] >= 3: return s

def slice_off(box, shape):
    r0, r1, c0, c1 = box
    return (r0 + (r1 - r0) // 2 - shape[0] // 2, c0 + (c1 - c0) // 2 - shape[1] // 2)

def _inter(a, b):
    e = (max(a[0], b[0]), min(a[1], b[1]), max(a[2], b[2]), min(a[3], b[3]))
    return e if e[0] <= e[1] and e[2] <= e[3] else None

def plane_mask_layers(pl):
    """normalised 0/1 layers of the plane's mask as the constructor builds them: list of 2-D int arrays, or a scalar 0/1"""
    m = pl['mask']
    if m is None:
        a = pl['amp']
        if 'scalar' in a: return int(a['scalar'] != 0)
        return [(np.array(a['v']).reshape(a['shape']) != 0).astype(int)]
    if 'scalar' in m: return int(m['scalar'] != 0)
    return [(np.array(L).reshape(m['shape']) != 0).astype(int) for L in m['layers']]

def has_one_element_field(planes):
    """True when some phasor or some intermediate product has exactly one element (scope exclusion, see LEVEL_NOTE)"""
    cur = [None]          # None = the one-element default field
    for pl in planes:
        L = plane_mask_layers(pl)
        boxes = []
        if isinstance(L, int):
            arr = [x for x in (pl['amp'], pl['opd']) if 'shape' in x]
            if arr:
                sh = arr[0]['shape']
                if sh[0] * sh[1] == 1: return True
                boxes.append(ext_of(sh, (0, 0)))
            else: boxes.append(None)
        else:
            shape = L[0].shape
            for lay in L:
                if not lay.any(): return False      # constructor raises; nothing is multiplied
                b = _bbox(lay)
                sh = (b[1] - b[0], b[3] - b[2])
                if sh[0] * sh[1] == 1: return True
                boxes.append(ext_of(sh, slice_off(b, shape)))
        nxt = []
        for f in cur:
            for q in boxes:
                if f is None and q is None: nxt.append(None)
                elif f is None: nxt.append(q)
                elif q is None: nxt.append(f)
                else:
                    e = _inter(f, q)
                    if e is not None:
                        if e[0] == e[1] and e[2] == e[3]: return True
                        nxt.append(e)
        cur = nxt
    return False

def gen_chain(rng, mode, kmax=6, nmax=3):
    for _ in range(200):
        n = int(rng.integers(1, nmax + 2))
        shape = _shape(rng, kmax)
        planes = []
        pt = 'none'          # wavefront plane type; the kind of every plane is drawn among those _mul_ptype_table admits
        for i in range(n):
            sh = shape if rng.integers(0, 4) else _shape(rng, kmax)
            force = 'default' if rng.integers(0, 8) == 0 else None
            legal = {'none': ['plane', 'plane', 'pupil', 'pupil', 'image', 'tilt', 'plane_pupil'],
                     'pupil': ['pupil', 'pupil', 'tilt', 'plane_pupil', 'plane_pupil'], 'image': ['image', 'image', 'tilt']}[pt]
            kind = legal[int(rng.integers(0, len(legal)))]
            if kind == 'tilt':
                pl = _plane(rng, mode, sh, 'tilt', 'default')
                pl['tilt'] = [float(np.round(rng.normal(0, 1e-3), 6)), float(np.round(rng.normal(0, 1e-3), 6))]
            else:
                pl = _plane(rng, mode, sh, kind, force)
            planes.append(pl)
            pt = {'plane': pt, 'tilt': pt, 'pupil': 'pupil', 'plane_pupil': 'pupil', 'image': 'image'}[kind]
        if has_one_element_field(planes): continue
        # pixel scales: wavefront and planes None / equal / (rarely) different
        base = [int(rng.integers(1, 4)), int(rng.integers(1, 4))] if rng.integers(0, 3) == 0 else [int(rng.integers(1, 4))] * 2
        wpx = base if rng.integers(0, 3) == 0 else None
        for pl in planes:
            if pl['kind'] == 'tilt': continue
            r = int(rng.integers(0, 24))
            if r < 12: pl['px'] = list(base)
            elif r == 12: pl['px'] = [base[0], base[1] + 1]
            elif r == 13: pl['px'] = [base[0] + 1, base[1]]
        if rng.integers(0, 6) == 0:          # documented-but-rare focal lengths of a Pupil: None, 0, inf
            for pl in planes:
                if pl['kind'] == 'pupil' and rng.integers(0, 2): pl['fl'] = [None, 0.0, math.inf][int(rng.integers(0, 3))]
        c = {'kind': 'chain', 'mode': mode, 'wavelength': WL_GI if mode == 'gi' else float(np.round(rng.uniform(0.5, 2.0), 3)),
             'wpx': wpx, 'planes': planes}
        if rng.integers(0, 2):
            tsh = _shape(rng, kmax + 1)
            c['insert'] = {'out': _target(rng, mode, tsh), 'weight': int(rng.integers(-2, 4)) if mode == 'gi' else float(np.round(rng.normal(0, 2), 2))}
        return c
    raise RuntimeError('generator could not build a chain')

def _target(rng, mode, shape):
    n = shape[0] * shape[1]
    if mode == 'gi': return {'shape': list(shape), 're': [int(x) for x in rng.integers(-3, 4, n)], 'im': [0] * n}
    return {'shape': list(shape), 're': [float(x) for x in np.round(rng.normal(0, 1, n), 3)], 'im': [0.0] * n}

def gen_views(rng):
    m = int(rng.integers(1, 7))
    om = int(rng.integers(1, 6))
    fs = []
    for _ in range(m):
        sh = pick_shape(rng, 5, allow_one=False)
        while sh[0] * sh[1] == 1: sh = pick_shape(rng, 5, allow_one=False)
        fs.append(gi_field(rng, sh, rng.integers(-om, om + 1, 2)))
    shape = _shape(rng, 8)
    return {'kind': 'views', 'mode': 'gi', 'wavelength': WL_GI, 'fields': fs, 'shape': list(shape),
            'insert': {'out': _target(rng, 'gi', _shape(rng, 8) if rng.integers(0, 2) else shape), 'weight': int(rng.integers(-2, 4))}}

def px_rank(c):
    """equality-preserving integer code of every pixel-scale value occurring in the case (the model carries scales as integers
    and only compares them for equality)"""
    vals = []
    for p in [c.get('a'), c.get('b'), c.get('wpx')] + [pl.get('px') for pl in c.get('planes', [])]:
        if p is not None: vals += [float(x) for x in p]
    u = sorted(set(vals))
    return {v: i + 1 for i, v in enumerate(u)}

def px_code(p, rank):
    return None if p is None else [rank[float(x)] for x in p]

def _near(rng, v):
    """a value different from v but close to it: next float, a few ulps, 1e-9 relative, a few nanometres away, 10 ppm"""
    t = int(rng.integers(0, 6))
    if t == 0: return float(np.nextafter(v, np.inf))
    if t == 1: return float(np.nextafter(v, -np.inf))
    if t == 2: return v * (1 + 1e-9)
    if t == 3: return v + 4e-9
    if t == 4: return v * (1 + 8e-6)
    return v * 2

def gen_px_extreme(rng):
    """pixel scales at physical magnitudes 1e-9 .. 1e3, equal / one ulp apart / nanometres apart / 10 ppm apart, per axis"""
    u = float(10.0 ** rng.integers(-9, 4)) * float(rng.integers(1, 10))
    a = [u, u] if rng.integers(0, 2) else [u, u * float(rng.integers(2, 5))]
    t = int(rng.integers(0, 5))
    if t == 0: b = list(a)
    elif t == 1: b = [_near(rng, a[0]), a[1]]
    elif t == 2: b = [a[0], _near(rng, a[1])]
    elif t == 3: b = [_near(rng, a[0]), _near(rng, a[1])]
    else: b = None
    if rng.integers(0, 2): a, b = b, a
    return {'kind': 'px', 'a': a, 'b': b, 'extreme': True}

def _flnum(x):
    """focal length as a float for the wire/compare: None -> NaN"""
    return float('nan') if x is None else float(x)

def _same_fl(a, b):
    a, b = _flnum(a), _flnum(b)
    return (a != a and b != b) or a == b

def gen_chain_extreme(rng):
    """float chains in physical units: wavelength 1e-9 .. 1e-5 m, OPD maps of nanometre size (|opd| <= 1e-8 m, non-zero) mixed
    with ordinary ones, amplitudes 1e-9 .. 1e3, pixel scales at physical magnitudes with near-equal conflicts"""
    c = gen_chain(rng, 'cf')
    wl = float(rng.choice([13.5e-9, 1e-9, 5e-7, 6.33e-7, 1e-5]))
    c['wavelength'] = wl
    for pl in c['planes']:
        if pl['kind'] == 'tilt': continue          # lentil.Tilt has no amplitude / OPD of its own
        cls = int(rng.integers(0, 4))
        o = pl['opd']
        mag = [8e-9, 3e-9, 2e-7, wl][cls]
        if 'scalar' in o: o['scalar'] = float(o['scalar']) / 2 * mag
        else:
            o['v'] = [float(x) / 2 * mag for x in o['v']]
            if cls < 2 and rng.integers(0, 2): o['v'] = [mag if x >= 0 else -mag for x in o['v']]      # flat nanometre piston
        k = float(10.0 ** rng.integers(-9, 4))
        a = pl['amp']
        if 'scalar' in a: a['scalar'] = float(a['scalar']) * k
        else: a['v'] = [float(x) * k for x in a['v']]
    if 'insert' in c:
        bound = _scale(c, 'intensity')
        c['insert']['out']['re'] = [float(x) * bound for x in c['insert']['out']['re']]
    # pixel scales in metres
    u = float(10.0 ** rng.integers(-9, 1)) * float(rng.integers(1, 10))
    base = [u, u] if rng.integers(0, 2) else [u, 2 * u]
    c['wpx'] = base if rng.integers(0, 2) else None
    conflict = rng.integers(0, 3) == 0
    tp = [pl for pl in c['planes'] if pl['kind'] != 'tilt']
    for pl in tp: pl['px'] = list(base) if rng.integers(0, 3) else None
    if conflict and tp:
        pl = tp[int(rng.integers(0, len(tp)))]
        pl['px'] = [_near(rng, base[0]), base[1]] if rng.integers(0, 2) else [base[0], _near(rng, base[1])]
    c['extreme'] = True
    return c

def gen_pchain(rng):
    """chains of planes AND propagations: pupil plane(s) -> propagate_dft -> image plane(s) (optionally a Tilt) [-> propagate_dft
    -> plane]; field / intensity recorded after every element, insert(out, weight) at the end. Float data. No tilt before a
    propagation and full propagation windows when an image plane follows (so that no one-element product arises)."""
    for _ in range(200):
        mode = 'cf'
        shape = _shape(rng, 6)
        dx = [1.0, 1.0] if rng.integers(0, 2) else [1.0, 2.0]
        els = []
        for i in range(int(rng.integers(1, 3))):
            pl = _plane(rng, mode, shape, 'pupil', None if i else ['2d', '3d', '3d', 'none'][int(rng.integers(0, 4))])
            pl['px'] = list(dx) if (i == 0 or rng.integers(0, 2)) else None          # propagate_dft needs a defined pixel scale
            els.append(pl)
        if isinstance(plane_mask_layers(els[0]), int): continue
        if has_one_element_field(els): continue
        fl = els[-1]['fl']
        os_ = int(rng.integers(1, 3))
        du = [float(rng.integers(1, 4)), float(rng.integers(1, 4))] if rng.integers(0, 2) else [2.0, 2.0]
        alpha = float(rng.uniform(0.05, 0.3))
        wl = float(np.round(dx[0] * du[0] / (alpha * fl * os_), 4))
        osh = [int(rng.integers(2, 5)), int(rng.integers(2, 5))]
        if osh[0] * osh[1] * os_ * os_ < 4: continue
        n_img = int(rng.integers(0, 3))
        psh = None
        if n_img == 0 and rng.integers(0, 2): psh = [1, 1] if rng.integers(0, 4) == 0 else [int(rng.integers(1, osh[0] + 1)), int(rng.integers(1, osh[1] + 1))]
        els.append({'kind': 'propagate', 'dx': dx, 'du': du, 'os': os_, 'shape': osh, 'prop_shape': psh})
        so = (osh[0] * os_, osh[1] * os_)
        px2 = [du[0] / os_, du[1] / os_]
        img = []
        for i in range(n_img):
            pl = _plane(rng, mode, so, 'image', ['2d', '3d', 'none', 'scalar'][int(rng.integers(0, 4))])
            pl['px'] = list(px2) if rng.integers(0, 2) else None
            img.append(pl)
            if rng.integers(0, 4) == 0:
                t = _plane(rng, mode, so, 'tilt', 'default'); t['tilt'] = [float(np.round(rng.normal(0, 1e-3), 6))] * 2; img.append(t)
        if has_one_element_field([p for p in img if p['kind'] != 'tilt'] and [dict(_full_plane(so))] + [p for p in img if p['kind'] != 'tilt']): continue
        els += img
        if n_img and rng.integers(0, 3) == 0:
            # image -> pupil: a second propagation of the (masked) image-plane field
            du2 = [float(rng.integers(1, 3))] * 2
            alpha2 = float(rng.uniform(0.05, 0.3))
            # alpha2 = px2*du2/(wl*fl*1): choose du2 scale accordingly (wavelength and focal length are fixed by now)
            k = alpha2 * wl * fl / (px2[0] * du2[0])
            du2 = [du2[0] * k, du2[1] * k]
            sh2 = [int(rng.integers(2, 5)), int(rng.integers(2, 5))]
            els.append({'kind': 'propagate', 'dx': px2, 'du': du2, 'os': 1, 'shape': sh2, 'prop_shape': None})
            if rng.integers(0, 2):
                # a pupil-type plane reached after TWO propagations (image -> pupil)
                pl = _plane(rng, mode, (sh2[0], sh2[1]), 'plane_pupil' if rng.integers(0, 2) else 'pupil', ['2d', '3d', 'none', 'scalar'][int(rng.integers(0, 4))])
                pl['px'] = None
                if not has_one_element_field([_full_plane((sh2[0], sh2[1])), pl]): els.append(pl)
        c = {'kind': 'pchain', 'mode': mode, 'wavelength': wl, 'elements': els}
        tsh = _shape(rng, 7)
        c['insert'] = {'out': _target(rng, mode, tsh), 'weight': float(np.round(rng.normal(0, 2), 2))}
        return c
    raise RuntimeError('generator could not build a propagation chain')

def _full_plane(shape):
    """stand-in for the propagated field (one array covering the whole output) in the one-element scope test"""
    return {'kind': 'image', 'amp': {'scalar': 1.0}, 'opd': {'scalar': 0.0}, 'px': None,
            'mask': {'shape': [int(shape[0]), int(shape[1])], 'ndim': 2, 'layers': [[1] * (shape[0] * shape[1])]}}

def gen_views0(rng):
    """views on data the array model does not represent (oracle-only): a shape-() wavefront holding 1..4 zero-dimensional fields
    (the fresh wavefront, optionally through default planes, is the one-field case), or one (1,1) field anywhere in a 2-D shape"""
    t = int(rng.integers(0, 3))
    if t == 0:
        return {'kind': 'views0', 'sub': 'fresh', 'ndefault': int(rng.integers(0, 3)), 'weight': int(rng.integers(-2, 4)), 'out': int(rng.integers(-3, 4))}
    if t == 1:
        n = int(rng.integers(1, 5))
        return {'kind': 'views0', 'sub': '0d', 'vals': [[int(rng.integers(-3, 4)), int(rng.integers(-3, 4))] for _ in range(n)],
                'weight': int(rng.integers(-2, 4)), 'out': int(rng.integers(-3, 4))}
    shape = _shape(rng, 5)
    return {'kind': 'views0', 'sub': '1x1', 'val': [int(rng.integers(-3, 4)), int(rng.integers(-3, 4))], 'shape': list(shape),
            'off': [int(rng.integers(-3, 4)), int(rng.integers(-3, 4))], 'weight': int(rng.integers(-2, 4))}

def gen_rescaled(rng):
    """a plane whose mask sits OFF CENTRE (non-zero slice offset), monolithic or split into bands, that is rescaled / resampled
    before it multiplies a fresh wavefront (oracle-only: judged against the rescaled plane's own public amplitude/opd/mask)"""
    while True:
        shape = (int(rng.integers(8, 17)), int(rng.integers(8, 17)))
        h, w = int(rng.integers(3, shape[0] - 2)), int(rng.integers(3, shape[1] - 2))
        r0, c0 = int(rng.integers(0, shape[0] - h + 1)), int(rng.integers(0, shape[1] - w + 1))
        if slice_off((r0, r0 + h, c0, c0 + w), shape) == (0, 0): continue
        M = np.zeros(shape, dtype=int); M[r0:r0 + h, c0:c0 + w] = 1
        k = int(rng.integers(1, 4))
        ax, n = (0, h) if rng.integers(0, 2) else (1, w)
        if k > 1 and n < 3 * k: k = 1
        layers = [M]
        if k > 1:
            cuts = [0] + sorted(int(x) for x in rng.choice(np.arange(3, n - 2), size=k - 1, replace=False)) + [n] if n - 5 >= k - 1 else None
            if cuts is None or any(b - a < 3 for a, b in zip(cuts, cuts[1:])): k, cuts = 1, None
            if cuts:
                layers = []
                for a, b in zip(cuts, cuts[1:]):
                    L = np.zeros(shape, dtype=int)
                    if ax == 0: L[r0 + a:r0 + b, c0:c0 + w] = 1
                    else: L[r0:r0 + h, c0 + a:c0 + b] = 1
                    layers.append(L)
        ndim = 2 if (k == 1 and rng.integers(0, 2)) else 3
        px = float(rng.choice([1.0, 0.5, 2.0]))
        pl = {'kind': 'pupil' if rng.integers(0, 2) else 'plane', 'fl': 10.0, 'px': [px, px],
              'amp': _attr(rng, 'cf', 'amp', shape, bool(rng.integers(0, 4) == 0)), 'opd': _attr(rng, 'cf', 'opd', shape, bool(rng.integers(0, 4) == 0)),
              'mask': {'shape': [shape[0], shape[1]], 'ndim': ndim, 'layers': [[int(x) for x in L.ravel()] for L in layers]}}
        return {'kind': 'rescaled', 'plane': pl, 'wavelength': 1.0, 'scale': float(rng.choice([2.0, 3.0, 1.5, 0.75, 0.5])),
                'how': 'rescale' if rng.integers(0, 2) else 'resample', 'box': [r0, r0 + h, c0, c0 + w]}

def gen_px(rng):
    def one():
        t = int(rng.integers(0, 3))
        return None if t == 0 else [int(rng.integers(1, 4))] * 2 if t == 1 else [int(rng.integers(1, 4)), int(rng.integers(1, 4))]
    return {'kind': 'px', 'a': one(), 'b': one()}

def generate(rng, tier):
    n = {'quick': 200, 'thorough': 4000, 'search': 1500}[tier]
    out = []
    for k in range(n):
        # extremes stream: half of the failing-input search, 5 % of the other tiers
        if (tier == 'search' and k % 2 == 0) or (tier != 'search' and k % 20 == 19):
            out.append(gen_px_extreme(rng) if k % 3 == 0 else gen_chain_extreme(rng)); continue
        if k % 8 == 7:
            out.append(gen_pchain(rng)); continue
        if k % 25 == 3:
            out.append(gen_views0(rng)); continue
        if k % 25 == 13 or (tier == 'search' and k % 10 == 5):
            out.append(gen_rescaled(rng)); continue
        t = k % 10
        if t in (0, 1, 2, 3): out.append(gen_chain(rng, 'gi'))
        elif t in (4, 5): out.append(gen_chain(rng, 'cf'))
        elif t in (6, 7, 8): out.append(gen_views(rng))
        else: out.append(gen_px(rng))
    if tier != 'search':
        out += [{'kind': 'px', 'a': a, 'b': b} for a in (None, [1, 1], [1, 2], [2, 1]) for b in (None, [1, 1], [1, 2], [2, 1])]
    return out

def _akind(a): return 's' if 'scalar' in a else 'a'
def _mkind(m): return 'none' if m is None else 'scalar' if 'scalar' in m else f"{m['ndim']}d{len(m['layers'])}"

def signature(c):
    k = c['kind']
    if k == 'onefield': return 'onefield ' + json.dumps({x: y for x, y in c.items() if x != 'kind' and not x.startswith('_')}, sort_keys=True)
    if k == 'rescaled':
        p = c['plane']
        return f"rescaled {c['how']} x{c['scale']} {p['kind']} amp:{_akind(p['amp'])} opd:{_akind(p['opd'])} mask:{_mkind(p['mask'])} {p['mask']['shape']} box={c['box']} px={p['px']}"
    if k == 'views0': return 'views0 ' + json.dumps({x: y for x, y in c.items() if x != 'kind'}, sort_keys=True)
    if k == 'pchain':
        return 'pchain ' + ' | '.join(('prop ' + str(e['shape']) + 'x' + str(e['os']) + ' ' + str(e['prop_shape'])) if e['kind'] == 'propagate' else
                                      f"{e['kind']} amp:{_akind(e['amp'])} opd:{_akind(e['opd'])} mask:{_mkind(e['mask'])} {vlib.jhash(e['mask'])[:6]}" for e in c['elements'])
    if k == 'px': return f"px {c['a']} {c['b']}"
    if k == 'views': return 'views ' + ' '.join(f"{f['shape']}@{f['off']}" for f in c['fields']) + f" -> {c['shape']} / {c['insert']['out']['shape']}"
    return f"chain {c['mode']} wpx={c['wpx']} " + ' | '.join(
        f"{p['kind']} amp:{_akind(p['amp'])} opd:{_akind(p['opd'])} mask:{_mkind(p['mask'])} px={p['px']} "
        f"{(p['mask'] or {}).get('shape') or p['amp'].get('shape') or p['opd'].get('shape')} {vlib.jhash(p['mask'])[:6]}" for p in c['planes'])

def nontrivial(c):
    k = c['kind']
    if k in ('onefield', 'rescaled'): return True
    if k == 'views0': return c['sub'] != 'fresh' or c['ndefault'] > 0
    if k == 'pchain': return True
    if k == 'px': return c['a'] is not None or c['b'] is not None
    if k == 'views': return len(c['fields']) > 1
    return any('shape' in p['amp'] or 'shape' in p['opd'] or (p['mask'] and 'shape' in p['mask']) for p in c['planes'])

def _boxes_overlap(pl):
    L = plane_mask_layers(pl)
    if isinstance(L, int) or len(L) < 2: return False
    bs = [_bbox(x) for x in L if x.any()]
    return any(a[0] < b[1] and b[0] < a[1] and a[2] < b[3] and b[2] < a[3] for a, b in itertools.combinations(bs, 2))

def tags(c):
    k = c['kind']
    t = [k]
    if k == 'onefield': return t + ['onefield:' + ('origin' if c['off'] == [0, 0] else 'off-centre')]
    if k == 'views0': return t + ['views0:' + c['sub']]
    if k == 'rescaled': return t + ['rescaled:' + c['how'], 'rescaled:' + ('up' if c['scale'] > 1 else 'down'), f"rescaled:mask{_mkind(c['plane']['mask'])}"]
    if k == 'pchain':
        ks = [e['kind'] for e in c['elements']]
        t += [f"pchain:propagations={ks.count('propagate')}", f"pchain:image-planes={ks.count('image')}"]
        if ks.count('propagate') == 2 and ks[-1] != 'propagate': t.append('pchain:plane-after-two-propagations')
        if 'tilt' in ks: t.append('pchain:tilt-after-propagation')
        return t
    if k == 'chain':
        t += [f"mode:{c['mode']}", f"planes:{len(c['planes'])}", 'insert' if 'insert' in c else 'no-insert']
        for p in c['planes']:
            t.append(f"amp:{_akind(p['amp'])}/opd:{_akind(p['opd'])}/mask:{_mkind(p['mask'])[:2]}")
            t.append(p['kind'])
            if _boxes_overlap(p): t.append('segments:overlapping-boxes')
            if p['kind'] == 'pupil' and (p['fl'] is None or p['fl'] in (0.0, math.inf)): t.append('pupil:focal-None/0/inf')
            if p['mask'] is None and 'scalar' in p['amp'] and p['amp']['scalar'] == 1 and 'scalar' in p['opd'] and p['opd']['scalar'] == 0: t.append('default-plane')
        defined = [x for x in [c['wpx']] + [p['px'] for p in c['planes']] if x is not None]
        t.append('px:none' if not defined else 'px:conflict' if any(x != defined[0] for x in defined) else 'px:consistent')
    if k == 'views': t.append(f"views:n={len(c['fields'])}")
    if k == 'px': t.append(f"px:{'N' if c['a'] is None else 'P'}{'N' if c['b'] is None else 'P'}")
    if c.get('extreme'): t.append('extreme:' + k)
    return t

# ------------------------------------------------------------------------------------------ implementation
def _np_attr(a, mode, wl):
    """amplitude/opd description -> ndarray or scalar given to the constructor (OPD in metres: k quarter waves in gi mode)"""
    if 'scalar' in a: return a['scalar']
    return np.array(a['v'], dtype=float).reshape(a['shape'])

def build_plane(pl, mode, wl):
    import lentil
    amp = _np_attr(pl['amp'], mode, wl)
    opd = _np_attr(pl['opd'], mode, wl)
    if mode == 'gi': opd = opd * (wl / 4)
    m = pl['mask']
    if m is None: mask = None
    elif 'scalar' in m: mask = m['scalar']
    else:
        mask = np.array(m['layers']).reshape([len(m['layers'])] + m['shape'])
        if m['ndim'] == 2: mask = mask[0]
    px = None if pl['px'] is None else tuple(float(x) for x in pl['px'])
    if pl['kind'] == 'pupil':
        return lentil.Pupil(amplitude=amp, opd=opd, mask=mask, pixelscale=px, focal_length=pl['fl'])
    if pl['kind'] == 'tilt': return lentil.Tilt(x=pl['tilt'][0], y=pl['tilt'][1])
    if pl['kind'] == 'image': return lentil.Image(amplitude=amp, opd=opd, mask=mask, pixelscale=px)
    if pl['kind'] == 'plane_pupil': return lentil.Plane(amplitude=amp, opd=opd, mask=mask, pixelscale=px, ptype=lentil.pupil)
    return lentil.Plane(amplitude=amp, opd=opd, mask=mask, pixelscale=px)

def _cells(x, mode):
    """flat list of numbers: gi -> ints (implementation dust rounded away, anything else kept as float), cf -> floats"""
    x = np.asarray(x, dtype=float).ravel()
    if mode == 'gi': return [int(round(v)) if abs(v - round(v)) < 1e-9 else float(v) for v in x]
    return [float(v) for v in x]

def arr_out(a, mode):
    a = np.asarray(a)
    return {'shape': [int(s) for s in a.shape], 're': _cells(np.real(a), mode), 'im': _cells(np.imag(a), mode)}

def fld_out(F, mode):
    d = arr_out(F.data, mode)
    d['off'] = [int(F.offset[0]), int(F.offset[1])]
    return d

def _pxl(p):
    if p is None: return None
    return [float(p[0]), float(p[1])]

def wf_out(w, c):
    mode = c['mode']
    o = {'wavelength': float(w.wavelength), 'focal': None if w.focal_length is None else float(w.focal_length), 'px': _pxl(w.pixelscale),
         'shape': [int(s) for s in w.shape] if len(w.shape) else None, 'data': [fld_out(f, mode) for f in w.data]}
    if len(w.shape) == 2:
        o['field'] = arr_out(w.field, mode)
        o['intensity'] = arr_out(w.intensity, mode)
        # the views are reads: a second intensity, then field, then intensity again must repeat the first answers
        i2 = arr_out(w.intensity, mode); f2 = arr_out(w.field, mode); i3 = arr_out(w.intensity, mode)
        o['reread_same'] = (i2 == o['intensity'] and f2 == o['field'] and i3 == o['intensity'])
    if 'insert' in c and all(f.data.ndim == 2 for f in w.data):
        out = np_data(c['insert']['out']).real.copy()
        r = w.insert(out, c['insert']['weight'])
        o['insert'] = arr_out(out, mode)          # the caller's array after the call
        o['insert_same_object'] = r is out
    return o

def _run_pchain(c):
    lentil = vlib.import_lentil()
    wl = c['wavelength']
    w = lentil.Wavefront(wavelength=wl)
    steps = []
    for e in c['elements']:
        if e['kind'] == 'propagate':
            w = lentil.propagate_dft(w, pixelscale=tuple(e['du']), shape=tuple(e['shape']),
                                     prop_shape=None if e['prop_shape'] is None else tuple(e['prop_shape']), oversample=e['os'])
        else:
            w = w * build_plane(e, 'cf', wl)
        st = {'shape': [int(x) for x in w.shape] if len(w.shape) else None, 'nfields': len(w.data), 'px': _pxl(w.pixelscale),
              'wavelength': float(w.wavelength), 'focal': float(w.focal_length)}
        if len(w.shape) == 2:
            st['field'] = arr_out(w.field, 'cf'); st['intensity'] = arr_out(w.intensity, 'cf')
        steps.append(st)
    o = {'steps': steps, 'data': [fld_out(f, 'cf') for f in w.data]}
    out = np_data(c['insert']['out']).real.copy()
    r = w.insert(out, c['insert']['weight'])
    o['insert'] = arr_out(out, 'cf'); o['insert_same_object'] = r is out
    return o

def _run_views0(c):
    lentil = vlib.import_lentil()
    from lentil.field import Field
    cx = lambda z: [float(np.real(z)), float(np.imag(z))]
    if c['sub'] == 'fresh':
        w = lentil.Wavefront(1e-6)
        for _ in range(c['ndefault']): w = w * lentil.Plane()
    elif c['sub'] == '0d':
        w = lentil.Wavefront.empty(1e-6)
        w.data = [Field(np.array(complex(a, b))) for a, b in c['vals']]
    else:
        w = lentil.Wavefront.empty(1e-6, shape=tuple(c['shape']))
        w.data = [Field(np.array([[complex(*c['val'])]]), offset=list(c['off']))]
    if c['sub'] == '1x1':
        out = np.zeros(tuple(c['shape']))
        r = w.insert(out, c['weight'])
        return {'field': arr_out(w.field, 'gi'), 'intensity': arr_out(w.intensity, 'gi'), 'insert': arr_out(out, 'gi'), 'same': r is out}
    out = np.array(float(c['out']))
    r = w.insert(out, c['weight'])
    return {'field': cx(w.field), 'intensity': float(w.intensity), 'insert': float(r), 'fshape': list(np.shape(w.field)), 'ishape': list(np.shape(w.intensity))}

def _run_onefield(c):
    """a wavefront holding one (1,1) field at an offset, multiplied by a plane with default attributes"""
    lentil = vlib.import_lentil()
    from lentil.field import Field
    w = lentil.Wavefront.empty(1e-6, shape=tuple(c['shape']), ptype=lentil.image)
    w.data = [Field(np.array([[complex(*c['val'])]]), offset=list(c['off']))]
    w2 = w * (lentil.Image() if c['plane'] == 'image' else lentil.Tilt(x=0, y=0))
    return {'data': [fld_out(f, 'gi') for f in w2.data], 'shape': [int(x) for x in w2.shape]}

def _run_rescaled(c):
    """off-centre plane -> rescale / resample -> multiply a fresh wavefront; reference from the RESCALED plane's public attributes"""
    lentil = vlib.import_lentil()
    wl = c['wavelength']
    P0 = build_plane(c['plane'], 'cf', wl)
    try:
        P2 = P0.rescale(c['scale']) if c['how'] == 'rescale' else P0.resample(P0.pixelscale[0] / c['scale'])
    except IndexError:
        return {'skipped': 'rescale raised IndexError: a layer vanished from the order-0 rescaled mask (C17, reported)'}
    mask = np.asarray(P2.mask)
    layers = mask[None] if mask.ndim == 2 else mask
    if not all(_ok_layer(L != 0) for L in layers): return {'skipped': 'a rescaled segment has at most one element (KF-C07-one-pixel-segment)'}
    w = lentil.Wavefront(wl) * P2
    ref = sum(P2.amplitude * L * np.exp(2j * np.pi * P2.opd / wl) for L in layers)
    f, I = np.asarray(w.field), np.asarray(w.intensity)
    o = {'shape': [int(x) for x in f.shape], 'ref_shape': [int(x) for x in ref.shape], 'plane_shape': [int(x) for x in P2.shape],
         'scale_': float(np.max(np.abs(ref))) if ref.size else 0.0, 'wavelength_same': bool(w.wavelength == wl), 'nfields': len(w.data), 'nlayers': int(len(layers))}
    if f.shape == ref.shape:
        o['err_f'] = float(np.max(np.abs(f - ref))); o['err_i'] = float(np.max(np.abs(I - np.abs(ref) ** 2)))
        bad = np.argwhere(np.abs(f - ref) > 1e-9 * (1 + o['scale_']))
        o['first_bad'] = [int(x) for x in bad[0]] if len(bad) else None
    return o

def impl(c):
    lentil = vlib.import_lentil()
    if c['kind'] == 'rescaled':
        try:
            return _run_rescaled(c)
        except (ValueError, IndexError, TypeError) as e:
            return {'exc': type(e).__name__, 'msg': str(e)[:200]}
    if c['kind'] == 'onefield':
        try:
            return _run_onefield(c)
        except (ValueError, IndexError, TypeError) as e:
            return {'exc': type(e).__name__, 'msg': str(e)[:200]}
    if c['kind'] == 'views0':
        try:
            return _run_views0(c)
        except (ValueError, IndexError, TypeError) as e:
            return {'exc': type(e).__name__, 'msg': str(e)[:200]}
    if c['kind'] == 'pchain':
        try:
            return _run_pchain(c)
        except (ValueError, IndexError, TypeError) as e:
            return {'exc': type(e).__name__, 'msg': str(e)[:200]}
    from lentil.field import Field
    from lentil.plane import _mul_pixelscale
    k = c['kind']
    try:
        if k == 'px':
            a = None if c['a'] is None else tuple(float(x) for x in c['a'])
            b = None if c['b'] is None else tuple(float(x) for x in c['b'])
            return {'px': _pxl(_mul_pixelscale(a, b))}
        if k == 'views':
            w = lentil.Wavefront.empty(wavelength=c['wavelength'], shape=tuple(c['shape']))
            w.data = [Field(np_data(f), offset=list(f['off'])) for f in c['fields']]
            return wf_out(w, c)
        wl = c['wavelength']
        w = lentil.Wavefront(wavelength=wl, pixelscale=None if c['wpx'] is None else tuple(float(x) for x in c['wpx']))
        for pl in c['planes']:
            w = w * build_plane(pl, c['mode'], wl)
        return wf_out(w, c)
    except (ValueError, IndexError, TypeError) as e:
        return {'exc': type(e).__name__, 'msg': str(e)[:200]}

# ------------------------------------------------------------------------------------------ model requests
def _enc(mode):
    return (lambda x: int(x)) if mode == 'gi' else (lambda x: vlib.fbits(x))

def attr_req(a, mode):
    e = _enc(mode)
    if 'scalar' in a: return {'scalar': e(a['scalar'])}
    return {'shape': a['shape'], 'v': [e(x) for x in a['v']]}

def plane_req(pl, mode, rank=None):
    L = plane_mask_layers(pl)
    if isinstance(L, int): mask = {'scalar': L}
    else: mask = {'shape': [int(s) for s in L[0].shape], 'layers': [[int(x) for x in lay.ravel()] for lay in L]}
    r = {'kind': pl['kind'] if pl['kind'] in ('pupil', 'image') else 'plane', 'amp': attr_req(pl['amp'], mode), 'opd': attr_req(pl['opd'], mode), 'mask': mask, 'px': pl['px'] if rank is None else px_code(pl['px'], rank)}
    if pl['kind'] == 'pupil': r['fl'] = vlib.fbits(_flnum(pl['fl']))
    return r

def arr_req(a, mode):
    e = _enc(mode)
    return {'shape': a['shape'], 're': [e(x) for x in a['re']], 'im': [e(x) for x in a['im']]}

def requests(c, io):
    k = c['kind']
    if k in ('views0', 'onefield', 'rescaled'): return []          # oracle-only
    if k == 'pchain':
        els = []
        for e in c['elements']:
            if e['kind'] == 'propagate':
                els.append({'kind': 'propagate', 'dx': vlib.fl(e['dx']), 'du': vlib.fl(e['du']), 'os': e['os'], 'shape': e['shape'],
                            'prop_shape': e['prop_shape'] or e['shape']})
            elif e['kind'] == 'tilt': els.append({'kind': 'tilt', 'x': vlib.fbits(e['tilt'][0]), 'y': vlib.fbits(e['tilt'][1])})
            else: els.append(plane_req(dict(e, px=None), 'cf'))
        return [{'op': 'c03.chain', 'wavelength': vlib.fbits(c['wavelength']), 'wtilt': None, 'elements': els, 'steps': True,
                 'insert': {'out': arr_req(c['insert']['out'], 'cf'), 'weight': vlib.fbits(c['insert']['weight'])}}]
    rank = px_rank(c)
    if k == 'px': return [{'op': 'c07.pixelscale', 'a': px_code(c['a'], rank), 'b': px_code(c['b'], rank)}]
    mode = c['mode']
    r = {'op': 'c07.run', 'mode': mode, 'wavelength': vlib.fbits(c['wavelength']), 'focal': vlib.fbits(math.inf),
         'px': px_code(c.get('wpx'), rank), 'planes': [plane_req(p, mode, rank) for p in c.get('planes', [])]}
    if k == 'views':
        r['data'] = [dict(arr_req(f, mode), off=f['off']) for f in c['fields']]
        r['shape'] = c['shape']
    if 'insert' in c:
        r['insert'] = {'out': arr_req(c['insert']['out'], mode), 'weight': _enc(mode)(c['insert']['weight'])}
    return [r]

# ------------------------------------------------------------------------------------------ comparison
def _dec_arr(a, mode):
    """model array answer -> complex ndarray"""
    d = (lambda v: float(v)) if mode == 'gi' else vlib.bitsf
    re = np.array([d(v) for v in a['re']], dtype=float); im = np.array([d(v) for v in a['im']], dtype=float)
    return (re + 1j * im).reshape(a['shape'])

def _np_arr(a):
    return (np.array(a['re'], dtype=float) + 1j * np.array(a['im'], dtype=float)).reshape(a['shape'])

def _canvas(fields, box, dec):
    r0, r1, c0, c1 = box
    out = np.zeros((r1 - r0 + 1, c1 - c0 + 1), dtype=complex)
    for f in fields:
        d = dec(f)
        if d.ndim < 2: d = d.reshape(1, 1)
        e = ext_of(d.shape, f['off'])
        for i in range(d.shape[0]):
            for j in range(d.shape[1]):
                r, q = e[0] + i, e[2] + j
                if r0 <= r <= r1 and c0 <= q <= c1: out[r - r0, q - c0] += d[i, j]
    return out

def _close(a, b, mode, scale=1.0):
    a = np.asarray(a); b = np.asarray(b)
    if a.shape != b.shape: return False
    if mode == 'gi': return bool(np.array_equal(a, b))
    tol = 1e-9 * scale + 1e-300          # relative to the bound of the compared quantity: no absolute floor (nano-scale data)
    return bool(np.all(np.abs(a - b) <= tol))

def _nsq(z):
    z = np.asarray(z)
    return z.real ** 2 + z.imag ** 2

def _scale(c, key='field'):
    """bound on the magnitude of the compared quantity (tolerance = 1e-9*(1 + this)): the field is bounded by the product over the
    planes of max|amplitude| * number of layers (times the injected data for `views`); intensity by its square; insert adds the
    target's prior content"""
    f = 1.0
    for p in c.get('planes', []):
        a = p['amp']
        f *= max(abs(x) for x in a['v']) if 'v' in a else abs(a['scalar'])
        if p.get('mask') and 'layers' in p['mask']: f *= len(p['mask']['layers'])
    if c.get('fields'): f *= sum(max(max(abs(x) for x in g['re']), max(abs(x) for x in g['im'])) for g in c['fields'])
    if key == 'field': return f
    if key == 'intensity': return f * f
    return f * f * abs(c['insert']['weight']) + max(abs(x) for x in c['insert']['out']['re'])

def _pchain_bounds(c):
    """running bound of |field| after every element: planes multiply by max|amp| * layers, a propagation by the number of input samples"""
    f, n, out = 1.0, 1, []
    for e in c['elements']:
        if e['kind'] == 'propagate':
            f *= max(1, n); n = e['shape'][0] * e['shape'][1] * e['os'] ** 2
        elif e['kind'] != 'tilt':
            a = e['amp']
            f *= max(abs(x) for x in a['v']) if 'v' in a else abs(a['scalar'])
            L = plane_mask_layers(e)
            if not isinstance(L, int): f *= len(L); n = L[0].size
        out.append(f)
    return out

def _field_box(fl):
    es = [ext_of(f['shape'] if len(f['shape']) == 2 else (1, 1), f['off']) for f in fl]
    if not es: return (-2, 2, -2, 2)
    return (min(e[0] for e in es) - 1, max(e[1] for e in es) + 1, min(e[2] for e in es) - 1, max(e[3] for e in es) + 1)

def compare(c, io, mo):
    if c['kind'] in ('views0', 'onefield', 'rescaled'): return None
    m = mo[0]
    k = c['kind']
    if 'exc' in io:
        if m.get('ok'): return f"implementation raised {io['exc']} ({io.get('msg')}), model answered"
        return None if m.get('err') == io['exc'] else f"implementation raised {io['exc']}, model {m.get('err')}"
    if not m.get('ok'): return f"model refused ({m.get('err')}), implementation answered"
    if k == 'views0': return None
    if k == 'pchain':
        b = _pchain_bounds(c)
        if len(m['steps']) != len(io['steps']): return 'number of steps'
        for i, (x, y) in enumerate(zip(io['steps'], m['steps'])):
            if x['shape'] != y['shape']: return f"step {i}: shape impl {x['shape']} model {y['shape']}"
            for key, bb in (('field', b[i]), ('intensity', b[i] ** 2)):
                if key in x:
                    if isinstance(y.get(key), str) or key not in y: return f'step {i}: model {key}: {y.get(key)}'
                    u, v = _np_arr(x[key]), _dec_arr(y[key], 'cf')
                    if not _close(u, v, 'cf', bb): return f'step {i} ({c["elements"][i]["kind"]}): {key} differs (max {np.max(np.abs(u - v)):.3g}, bound {bb:.3g})'
        if vlib.bitsf(m['focal']) != io['steps'][-1]['focal']: return f"focal length: impl {io['steps'][-1]['focal']} model {vlib.bitsf(m['focal'])}"
        if isinstance(m.get('insert'), str): return f"model insert: {m['insert']}"
        bi = b[-1] ** 2 * abs(c['insert']['weight']) + max(abs(v) for v in c['insert']['out']['re'])
        if not _close(_np_arr(io['insert']), _dec_arr(m['insert'], 'cf'), 'cf', bi): return 'insert differs'
        return None
    rank = px_rank(c)
    if k == 'px':
        want = None if io['px'] is None else [rank.get(float(x)) for x in io['px']]
        return None if m['px'] == want else f"_mul_pixelscale: impl {io['px']} model {m['px']}"
    mode = c['mode']
    if vlib.bitsf(m['wavelength']) != io['wavelength']: return f"wavelength: impl {io['wavelength']} model {vlib.bitsf(m['wavelength'])}"
    if not _same_fl(vlib.bitsf(m['focal']), io['focal']): return f"focal length: impl {io['focal']} model {vlib.bitsf(m['focal'])}"
    if (None if io['px'] is None else [rank.get(float(x)) for x in io['px']]) != m['px']: return f"pixelscale: impl {io['px']} model {m['px']}"
    if io['shape'] != m['shape']: return f"shape: impl {io['shape']} model {m['shape']}"
    box = _field_box(io['data'] + [dict(f, shape=f['shape']) for f in m['data']])
    ci = _canvas(io['data'], box, _np_arr)
    cm = _canvas(m['data'], box, lambda f: _dec_arr(f, mode))
    if not _close(ci, cm, mode, _scale(c, 'field')): return f'fields differ on the canvas (max {np.max(np.abs(ci - cm)):.3g})'
    for key in ('field', 'intensity', 'insert'):
        if key in io:
            if key not in m: return f'model gave no {key}'
            if isinstance(m[key], str): return f'model {key}: {m[key]}'
            if not _close(_np_arr(io[key]), _dec_arr(m[key], mode), mode, _scale(c, key)):
                return f'{key} differs (max {np.max(np.abs(_np_arr(io[key]) - _dec_arr(m[key], mode))):.3g})'
    return None

# ------------------------------------------------------------------------------------------ oracle (real code only)
def plane_factor(pl, mode, wl, box):
    """independent statement of what a plane does: transmission on the coordinate box; pixel (i, j) of a (S0, S1) plane sits
    at global coordinate (i - S0//2, j - S1//2); amplitude*exp(+2 pi i opd/lambda) where a mask layer is set, 0 elsewhere"""
    r0, r1, c0, c1 = box
    T = np.zeros((r1 - r0 + 1, c1 - c0 + 1), dtype=complex)
    L = plane_mask_layers(pl)
    def val(a, i, j, shape):
        if 'scalar' in a: return a['scalar']
        return a['v'][i * shape[1] + j]
    def ph(o):
        if mode == 'gi': return [1, 1j, -1, -1j][int(o) % 4]
        return np.exp(2j * np.pi * o / wl)
    if isinstance(L, int):
        arr = [x for x in (pl['amp'], pl['opd']) if 'shape' in x]
        if not arr:
            T[:, :] = pl['amp']['scalar'] * L * ph(pl['opd']['scalar'])
            return T
        shape = arr[0]['shape']; layers = [np.full(shape, L)]
    else:
        shape = list(L[0].shape); layers = L
    for lay in layers:
        for i in range(shape[0]):
            for j in range(shape[1]):
                r, q = i - shape[0] // 2, j - shape[1] // 2
                if lay[i, j] and r0 <= r <= r1 and c0 <= q <= c1:
                    T[r - r0, q - c0] += val(pl['amp'], i, j, shape) * ph(val(pl['opd'], i, j, shape))
    return T

def expected_px(vals):
    """None-aware reconciliation: the defined scale, or 'conflict'"""
    cur = None
    for v in vals:
        if v is None: continue
        if cur is None: cur = v
        elif cur != v: return 'conflict'
    return cur

def _oracle_pchain(c, io):
    if 'exc' in io: return f"chain raised {io['exc']}: {io.get('msg')}"
    b = _pchain_bounds(c)
    wl = c['wavelength']; fl = math.inf; px = None; prev = None
    for i, (e, st) in enumerate(zip(c['elements'], io['steps'])):
        if st['wavelength'] != wl: return f'step {i}: wavelength changed'
        if e['kind'] == 'pupil': fl = e['fl']
        if st['focal'] != fl: return f"step {i} ({e['kind']}): focal length {st['focal']} != {fl}"
        if e['kind'] == 'propagate': px = [e['du'][0] / e['os'], e['du'][1] / e['os']]
        elif e.get('px') is not None: px = [float(x) for x in e['px']]
        if st['px'] != px: return f"step {i} ({e['kind']}): pixelscale {st['px']} != {px}"
        if 'field' in st:
            f = _np_arr(st['field']); I = _np_arr(st['intensity'])
            if not _close(I, _nsq(f), 'cf', b[i] ** 2): return f"step {i} ({e['kind']}): intensity != |field|^2 (max {np.max(np.abs(I - _nsq(f))):.3g})"
            if e['kind'] not in ('propagate', 'tilt'):
                S0, S1 = st['shape']
                tb = (-(S0 // 2), -(S0 // 2) + S0 - 1, -(S1 // 2), -(S1 // 2) + S1 - 1)
                T = plane_factor(e, 'cf', wl, tb)
                if prev is None: want = T
                elif prev.shape == f.shape: want = prev * T
                else: want = None
                if want is not None and not _close(f, want, 'cf', b[i]):
                    return f"step {i} ({e['kind']}): field is not the incoming field * amplitude * exp(2 pi i opd/lambda) inside the mask, 0 outside (max {np.max(np.abs(f - want)):.3g})"
            if e['kind'] == 'tilt' and prev is not None and prev.shape == f.shape and not _close(f, prev, 'cf', b[i]): return f'step {i}: a Tilt plane changed the field'
            prev = f
    out = np_data(c['insert']['out']).real
    S0, S1 = out.shape
    tb = (-(S0 // 2), -(S0 // 2) + S0 - 1, -(S1 // 2), -(S1 // 2) + S1 - 1)
    F = _canvas(io['data'], tb, _np_arr)
    want = out + c['insert']['weight'] * _nsq(F)
    if io.get('insert_same_object') is False: return 'Wavefront.insert did not accumulate into the caller\'s array'
    bi = b[-1] ** 2 * abs(c['insert']['weight']) + np.max(np.abs(out))
    if not _close(_np_arr(io['insert']), want, 'cf', bi): return 'insert(out, weight) after the chain did not add weight * |field|^2 and nothing else'
    return None

def _oracle_views0(c, io):
    if 'exc' in io: return f"views on one-element data raised {io['exc']}: {io.get('msg')}"
    if c['sub'] == '1x1':
        S0, S1 = c['shape']
        want = np.zeros((S0, S1), dtype=complex)
        i, j = S0 // 2 + c['off'][0], S1 // 2 + c['off'][1]
        if 0 <= i < S0 and 0 <= j < S1: want[i, j] = complex(*c['val'])
        if not np.array_equal(_np_arr(io['field']), want): return 'field of a single (1,1) field is not its embedding'
        if not np.array_equal(_np_arr(io['intensity']), _nsq(want)): return 'intensity != |field|^2 for a single (1,1) field'
        if not io['same'] or not np.array_equal(_np_arr(io['insert']), c['weight'] * _nsq(want)): return 'insert did not add weight * intensity into the caller\'s array'
        return None
    tot = 1 + 0j if c['sub'] == 'fresh' else sum(complex(a, b) for a, b in c['vals'])
    if io['fshape'] != [] or io['ishape'] != []: return f"views of a shape-() wavefront have shapes {io['fshape']}, {io['ishape']}"
    if complex(*io['field']) != tot: return f"field {io['field']} of a shape-() wavefront is not the sum {tot} of its fields"
    n2 = tot.real ** 2 + tot.imag ** 2
    if abs(io['intensity'] - n2) > 1e-12 * (1 + n2): return f"intensity {io['intensity']} != |field|^2 = {n2} on a shape-() wavefront"
    if abs(io['insert'] - (c['out'] + c['weight'] * n2)) > 1e-12 * (1 + n2 * abs(c['weight'])): return 'insert on a shape-() wavefront did not add weight * intensity'
    return None

def oracle(c, io):
    k = c['kind']
    if k == 'onefield':
        if 'exc' in io: return f"default plane on a one-sample field raised {io['exc']}"
        want = [{'shape': [1, 1], 're': [c['val'][0]], 'im': [c['val'][1]], 'off': c['off']}]
        box = _field_box(want)
        if not np.array_equal(_canvas(io['data'], box, _np_arr), _canvas(want, box, _np_arr)):
            return f"a plane with default attributes ({c['plane']}) changed a one-sample field at offset {c['off']}: {len(io['data'])} field(s) left"
        return None
    if k == 'views0': return _oracle_views0(c, io)
    if k == 'rescaled':
        if 'skipped' in io: return None
        how = f"{c['how']}d (scale {c['scale']}) plane with its mask box {c['box']} off centre"
        if 'exc' in io: return f"multiplying by a {how} raised {io['exc']}: {io.get('msg')}"
        if io['shape'] != io['ref_shape'] or io['shape'] != io['plane_shape']: return f"{how}: field shape {io['shape']} is not the rescaled plane's shape {io['plane_shape']}"
        tol = 1e-9 * (1 + io['scale_'])
        if not io['err_f'] <= tol:
            return (f"{how}: field is not amplitude * exp(2 pi i opd/lambda) of the rescaled plane inside its mask and 0 outside "
                    f"(max error {io['err_f']:.3g}, first at {io['first_bad']}): the phasor sits at the wrong samples")
        if not io['err_i'] <= tol * (1 + io['scale_']): return f"{how}: intensity is not |amplitude * mask|^2 of the rescaled plane (max error {io['err_i']:.3g})"
        if not io['wavelength_same']: return f'{how}: wavelength changed'
        return None
    if k == 'pchain': return _oracle_pchain(c, io)
    if k == 'px':
        a, b = c['a'], c['b']
        if a is not None and b is not None and a != b:
            return None if io.get('exc') == 'ValueError' else f'inconsistent pixel scales {a} != {b} were accepted: {io}'
        if 'exc' in io: return f"consistent pixel scales {a}, {b} refused: {io['exc']}"
        want = a if a is not None else b
        return None if io['px'] == (None if want is None else [float(x) for x in want]) else f'_mul_pixelscale({a},{b}) = {io["px"]}'
    mode = c['mode']
    if k == 'chain':
        # pixel scales, in order
        cur = c['wpx']; conflict = False
        for p in c['planes']:
            if p['px'] is not None and cur is not None and p['px'] != cur: conflict = True; break
            cur = p['px'] if p['px'] is not None else cur
        if conflict:
            return None if io.get('exc') == 'ValueError' else 'planes with inconsistent pixel scales were not refused'
        if 'exc' in io: return f"chain raised {io['exc']}: {io.get('msg')}"
        if io['px'] != (None if cur is None else [float(x) for x in cur]): return f"pixelscale {io['px']} != {cur}"
        if io['wavelength'] != c['wavelength']: return f"wavelength changed: {io['wavelength']}"
        fl = math.inf
        for p in c['planes']:
            # a Pupil hands over its focal length as it is; every Plane.multiply builds the new wavefront through
            # Wavefront.__init__, which replaces a falsy focal length (None, 0) by inf ("plane wave")
            fl = p['fl'] if p['kind'] == 'pupil' else (fl if fl else math.inf)
        if not _same_fl(io['focal'], fl): return f"focal length {io['focal']} != {fl}"
        box = _field_box(io['data'])
        for p in c['planes']:
            for a in (p['amp'], p['opd'], p['mask'] or {}):
                if 'shape' in a:
                    e = ext_of(a['shape'], (0, 0)); box = (min(box[0], e[0]), max(box[1], e[1]), min(box[2], e[2]), max(box[3], e[3]))
        want = np.ones((box[1] - box[0] + 1, box[3] - box[2] + 1), dtype=complex)
        for p in c['planes']: want = want * plane_factor(p, mode, c['wavelength'], box)
        got = _canvas(io['data'], box, _np_arr)
        allscalar = all(f['shape'] == [] or f['shape'] == [1, 1] for f in io['data'])
        if allscalar and all(isinstance(plane_mask_layers(p), int) and 'scalar' in p['amp'] and 'scalar' in p['opd'] for p in c['planes']):
            # everything is a constant: the single one-element field carries the constant
            v = _np_arr(dict(io['data'][0], shape=[1, 1])).ravel()[0] if io['data'] else 0
            if not _close(np.array([v]), np.array([want.ravel()[0]]), mode, _scale(c, 'field')): return f'constant field {v} != {want.ravel()[0]}'
        elif not _close(got, want, mode, _scale(c, 'field')):
            return f'field is not input * amplitude * exp(2 pi i opd/lambda) inside the mask and 0 outside (max error {np.max(np.abs(got - want)):.3g})'
        total = got
    else:
        if 'exc' in io: return f"views raised {io['exc']}: {io.get('msg')}"
        box = _field_box(c['fields'])
        total = _canvas(c['fields'], box, np_data)
    # views: field = coherent sum; intensity = |field|^2; insert adds weight*intensity and nothing else
    if io.get('reread_same') is False: return 'reading intensity/field a second time on the same wavefront gave different values (a view modified the wavefront)'
    if 'field' in io:
        S0, S1 = io['shape']
        tb = (-(S0 // 2), -(S0 // 2) + S0 - 1, -(S1 // 2), -(S1 // 2) + S1 - 1)
        src = io['data']
        F = _canvas(src, tb, _np_arr)
        f = _np_arr(io['field'])
        if not _close(f, F, mode, _scale(c, 'field')): return 'Wavefront.field is not the sum of the embedded fields'
        I = _np_arr(io['intensity'])
        if not _close(I, _nsq(f), mode, _scale(c, 'intensity')): return f'intensity != |field|^2 (max {np.max(np.abs(I - _nsq(f))):.3g})'
    if 'insert' in io:
        out = np_data(c['insert']['out']).real
        S0, S1 = out.shape
        tb = (-(S0 // 2), -(S0 // 2) + S0 - 1, -(S1 // 2), -(S1 // 2) + S1 - 1)
        F = _canvas(io['data'], tb, _np_arr)
        want = out + c['insert']['weight'] * _nsq(F)
        if io.get('insert_same_object') is False: return 'Wavefront.insert did not accumulate into (and return) the caller\'s array'
        if not _close(_np_arr(io['insert']), want, mode, _scale(c, 'insert')): return 'insert(out, weight) did not add weight * |field|^2 and nothing else'
    return None

def shrink(c):
    if c['kind'] in ('pchain', 'views0', 'onefield', 'rescaled'): return
    if c['kind'] == 'chain':
        if len(c['planes']) > 1:
            for i in range(len(c['planes'])):
                d = dict(c); d['planes'] = c['planes'][:i] + c['planes'][i + 1:]; yield d
        if 'insert' in c:
            d = dict(c); d.pop('insert'); yield d
    if c['kind'] == 'views' and len(c['fields']) > 1:
        for i in range(len(c['fields'])):
            d = dict(c); d['fields'] = c['fields'][:i] + c['fields'][i + 1:]; yield d

# ------------------------------------------------------------------------------------------ known finding
def matches_finding(kf, c, msg):
    """KF-C07-one-pixel-segment: the case contains a one-element phasor or intermediate field and the phasor statement fails"""
    if kf.get('id') == 'KF-C07-one-pixel-segment' and c.get('kind') == 'onefield':
        return c['off'] != [0, 0] and 'a plane with default attributes' in msg
    if kf.get('id') != 'KF-C07-one-pixel-segment' or c.get('kind') != 'chain': return False
    return has_one_element_field(c['planes']) and ('inside the mask' in msg or 'constant field' in msg)

def replay_finding(kf):
    c = kf.get('witness')
    if not c: return None
    io = impl(c)
    msg = oracle(c, io)
    return msg if msg and matches_finding(kf, c, msg) else None
