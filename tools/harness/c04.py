"""C04 — tilt carried as metadata is optically identical to tilt in the OPD.

Tie: Model/Tilt.lean (Tilt.shift, first-order DispersiveTilt.shift, Field.shift fold/units/axes, ptt_vector basis and the
arithmetic of fit_tilt for given least-squares coefficients) is a hand model run at Float and compared with the real
lentil objects; the window logic used when a tilted field is propagated is Gen/Window (C02).
Oracle (real code only): the tilt representations (OPD ramp, Tilt plane, Wavefront(tilt=...), fit_tilt, several
elements in any order) propagated with propagate_dft agree on the common evaluated window; fit_tilt removes exactly the
least-squares tip/tilt (independent normal equations), keeps piston, records the angles, also on a second fit after an
OPD update; displacements add, are order independent, have the documented direction and per-axis pixel size; dispersive
displacements lie on the trace at the arc length mapped to the wavelength (also higher order, numerically)."""
import itertools
import numpy as np
from harness.common import *
from harness import c02 as P
import vlib

LEVEL_TEXT = ('Lean 4 theorems, for all lists of tilt elements (angular, first-order dispersive, any-order dispersive given the abscissa its solver returns: '
              'TiltEl.dispersiveN), angles, samplings and OPDs: the folded Field.shift is the sum of the individual '
              'displacements and invariant under permutation (shift_additive, shift_perm_invariant, any_order_lists_add); Tilt plane, Wavefront(tilt) and the fit_tilt record give the same shift; '
              'Tilt(thx, thy) displaces by (+z·thx/du0·os rows, -z·thy/du1·os cols); at C/R a plane with the ramp thx·X·dx0 - thy·Y·dx1 in '
              'its OPD and the same plane carrying the tilt as metadata (any split) give the same complex value at every output sample both '
              'evaluate, for alpha = dx·du/(λ z os) (through C02 propagateField_sample); what fit_tilt subtracts is exactly the OPD ramp of '
              'the Tilt it records, for ANY coefficients, per segment and over any history; if the coefficients solve the normal equations '
              '(lstsq contract) and the Gram matrix is non-singular, every least-squares fit of the remaining OPD has zero tip/tilt and the '
              'same piston; first-order dispersive displacement lies on its trace at arc length |d(λ)|; for trace/dispersion polynomials of any order, '
              'under the solver contract DispersiveSolved (both residuals handed to scipy.optimize.leastsq vanish; residuals and arc-length integrand are '
              'regenerated from _dist_cost_func/_trace_cost_func/_trace_dist_func), dispersive_general_spec unfolds the contract (it fixes the FORM of what is handed to scipy — '
              'displacement (x, T(x)), D(dist) = λ, dist = ∫√(1+T\'²) — it is not a result about the solvers); '
              'first_order_closed_form_is_solution: the generated closed-form branch is exactly the solution of that contract; linear_trace_arc_length: with a linear trace the closed-form x '
              'is at arc length dist for ANY dist (only the dispersion root stays a contract). fit_tilt_propagates_like_original composes the two halves: the plane fit_tilt returns '
              '(its OPD, the recorded Tilt as metadata, any split) and the original plane give the same complex value at every output sample both evaluate, for ANY solver coefficients; '
              'fit_tilt_image_is_original_fraunhofer: composed with C02, every sample the fitted plane evaluates is the Fraunhofer sum of the ORIGINAL plane\'s field at that coordinate; '
              'fit_tilt_seg_propagates_like_original: the same for each segment of a segmented plane with its own recorded Tilt (fitTiltOpdSeg, disjoint binary masks). The field in the end-to-end theorems is the '
              'plane model\'s segment phasor (C03/C07 segPhasor/planePh) and the theorem covers any list of angular elements; for a segmented plane '
              'whose segments carry DIFFERENT tilts, segmented_tilt_equiv_complex: the sum over segments of the per-segment propagations with tilt metadata '
              '(each split derived from its own Field.shift) equals the sum with each segment\'s ramp written into its OPD, at every sample all windows cover; the tilt lists of '
              'Wavefront(tilt), products and Tilt planes are derived from the generated wiring. Regenerated: Tilt.__init__/shift, first-order '
              'DispersiveTilt.shift, Field.shift units and axes, ptt_vector rows, subtracted rows/coefficients, recorded indices, the tilt[n::size] '
              'stride, Wavefront.__init__/Field.__mul__/TiltInterface.multiply list wiring. '
              'The mesh under ptt_vector is the regenerated helper.mesh: Gen.meshRot (Gen.meshCoord n i 0) … 1 0 = the centred index cc the basis, the ramp and the phasor are '
              'written with (ptt_mesh_is_generated, pttBasis_over_generated_mesh; defaults shift=(0,0), angle=0 guarded). The call fit_tilt() with its early return '
              '(regenerated tests Gen.fitTiltSkips, Gen.pttVectorNone; model fitTiltCall): OPD + ramp of what was recorded is unchanged in both branches '
              '(fit_tilt_call_total_unchanged); nothing is fitted exactly when the plane has no shape or its OPD a single sample, and then the OPD comes back as it was (fit_tilt_call_skips_iff). '
              'The loop of Field.shift is regenerated (Gen.fieldShiftFold: initial accumulators, which accumulator feeds xs / ys of tilt.shift, which result is kept as x / y) and '
              'foldShift_is_generated proves the model\'s foldShift is that fold; the per-segment OPD term of the segmented fit (Gen.fitSegOpdTerm) is regenerated and fitTiltOpdSeg_is_generated proves the model sums exactly it.')
LEVEL_NOTE = ('Partial, two stated contracts: (1) np.linalg.lstsq returns a solution of the normal equations of the masked basis — the single trusted '
              'fact of the fit clause (hypothesis hN of fit_tilt_is_least_squares), re-solved independently and checked by the oracle on every case; '
              '(2) for DispersiveTilt of order > 1, scipy.optimize.leastsq/scipy.integrate.quad return a root of the generated residuals (DispersiveSolved), '
              'checked numerically by the oracle on every generated element (on the trace; dispersion(arc length) = wavelength to 2e-6); such elements run through the Float model '
              'with the harness\' own root (np.roots + bisection on a Gauss-Legendre arc length), agreement to 2e-6. Two unit dependences of these solver calls violate the property at extreme '
              'length scales and are OPEN known findings (KF-C04-fit-rank-cutoff-tiny-pixelscale, KF-C04-dispersive-solver-tiny-lengths; generated, matched; candidate patches exist). '
              'List aliasing / reuse of wavefronts (Field.__mul__, TiltInterface.multiply) is covered by correspondence + oracle (tilt lists are values in the model). '
              'Trusted: Lean kernel, generator coverage, NumPy einsum/lstsq as modelled.')
TECHNIQUE = 'Lean 4 proof (induction over tilt lists / histories, ring, Real.sqrt) over translator-regenerated tilt/fit wiring + hand model with differential correspondence at Float'
GEN = ['Extent', 'FftScratch', 'FieldDispatch', 'FieldIdx', 'FieldMerge', 'FourierWiring', 'Helper', 'Helper20', 'Hex', 'Mesh', 'PlanePhase', 'PlaneType', 'PropagateMeta', 'TiltFit', 'Util', 'Window', 'FieldAccum']      # every Gen module the model, lemmas and driver import (transitively)
OPS = ['C02', 'C04']
RULE = ('cases: (shift) lists of 1..4 angular / first-order dispersive / higher-order dispersive elements, all orderings, per-axis du, os 1..4; '
        '(fit) planes 2..7 x 2..7 with 1..3 segments, per-axis pixelscale, OPD = ramp + random, second fit after an OPD update; '
        '(reuse) one wavefront already carrying tilt (Wavefront(tilt) / fit_tilt / earlier Tilt plane) re-used for 2..4 Tilt planes, each propagated; '
        '(equiv) pupils with tilt 0.01 px .. beyond the output expressed as OPD ramp / Tilt plane / Wavefront(tilt) / fit_tilt / '
        'several elements in different orders, a first-order DispersiveTilt plane (alone and after a Tilt plane) vs the OPD ramp of its displacement at the wavelength, '
        'segmented apertures with per-segment tilts, non-square output pixels, os 1..3. '
        'distinct = (kind, shapes, element kinds, order, sampling class); non-trivial = everything but a single zero tilt'
        ' Extremes stream: every length scaled by 1e-9..1e3, the same tilt objects asked at wavelengths 3e-6..3e-4 apart (relative) and compared with fresh objects, lists of up to 47 tilt elements, almost-square output pixels, planes with more than 2**18 samples (1-D-like and 513..530 square; oracle only). Fitskip stream (8 quick / 40 search / 80 thorough): fit_tilt on scalar-OPD, one-sample and shapeless planes (early return) and a two-sample control, inplace or copy, with or without already recorded tilt.')
TRUSTED = ['scipy.optimize.leastsq / scipy.integrate.quad: root of the generated residual / the integral (contract DispersiveSolved)',
           'np.linalg.lstsq returns a solution of the normal equations of the masked basis (contract; hypothesis hN of fit_tilt_is_least_squares; the oracle re-solves them)',
           'np.einsum / reshape / broadcasting as modelled in Model/Tilt.lean; propagate_dft as modelled for C02']
UNPROVEN = ['higher-order DispersiveTilt: that scipy.optimize.leastsq(x0=0) converges to a root of the generated residuals (contract DispersiveSolved; oracle on every element; Float model fed the harness\' own root)',
            'lstsq solves the normal equations: the single trusted fact of the fit clause, checked numerically on every case',
            'tilt-list sharing between products (aliasing) and Plane.copy in fit_tilt(inplace=False): correspondence + oracle',
            'segmented_tilt_equiv_complex / tilt_representations_equiv_complex hold at samples inside every compared window only (outside one window that side is 0 by C02)']
ASSUMPTIONS = ['binary masks, pairwise disjoint non-empty segments; least-squares uniqueness claimed and checked only when a segment has 3 non-collinear pixels (otherwise lstsq returns the minimum-norm solution; only opd + recorded tilt unchanged is checked)',
               'OPD is a float array or scalar: scalar / one-sample OPD and planes without shape are generated (fitskip stream: fit_tilt must hand the plane back untouched; model fitTiltCall over the regenerated test Gen.fitTiltSkips / Gen.pttVectorNone); integer OPD arrays raise in `opd -= ...`: not generated',
               'higher-order dispersive elements at length scales < 1e-6 and planes with > 2**18 samples at pixel scales < 3e-8 m are generated but not run through the model: they are the input classes of the two open known findings',
               'generated tilt shifts keep a fractional part in [0.05,0.95] so that np.fix is insensitive to rounding']

WL, Z, KS = P.WL, P.Z, 1.0      # current case's base wavelength / focal length / length scale (set per case by `_use`)

def _use(c):
    global WL, Z, KS
    WL = c.get('WL', P.WL); Z = c.get('Z', P.Z); KS = c.get('KS', 1.0)

# ------------------------------------------------------------------------------------------ generators
def _el(rng, du, os_, allow_high=True):
    k = rng.integers(0, 6)
    if k <= 2 or (k == 5 and not allow_high):
        s = float(rng.choice([0.01, 0.4, 2.5, 9.0, 30.0]))
        px = [float(rng.uniform(-s, s)), float(rng.uniform(-s, s))]
        return {'k': 'a', 'x': px[0] * du[0] / (Z * os_), 'y': -px[1] * du[1] / (Z * os_)}
    if k <= 4:
        return {'k': 'd', 'trace': [float(rng.uniform(-2, 2)), float(rng.uniform(-1e-4, 1e-4)) * KS],
                'disp': [float(rng.choice([-1, 1]) * rng.uniform(5e-5, 4e-4)), float(WL + rng.uniform(-1e-7, 1e-7) * KS)]}
    return {'k': 'dh', 'trace': [float(rng.uniform(-20, 20)) / KS, float(rng.uniform(-1, 1)), float(rng.uniform(-1e-4, 1e-4)) * KS],
            'disp': [float(rng.uniform(-2e-3, 2e-3)) / KS, float(rng.choice([-1, 1]) * rng.uniform(5e-5, 4e-4)), float(WL + rng.uniform(-5e-8, 5e-8) * KS)]}

def _du(rng, os_):
    a = float(rng.uniform(0.05, 0.3))
    if rng.integers(0, 2): return [a * WL * Z * os_ * 64 / KS, a * WL * Z * os_ * 64 / KS]
    b = float(rng.uniform(0.05, 0.3))
    if rng.integers(0, 4) == 0: b = a * (1 + float(rng.choice([-1, 1]) * 10 ** rng.uniform(-5, -2.5)))      # almost square pixels
    return [a * WL * Z * os_ * 64 / KS, b * WL * Z * os_ * 64 / KS]

def _gen_shift(rng, nmax=5, allow_high=True):
    os_ = int(rng.integers(1, 5))
    du = _du(rng, os_)
    n = int(rng.integers(1, nmax))
    tilts = [_el(rng, du, os_, allow_high) for _ in range(n)]
    perm = [int(x) for x in rng.permutation(n)]
    wl = float(WL + rng.uniform(-5e-8, 5e-8) * KS)
    # a second and third wavelength very close to the first (fine spectral grids), evaluated on the SAME tilt objects
    return {'kind': 'shift', 'tilts': tilts, 'perm': perm, 'du': du, 'os': os_, 'wl': wl,
            'wl2': [wl * (1 + float(rng.choice([-1, 1]) * 10 ** rng.uniform(-5.5, -3.5))), wl * (1 + 3e-5)]}

def _mask_ok(mk):
    """the segment has three non-collinear pixels, i.e. the least-squares piston/tip/tilt is unique"""
    pts = np.argwhere(np.asarray(mk) > 0)
    if len(pts) < 3: return False
    A = np.column_stack([np.ones(len(pts)), pts[:, 0], pts[:, 1]]).astype(float)
    return int(np.linalg.matrix_rank(A)) == 3

def _gen_fit(rng):
    m, n = int(rng.integers(2, 8)), int(rng.integers(2, 8))
    px = [KS / 64, KS / 64] if rng.integers(0, 2) else [float(rng.choice([1 / 64, 1 / 32, 3 / 128])) * KS, float(rng.choice([1 / 64, 1 / 32, 3 / 128])) * KS]
    nseg = int(rng.integers(1, 4)) if m * n >= 9 else 1
    lab = rng.integers(0, nseg + 1, (m, n)) if nseg > 1 else (rng.integers(0, 4, (m, n)) > 0).astype(int)
    if rng.integers(0, 4) == 0 and nseg == 1: lab[:] = 1
    for k in range(1, nseg + 1):
        if not (lab == k).any():
            # give the missing segment a sample without emptying another one (an empty segment mask is outside the precondition)
            free = np.argwhere((lab == 0) | np.isin(lab, [j for j in range(1, nseg + 1) if (lab == j).sum() > 1]))
            i, j = free[rng.integers(0, len(free))]; lab[i, j] = k
    r = np.arange(m)[:, None] - m // 2; c = np.arange(n)[None, :] - n // 2
    opd = rng.integers(-8, 9, (m, n)) * (WL / 32)
    for k in range(1, nseg + 1):
        tx, ty = rng.uniform(-2e-6, 2e-6, 2)
        opd = opd + (lab == k) * (tx * r * px[0] - ty * c * px[1] + rng.uniform(-1e-7, 1e-7) * KS)
    upd = None
    if rng.integers(0, 2):
        tx, ty = rng.uniform(-2e-6, 2e-6, 2)
        upd = (tx * r * px[0] - ty * c * px[1]) * (lab > 0) + rng.integers(-4, 5, (m, n)) * (WL / 64)
    return {'kind': 'fit', 'shape': [m, n], 'px': px, 'scalar_px': bool(px[0] == px[1] and rng.integers(0, 2)), 'labels': [int(x) for x in lab.ravel()],
            'nseg': nseg, 'opd': [float(x) for x in opd.ravel()], 'update': None if upd is None else [float(x) for x in upd.ravel()],
            'inplace': bool(rng.integers(0, 2)), 'amp_scalar': bool(rng.integers(0, 3) == 0),
            'preloaded': None if rng.integers(0, 3) else [[float(rng.uniform(-2e-6, 2e-6)), float(rng.uniform(-2e-6, 2e-6))] for _ in range(nseg)]}

def _gen_fit_big(rng):
    """planes with more than 2**18 samples (1-D-like or square): the least-squares tip/tilt must still be exact.
    Too large for the interpreted model: oracle only (`nomodel`)."""
    if rng.integers(0, 2): m = int(rng.integers(2, 5)); n = 2 ** 18 // m + int(rng.integers(1, 3000))
    else: m = int(rng.integers(513, 530)); n = int(rng.integers(513, 530))
    if rng.integers(0, 2): m, n = n, m
    px = [KS / 64, KS / 64] if rng.integers(0, 2) else [KS / 64, KS / 32]
    lab = np.ones((m, n), int)
    lab[rng.integers(0, m), :] = 0
    r = np.arange(m)[:, None] - m // 2; c = np.arange(n)[None, :] - n // 2
    tx, ty = rng.uniform(-2e-6, 2e-6, 2)
    opd = rng.integers(-8, 9, (m, n)) * (WL / 32) + (tx * r * px[0] - ty * c * px[1]) + WL * 0.3 * np.sin(0.37 * r) * np.cos(0.11 * c)
    return {'kind': 'fit', 'nomodel': True, 'big': True, 'shape': [m, n], 'px': px, 'scalar_px': False, 'labels': [int(x) for x in lab.ravel()],
            'nseg': 1, 'opd': [float(x) for x in opd.ravel()], 'update': None, 'inplace': bool(rng.integers(0, 2)), 'amp_scalar': True,
            'preloaded': None}

def _gen_fitskip(rng, k):
    """fit_tilt() on planes for which nothing can be fitted (early return): a scalar OPD over a mask, a one-sample plane, a plane without
    shape (no mask: ptt_vector is None); control: a two-sample plane (the fit runs). Already recorded tilts must survive."""
    v = ['scalar-opd', 'one-sample', 'no-shape', 'two-sample'][k % 4]
    m, n = (int(rng.integers(2, 6)), int(rng.integers(2, 6))) if v == 'scalar-opd' else (1, 2) if v == 'two-sample' else (1, 1)
    px = [float(rng.choice([1e-3, 2e-3, 5e-4])) * KS, float(rng.choice([1e-3, 2e-3, 5e-4])) * KS]
    return {'kind': 'fitskip', 'variant': v, 'shape': [m, n], 'px': px, 'scalar_px': bool(px[0] == px[1] and rng.integers(0, 2)),
            'opd0': [float(x) * 1e-7 * KS for x in rng.integers(-8, 9, 2)], 'inplace': bool(rng.integers(0, 2)),
            'preloaded': [[float(rng.uniform(-1e-6, 1e-6)), float(rng.uniform(-1e-6, 1e-6))]] if rng.integers(0, 2) else None}

def _gen_equiv(rng):
    m, n = int(rng.integers(2, 7)), int(rng.integers(2, 7))
    dx = [KS / 64, KS / 64] if rng.integers(0, 2) else [float(rng.choice([1 / 64, 1 / 32])) * KS, float(rng.choice([1 / 64, 1 / 32])) * KS]
    os_ = int(rng.integers(1, 4))
    al = [float(rng.uniform(0.04, 0.3)), float(rng.uniform(0.04, 0.3))]
    if rng.integers(0, 3) == 0: al[1] = al[0]
    du = [al[0] * WL * Z * os_ / dx[0], al[1] * WL * Z * os_ / dx[1]]
    S = [int(rng.integers(2, max(3, 14 // os_))), int(rng.integers(2, max(3, 14 // os_)))]
    nseg = int(rng.integers(2, 4)) if (m * n >= 12 and rng.integers(0, 3) == 0) else 1
    if nseg > 1:
        lab = np.zeros((m, n), int)
        # segments = column bands (so each has >= 2 rows x >= 1 col; add a pixel to make them non-collinear)
        edges = np.linspace(0, n, nseg + 1).astype(int)
        for k in range(nseg): lab[:, edges[k]:edges[k + 1]] = k + 1
        lab[rng.integers(0, m), :] *= rng.integers(0, 2, n)      # some holes
        for k in range(1, nseg + 1):
            if (lab == k).sum() < 2: lab[0, edges[k - 1]] = k; lab[-1, edges[k - 1]] = k
    else:
        lab = (rng.integers(0, 5, (m, n)) > 0).astype(int)
        if lab.sum() < 2: lab[0, 0] = 1; lab[-1, -1] = 1     # a one-pixel aperture is a scalar field (documented product rule, C06)
    amp = rng.integers(1, 4, (m, n)) / 2.0
    base = rng.integers(-4, 5, (m, n)) * (WL / 16)
    tilts = []
    for k in range(nseg):
        s = float(rng.choice([0.01, 0.3, 1.7, 4.0, max(S) * os_ * 0.6, max(S) * os_ * 1.5]))
        px = [float(rng.uniform(-s, s)), float(rng.uniform(-s, s))]
        for a in (0, 1):
            fr = abs(px[a]) % 1.0
            if fr < 0.05 or fr > 0.95: px[a] += 0.21
        if rng.integers(0, 8) == 0: px = [0.0, 0.0]
        tilts.append(px)
    split = float(rng.uniform(-1, 2))
    # a first-order dispersive element whose displacement at WL is a chosen number of output samples (row, col)
    dpx = [float(rng.uniform(-3, 3)) + 0.37, float(rng.uniform(-3, 3)) - 0.41]
    t0 = float(rng.uniform(-2, 2))
    x_m = dpx[1] * du[1] / os_; y_m = -dpx[0] * du[0] / os_
    d0 = float(rng.choice([-1, 1]) * rng.uniform(5e-5, 4e-4))
    disp_el = {'px': dpx, 'trace': [t0, y_m - t0 * x_m], 'disp': [d0, WL - d0 * x_m * float(np.sqrt(1 + t0 * t0))]}
    return {'kind': 'equiv', 'shape': [m, n], 'dx': dx, 'scalar_dx': bool(dx[0] == dx[1]), 'du': du, 'os': os_, 'out_shape': S,
            'labels': [int(x) for x in lab.ravel()], 'nseg': nseg, 'amp': [float(x) for x in amp.ravel()], 'base': [float(x) for x in base.ravel()],
            'tilt_px': tilts, 'split': split, 'disp_el': disp_el, 'prop_shape': None if rng.integers(0, 3) else [int(rng.integers(1, S[0] + 1)), int(rng.integers(1, S[1] + 1))]}

def _gen_reuse(rng):
    """one wavefront that already carries tilt (Wavefront(tilt=...), a fit_tilt'ed plane, or an earlier Tilt plane) is
    re-used for k >= 2 different Tilt planes (a scan over tilt angles), each product propagated"""
    c = _gen_equiv(rng)
    c['kind'] = 'reuse'
    c['base_kind'] = ['wave', 'fit', 'plane'][int(rng.integers(0, 3))]
    if c['nseg'] > 1 and c['base_kind'] != 'fit':
        c['tilt_px'] = [c['tilt_px'][0]] * c['nseg']          # a wavefront tilt / Tilt plane is common to all segments
    S = max(c['out_shape']) * c['os']
    scan = []
    for _ in range(int(rng.integers(2, 5))):
        s = float(rng.choice([0.4, 1.7, 3.0, S * 0.4]))
        scan.append([float(rng.uniform(-s, s)), float(rng.uniform(-s, s))])
    bases = [([b[0] / 8, b[1] / 8] if abs(b[0]) + abs(b[1]) > S else list(b)) for b in c['tilt_px']]
    # keep every total shift's fractional part away from 0 (np.fix insensitive to rounding)
    for t in scan:
        for a in (0, 1):
            while any((abs(b[a] + t[a]) % 1.0) < 0.05 or (abs(b[a] + t[a]) % 1.0) > 0.95 for b in bases): t[a] += 0.23
    c['tilt_px'] = bases; c['scan'] = scan; c['prop_shape'] = None
    return c

SCALES = [1e-9, 1e-6, 1e-3, 1.0, 1e3]

def generate(rng, tier):
    n = {'quick': 160, 'thorough': 3000, 'search': 300}[tier]
    out = []
    def one(make, ks=1.0):
        base = {'WL': float(rng.choice([5e-7, 4.25e-7, 6.5e-7, 1.1e-6])) * ks, 'Z': float(rng.choice([8.0, 2.5, 20.0, 0.75])) * ks}
        if ks != 1.0: base['KS'] = ks
        _use(base)
        c = make()
        c.update(base)
        out.append(c)
    for k in range(n):
        t = k % 4
        one(lambda: _gen_shift(rng) if t == 0 else _gen_fit(rng) if t == 1 else _gen_equiv(rng) if t == 2 else _gen_reuse(rng))
    # extremes stream: tiny/huge physical scales, long tilt lists (> 32 elements), planes with > 2**18 samples
    for k in range({'quick': 10, 'thorough': 120, 'search': 120}[tier]):
        t = k % 10 if tier != 'search' else k % 20
        ks = float(rng.choice(SCALES))
        # the two unit-dependent solver calls (open known findings) are generated, not avoided: big planes and higher-order dispersive
        # elements at every length scale (quick tier: big plane at scale 1 only, to keep it short)
        if t in (9, 19) and (tier != 'search' or t == 9): one(lambda: _gen_fit_big(rng), ks if tier != 'quick' else 1.0)
        elif t in (8, 18): one(lambda: _gen_shift(rng, nmax=48, allow_high=False), ks)
        elif t % 4 == 0: one(lambda: _gen_shift(rng), ks)
        elif t % 4 == 1: one(lambda: _gen_fit(rng), ks)
        elif t % 4 == 2: one(lambda: _gen_equiv(rng), ks)
        else: one(lambda: _gen_reuse(rng), ks)
    # early-return stream of fit_tilt (Gen.fitTiltSkips / Gen.pttVectorNone, model fitTiltCall)
    for k in range({'quick': 8, 'thorough': 80, 'search': 40}[tier]): one(lambda: _gen_fitskip(rng, k))
    _use({})
    return out

# ------------------------------------------------------------------------------------------ implementation
def _obj(e):
    import lentil
    if e['k'] == 'a': return lentil.Tilt(x=e['x'], y=e['y'])
    return lentil.DispersiveTilt(trace=e['trace'], dispersion=e['disp'])

def _f(v): return float(np.ravel(v)[0])

def _shift_of(objs, c, indexing):
    from lentil.field import Field
    s = Field(data=np.ones((2, 2)), tilt=list(objs)).shift(z=Z, wavelength=c['wl'], pixelscale=tuple(c['du']), oversample=c['os'], indexing=indexing)
    return [_f(s[0]), _f(s[1])]

def _impl_shift(c):
    objs = [_obj(e) for e in c['tilts']]
    return {'ij': _shift_of(objs, c, 'ij'), 'xy': _shift_of(objs, c, 'xy'),
            'perm_ij': _shift_of([objs[i] for i in c['perm']], c, 'ij'),
            'rev_ij': _shift_of(objs[::-1], c, 'ij'),
            'each_ij': [_shift_of([o], c, 'ij') for o in objs],
            'each_m': [[_f(v) for v in o.shift(xs=0.0, ys=0.0, z=Z, wavelength=c['wl'])] for o in objs],
            'from_m': [[_f(v) for v in o.shift(xs=1e-3 * KS, ys=-2e-3 * KS, z=Z, wavelength=c['wl'])] for o in objs],
            # history: the SAME objects asked again at wavelengths very close to the first, then at the first again
            'again_m': [[[_f(v) for v in o.shift(xs=0.0, ys=0.0, z=Z, wavelength=w)] for o in objs] for w in list(c.get('wl2', [])) + [c['wl']]],
            'fresh_m': [[[_f(v) for v in _obj(e).shift(xs=0.0, ys=0.0, z=Z, wavelength=w)] for e in c['tilts']] for w in list(c.get('wl2', [])) + [c['wl']]]}

def _plane(c, opd):
    import lentil
    m, n = c['shape']
    lab = np.array(c['labels']).reshape(m, n)
    if c['nseg'] > 1: mask = np.array([(lab == k).astype(int) for k in range(1, c['nseg'] + 1)])
    else: mask = (lab > 0).astype(int)
    px = c['px'][0] if c.get('scalar_px') else tuple(c['px'])
    amp = 1 if c.get('amp_scalar') else np.ones((m, n))
    return lentil.Pupil(amplitude=amp, opd=np.array(opd).reshape(m, n), mask=mask, pixelscale=px, focal_length=Z)

def _rec(p):
    # Tilt(x=t1, y=t2) stores self.x = y, self.y = x
    return [[float(t.y), float(t.x)] for t in p.tilt]

def _impl_fitskip(c):
    import lentil
    v = c['variant']; m, n = c['shape']
    px = c['px'][0] if c.get('scalar_px') else tuple(c['px'])
    if v == 'scalar-opd': p0 = lentil.Pupil(amplitude=1, opd=c['opd0'][0], mask=np.ones((m, n), int), pixelscale=px, focal_length=Z)
    elif v == 'no-shape': p0 = lentil.Pupil(amplitude=1, opd=c['opd0'][0], pixelscale=px, focal_length=Z)
    else: p0 = lentil.Pupil(amplitude=np.ones((m, n)), opd=np.array(c['opd0'][:m * n], dtype=float).reshape(m, n), mask=np.ones((m, n), int), pixelscale=px, focal_length=Z)
    if c.get('preloaded'): p0.tilt = [lentil.Tilt(x=a, y=b) for a, b in c['preloaded']]
    before = np.array(p0.opd, dtype=float).copy(); ntilt0 = len(p0.tilt)
    obs = {'shape_empty': bool(p0.shape == ()), 'shape_none': bool(p0.shape is None), 'opd_size': int(np.asarray(p0.opd).size)}
    try:
        p1 = p0.fit_tilt(inplace=c['inplace'])
    except Exception as e:
        return dict(obs, exc=type(e).__name__, msg=f"fit_tilt on a {v} plane (opd.size={obs['opd_size']}): {str(e)[:160]}")
    obs.update({'ntilt0': ntilt0, 'ntilt1': len(p1.tilt), 'pre1': _rec(p1)[:ntilt0], 'same_object': p1 is p0,
                'opd_same': bool(np.shape(p1.opd) == np.shape(before) and np.array_equal(np.asarray(p1.opd, float), before)),
                'orig_opd_same': bool(np.array_equal(np.asarray(p0.opd, float), before)), 'orig_ntilt': len(p0.tilt)})
    return obs

def _impl_fit(c):
    import lentil
    p0 = _plane(c, c['opd'])
    if c.get('preloaded'):
        # the plane already carries tilt elements (one full round per segment) before the fit
        p0.tilt = [lentil.Tilt(x=a, y=b) for a, b in c['preloaded']]
    before = np.array(p0.opd, dtype=float).copy()
    ntilt0 = len(p0.tilt); tilt_ids0 = [id(t) for t in p0.tilt]
    p1 = p0.fit_tilt(inplace=c['inplace'])
    npre = ntilt0
    orig = {'opd_unchanged': bool(np.array_equal(np.asarray(p0.opd, float), before)), 'ntilt': len(p0.tilt), 'ntilt0': ntilt0,
            'same_elements': [id(t) for t in p0.tilt][:ntilt0] == tilt_ids0}
    res = {'orig': orig, 'npre': npre, 'opd1': [float(x) for x in np.asarray(p1.opd, float).ravel()], 'tilt1': _rec(p1)[npre:], 'pre1': _rec(p1)[:npre], 'same_object': p1 is p0,
           'mask': [[float(x) for x in mk.ravel()] for mk in (p1.mask if c['nseg'] > 1 else [p1.mask])]}
    if c['update'] is not None:
        m, n = c['shape']
        p1.opd = p1.opd + np.array(c['update']).reshape(m, n)
        res['opd1u'] = [float(x) for x in np.asarray(p1.opd, float).ravel()]
        p2 = p1.fit_tilt(inplace=True)
        res['opd2'] = [float(x) for x in np.asarray(p2.opd, float).ravel()]; res['tilt2'] = _rec(p2)[npre:]
        p1 = p2
    # what multiply hands to the fields
    w = lentil.Wavefront(wavelength=WL) * p1
    du = (3e-5, 5e-5)
    res['field_shift'] = [[_f(v) for v in f.shift(z=Z, wavelength=WL, pixelscale=du, oversample=2, indexing='ij')] for f in w.data]
    res['field_ntilt'] = [len(f.tilt) for f in w.data]
    res['field_off'] = [[int(f.offset[0]), int(f.offset[1])] for f in w.data]
    return res

def _ramp(c, k):
    """OPD ramp thx*r*dx0 - thy*c*dx1 of segment k for its tilt in output pixels"""
    m, n = c['shape']
    r = np.arange(m)[:, None] - m // 2; cc = np.arange(n)[None, :] - n // 2
    thx, thy = _angles(c, c['tilt_px'][k])
    return thx * r * c['dx'][0] - thy * cc * c['dx'][1]

def _angles(c, px):
    return px[0] * c['du'][0] / (Z * c['os']), -px[1] * c['du'][1] / (Z * c['os'])

def _prop(c, w, prop_shape):
    import lentil
    o = lentil.propagate_dft(w, pixelscale=tuple(c['du']), shape=tuple(c['out_shape']), prop_shape=None if prop_shape is None else tuple(prop_shape),
                             oversample=c['os'])
    return {'field': P._cx(o.field), 'extents': [[int(v) for v in f.extent] for f in o.data], 'nin': len(w.data),
            'offsets': [[int(f.offset[0]), int(f.offset[1])] for f in o.data],
            'shifts': [[_f(v) for v in f.shift(z=Z, wavelength=WL, pixelscale=tuple(c['du']), oversample=c['os'], indexing='ij')] for f in w.data]}

def _impl_equiv(c):
    import lentil
    m, n = c['shape']
    lab = np.array(c['labels']).reshape(m, n)
    amp = np.array(c['amp']).reshape(m, n); base = np.array(c['base']).reshape(m, n)
    nseg = c['nseg']
    mask = np.array([(lab == k).astype(int) for k in range(1, nseg + 1)]) if nseg > 1 else (lab > 0).astype(int)
    dx = c['dx'][0] if c['scalar_dx'] else tuple(c['dx'])
    total = base.copy()
    for k in range(nseg):
        total = total + _ramp(c, k) * ((lab == k + 1) if nseg > 1 else (lab > 0))
    mk = lambda opd: lentil.Pupil(amplitude=amp, opd=opd, mask=mask, pixelscale=dx, focal_length=Z)
    reps = {}
    reps['opd'] = _prop(c, lentil.Wavefront(WL) * mk(total), None)
    reps['opd_ps'] = _prop(c, lentil.Wavefront(WL) * mk(total), c['prop_shape'])
    pf = mk(total).fit_tilt()
    reps['fit'] = _prop(c, lentil.Wavefront(WL) * pf, c['prop_shape'])
    reps['fit']['recorded'] = _rec(pf)
    if nseg > 1:
        # per-segment fitted tilts followed by a COMMON Tilt plane, versus everything written into the OPD
        cpx = [0.5 * c['tilt_px'][0][0] + 0.37, -0.5 * c['tilt_px'][0][1] - 0.61]
        thx, thy = _angles(c, cpx)
        r = np.arange(m)[:, None] - m // 2; cc = np.arange(n)[None, :] - n // 2
        common = (thx * r * c['dx'][0] - thy * cc * c['dx'][1]) * (lab > 0)
        pair = {'ref': _prop(c, lentil.Wavefront(WL) * mk(total + common), None),
                'got': _prop(c, lentil.Wavefront(WL) * mk(total).fit_tilt() * lentil.Tilt(x=thx, y=thy), c['prop_shape'])}
    else:
        pair = None
    if nseg == 1:
        thx, thy = _angles(c, c['tilt_px'][0])
        reps['plane'] = _prop(c, lentil.Wavefront(WL) * mk(base) * lentil.Tilt(x=thx, y=thy), c['prop_shape'])
        reps['plane_first'] = _prop(c, lentil.Wavefront(WL) * lentil.Tilt(x=thx, y=thy) * mk(base), c['prop_shape'])
        reps['wave'] = _prop(c, lentil.Wavefront(WL, tilt=[thx, thy]) * mk(base), c['prop_shape'])
        a = c['split']
        t1 = lentil.Tilt(x=a * thx, y=(1 - a) * thy); t2 = lentil.Tilt(x=(1 - a) * thx, y=a * thy)
        reps['multi12'] = _prop(c, lentil.Wavefront(WL) * mk(base) * t1 * t2, c['prop_shape'])
        reps['multi21'] = _prop(c, lentil.Wavefront(WL) * t2 * mk(base) * t1, c['prop_shape'])
        reps['multiw'] = _prop(c, lentil.Wavefront(WL, tilt=[a * thx, (1 - a) * thy]) * mk(base) * t2, c['prop_shape'])
        # every tilt carrier BEFORE the first array-valued plane (the wavefront field is still a scalar there)
        reps['pre12'] = _prop(c, lentil.Wavefront(WL) * t1 * t2 * mk(base), c['prop_shape'])
        reps['prew2'] = _prop(c, lentil.Wavefront(WL, tilt=[a * thx, (1 - a) * thy]) * t2 * mk(base), c['prop_shape'])
        # half in the OPD, half as metadata
        half = base + 0.5 * _ramp(c, 0) * (lab > 0)
        reps['half'] = _prop(c, lentil.Wavefront(WL) * mk(half) * lentil.Tilt(x=0.5 * thx, y=0.5 * thy), c['prop_shape'])
    pair2 = None
    if nseg == 1 and c.get('disp_el'):
        # a first-order DispersiveTilt plane (alone, and after a Tilt plane) versus its displacement written into the OPD
        de = c['disp_el']
        r = np.arange(m)[:, None] - m // 2; cc = np.arange(n)[None, :] - n // 2
        rampd = lambda px: (lambda th: th[0] * r * c['dx'][0] - th[1] * cc * c['dx'][1])(_angles(c, px)) * (lab > 0)
        thx, thy = _angles(c, c['tilt_px'][0])
        both = [de['px'][0] + c['tilt_px'][0][0], de['px'][1] + c['tilt_px'][0][1]]
        pair2 = [{'what': 'DispersiveTilt plane', 'want_shift': de['px'],
                  'ref': _prop(c, lentil.Wavefront(WL) * mk(base + rampd(de['px'])), None),
                  'got': _prop(c, lentil.Wavefront(WL) * mk(base) * lentil.DispersiveTilt(trace=de['trace'], dispersion=de['disp']), c['prop_shape'])},
                 {'what': 'Tilt plane then DispersiveTilt plane', 'want_shift': both,
                  'ref': _prop(c, lentil.Wavefront(WL) * mk(base + rampd(both)), None),
                  'got': _prop(c, lentil.Wavefront(WL) * mk(base) * lentil.Tilt(x=thx, y=thy) * lentil.DispersiveTilt(trace=de['trace'], dispersion=de['disp']), c['prop_shape'])}]
    return {'reps': reps, 'pair': pair, 'pair2': pair2, 'insum': float(np.sum(np.abs(amp * (lab > 0))))}

def _impl_reuse(c):
    import lentil
    m, n = c['shape']
    lab = np.array(c['labels']).reshape(m, n)
    amp = np.array(c['amp']).reshape(m, n); base = np.array(c['base']).reshape(m, n)
    nseg = c['nseg']
    mask = np.array([(lab == k).astype(int) for k in range(1, nseg + 1)]) if nseg > 1 else (lab > 0).astype(int)
    segmask = lambda k: (lab == k + 1) if nseg > 1 else (lab > 0)
    dx = c['dx'][0] if c['scalar_dx'] else tuple(c['dx'])
    mk = lambda opd: lentil.Pupil(amplitude=amp, opd=opd, mask=mask, pixelscale=dx, focal_length=Z)
    r = np.arange(m)[:, None] - m // 2; cc = np.arange(n)[None, :] - n // 2
    ramp1 = lambda px: (lambda th: th[0] * r * c['dx'][0] - th[1] * cc * c['dx'][1])(_angles(c, px))
    ramps = lambda pxs: sum(ramp1(px) * segmask(k) for k, px in enumerate(pxs))
    bx, by = _angles(c, c['tilt_px'][0])
    # the upstream wavefront, built ONCE
    if c['base_kind'] == 'wave': w0 = lentil.Wavefront(WL, tilt=[bx, by]) * mk(base)
    elif c['base_kind'] == 'plane': w0 = lentil.Wavefront(WL) * mk(base) * lentil.Tilt(x=bx, y=by)
    else: w0 = lentil.Wavefront(WL) * mk(base + ramps(c['tilt_px'])).fit_tilt()
    n0 = [len(f.tilt) for f in w0.data]
    sh0 = _prop(c, w0, None)['shifts']
    steps = []
    for px in c['scan']:
        thx, thy = _angles(c, px)
        w = w0 * lentil.Tilt(x=thx, y=thy)
        got = _prop(c, w, None)
        got['ntilt'] = [len(f.tilt) for f in w.data]
        tot = [[b[0] + px[0], b[1] + px[1]] for b in c['tilt_px']]
        ref = _prop(c, lentil.Wavefront(WL) * mk(base + ramps(tot)), None)
        steps.append({'got': got, 'ref': ref})
    after = _prop(c, w0, None)
    return {'n0': n0, 'n0_after': [len(f.tilt) for f in w0.data], 'shift0': sh0, 'shift0_after': after['shifts'], 'steps': steps,
            'insum': float(np.sum(np.abs(amp * (lab > 0))))}

def impl(c):
    vlib.import_lentil()
    _use(c)
    try:
        if c['kind'] == 'shift': return _impl_shift(c)
        if c['kind'] == 'fit': return _impl_fit(c)
        if c['kind'] == 'fitskip': return _impl_fitskip(c)
        if c['kind'] == 'reuse': return _impl_reuse(c)
        return _impl_equiv(c)
    except NotImplementedError as e:
        return {'exc': 'NotImplementedError', 'msg': str(e)[:200]}

# ------------------------------------------------------------------------------------------ known findings
KF_FIT, KF_DISP = 'KF-C04-fit-rank-cutoff-tiny-pixelscale', 'KF-C04-dispersive-solver-tiny-lengths'

def matches_finding(kf, c, msg):
    _use(c)
    if not isinstance(msg, str): return False
    if kf.get('id') == KF_FIT:
        # input class: a plane with more than 2**18 samples whose pixel scale is below 1e-6/64 m; outcome: the recorded tilt is not the LS tilt
        return bool(c.get('kind') == 'fit' and c.get('big') and max(c['px']) < 1e-6 / 32 and 'is not the least-squares tip/tilt' in msg)
    if kf.get('id') == KF_DISP:
        # input class: a higher-order DispersiveTilt with every length below 1e-6 of the usual scale; outcome: the solver's answer is off the contract
        return bool(c.get('kind') == 'shift' and KS < 1e-6 and any(e['k'] == 'dh' for e in c['tilts'])
                    and (msg.startswith('dispersive displacement') or msg.startswith('dh:')))
    return False

def replay_finding(kf):
    vlib.import_lentil()
    import lentil
    if kf.get('id') == KF_FIT:
        w = kf['witness']; m, n = w['shape']; px = w['pixelscale']; thx, thy = w['angles']
        r = np.arange(m)[:, None] - m // 2; c = np.arange(n)[None, :] - n // 2
        p = lentil.Pupil(amplitude=1, opd=thx * r * px - thy * c * px, mask=np.ones((m, n)), pixelscale=px, focal_length=1.0).fit_tilt()
        rec = (p.tilt[0].y, p.tilt[0].x)
        return bool(abs(rec[0] - thx) > 1e-3 * abs(thx) or abs(rec[1] - thy) > 1e-3 * abs(thy))
    if kf.get('id') == KF_DISP:
        w = kf['witness']
        d = lentil.DispersiveTilt(trace=w['trace'], dispersion=w['dispersion'])
        x, y = (float(np.ravel(v)[0]) for v in d.shift(wavelength=w['wavelength'], xs=0.0, ys=0.0))
        lam = float(np.polyval(w['dispersion'], float(_arc(w['trace'], x))))
        return bool(abs(lam - w['wavelength']) > 1e-4 * w['wavelength'])
    return False

# ------------------------------------------------------------------------------------------ model requests / compare
def _solve_dh(e, wl):
    """the harness' own solution of the two equations a higher-order DispersiveTilt solves numerically (independent of scipy.optimize):
    dist = the root of polyval(dispersion, d) = wl of smallest magnitude (the one a search started at 0 reaches), x = the abscissa whose
    arc length along the trace is dist (bisection on the Gauss-Legendre arc length)"""
    dp = list(e['disp']); dp[-1] = dp[-1] - wl
    roots = [r.real for r in np.roots(dp) if abs(r.imag) <= 1e-9 * (abs(r.real) + 1e-300)]
    if not roots: return None
    dist = min(roots, key=abs)
    for _ in range(3):                                   # polish (Newton) in double precision
        dist = dist - (np.polyval(e['disp'], dist) - wl) / np.polyval(np.polyder(e['disp']), dist)
    lo, hi = (0.0, dist) if dist >= 0 else (dist, 0.0)   # |x| <= |arc length|
    for _ in range(200):
        mid = 0.5 * (lo + hi)
        if float(_arc(e['trace'], mid)) < dist: lo = mid
        else: hi = mid
    return 0.5 * (lo + hi)

def _tj(e, wl=None):
    if e['k'] == 'a': return {'k': 'a', 'x': vlib.fbits(e['x']), 'y': vlib.fbits(e['y'])}
    if e['k'] == 'dh': return {'k': 'dh', 'trace': vlib.fl(e['trace']), 'x': vlib.fbits(float(_solve_dh(e, wl)))}
    return {'k': 'd', 'trace': vlib.fl(e['trace']), 'disp': vlib.fl(e['disp'])}

def requests(c, io):
    _use(c)
    if c.get('nomodel'): return []
    if 'exc' in io: return []
    if c['kind'] == 'fitskip':
        return [{'op': 'c04.fit_call_skips', 'shape_empty': io['shape_empty'], 'shape_none': io['shape_none'], 'opd_size': io['opd_size']}]
    if c['kind'] == 'shift':
        # higher-order dispersive elements enter the model with the harness' own root of their residual equations (contract DispersiveSolved)
        if any(e['k'] == 'dh' and _solve_dh(e, c['wl']) is None for e in c['tilts']): return []
        if KS < 1e-6 and any(e['k'] == 'dh' for e in c['tilts']): return []      # class of KF-C04-dispersive-solver-tiny-lengths: oracle only
        return [{'op': 'c04.shift', 'tilts': [_tj(e, c['wl']) for e in c['tilts']], 'z': vlib.fbits(Z), 'wl': vlib.fbits(c['wl']), 'du': vlib.fl(c['du']), 'os': c['os']}]
    if c['kind'] == 'fit':
        m_, n_ = c['shape']
        def seg_t(opd, masks, rec):
            out = []
            for mk, t in zip(masks, rec):
                mka = np.array(mk).reshape(m_, n_)
                # the coefficient vector the model is fed is the harness' own least-squares solution (independent of what the
                # implementation recorded) whenever it is unique; otherwise the recorded angles with piston 0
                if _mask_ok(mka): tv = [float(v) for v in _lsq(c, np.array(opd).reshape(m_, n_), mka)]
                else: tv = [0.0, t[0], t[1]]
                out.append({'mask': vlib.fl(mk), 't': vlib.fl(tv)})
            return out
        rq = [{'op': 'c04.fit', 'shape': c['shape'], 'px': vlib.fl(c['px']), 'opd': vlib.fl(c['opd']),
               'segs': seg_t(c['opd'], io['mask'], io['tilt1'])}]
        if c['update'] is not None:
            k = c['nseg']
            rq.append({'op': 'c04.fit', 'shape': c['shape'], 'px': vlib.fl(c['px']), 'opd': vlib.fl(io['opd1u']),
                       'segs': seg_t(io['opd1u'], io['mask'], io['tilt2'][k:])})
        return rq
    if c['kind'] == 'reuse':
        if c['base_kind'] == 'fit' or c['nseg'] > 1 or not io['shift0']: return []
        bx, by = _angles(c, c['tilt_px'][0])
        rq = []
        for px in c['scan']:
            thx, thy = _angles(c, px)
            els = [{'k': 'a', 'x': bx, 'y': by}, {'k': 'a', 'x': thx, 'y': thy}]
            rq.append({'op': 'c04.shift', 'tilts': [_tj(e) for e in els], 'z': vlib.fbits(Z), 'wl': vlib.fbits(WL), 'du': vlib.fl(c['du']), 'os': c['os']})
        return rq
    # equiv: the shift handed to propagate_dft for the multi-element representation
    if c['nseg'] == 1:
        thx, thy = _angles(c, c['tilt_px'][0]); a = c['split']
        els = [{'k': 'a', 'x': a * thx, 'y': (1 - a) * thy}, {'k': 'a', 'x': (1 - a) * thx, 'y': a * thy}]
        return [{'op': 'c04.shift', 'tilts': [_tj(e) for e in els], 'z': vlib.fbits(Z), 'wl': vlib.fbits(WL), 'du': vlib.fl(c['du']), 'os': c['os']}]
    return []

def _close(a, b, scale, rel=1e-11):
    return all(abs(x - y) <= rel * (scale + abs(y)) for x, y in zip(a, b))

def compare(c, io, mo):
    _use(c)
    if c.get('nomodel'): return None
    if 'exc' in io: return f"implementation raised {io['exc']}: {io.get('msg')}"
    for m in mo:
        if not m.get('ok'): return f"model refused: {m.get('err')}"
    if c['kind'] == 'fitskip':
        skipped = bool(io['ntilt1'] == io['ntilt0'] and io['opd_same'])
        if skipped != bool(mo[0]['skips']):
            return (f"fit_tilt on a plane with shape_empty={io['shape_empty']} shape_none={io['shape_none']} opd.size={io['opd_size']}: implementation "
                    f"{'returned the plane untouched' if skipped else 'fitted (recorded ' + str(io['ntilt1'] - io['ntilt0']) + ' tilt, opd same: ' + str(io['opd_same']) + ')'}, "
                    f"the model's early-return test says skips={mo[0]['skips']}")
        return None
    if c['kind'] == 'shift':
        if not mo: return None
        m = mo[0]
        # relative to the size of the components that are summed (cancellation between large elements is harmless)
        sc = max(1e-3, sum(abs(v) for e in io['each_ij'] for v in e))
        # lists with a numerically solved (higher-order) element agree to the accuracy of scipy.optimize.leastsq, the others to rounding
        tol = 2e-6 if any(e['k'] == 'dh' for e in c['tilts']) else 1e-9
        if not _close(io['ij'], vlib.unfl(m['ij']), sc, tol): return f"Field.shift ij: impl {io['ij']} model {vlib.unfl(m['ij'])}"
        if not _close(io['xy'], vlib.unfl(m['xy']), sc, tol): return f"Field.shift xy: impl {io['xy']} model {vlib.unfl(m['xy'])}"
        return None
    if c['kind'] == 'fit':
        sc = max(abs(v) for v in c['opd']) + 1e-12
        if not _close(io['opd1'], vlib.unfl(mo[0]['opd']), sc, 1e-8): return 'opd after fit_tilt differs from the model (fed an independent least-squares solution)'
        for k, (rec, mrec) in enumerate(zip(io['tilt1'], mo[0]['recorded'])):
            mr = vlib.unfl(mrec)
            if any(abs(a - b) > 1e-7 * (abs(b) + 1e-9) + 1e-12 for a, b in zip(rec, mr)):
                return f"segment {k}: recorded Tilt(x, y) = {rec}, the model records {mr} for the independent least-squares coefficients"
        if c['update'] is not None:
            if len(io['tilt2']) != 2 * c['nseg']: return f"{len(io['tilt2'])} tilts recorded after the second fit, expected {2 * c['nseg']}"
            if io['tilt2'][:c['nseg']] != io['tilt1']: return 'first recorded tilts changed by the second fit'
            if not _close(io['opd2'], vlib.unfl(mo[1]['opd']), sc, 1e-8): return 'opd after the second fit_tilt differs from the model'
        return None
    if c['kind'] == 'reuse':
        for k, (m, st) in enumerate(zip(mo, io['steps'])):
            if not st['got']['shifts']: return f'scan step {k}: the product lost its field'
            want = vlib.unfl(m['ij'])
            if not _close(st['got']['shifts'][0], want, max(1e-3, abs(c['tilt_px'][0][0]) + abs(c['scan'][k][0]), abs(c['tilt_px'][0][1]) + abs(c['scan'][k][1])), 1e-9):
                return f"scan step {k}: shift of (upstream tilt, own Tilt plane): impl {st['got']['shifts'][0]} model {want}"
            if st['got']['ntilt'][0] != 2: return f"scan step {k}: product carries {st['got']['ntilt'][0]} tilt elements, model 2"
        return None
    if mo and io['reps']['multi12']['shifts']:
        sh = io['reps']['multi12']['shifts'][0]
        want = vlib.unfl(mo[0]['ij'])
        if not _close(sh, want, max(1e-3, 3 * abs(want[0]), 3 * abs(want[1])), 1e-9): return f"shift of a field with two Tilt elements: impl {sh} model {want}"
    return None

# ------------------------------------------------------------------------------------------ oracle (real code only)
_LEGGAUSS = {}
def _arc(trace, x, n=400):
    """arc length of polyval(trace) from 0 to x (Gauss-Legendre; nodes computed once)"""
    if n not in _LEGGAUSS: _LEGGAUSS[n] = np.polynomial.legendre.leggauss(n)
    xs, ws = _LEGGAUSS[n]
    t = 0.5 * x * (xs + 1)
    return 0.5 * x * np.sum(ws * np.sqrt(1 + np.polyval(np.polyder(trace), t) ** 2))

def _oracle_shift(c, io):
    du, os_ = c['du'], c['os']
    # no dependence on history: an element asked at another (very close) wavelength answers like a fresh element, and for a
    # first-order dispersive element that answer is on the trace at the arc length mapped to THAT wavelength
    wls = list(c.get('wl2', [])) + [c['wl']]
    for w, again, fresh in zip(wls, io.get('again_m', []), io.get('fresh_m', [])):
        for e, a_, f_ in zip(c['tilts'], again, fresh):
            sc_m = max(abs(f_[0]), abs(f_[1]), 1e-30)
            if abs(a_[0] - f_[0]) > 1e-12 * sc_m or abs(a_[1] - f_[1]) > 1e-12 * sc_m:
                return (f"{e['k']}: the same tilt element asked at wavelength {w!r} (after {c['wl']!r}) returns {a_}, a fresh element returns {f_}: "
                        f"the displacement depends on the call history")
            if e['k'] == 'd':
                d = (w - e['disp'][1]) / e['disp'][0]
                if abs(np.hypot(a_[0], a_[1] - e['trace'][1]) - abs(d)) > 1e-9 * abs(d) + 1e-30:
                    return f"d: at wavelength {w!r} the displacement {a_} is at arc length {np.hypot(a_[0], a_[1] - e['trace'][1])!r}, the dispersion maps it to {abs(d)!r}"
    sc = max(1e-3, max(abs(v) for v in io['ij']))
    tot = [sum(e[0] for e in io['each_ij']), sum(e[1] for e in io['each_ij'])]
    if not _close(io['ij'], tot, sc, 1e-9): return f"shift of the list {io['ij']} is not the sum of the individual displacements {tot}"
    if not _close(io['perm_ij'], io['ij'], sc, 1e-9): return f"shift depends on the order: {io['ij']} vs permuted {io['perm_ij']}"
    if not _close(io['rev_ij'], io['ij'], sc, 1e-9): return f"shift depends on the order: {io['ij']} vs reversed {io['rev_ij']}"
    if not _close(io['xy'], [io['ij'][1], -io['ij'][0]], sc, 1e-12): return f"'xy' {io['xy']} and 'ij' {io['ij']} outputs are inconsistent"
    for e, m_, f_, ij in zip(c['tilts'], io['each_m'], io['from_m'], io['each_ij']):
        # incoming shift is added
        if not _close(f_, [m_[0] + 1e-3 * KS, m_[1] - 2e-3 * KS], 1e-3 * KS, 1e-9): return f"{e['k']}: incoming shift not added: {f_} vs {m_}"
        # metres -> oversampled pixels with the pixel size of the SAME axis; x -> columns, y -> -rows
        want_ij = [-m_[1] / du[0] * os_, m_[0] / du[1] * os_]
        if not _close(ij, want_ij, max(1e-3, abs(want_ij[0]), abs(want_ij[1])), 1e-9): return f"{e['k']}: pixel shift {ij} != (-y/du0, x/du1)*os {want_ij}"
        if e['k'] == 'a':
            want = [Z * e['x'] / du[0] * os_, -Z * e['y'] / du[1] * os_]
            if not _close(ij, want, max(1e-3, abs(want[0]), abs(want[1])), 1e-9):
                return f"Tilt(x={e['x']:.3g}, y={e['y']:.3g}) displaces by {ij} samples, expected (+z*x/du0*os, -z*y/du1*os) = {want}"
        else:
            x, y = m_
            tr, dp = e['trace'], e['disp']
            yy = float(np.polyval(tr, x))
            if abs(y - yy) > 1e-9 * (abs(yy) + 1e-6): return f"dispersive displacement ({x:.6g},{y:.6g}) is not on the trace (y should be {yy:.6g})"
            s = float(_arc(tr, x))
            lam = float(np.polyval(dp, s))
            tol = 1e-9 if e['k'] == 'd' else 2e-6
            if abs(lam - c['wl']) > tol * c['wl']:
                return f"dispersive displacement at arc length {s:.6g} maps to wavelength {lam:.9g}, not {c['wl']:.9g}"
    return None

def _basis(c):
    m, n = c['shape']
    r = (np.arange(m)[:, None] - m // 2) * np.ones((1, n)); cc = np.ones((m, 1)) * (np.arange(n)[None, :] - n // 2)
    return r * c['px'][0], -cc * c['px'][1]

def _lsq(c, opd, mk):
    """independent least squares over the pixels of one segment: coordinates in pixels, exact rational-free normal
    equations solved in extended precision, coefficients converted to per-metre afterwards"""
    m, n = c['shape']
    r = (np.arange(m)[:, None] - m // 2) * np.ones((1, n)); cc = np.ones((m, 1)) * (np.arange(n)[None, :] - n // 2)
    sel = mk > 0
    A = np.stack([np.ones(sel.sum()), r[sel], -cc[sel]], axis=1).astype(np.longdouble)
    b = opd[sel].astype(np.longdouble)
    N = A.T @ A; rhs = A.T @ b
    # Cramer / adjugate in longdouble (3x3, integer matrix)
    sol = np.linalg.solve(N.astype(float), rhs.astype(float))
    res = rhs - N @ sol.astype(np.longdouble)
    sol = sol + np.linalg.solve(N.astype(float), res.astype(float))       # one step of iterative refinement
    return np.array([sol[0], sol[1] / c['px'][0], sol[2] / c['px'][1]], dtype=float)

def _oracle_fit(c, io):
    m, n = c['shape']
    before = np.array(c['opd']).reshape(m, n)
    masks = [np.array(mk).reshape(m, n) for mk in io['mask']]
    sc = float(np.max(np.abs(before))) + 1e-12
    og = io['orig']
    if not c['inplace']:
        if not og['opd_unchanged']: return 'fit_tilt(inplace=False) changed the OPD of the original plane'
        if og['ntilt'] != og['ntilt0'] or not og['same_elements']:
            return f"fit_tilt(inplace=False) changed the tilt list of the original plane ({og['ntilt0']} -> {og['ntilt']} elements)"
    pre = c.get('preloaded') or []
    if [list(t) for t in io['pre1']] != [list(t) for t in pre]: return f"tilt elements the plane carried before the fit were altered: {io['pre1']} vs {pre}"
    if io['same_object'] != c['inplace']: return f"inplace={c['inplace']} but returned object is{' ' if io['same_object'] else ' not '}the original"
    if len(io['tilt1']) != c['nseg']: return f"{len(io['tilt1'])} tilts recorded, {c['nseg']} segments"
    def check(before, after, rec, what):
        for k, mk in enumerate(masks):
            t1, t2 = rec[k]
            (B1, B2) = _basis(c)
            sel = mk > 0
            d = np.abs(after + (B1 * t1 + B2 * t2) - before)[sel]
            if d.max() > 1e-9 * sc: return f"{what}: opd + recorded tilt differs from the opd before on segment {k} by {d.max():.3e} (piston or wrong ramp removed?)"
            if _mask_ok(mk):
                sol = _lsq(c, before, mk)
                if abs(sol[1] - t1) > 1e-7 * (abs(sol[1]) + 1e-9) + 1e-12 or abs(sol[2] - t2) > 1e-7 * (abs(sol[2]) + 1e-9) + 1e-12:
                    return f"{what}: recorded tilt {rec[k]} is not the least-squares tip/tilt {[float(sol[1]), float(sol[2])]} of segment {k}"
                sol2 = _lsq(c, after, mk)
                if abs(sol2[0] - sol[0]) > 1e-9 * sc + 1e-7 * abs(sol[0]): return f"{what}: piston of segment {k} changed from {sol[0]:.6g} to {sol2[0]:.6g}"
        return None
    after1 = np.array(io['opd1']).reshape(m, n)
    r = check(before, after1, io['tilt1'], 'fit_tilt')
    if r: return r
    rec_tot = [list(t) for t in io['tilt1']]
    if c['update'] is not None:
        b2 = np.array(io['opd1u']).reshape(m, n)
        if np.abs(b2 - (after1 + np.array(c['update']).reshape(m, n))).max() > 1e-12 * sc: return 'opd update not applied'
        k = c['nseg']
        # what the plane has recorded per segment after the second fit, as a TOTAL angle (segment j owns tilt[j::nseg]); how many Tilt
        # objects carry it is not prescribed. The second fit's contribution is that total minus what the first fit recorded.
        if len(io['tilt2']) == 0 or len(io['tilt2']) % k: return f"{len(io['tilt2'])} recorded tilts after the second fit do not divide among {k} segments"
        tot2 = [[sum(t[0] for t in io['tilt2'][j::k]), sum(t[1] for t in io['tilt2'][j::k])] for j in range(k)]
        second = [[tot2[j][0] - io['tilt1'][j][0], tot2[j][1] - io['tilt1'][j][1]] for j in range(k)]
        r = check(b2, np.array(io['opd2']).reshape(m, n), second, 'second fit_tilt (recorded total minus the first fit)')
        if r: return r
        rec_tot = tot2
    # multiply hands every recorded tilt of a segment to that segment's field
    nfit = (2 if c['update'] is not None else 1) + (1 if pre else 0)
    if pre: rec_tot = [[a[0] + b[0], a[1] + b[1]] for a, b in zip(rec_tot, pre)]
    if len(io['field_shift']) == c['nseg']:
        for k in range(c['nseg']):
            if io['field_ntilt'][k] == 0 and nfit: return f"field of segment {k} carries no tilt element, the plane recorded {nfit} for it"
            want = [Z * rec_tot[k][0] / 3e-5 * 2, -Z * rec_tot[k][1] / 5e-5 * 2]
            if not _close(io['field_shift'][k], want, max(1e-3, abs(want[0]), abs(want[1])), 1e-9):
                return f"segment {k}: field shift {io['field_shift'][k]} is not that of the sum of its recorded tilts {want}"
    return None

def _oracle_fitskip(c, io):
    pre = c.get('preloaded') or []
    if [list(t) for t in io['pre1']] != [list(t) for t in pre]: return f"tilt elements the plane carried before fit_tilt were altered: {io['pre1']} vs {pre}"
    if io['same_object'] != c['inplace']: return f"inplace={c['inplace']} but returned object is{' ' if io['same_object'] else ' not '}the original"
    if not c['inplace'] and (not io['orig_opd_same'] or io['orig_ntilt'] != io['ntilt0']): return 'fit_tilt(inplace=False) changed the original plane'
    if c['variant'] == 'two-sample':
        return None if io['ntilt1'] == io['ntilt0'] + 1 else f"two-sample plane: {io['ntilt1'] - io['ntilt0']} tilts recorded, expected 1"
    # no tilt can be extracted from a single sample / without pixel coordinates: OPD plus recorded tilt is unchanged only if both stay as they are
    if io['ntilt1'] != io['ntilt0']: return f"{c['variant']} plane (opd.size={io['opd_size']}): fit_tilt recorded {io['ntilt1'] - io['ntilt0']} tilt element(s) although there is nothing to fit"
    if not io['opd_same']: return f"{c['variant']} plane (opd.size={io['opd_size']}): fit_tilt changed the OPD although there is nothing to fit"
    return None

def _oracle_equiv(c, io):
    reps = io['reps']
    tol = 1e-9 * (1 + io['insum'])
    S = [c['out_shape'][0] * c['os'], c['out_shape'][1] * c['os']]
    def fld(r): return (np.array(r['field']['re']) + 1j * np.array(r['field']['im'])).reshape(r['field']['shape'])
    def window(r):
        """output samples evaluated for every input field of this representation"""
        w = np.ones(S, bool)
        if len(r['extents']) != r['nin']: return np.zeros(S, bool)
        for e in r['extents']:
            rows = np.arange(S[0]) - S[0] // 2; cols = np.arange(S[1]) - S[1] // 2
            w &= np.outer((rows >= e[0]) & (rows <= e[1]), (cols >= e[2]) & (cols <= e[3]))
        return w
    ref = fld(reps['opd'])
    for name, r in reps.items():
        if name == 'opd': continue
        w = window(r) & window(reps['opd'])
        f = fld(r)
        if w.any():
            d = np.abs(f - ref)[w]
            if d.max() > tol:
                k = np.argwhere((np.abs(f - ref) > tol) & w)[0]
                return (f"representation '{name}' differs from the OPD-ramp representation at sample ({k[0]},{k[1]}): {f[k[0], k[1]]:.6g} vs "
                        f"{ref[k[0], k[1]]:.6g} (tilt {c['tilt_px']} px, max error {d.max():.3e})")
    if io.get('pair'):
        g, rf = io['pair']['got'], io['pair']['ref']
        w = window(g) & window(rf)
        if w.any():
            d = np.abs(fld(g) - fld(rf))
            if d[w].max() > tol:
                k = np.argwhere((d > tol) & w)[0]
                return (f"segmented aperture: fitted per-segment tilts + common Tilt plane differ from the all-in-OPD representation at sample "
                        f"({k[0]},{k[1]}): {fld(g)[k[0], k[1]]:.6g} vs {fld(rf)[k[0], k[1]]:.6g} (max error {d[w].max():.3e})")
    for pr in io.get('pair2') or []:
        g, rf = pr['got'], pr['ref']
        if g['shifts'] and not _close(g['shifts'][0], pr['want_shift'], 1e-3 + sum(abs(v) for v in pr['want_shift']) + sum(abs(v) for v in c['tilt_px'][0]), 1e-9):
            return f"{pr['what']}: image displaced by {g['shifts'][0]} samples, its trace/dispersion put it at {pr['want_shift']}"
        w = window(g) & window(rf)
        if w.any():
            d = np.abs(fld(g) - fld(rf))
            if d[w].max() > tol:
                k = np.argwhere((d > tol) & w)[0]
                return (f"{pr['what']} differs from the OPD-ramp representation of its displacement at sample ({k[0]},{k[1]}): "
                        f"{fld(g)[k[0], k[1]]:.6g} vs {fld(rf)[k[0], k[1]]:.6g} (max error {d[w].max():.3e})")
    # direction and per-axis pixel size: the shift handed to the propagation for a Tilt plane / wavefront tilt
    if c['nseg'] == 1:
        want = list(c['tilt_px'][0])
        for name in ('plane', 'plane_first', 'wave', 'multi12', 'multi21', 'multiw', 'pre12', 'prew2'):
            if not reps[name]['shifts']: return f"'{name}': the wavefront lost its field"
            got = reps[name]['shifts'][0]
            if not _close(got, want, max(1e-3, abs(want[0]), abs(want[1])), 1e-9):
                return f"'{name}': image displaced by {got} samples, expected (+z*thx/du0*os, -z*thy/du1*os) = {want}"
        got = reps['fit']['shifts']
        if len(got) == 1 and _mask_ok(np.array(c['labels']).reshape(c['shape'])):
            pass   # the fitted tilt includes the base OPD's own tilt; equality of fields is checked above
    return None

def _oracle_reuse(c, io):
    tol = 1e-9 * (1 + io['insum'])
    S = [c['out_shape'][0] * c['os'], c['out_shape'][1] * c['os']]
    def fld(r): return (np.array(r['field']['re']) + 1j * np.array(r['field']['im'])).reshape(r['field']['shape'])
    def window(r):
        w = np.ones(S, bool)
        if len(r['extents']) != r['nin']: return np.zeros(S, bool)
        rows = np.arange(S[0]) - S[0] // 2; cols = np.arange(S[1]) - S[1] // 2
        for e in r['extents']:
            w &= np.outer((rows >= e[0]) & (rows <= e[1]), (cols >= e[2]) & (cols <= e[3]))
        return w
    if io['n0_after'] != io['n0']:
        return f"multiplying by Tilt planes changed the upstream wavefront: its fields carried {io['n0']} tilt elements, now {io['n0_after']}"
    for a_, b_ in zip(io['shift0_after'], io['shift0']):
        if not _close(a_, b_, max(1e-3, abs(b_[0]), abs(b_[1])), 1e-9):
            return f"the re-used upstream wavefront's shift changed from {b_} to {a_}"
    for k, st in enumerate(io['steps']):
        got, ref = st['got'], st['ref']
        for fi in range(min(len(got['shifts']), len(io['shift0']))):
            want = [io['shift0'][fi][0] + c['scan'][k][0], io['shift0'][fi][1] + c['scan'][k][1]]
            if not _close(got['shifts'][fi], want, max(1e-3, abs(io['shift0'][fi][0]) + abs(c['scan'][k][0]), abs(io['shift0'][fi][1]) + abs(c['scan'][k][1])), 1e-9):
                return (f"scan step {k}, field {fi}: Tilt plane {c['scan'][k]} px on the re-used wavefront (own shift {io['shift0'][fi]}) is displaced by "
                        f"{got['shifts'][fi]}, expected the sum of exactly these two {want}")
        w = window(got) & window(ref)
        if w.any():
            d = np.abs(fld(got) - fld(ref))
            if d[w].max() > tol:
                i = np.argwhere((d > tol) & w)[0]
                return (f"scan step {k}: re-used tilted wavefront x Tilt plane differs from the OPD-ramp representation of its own tilts at "
                        f"sample ({i[0]},{i[1]}): {fld(got)[i[0], i[1]]:.6g} vs {fld(ref)[i[0], i[1]]:.6g} (max error {d[w].max():.3e})")
    return None

def oracle(c, io):
    _use(c)
    if 'exc' in io: return f"raised {io['exc']}: {io.get('msg')}"
    if c['kind'] == 'reuse': return _oracle_reuse(c, io)
    if c['kind'] == 'shift': return _oracle_shift(c, io)
    if c['kind'] == 'fit': return _oracle_fit(c, io)
    if c['kind'] == 'fitskip': return _oracle_fitskip(c, io)
    return _oracle_equiv(c, io)

# ------------------------------------------------------------------------------------------ coverage
def signature(c):
    if c['kind'] == 'shift': return f"shift ks={c.get('KS')} n={len(c['tilts'])} {[e['k'] for e in c['tilts']][:6]} perm={c['perm']} os={c['os']} du={c['du'][0]:.4g},{c['du'][1]:.4g}"
    if c['kind'] == 'reuse': return f"reuse nseg={c['nseg']} {c['base_kind']} {c['shape']} S={c['out_shape']} os={c['os']} base={[round(v, 2) for v in c['tilt_px'][0]]} scan={[[round(v, 2) for v in t] for t in c['scan']]}"
    if c['kind'] == 'fitskip': return f"fitskip {c['variant']} {c['shape']} inpl={c['inplace']} pre={c.get('preloaded') is not None} px={c['px']} opd0={c['opd0']}"
    if c['kind'] == 'fit': return f"fit ks={c.get('KS')} pre={c.get('preloaded') is not None} inpl={c['inplace']} {c['shape']} nseg={c['nseg']} px={c['px']} upd={c['update'] is not None} lab={c['labels'][:12]} opd0={c['opd'][0]:.4g}"
    return f"equiv {c['shape']} nseg={c['nseg']} S={c['out_shape']} os={c['os']} tilt={[[round(v, 2) for v in t] for t in c['tilt_px']]} ps={c['prop_shape']}"

def nontrivial(c):
    if c['kind'] == 'shift': return len(c['tilts']) > 1 or c['du'][0] != c['du'][1]
    if c['kind'] in ('fit', 'reuse', 'fitskip'): return True
    return any(v != 0 for t in c['tilt_px'] for v in t)

def tags(c):
    t = [c['kind']]
    if c.get('KS'): t.append(f"scale={c['KS']:g}")
    if c.get('big'): t.append('fit:>2^18 samples')
    if c['kind'] == 'shift' and len(c['tilts']) > 32: t.append('shift:>32 elements')
    if c['kind'] == 'shift':
        t += sorted({'el:' + e['k'] for e in c['tilts']}); t.append(f"n={len(c['tilts'])}")
        if c['du'][0] != c['du'][1]: t.append('du:non-square')
    elif c['kind'] == 'reuse':
        t.append('reuse:' + c['base_kind']); t.append(f"scan={len(c['scan'])}"); t.append(f"nseg={c['nseg']}")
        if c['du'][0] != c['du'][1]: t.append('du:non-square')
    elif c['kind'] == 'fit':
        t.append(f"nseg={c['nseg']}")
        if c['update'] is not None: t.append('second-fit')
        if c.get('preloaded'): t.append('preloaded-tilt')
        t.append('inplace' if c['inplace'] else 'copy')
        if c['px'][0] != c['px'][1]: t.append('px:per-axis')
    elif c['kind'] == 'fitskip':
        t.append('fitskip:' + c['variant']); t.append('inplace' if c['inplace'] else 'copy')
        if c.get('preloaded'): t.append('preloaded-tilt')
    else:
        t.append(f"nseg={c['nseg']}")
        if c['du'][0] != c['du'][1]: t.append('du:non-square')
        mx = max(abs(v) for tt in c['tilt_px'] for v in tt)
        t.append('tilt:' + ('zero' if mx == 0 else 'sub-px' if mx < 1 else 'px' if mx < max(c['out_shape']) * c['os'] / 2 else 'beyond'))
        if c['prop_shape'] is not None: t.append('prop_shape')
    return t

def shrink(c):
    if c['kind'] == 'shift' and len(c['tilts']) > 1:
        for i in range(len(c['tilts'])):
            d = P.json_copy(c); d['tilts'].pop(i); d['perm'] = list(range(len(d['tilts']))); yield d
    if c['kind'] == 'fit' and c['update'] is not None:
        d = P.json_copy(c); d['update'] = None; yield d
    if c['kind'] == 'reuse' and len(c['scan']) > 2:
        d = P.json_copy(c); d['scan'] = d['scan'][:-1]; yield d
    if c['kind'] == 'equiv' and c['prop_shape'] is not None:
        d = P.json_copy(c); d['prop_shape'] = None; yield d
