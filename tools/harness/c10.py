"""C10 — calls are pure: no hidden mutation of caller inputs, no dependence on call history, seeded functions leave the
global generator alone.

Tie: (a) Gen/Effects.lean — the effect-site scan of tools/specs/c10.py, regenerated from the source on every run; the
theorems of Props/C10.lean are proved from that table. (b) correspondence: random histories of public calls on shared,
snapshotted (and, wherever the call is not documented as in-place, read-only) caller arrays and objects; the model driver
replays each history over the generated table and answers which cells *may* change at each step; every observed change
must lie inside the model's answer."""
import hashlib, warnings, copy
import numpy as np
import vlib

LEVEL_TEXT = ('partial proof over a heuristic scan. PROVED: the composition of per-call effect summaries over unbounded histories — '
              'Lean 4 theorems over an effect-summary heap model whose per-function write sets are REGENERATED from the '
              'source by an effect-site scan: for every history a caller-owned cell changes only under a call documented as '
              'in-place on that argument (induction over the history + decidable check of the generated table against the '
              'documented in-place list); the frame is slot- and attribute-specific (an in-place fit may write only what the plane holds through opd/tilt: '
              'inplace_fit_never_writes_amplitude, inplace_writes_go_through_documented_attributes); the inplace= gate of the heap model is REGENERATED (Gen/InplaceGate.lean: every function with an inplace parameter, its gate statement, its write sites classified by the name they go through) and proved to be the hand list of the model, to work on self.copy() when the flag is off and to have no write site that bypasses the gate variable (inplace_gate_follows_source); plane-state confluence holds at model level (composed with C04); seeded functions never touch the global generator; the _dft2_coords cache always holds '
              'arange(n)-floor(n/2) because nothing writes it, so results are history independent and a repeated call sees the same coordinates (repeated_call_sees_same_coordinates); the seed reaches every generator (seed_reaches_every_generator). SAMPLED, not proved: that each '
              'summary (a row of the scan) is right about what NumPy/Python actually do — random histories on frozen, byte-snapshotted '
              'caller arrays and objects, op labels resolved through the receiver class MRO to the function that Python will run (not traced); the scan\'s alias rule is a heuristic.')
LEVEL_NOTE = ('PARTIAL PROOF (category proof because Lean theorems carry the composition argument; NOT a proof of purity of the Python code): '
              'the proof shows that the effect summaries compose over unbounded histories and stay inside the documented '
              'in-place list; that each summary is faithful is sampled by the correspondence; the scan\'s alias rule is a trusted '
              'heuristic. Plane-state confluence: theorem at model level (C04 composition), sampled on the real code.')
TECHNIQUE = 'Lean 4 proof (induction over histories, decide +kernel on a regenerated effect table) + history-based differential correspondence'
GEN = ['Effects', 'Extent', 'FftScratch', 'FieldDispatch', 'FieldIdx', 'FieldMerge', 'FourierWiring', 'Helper', 'Helper20', 'Hex', 'InplaceGate', 'Mesh', 'PlanePhase', 'PlaneType', 'PropagateMeta', 'TiltFit', 'Util', 'Window']     # every Gen module the model, lemmas, theorems and driver ops import (transitively)
OPS = ['C10']
RULE = ('earlier-result cases (8 per quick run, 60 per search): a monolithic or 2-segment pupil fitted 0..2 times, w1 = w*plane / plane.multiply(w) / w.__rmul__(plane) kept by the caller, then documented in-place work on the PLANE only (OPD update + fit_tilt(inplace=True), in-place OPD += then fit, append/clear on the plane tilt list); the tilt terms of every field of w1 and its propagate_dft image must stay bit-for-bit unchanged; four seeded-repeat cases per run (seeds 0, 3, one < 2**31, one >= 2**32): shot_noise (both methods), read_noise, dark_current and rule07_dark_current with fpn_factor > 0 and power_spectrum are each called three times with identical arguments, with unrelated global-generator activity in between, and must agree bit for bit; one table-driven smoke case per run: every public function of the effect table is called once on fixtures chosen by parameter name (those the fixtures do not fit are listed by name in UNPROVEN on every run) and the changed argument slots / global generator are compared with its table row; cases: random histories (length 5..40) of public calls — plane/pupil construction from shared arrays, attribute updates, '
        'fit_tilt (copy and in-place), copy, rescale, multiply, propagate_dft/fft (with scratch), Wavefront.insert/intensity, dft2/idft2 '
        'with repeated shapes and varying offsets/shifts and out=, adc/collect_charge/bayer/pixel/pixelate/charge_diffusion, seeded and '
        'unseeded noise models, jitter/smear, util.rescale/rebin/pad/normalize_power, power_spectrum/zernike, Spectrum arithmetic/sample/'
        'editing — on a pool of caller arrays that are snapshotted byte-for-byte and read-only unless a documented in-place target; '
        'earlier pure calls are re-executed later and compared bit-for-bit; plus plane-state confluence cases (two fit_tilt/update orders); '
        'distinct = (history seed, length); non-trivial = the history contains an in-place op, a repeated call and a shared array')
TRUSTED = ['the inplace= gate scan recognises write sites syntactically (attribute/subscript assignment, augmented assignment, del, mutating method calls, out= keywords) on the gate variable or the parameter; a write through a further alias of either is left to the effect-site scan and the histories',
           'the alias rule of the effect-site scan (tools/specs/c10.py docstring): which expressions are views and which are fresh',
           'byte-level snapshots + read-only flags observe every write NumPy performs on the tracked arrays; object cells are digested '
           'recursively over vars(obj) (every attribute, nested lentil objects, lists, dicts)',
           'np.random.get_state() captures the whole state of the global generator']
UNPROVEN = ['plane-state confluence on the real code is sampled; at model level it is PROVED (plane_state_total_invariant, composed with C04 fit_tilt_history: same total OPD update => same OPD + recorded-tilt total); that multiply/propagate depend only on that total is C04; the histories here sample it',
            'each effect summary (row of Gen/Effects.lean) is faithful to the NumPy-level behaviour of the function: sampled by the histories',
            'a result depends only on the current arguments: proved for the shared cache and the global generator (the only shared '
            'state the scan finds) — per-OBJECT caches (an attribute memoised on a plane) are visible to the scan only as attribute writes of a getter; bit-for-bit repeatability of every call and "a rescaled/copied plane behaves like a fresh one" are sampled']
ASSUMPTIONS = ['histories consist of public API functions known to the scan']

# ------------------------------------------------------------------------------------------ generation
FOCI = ['mixed', 'optics', 'fourier', 'detector', 'spectrum', 'tilt', 'resample', 'misc']
_EXECUTED = set()      # op labels actually executed by histories in this process

def _uncovered_public_rows():
    """public functions of the generated effect table that no catalogue entry calls directly (their summaries are not sampled by a
    direct call; many are still reached through other calls)"""
    import re, os
    try:
        rows = re.findall(r'fn := "([^"]+)", pub := true', open(os.path.join(vlib.LEAN, 'LentilVerif', 'Gen', 'Effects.lean')).read())
        hints = set(re.findall(r"op\('([A-Za-z0-9_.]+)'", open(__file__).read()))
    except OSError:
        return []
    # exact: a row counts as covered only if a history of THIS run executed a call resolved (through the receiver's MRO) to it
    return sorted(r for r in rows if r not in _EXECUTED)

def _refresh_unproven():
    unc = _uncovered_public_rows()
    note = (f'{len(unc)} public functions were not called directly by any history of this run (their effect summaries were not sampled '
            'directly; many are reached through other calls): ' + ', '.join(unc))
    UNPROVEN[:] = [u for u in UNPROVEN if 'public functions were not called directly' not in u] + [note]

def generate(rng, tier):
    _refresh_unproven()
    n = {'quick': 60, 'thorough': 1500, 'search': 300}[tier]
    out = [{'kind': 'smoke'}] + [{'kind': 'seeded_repeat', 'seed': sd_} for sd_ in (0, 3, int(rng.integers(1, 2**31)), int(rng.integers(2**32, 2**40)))]
    for k in range(n):
        if k % 6 == 5:
            out.append({'kind': 'confluence', 'hseed': int(rng.integers(0, 2**31)), 'segments': int(rng.integers(1, 4)),
                        'nfits': (int(rng.integers(33, 45)) if (tier == 'search' and k % 12 == 5) or k % 30 == 5 else int(rng.integers(2, 5))),
                        'n': int(rng.integers(10, 17)), 'm': int(rng.integers(12, 19))})
        else:
            out.append({'kind': 'history', 'hseed': int(rng.integers(0, 2**31)), 'length': int(rng.integers(5, 41)),
                        'focus': FOCI[(k - k // 6) % len(FOCI)]})
    # earlier results vs later in-place work on the plane (appended last: the streams above keep their draws)
    for k in range({'quick': 8, 'thorough': 120, 'search': 60}[tier]):
        out.append({'kind': 'earlier_result', 'hseed': int(rng.integers(0, 2**31)), 'segments': 1 if k % 4 else 2, 'n': int(rng.integers(10, 21)), 'm': int(rng.integers(10, 21)),
                    'prefits': int(rng.integers(0, 3)) if k % 4 else 1, 'form': ['mul', 'multiply', 'rmul'][k % 3],
                    'later': [['refit'], ['iadd_refit'], ['tilt_append'], ['refit', 'refit'], ['tilt_clear']][int(rng.integers(0, 5))]})
    return out

def signature(c): return (c['kind'] + str(c.get('seed', ''))) if c['kind'] in ('smoke', 'seeded_repeat') else f"{c['kind']} {c.get('hseed', c.get('which'))} {c.get('length', '')} {c.get('focus', c.get('segments'))}"
def nontrivial(c): return c['kind'] != 'history' or c['length'] >= 8
def tags(c): return [c['kind']] + (['fits>32'] if c.get('nfits', 2) > 32 else []) + ([] if c['kind'] in ('witness', 'smoke', 'seeded_repeat') else [f"focus:{c['focus']}", f"len:{c['length'] // 10 * 10}+"] if c['kind'] == 'history' else [f"segments:{c['segments']}"])
def shrink(c):
    if c['kind'] == 'history' and c['length'] > 1:
        for L in (c['length'] // 2, c['length'] - 1):
            if L >= 1:
                d = dict(c); d['length'] = L; yield d

# ------------------------------------------------------------------------------------------ the world of caller objects
def _digest(o, world=None):
    """state digest of EVERYTHING the object holds (recursively over `vars(obj)` of lentil objects, lists, tuples, dicts, arrays);
    inside an object, an array that is itself a tracked cell counts by identity (its content is that cell's business)"""
    h = hashlib.sha256()
    seen = set()
    def add(x, depth=0):
        if isinstance(x, np.ndarray):
            i = world.find(x) if (world is not None and x is not o) else None
            if i is not None: h.update(f'cell#{i}'.encode()); return
            h.update(str((x.dtype, x.shape)).encode())
            h.update(np.ascontiguousarray(x).tobytes() if x.dtype != object else repr(x.tolist()).encode())
        elif isinstance(x, (list, tuple)):
            h.update(b'['); [add(y, depth + 1) for y in x]; h.update(b']')
        elif isinstance(x, dict):
            h.update(b'{'); [(h.update(repr(k).encode()), add(v, depth + 1)) for k, v in sorted(x.items(), key=lambda kv: repr(kv[0]))]; h.update(b'}')
        elif isinstance(x, slice): h.update(repr(x).encode())
        elif type(x).__module__.startswith('lentil') and not isinstance(x, type):
            if id(x) in seen or depth > 6: h.update(b'<cycle>'); return
            seen.add(id(x))
            h.update(type(x).__name__.encode())
            attrs = dict(vars(x)) if hasattr(x, '__dict__') else {}
            for klass in type(x).__mro__:
                for sl in getattr(klass, '__slots__', ()):
                    if hasattr(x, sl): attrs[sl] = getattr(x, sl)
            for k, v in sorted(attrs.items()):
                h.update(k.encode()); add(v, depth + 1)
        elif callable(x): h.update(getattr(x, '__qualname__', 'callable').encode())
        else: h.update(repr(x).encode())
    add(o)
    return h.hexdigest()[:16]

class World:
    def __init__(self):
        self.cells = []        # objects
        self.kind = []
        self.frozen = []
    def add(self, obj, kind, frozen=False):
        if isinstance(obj, np.ndarray) and frozen: obj.flags.writeable = False
        self.cells.append(obj); self.kind.append(kind); self.frozen.append(frozen)
        return len(self.cells) - 1
    def find(self, obj):
        for i, o in enumerate(self.cells):
            if o is obj: return i
        return None
    def snap(self): return [_digest(o, self) for o in self.cells]
    def pick(self, rng, kind, pred=None):
        idx = [i for i, k in enumerate(self.kind) if k == kind and (pred is None or pred(self.cells[i], i))]
        return idx[int(rng.integers(0, len(idx)))] if idx else None

N = 8   # plane arrays are N x N

def _build_world(rng):
    import lentil
    w = World()
    yy, xx = np.mgrid[0:N, 0:N]
    circ = ((yy - N // 2) ** 2 + (xx - N // 2) ** 2 <= (N // 2 - 1) ** 2).astype(float)
    for k in range(2): w.add(circ * (1 + 0.25 * k), 'amp', frozen=True)
    for k in range(3): w.add(circ * 1e-7 * (rng.standard_normal((N, N)) + 0.3 * k * (xx - N // 2)), 'opd', frozen=True)
    for k in range(2): w.add(circ * 1e-7 * (rng.standard_normal((N, N)) + 0.2 * (yy - N // 2)), 'opd', frozen=False)   # in-place fit targets
    w.add(circ.copy(), 'mask', frozen=True)
    seg = np.zeros((2, N, N)); seg[0, :, : N // 2] = circ[:, : N // 2]; seg[1, :, N // 2:] = circ[:, N // 2:]
    w.add(seg, 'mask', frozen=True)
    for k in range(3): w.add(np.round(rng.uniform(-20, 400, (6, 7)) * 4) / 4, 'img', frozen=True)
    w.add(rng.integers(0, 300, (6, 7)).astype(np.int64), 'img', frozen=True)
    for fr in (True, False):        # frames whose only negatives are round-off sized
        t = np.round(rng.uniform(0, 300, (6, 7)) * 4) / 4; t[1, 2] = -1e-9; t[4, 0] = -3e-7
        w.add(t, 'img_tinyneg', frozen=fr)
    w.add(np.round(rng.uniform(0, 50, (3, 6, 6)) * 4) / 4, 'cube', frozen=True)
    w.add(np.array([500., 600., 700.]), 'wave', frozen=True)
    w.add(np.array([0.5, 0.75, 0.25]), 'qe', frozen=True)
    w.add(np.array([0.5, 0.25]), 'gain', frozen=True)
    for k in range(2): w.add((rng.standard_normal((6, 5)) + 1j * rng.standard_normal((6, 5))), 'cx', frozen=True)
    w.add(np.zeros((7, 6), dtype=complex), 'out_cx', frozen=False)
    w.add(np.zeros((2 * N, 2 * N)), 'out_img', frozen=False)
    w.add(np.zeros((64, 64), dtype=complex), 'scratch', frozen=False)
    for k in range(2):
        wv = np.linspace(400, 800, 5 + 2 * k); w.add(wv, 'swave', frozen=True)
        w.add(np.round(rng.uniform(0, 1, wv.size) * 8) / 8, 'svalue', frozen=True)
    return w

PX = 1e-3

def _resolve_label(hint, selfobj=None):
    """op label = module.qualname of the function object Python will actually run for this call (method resolution through the
    receiver's class, constructors through the MRO, re-exported functions through their defining module); `hint` only names
    the attribute to look up"""
    import importlib, inspect
    parts = hint.split('.')
    if selfobj is not None and len(parts) == 3:
        f = inspect.getattr_static(type(selfobj), parts[2], None)
        for klass in type(selfobj).__mro__:
            if parts[2] in vars(klass): f = vars(klass)[parts[2]]; break
    else:
        obj = importlib.import_module('lentil.' + parts[0])
        for a in parts[1:]:
            if isinstance(obj, type) and a == '__init__':
                for klass in obj.__mro__:
                    if '__init__' in vars(klass): obj = vars(klass)['__init__']; break
            else: obj = getattr(obj, a)
        f = obj
    if isinstance(f, property): f = f.fset or f.fget
    f = getattr(f, '__func__', f)
    mod = getattr(f, '__module__', None) or ''
    if not mod.startswith('lentil'): return hint
    return mod.replace('lentil.', '', 1) + '.' + f.__qualname__
DU_FFT = 650e-9 * 10 * 2 / (PX * 32)     # output sampling for which the padded FFT grid is 32 x 32
def _catalogue(w, rng, focus):
    """one randomly chosen op: dict(fn, bind {slot: cell}, call -> result, inplace {cells}, rng_ok, pure, reskind)"""
    import lentil
    D = lentil.detector
    ops = []
    def op(fn, bind, call, inplace=(), rng_ok=False, pure=True, reskind=None, weight=1, returns_arg=False, flag=None, expect=None, setter=False):
        fn = fn if fn.startswith('caller.') else _resolve_label(fn, w.cells[bind['self']] if 'self' in bind else None) + ('.setter' if setter else '')
        ops.append(dict(fn=fn, flag=flag, expect=expect, bind=bind, call=call, inplace=set(inplace), rng_ok=rng_ok, pure=pure, reskind=reskind, weight=weight,
                        returns_arg=returns_arg))
    C = w.cells
    a, o, m = w.pick(rng, 'amp'), w.pick(rng, 'opd'), w.pick(rng, 'mask')
    if focus == 'misc':
        # the rest of the public API that takes caller arrays/objects: each call once in a while, on frozen snapshotted arguments
        import sys as _sys
        U, Z, H, F = lentil.util, _sys.modules['lentil.zernike'], lentil.helper, lentil.field
        im = w.pick(rng, 'img'); mk = w.pick(rng, 'mask', lambda x, i: x.ndim == 2); ok_ = w.pick(rng, 'opd'); cx = w.pick(rng, 'cx')
        op('util.centroid', {'img': im}, lambda: U.centroid(np.abs(C[im])), reskind='res')
        op('util.window', {'img': im}, lambda: U.window(C[im], shape=(4, 4)), reskind='res')
        op('util.boundary', {'x': mk}, lambda: U.boundary(C[mk]), reskind='res')
        op('util.subarray', {'a': im}, lambda: U.subarray(C[im], (3, 4), shift=(1, -1)), reskind='res')
        op('helper.boundary_slice', {'x': mk}, lambda: H.boundary_slice(C[mk]), reskind='res')
        op('helper.mesh', {}, lambda: H.mesh((5, 6)), reskind='res')
        op('helper.gaussian2d', {}, lambda: H.gaussian2d(5, 1.0), reskind='res')
        op('shape.circle', {}, lambda: lentil.circle((12, 11), 4, shift=(1, 0)), reskind='res')
        op('shape.hexagon', {}, lambda: lentil.hexagon((12, 12), 5), reskind='res')
        op('shape.rectangle', {}, lambda: lentil.rectangle((12, 12), 5, 3), reskind='res')
        op('segmented.hex_segments', {}, lambda: lentil.hex_segments(rings=1, seg_radius=6, seg_gap=1), reskind='res')
        modes = [int(x) for x in rng.choice(np.arange(1, 9), size=3, replace=False)]
        op('zernike.zernike_basis', {'mask': mk}, lambda: Z.zernike_basis(C[mk], modes), reskind='res')
        op('zernike.zernike_fit', {'opd': ok_, 'mask': mk}, lambda: Z.zernike_fit(C[ok_], C[mk], modes), reskind='res', weight=2)
        op('zernike.zernike_remove', {'opd': ok_, 'mask': mk}, lambda: Z.zernike_remove(C[ok_], C[mk], modes), reskind='res', weight=2)
        op('zernike.zernike_compose', {'mask': mk}, lambda: Z.zernike_compose(C[mk], [0, 1e-8, 2e-8, -1e-8]), reskind='res')
        op('zernike.zernike_coordinates', {'mask': mk}, lambda: Z.zernike_coordinates(C[mk]), reskind='res')
        op('wfe.translation_defocus', {'mask': mk}, lambda: lentil.translation_defocus(C[mk], 10.0, 1e-4), reskind='res')
        op('detector.rule07_dark_current', {}, lambda: lentil.detector.rule07_dark_current(110.0, 5.3e-6, 18e-6, shape=(3, 4), fpn_factor=0.2, seed=3), reskind='res')
        qv = w.pick(rng, 'qe'); wv3 = w.pick(rng, 'wave')
        op('detector.qe_asarray', {'qe': qv, 'wave': wv3}, lambda: lentil.detector.qe_asarray(C[qv], C[wv3], 'nm'), reskind='res')
        off = [int(rng.integers(-3, 4)), int(rng.integers(-3, 4))]
        op('field.Field.__init__', {'data': cx}, lambda: F.Field(C[cx], offset=off), reskind='field', weight=3)
        f1, f2 = w.pick(rng, 'field'), w.pick(rng, 'field')
        if f1 is not None:
            op('field.Field.__mul__', {'self': f1, 'other': f2}, lambda: C[f1] * C[f2], reskind='res', weight=2)
            op('field.merge', {'a': f1, 'b': f2}, lambda: F.merge(C[f1], C[f2], enforce_overlap=False), reskind='res')
            op('field.reduce', {'fields': f1}, lambda: F.reduce([C[f1], C[f2]]) if f1 != f2 else F.reduce([C[f1]]), reskind='res')
            op('field.overlap', {'fields': f1}, lambda: F.overlap([C[f1], C[f2]]), reskind='res')
            op('field.boundary', {'fields': f1}, lambda: F.boundary([C[f1], C[f2]]), reskind='res')
            oc2 = w.pick(rng, 'out_cx')
            op('field.insert', {'field': f1, 'out': oc2}, lambda: F.insert(C[f1], C[oc2]), inplace=[oc2], pure=False, returns_arg=True)
        a2, o2b = w.pick(rng, 'amp'), w.pick(rng, 'opd')
        op('plane.Image.__init__', {'amplitude': a2}, lambda: lentil.Image(amplitude=C[a2], pixelscale=5e-6), reskind='plane')
        op('plane.Pupil.__init__', {'amplitude': a2, 'opd': o2b}, lambda: lentil.Pupil(amplitude=C[a2], opd=C[o2b], pixelscale=PX, focal_length=10), reskind='plane', weight=2)
        pm = w.pick(rng, 'plane', lambda x, i: x.shape == (N, N) and x.pixelscale is not None)
        if pm is not None:
            PM = C[pm]
            op('plane.Plane.ptt_vector', {'self': pm}, lambda: PM.ptt_vector, reskind='res')
            op('plane.Plane.global_mask', {'self': pm}, lambda: np.array(PM.global_mask), reskind='res')
            op('plane.Plane.diameter', {'self': pm}, lambda: PM.diameter, reskind='res')
            def setamp(): PM.amplitude = C[a2]
            op('plane.Plane.amplitude', {'self': pm, 'value': a2}, setamp, inplace=[pm], pure=False, returns_arg=True, setter=True)
        R2 = lentil.radiometry
        op('radiometry.planck_radiance', {}, lambda: R2.planck_radiance(np.array([500., 600., 700.]), 5000.0), reskind='res')
        op('radiometry.planck_exitance', {}, lambda: R2.planck_exitance(np.array([500., 600., 700.]), 5000.0), reskind='res')
        sw2 = w.pick(rng, 'swave'); sv2 = [i for i, k in enumerate(w.kind) if k == 'svalue' and C[i].size == C[sw2].size][0]
        op('radiometry.Spectrum.__init__', {'wave': sw2, 'value': sv2}, lambda: R2.Spectrum(C[sw2], C[sv2], waveunit='nm'), reskind='spec', weight=3)
        big = lambda x, i: np.size(x.wave) >= 4 and np.ptp(x.wave) > 0
        sp = w.pick(rng, 'spec', big); sq = w.pick(rng, 'spec', big)
        if sp is not None:
            SP, SQ = C[sp], C[sq]
            op('radiometry.Spectrum.__sub__', {'self': sp, 'other': sq}, lambda: SP - SQ, reskind='spec')
            op('radiometry.Spectrum.__truediv__', {'self': sp}, lambda: SP / 2.0, reskind='spec')
            op('radiometry.Spectrum.__pow__', {'self': sp}, lambda: SP ** 2, reskind='spec')
            op('radiometry.Spectrum.asarray', {'self': sp}, lambda: SP.asarray(), reskind='res')
            if np.max(SP.value) > 0: op('radiometry.Spectrum.ends', {'self': sp}, lambda: SP.ends(), reskind='res')
            lo_, hi_ = float(np.min(SP.wave)), float(np.max(SP.wave))
            if np.size(SP.wave) >= 8: op('radiometry.Spectrum.crop', {'self': sp}, lambda: SP.crop(lo_ + 0.1 * (hi_ - lo_), hi_ - 0.1 * (hi_ - lo_)), inplace=[sp], pure=False, returns_arg=True)
            if np.max(SP.value) > 0: op('radiometry.Spectrum.trim', {'self': sp}, lambda: SP.trim(), inplace=[sp], pure=False, returns_arg=True)
            op('radiometry.Spectrum.resample', {'self': sp}, lambda: SP.resample(np.linspace(lo_, hi_, 6), waveunit=str(SP.waveunit)), inplace=[sp], pure=False, returns_arg=True)
    if focus == 'resample':
        # results of rescale/resample/copy/fit_tilt are worked on in place afterwards: the plane they came from must not notice
        op('plane.Pupil.__init__', {'amplitude': a, 'opd': o, 'mask': m},
           lambda: lentil.Pupil(amplitude=C[a], opd=C[o], mask=C[m], pixelscale=PX, focal_length=10), reskind='plane', weight=2)
        op('plane.Pupil.__init__', {'amplitude': a, 'mask': m},
           lambda: lentil.Pupil(amplitude=C[a], opd=0.0, mask=C[m], pixelscale=PX, focal_length=10), reskind='plane', weight=2)
        pl = w.pick(rng, 'plane', lambda x, i: x.ptype == lentil.pupil)
        if pl is not None:
            PL = C[pl]
            sc = [0.5, 1.0, 1.5, 2.0][int(rng.integers(0, 4))]
            op('plane.Plane.fit_tilt', {'self': pl}, lambda: PL.fit_tilt(), reskind='plane', weight=2, flag=False)
            op('plane.Plane.copy', {'self': pl}, lambda: PL.copy(), reskind='plane')
            if max(PL.shape) <= 4 * N and min(PL.shape) * sc >= 6:
                op('plane.Plane.rescale', {'self': pl}, lambda: PL.rescale(sc), reskind='plane', weight=4)
                op('plane.Plane.resample', {'self': pl}, lambda: PL.resample(PL.pixelscale[0] / sc), reskind='plane', weight=2)
            arrs = [i for i, x in enumerate(C) if isinstance(x, np.ndarray) and x is PL.opd]
            if isinstance(PL.opd, np.ndarray) and PL.opd.flags.writeable:
                if PL.opd.ndim == 2 and PL.opd.shape == PL.shape:
                    op('plane.Plane.fit_tilt', {'self': pl}, lambda: PL.fit_tilt(inplace=True), inplace=[pl] + arrs, pure=False, returns_arg=True, weight=4, flag=True)
                def bump():
                    x = PL.opd; x += 1e-9
                op('caller.opd_iadd', {'self': pl}, bump, inplace=[pl] + arrs, pure=False, returns_arg=True, weight=3)
            def addtilt(): PL.tilt.append(lentil.Tilt(x=1e-6, y=-2e-6))
            op('caller.tilt_append', {'self': pl}, addtilt, inplace=[pl], pure=False, returns_arg=True, weight=2)
    if focus == 'tilt':
        # wavefronts that carry tilt, reused as the operand of several Tilt planes and propagated afterwards
        op('plane.Pupil.__init__', {'amplitude': a, 'opd': o, 'mask': m},
           lambda: lentil.Pupil(amplitude=C[a], opd=C[o], mask=C[m], pixelscale=PX, focal_length=10), reskind='plane', weight=2)
    if focus in ('mixed', 'optics', 'tilt'):
        tx, ty = float(rng.uniform(-2e-5, 2e-5)), float(rng.uniform(-2e-5, 2e-5))
        op('plane.Tilt.__init__', {}, lambda: lentil.Tilt(x=tx, y=ty), reskind='tiltplane', weight=2)
        op('wavefront.Wavefront.__init__', {}, lambda: lentil.Wavefront(650e-9, tilt=[tx, ty]), reskind='wf')
        op('wavefront.Wavefront.__init__', {}, lambda: lentil.Wavefront(650e-9), reskind='wf')
        tp = w.pick(rng, 'tiltplane'); wft = w.pick(rng, 'wf', lambda x, i: x.ptype in (lentil.none, lentil.pupil))
        if tp is not None and wft is not None:
            op('plane.TiltInterface.multiply', {'self': tp, 'wavefront': wft}, lambda: C[wft] * C[tp], reskind='wf', weight=5)
        pf = w.pick(rng, 'plane', lambda x, i: x.ptype == lentil.pupil)
        if focus == 'tilt' and pf is not None:
            PF = C[pf]
            op('plane.Plane.fit_tilt', {'self': pf}, lambda: PF.fit_tilt(), reskind='plane', weight=3, flag=False)
            wfn = w.pick(rng, 'wf', lambda x, i: x.ptype == lentil.none or (x.ptype == lentil.pupil and x.shape in ((), PF.shape) and len(x.data) <= 2))
            if wfn is not None: op('plane.Plane.multiply', {'self': pf, 'wavefront': wfn}, lambda: C[wfn] * PF, reskind='wf', weight=4)
            wfp = w.pick(rng, 'wf', lambda x, i: x.ptype == lentil.pupil)
            if wfp is not None:
                WP = C[wfp]
                op('propagate.propagate_dft', {'wavefront': wfp}, lambda: lentil.propagate_dft(WP, pixelscale=5e-6, shape=10, oversample=2), reskind='wf', weight=3)
    if focus in ('mixed', 'optics'):
        op('plane.Pupil.__init__', {'amplitude': a, 'opd': o, 'mask': m},
           lambda: lentil.Pupil(amplitude=C[a], opd=C[o], mask=C[m], pixelscale=PX, focal_length=10), reskind='plane', weight=3)
        op('plane.Plane.__init__', {'amplitude': a, 'opd': o}, lambda: lentil.Plane(amplitude=C[a], opd=C[o], pixelscale=PX), reskind='plane')
        op('wavefront.Wavefront.__init__', {}, lambda: lentil.Wavefront(650e-9), reskind='wf')
        p = w.pick(rng, 'plane')
        if p is not None:
            P = C[p]
            op('plane.Plane.copy', {'self': p}, lambda: P.copy(), reskind='plane')
            op('plane.Plane.fit_tilt', {'self': p}, lambda: P.fit_tilt(), reskind='plane', weight=2, flag=False)
            if isinstance(P.opd, np.ndarray) and P.opd.flags.writeable and P.opd.ndim == 2:
                refs = [i for i, x in enumerate(C) if isinstance(x, np.ndarray) and x is P.opd]      # never the amplitude or the mask
                op('plane.Plane.fit_tilt', {'self': p}, lambda: P.fit_tilt(inplace=True), inplace=[p] + refs, pure=False, returns_arg=True, weight=3, flag=True)
            o2 = w.pick(rng, 'opd')
            def setopd(): P.opd = C[o2]
            if P.shape == (N, N): op('plane.Plane.opd', {'self': p, 'value': o2}, setopd, inplace=[p], pure=False, returns_arg=True, setter=True)
            s = [0.5, 1.0, 1.5, 2.0][int(rng.integers(0, 4))]
            if 6 <= min(P.shape) * s and max(P.shape) * s <= 6 * N:      # (a plane shrunk until its mask vanishes cannot be sliced)
                op('plane.Plane.rescale', {'self': p}, lambda: P.rescale(s), reskind='plane')
            wfm = w.pick(rng, 'wf', lambda x, i: x.ptype == lentil.none or (x.ptype == lentil.pupil and len(x.data) <= 2 and x.shape in ((), P.shape)))
            if wfm is not None and P.ptype == lentil.pupil:
                op('plane.Plane.multiply', {'self': p, 'wavefront': wfm}, lambda: C[wfm] * P, reskind='wf', weight=3)
        wf = w.pick(rng, 'wf', lambda x, i: x.ptype == lentil.pupil)
        if wf is not None:
            W = C[wf]
            sh = int(rng.integers(6, 12)); ovs = int(rng.integers(1, 3))
            op('propagate.propagate_dft', {'wavefront': wf}, lambda: lentil.propagate_dft(W, pixelscale=5e-6, shape=sh, oversample=ovs), reskind='wf', weight=3)
            if not any(f.tilt for f in W.data):
                sc = w.pick(rng, 'scratch')
                op('propagate.propagate_fft', {'wavefront': wf}, lambda: lentil.propagate_fft(W, pixelscale=DU_FFT, shape=8, oversample=2), reskind='wf')
                op('propagate.propagate_fft', {'wavefront': wf, 'scratch': sc},
                   lambda: lentil.propagate_fft(W, pixelscale=DU_FFT, shape=8, oversample=2, scratch=C[sc]), inplace=[sc], reskind='wf', pure=False)
        wi = w.pick(rng, 'wf', lambda x, i: x.ptype == lentil.image)
        if wi is not None:
            W2 = C[wi]
            op('wavefront.Wavefront.intensity', {'self': wi}, lambda: W2.intensity, reskind='res')
            oi = w.pick(rng, 'out_img')
            if tuple(W2.shape):
                # accumulate into the caller's tracked buffer (documented in-place on `out`; the wavefront itself must not change)
                op('wavefront.Wavefront.insert', {'self': wi, 'out': oi}, lambda: W2.insert(C[oi], weight=0.5), inplace=[oi], pure=False,
                   returns_arg=True, weight=3)
        # FFT propagation with a caller-supplied scratch buffer (documented in-place on `scratch`): the wavefront is built on the spot
        # from a plane that carries no tilt, so that the op is reachable in every history
        pnt = w.pick(rng, 'plane', lambda x, i: x.ptype == lentil.pupil and not x.tilt and x.shape == (N, N))
        if pnt is not None:
            sc2 = w.pick(rng, 'scratch'); PN = C[pnt]
            op('propagate.propagate_fft', {'scratch': sc2},
               lambda: lentil.propagate_fft(lentil.Wavefront(650e-9) * PN, pixelscale=DU_FFT, shape=8, oversample=2, scratch=C[sc2]),
               inplace=[sc2], reskind='wf', pure=False, weight=3)
    if focus in ('mixed', 'fourier'):
        f = w.pick(rng, 'cx'); oc = w.pick(rng, 'out_cx')
        off = (int(rng.integers(-3, 4)), int(rng.integers(-3, 4))); shf = (float(rng.integers(-2, 3)), float(rng.integers(-2, 3)))
        al = [1 / 6, 0.11, (0.1, 0.2)][int(rng.integers(0, 3))]
        op('fourier.dft2', {'f': f}, lambda: lentil.fourier.dft2(C[f], al, shape=(7, 6), shift=shf, offset=off), reskind='res', weight=4)
        op('fourier.dft2', {'f': f}, lambda: lentil.fourier.dft2(C[f], al), reskind='res', weight=2)
        op('fourier.dft2', {'f': f, 'out': oc}, lambda: lentil.fourier.dft2(C[f], al, shape=(7, 6), offset=off, out=C[oc]), inplace=[oc], pure=False, returns_arg=True, weight=2)
        op('fourier.idft2', {'F': f}, lambda: lentil.fourier.idft2(C[f], al, shape=(7, 6), shift=shf), reskind='res', weight=2)
    if focus in ('mixed', 'detector'):
        im = w.pick(rng, 'img'); g = w.pick(rng, 'gain'); cu = w.pick(rng, 'cube'); wv = w.pick(rng, 'wave'); q = w.pick(rng, 'qe')
        cap = [None, 100, 250.5][int(rng.integers(0, 3))]
        op('detector.adc', {'img': im, 'gain': g}, lambda: D.adc(C[im], C[g], saturation_capacity=cap, warn_saturate=False, dtype=None), reskind='res', weight=3)
        op('detector.adc', {'img': im}, lambda: D.adc(C[im], 1.5, saturation_capacity=cap), reskind='res')
        op('detector.collect_charge', {'img': cu, 'wave': wv, 'qe': q}, lambda: D.collect_charge(C[cu], C[wv], C[q]), reskind='res', weight=2)
        osb = [1, 3][int(rng.integers(0, 2))]
        op('detector.collect_charge_bayer', {'img': cu, 'wave': wv, 'qe_red': q, 'qe_green': q, 'qe_blue': q},
           lambda: D.collect_charge_bayer(C[cu], C[wv], C[q], 0.5, C[q], 'RGGB' if osb == 3 else 'RGB' * 3, oversample=osb), reskind='res')
        nn = w.pick(rng, 'img', lambda x, i: x.min() >= 0 and not np.any(np.signbit(x)))   # -0.0 makes normal(scale=sqrt(-0.0)) raise
        sd = int(rng.integers(0, 5))
        if nn is not None:
            op('detector.shot_noise', {'img': nn}, lambda: D.shot_noise(C[nn], seed=sd), reskind='res', weight=2)
            op('detector.shot_noise', {'img': nn}, lambda: D.shot_noise(C[nn], method='gaussian', seed=sd), reskind='res')
        tn = w.pick(rng, 'img_tinyneg')
        mth = ['poisson', 'gaussian'][int(rng.integers(0, 2))]
        op('detector.shot_noise', {'img': tn}, lambda: D.shot_noise(C[tn], method=mth, seed=sd), reskind='res', expect='Counts must be positive', weight=2)
        op('detector.adc', {'img': tn}, lambda: D.adc(C[tn], 1.5, saturation_capacity=100), reskind='res')
        op('detector.read_noise', {'img': im}, lambda: D.read_noise(C[im], 10, seed=sd), reskind='res', weight=2)
        op('detector.dark_current', {}, lambda: D.dark_current(20.5, (4, 5), fpn_factor=0.2, seed=sd), reskind='res')
        op('detector.pixel', {'img': im}, lambda: D.pixel(C[im], oversample=2), reskind='res')
        op('detector.pixelate', {'img': im}, lambda: D.pixelate(np.asarray(C[im], dtype=float), 2), reskind='res')
        op('detector.charge_diffusion', {'img': im}, lambda: D.charge_diffusion(C[im], 0.6, oversample=1), reskind='res')
        op('detector.cosmic_rays', {}, lambda: D.cosmic_rays((16, 16), (5e-6, 5e-6, 3e-6), 200.0), rng_ok=True, pure=False, reskind='res')
        ang = float(rng.uniform(0, 3))
        op('convolvable.jitter', {'img': im}, lambda: lentil.jitter(C[im], 1.5, pixelscale=1, oversample=1), reskind='res')
        op('convolvable.smear', {'img': im}, lambda: lentil.smear(C[im], 2.0, angle=ang), reskind='res')
        op('convolvable.smear', {'img': im}, lambda: lentil.smear(C[im], 2.0), rng_ok=True, pure=False, reskind='res')
        op('util.rescale', {'img': im}, lambda: lentil.rescale(np.asarray(C[im], dtype=float), 1.5), reskind='res')
        op('util.rebin', {'img': im}, lambda: lentil.rebin(C[im][:6, :6], 2), reskind='res')
        op('util.pad', {'array': im}, lambda: lentil.pad(C[im], (9, 10)), reskind='res')
        op('util.normalize_power', {'array': im}, lambda: lentil.normalize_power(np.abs(C[im])), reskind='res')
        mk = w.pick(rng, 'mask', lambda x, i: x.ndim == 2)
        op('wfe.power_spectrum', {'mask': mk}, lambda: lentil.power_spectrum(C[mk], PX, 50e-9, 5, 3, seed=sd), reskind='res', weight=2)
        op('zernike.zernike', {'mask': mk}, lambda: lentil.zernike(C[mk], 4), reskind='res')
    if focus in ('mixed', 'spectrum'):
        R = lentil.radiometry
        sw, sv = w.pick(rng, 'swave'), None
        sv = [i for i, k in enumerate(w.kind) if k == 'svalue' and C[i].size == C[sw].size][0]
        unit = ['nm', 'nm', 'um'][int(rng.integers(0, 3))]
        fac = {'nm': 1.0, 'um': 1e-3}[unit]
        op('radiometry.Spectrum.__init__', {'wave': sw, 'value': sv},
           lambda: R.Spectrum(C[sw] * fac if unit != 'nm' else C[sw], C[sv], waveunit=unit, valueunit=None), reskind='spec', weight=3)
        s1, s2 = w.pick(rng, 'spec'), w.pick(rng, 'spec')
        if s1 is not None:
            S1, S2 = C[s1], C[s2]
            op('radiometry.Spectrum.__add__', {'self': s1, 'other': s2}, lambda: S1 + S2, reskind='spec', weight=2)
            op('radiometry.Spectrum.__mul__', {'self': s1, 'other': s2}, lambda: S1 * S2, reskind='spec', weight=2)
            su = ['nm', 'um', 'angstrom'][int(rng.integers(0, 3))]
            ww = np.array([450., 512.5, 640.]) * {'nm': 1, 'um': 1e-3, 'angstrom': 10}[su]
            op('radiometry.Spectrum.sample', {'self': s1}, lambda: S1.sample(ww, waveunit=su), reskind='res', weight=3)
            op('radiometry.Spectrum.integrate', {'self': s1}, lambda: S1.integrate(), reskind='res')
            own = str(S1.waveunit)
            wb = np.array([450., 550., 650.]) * {'nm': 1, 'um': 1e-3, 'angstrom': 10, 'm': 1e-9}[own]
            op('radiometry.Spectrum.bin', {'self': s1}, lambda: S1.bin(wb, waveunit=own), reskind='res')
            tu = ['nm', 'um'][int(rng.integers(0, 2))]
            op('radiometry.Spectrum.to', {'self': s1}, lambda: S1.to(tu), inplace=[s1], pure=False, returns_arg=True)
            op('radiometry.Spectrum.copy', {'self': s1}, lambda: S1.copy(), reskind='spec')
            cu2 = w.pick(rng, 'cube'); wv2 = w.pick(rng, 'wave')
            if cu2 is not None:
                op('detector.collect_charge', {'img': cu2, 'wave': wv2, 'qe': s1}, lambda: lentil.detector.collect_charge(C[cu2], C[wv2], S1), reskind='res', weight=2)
    ws = np.array([o_['weight'] for o_ in ops], dtype=float)
    return ops[int(rng.choice(len(ops), p=ws / ws.sum()))]

def _run_history(c):
    lentil = vlib.import_lentil()
    rng = np.random.default_rng(c['hseed'])
    np.random.seed(c['hseed'] % 2**32)
    w = _build_world(rng)
    steps, done = [], []     # done: (op dict, arg digests, result digest) for pure ops
    for k in range(c['length']):
        if done and rng.integers(0, 4) == 0:
            # re-execute an earlier pure call whose arguments are unchanged: must reproduce bit for bit
            j = int(rng.integers(0, len(done)))
            o, argd, resd = done[j]
            now = {s: _digest(w.cells[i]) for s, i in o['bind'].items()}
            if now == argd:
                st0 = np.random.get_state()[1].tobytes()
                with warnings.catch_warnings():
                    warnings.simplefilter('ignore')
                    try: r = o['call'](); rd = _digest(r)
                    except Exception as e: rd = 'exc:' + type(e).__name__
                steps.append({'repeat_of': o['fn'], 'same': rd == resd, 'rng_changed': st0 != np.random.get_state()[1].tobytes() and not o['rng_ok']})
                continue
        o = _catalogue(w, rng, c['focus'])
        before = w.snap()
        st0 = np.random.get_state(); st0 = (st0[1].tobytes(), st0[2])
        exc = None; res = None
        with warnings.catch_warnings():
            warnings.simplefilter('ignore')
            try: res = o['call']()
            except Exception as e: exc = f'{type(e).__name__}: {e}'[:160]
        refused = None
        if exc is not None and o.get('expect') and o['expect'] in exc: refused, exc = exc, None       # the documented refusal of a malformed argument
        st1 = np.random.get_state(); st1 = (st1[1].tobytes(), st1[2])
        after = w.snap()
        changed = [i for i, (x, y) in enumerate(zip(before, after)) if x != y]
        rescell = None
        if exc is None and refused is None and o['reskind'] in ('plane', 'wf', 'spec', 'tiltplane', 'field') and w.find(res) is None:
            rescell = w.add(res, o['reskind'])
        argd = {s: before[i] for s, i in o['bind'].items()}
        if exc is None and refused is None and o['pure']: done.append((o, {s: _digest(w.cells[i]) for s, i in o['bind'].items()}, _digest(res)))
        _EXECUTED.add(o['fn'])
        steps.append({'fn': o['fn'], 'inplace_flag': o['flag'], 'bind': [[s, i] for s, i in o['bind'].items()], 'res': rescell, 'changed': changed,
                      'allowed': sorted(o['inplace']), 'rng_changed': st0 != st1, 'rng_ok': o['rng_ok'], 'exc': exc,
                      'frozen': [bool(w.frozen[i]) for i in changed], 'kinds': [w.kind[i] for i in changed]})
    _refresh_unproven()
    return {'steps': steps, 'ncells': len(w.cells)}

def _confluence(c):
    lentil = vlib.import_lentil()
    rng = np.random.default_rng(c['hseed'])
    n, m, S = c['n'], c['m'], c['segments']
    yy, xx = np.mgrid[0:n, 0:m]
    base = ((yy - n // 2) ** 2 / (n / 2 - 1) ** 2 + (xx - m // 2) ** 2 / (m / 2 - 1) ** 2 <= 1).astype(float)
    if S == 1: mask = base
    else:
        mask = np.zeros((S, n, m)); edges = np.linspace(0, m, S + 1).astype(int)
        for s in range(S): mask[s, :, edges[s]:edges[s + 1]] = base[:, edges[s]:edges[s + 1]]
    amp = base
    def surf(scale):
        out = np.zeros((n, m))
        segs = [base] if S == 1 else list(mask)
        for sm in segs: out += sm * scale * (rng.standard_normal((n, m)) * 0.05 + 0.02 * rng.uniform(-1, 1) * (xx - m // 2) + 0.02 * rng.uniform(-1, 1) * (yy - n // 2))
        return out
    nf = c.get('nfits', 2)
    O1 = surf(2e-7); Ds = [surf(2e-7 / (nf - 1)) for _ in range(nf - 1)]
    Dl = sum(Ds)
    A = lentil.Pupil(amplitude=amp, opd=O1.copy(), mask=mask, pixelscale=PX, focal_length=10)
    A.fit_tilt(inplace=True)
    for Dk in Ds:                       # closed-loop style: update the OPD, fit the tilt again (nf fits in all)
        A.opd = A.opd + Dk
        A.fit_tilt(inplace=True)
    B = lentil.Pupil(amplitude=amp, opd=O1 + Dl, mask=mask, pixelscale=PX, focal_length=10).fit_tilt()
    Cc = lentil.Pupil(amplitude=amp, opd=O1 + Dl, mask=mask, pixelscale=PX, focal_length=10)    # tilt left in the OPD
    def img(P):
        wv = lentil.Wavefront(650e-9) * P
        return lentil.propagate_dft(wv, pixelscale=5e-6, shape=24, oversample=2).intensity
    ia, ib, ic = img(A), img(B), img(Cc)
    mx = float(ib.max())
    return {'opd_diff': float(np.max(np.abs(A.opd - B.opd)) / 2e-7), 'img_diff': float(np.max(np.abs(ia - ib)) / mx),
            'img_vs_tilt_in_opd': float(np.max(np.abs(ia - ic)) / mx), 'ntilt': [len(A.tilt), len(B.tilt)]}

def _witness(c):
    """fixed defects found by the effect scan (corpus): the caller's object must be left untouched"""
    try:
        return _witness_body(c)
    except Exception as e:        # an exception on a legitimate history is the violation, with this case as the replay
        return {'untouched': False, 'what': f"{c['which']}: the calls raised {type(e).__name__}: {e}"[:200]}

def _witness_body(c):
    lentil = vlib.import_lentil()
    if c['which'] == 'rescaled-plane-depends-only-on-its-state':
        # a result depends only on the current arguments: a plane whose tilt basis was evaluated before it is rescaled must behave like
        # a fresh plane with the same attributes (no stale per-object cache carried across rescale/copy)
        yy, xx = np.mgrid[0:12, 0:12]
        amp = ((yy - 6) ** 2 + (xx - 6) ** 2 <= 20).astype(float)
        opd = 1e-7 * (0.3 * (xx - 6) + 0.1 * (yy - 6)) * amp
        p = lentil.Pupil(amplitude=amp, opd=opd, pixelscale=1e-3, focal_length=10)
        _ = p.ptt_vector
        p.fit_tilt()
        ok, why = True, ''
        for q in (p.rescale(1.5), p.resample(2e-3), p.copy().rescale(2)):
            fresh = lentil.Pupil(amplitude=np.array(q.amplitude), opd=np.array(q.opd), mask=np.array(q.mask), pixelscale=q.pixelscale, focal_length=10)
            a, b = q.ptt_vector, fresh.ptt_vector
            if a.shape != b.shape or not np.array_equal(a, b):
                ok, why = False, f'ptt_vector of the rescaled plane has shape {a.shape}, a fresh plane with the same attributes {b.shape}'
                continue
            fa, fb = q.fit_tilt(), fresh.fit_tilt()
            if not np.array_equal(fa.opd, fb.opd): ok, why = False, 'fit_tilt of the rescaled plane differs from a fresh plane with the same attributes'
        return {'untouched': ok, 'what': 'history dependence: ' + why if not ok else 'rescaled plane behaves like a fresh one'}
    if c['which'] == 'spectrum-bin-foreign-unit':
        s = lentil.radiometry.Spectrum(np.arange(400, 701, 50.), np.linspace(1, 2, 7), waveunit='nm')
        d0 = _digest(s); s.bin(np.array([0.45, 0.5, 0.55, 0.6]), waveunit='um')
        return {'untouched': _digest(s) == d0, 'what': 'Spectrum.bin(waveunit=um) on a nm spectrum'}
    if c['which'] == 'rotate-ndarray-angle':
        a = np.array(1.0); lentil.Rotate(angle=a, unit='radians')
        return {'untouched': float(a) == 1.0, 'what': 'Rotate(angle=ndarray, unit=radians)'}
    if c['which'] == 'wavefront-times-tilt-reuse':
        yy, xx = np.mgrid[0:32, 0:32]
        amp = ((yy - 16) ** 2 + (xx - 16) ** 2 <= 144).astype(float)
        p = lentil.Pupil(amplitude=amp, opd=2e-7 * (xx - 16) / 16 * amp, pixelscale=1 / 48, focal_length=10)
        p.fit_tilt(inplace=True)
        w1 = lentil.Wavefront(650e-9) * p
        d0 = _digest(w1); i0 = lentil.propagate_dft(w1, pixelscale=5e-6, shape=32, oversample=2).intensity
        w2 = w1 * lentil.Tilt(x=2e-5, y=-1e-5)
        w3 = lentil.Wavefront(650e-9, tilt=[1e-6, 2e-6]); d3 = _digest(w3); w4 = w3 * lentil.Tilt(x=1e-5, y=0)
        i1 = lentil.propagate_dft(w1, pixelscale=5e-6, shape=32, oversample=2).intensity
        return {'untouched': _digest(w1) == d0 and np.array_equal(i0, i1) and _digest(w3) == d3 and len(p.tilt) == 1,
                'what': 'Wavefront * Tilt on a wavefront that already carries tilt'}
    if c['which'] == 'rescale-result-mutated':
        yy, xx = np.mgrid[0:16, 0:16]
        amp = ((yy - 8) ** 2 + (xx - 8) ** 2 <= 36).astype(float)
        ok = True
        for opd in (2e-7 * (xx - 8) / 8 * amp, 0.0):
            p = lentil.Pupil(amplitude=amp, opd=opd, pixelscale=1e-3, focal_length=10)
            if np.ndim(opd): p.fit_tilt(inplace=True)
            d0 = _digest(p)
            for q in (p.rescale(2), p.resample(2e-3)):
                if np.ndim(q.opd) == 2: q.fit_tilt(inplace=True)
                x = q.opd; x += 1e-9
                q.tilt.append(lentil.Tilt(x=1e-6, y=0))
                ok = ok and q.tilt is not p.tilt and not np.shares_memory(np.asarray(q.opd), np.asarray(p.opd)) and not np.shares_memory(np.asarray(q.amplitude), np.asarray(p.amplitude))
            ok = ok and _digest(p) == d0
        return {'untouched': bool(ok), 'what': 'in-place work on the result of Plane.rescale/resample'}
    if c['which'] == 'plane-mask-binarised':
        m = np.array([[0., 2.], [3., 0.]]); lentil.Plane(mask=m)
        return {'untouched': m.tolist() == [[0., 2.], [3., 0.]], 'what': 'Plane(mask=m)'}
    if c['which'] == 'adc-clips-frame':
        f = np.array([[5., 500.]]); lentil.detector.adc(f, 1, saturation_capacity=100)
        return {'untouched': f.tolist() == [[5., 500.]], 'what': 'adc(frame, saturation_capacity)'}
    if c['which'] == 'spectrum-sample-foreign-unit':
        s = lentil.radiometry.Spectrum(np.arange(400, 701, 50.), np.linspace(1, 2, 7), waveunit='nm')
        d0 = _digest(s); s.sample(np.array([0.45, 0.5]), waveunit='um')
        return {'untouched': _digest(s) == d0, 'what': 'Spectrum.sample(waveunit=um) on a nm spectrum'}
    raise ValueError(c['which'])

# ------------------------------------------------------------------------------------------ table-driven smoke calls
def _fixture(name, lentil):
    """a fresh argument for a parameter of that name (arrays are frozen read-only), or KeyError"""
    yy, xx = np.mgrid[0:8, 0:8]
    circ = ((yy - 4) ** 2 + (xx - 4) ** 2 <= 9).astype(float)
    R = lentil.radiometry
    fz = lambda a: (a.setflags(write=False), a)[1]
    table = {
        'img': lambda: fz(np.round(np.abs(np.sin(yy + 2.0 * xx)) * 200) / 4), 'array': lambda: fz(circ * 2.0), 'a': lambda: fz(circ * 3.0), 'x': lambda: fz(circ.copy()),
        'f': lambda: fz((circ + 0j)), 'F': lambda: fz((circ + 1j * circ.T)), 'opd': lambda: fz(circ * 1e-7 * (xx - 4)), 'amplitude': lambda: fz(circ.copy()),
        'mask': lambda: fz(circ.copy()), 'shape': lambda: (8, 8), 'wave': lambda: fz(np.array([500., 600., 700.])), 'qe': lambda: fz(np.array([0.5, 0.25, 0.75])),
        'waveunit': lambda: 'nm', 'index': lambda: 4, 'j': lambda: 5, 'modes': lambda: [1, 2, 3, 4], 'coeffs': lambda: fz(np.array([0, 1e-8, 2e-8, 1e-8])),
        'scale': lambda: 1.5, 'oversample': lambda: 2, 'seed': lambda: 3, 'pixelscale': lambda: 1e-3, 'radius': lambda: 3.0, 'factor': lambda: 2,
        'alpha': lambda: 0.125, 'gain': lambda: 1.5, 'electrons': lambda: 5.0, 'rate': lambda: 20.5, 'sigma': lambda: 0.8, 'distance': lambda: 2.0,
        'rms': lambda: 5e-8, 'half_power_freq': lambda: 3.0, 'exp': lambda: 3.0, 'f_number': lambda: 10.0, 'translation': lambda: 1e-4, 'temp': lambda: 5000.0,
        'temperature': lambda: 110.0, 'cutoff_wavelength': lambda: 5e-6, 'bayer_string': lambda: 'RGGB', 'width': lambda: 4, 'height': lambda: 3, 'size': lambda: 5,
        'ts': lambda: 10.0, 'power': lambda: 1.0, 'threshold': lambda: 0, 'vec': lambda: [500., 600.], 'z': lambda: 10.0, 'du': lambda: 5e-6, 'min_q': lambda: 2,
        'wavelength': lambda: 650e-9, 'value': lambda: fz(circ * 0.5), 'other': lambda: R.Spectrum(np.linspace(400., 800., 6), np.linspace(1., 2., 6)),
        'fields': lambda: [lentil.field.Field(fz(circ + 0j), offset=[0, 1]), lentil.field.Field(fz(circ + 0j), offset=[2, -1])],
        'field': lambda: lentil.field.Field(fz(circ + 0j), offset=[1, 0]), 'out': lambda: np.zeros((8, 8), dtype=complex),
        'wavefront': lambda: lentil.Wavefront(650e-9), 'plane': lambda: lentil.Pupil(amplitude=fz(circ.copy()), pixelscale=1e-3, focal_length=10.0),
        'rings': lambda: 1, 'seg_radius': lambda: 6, 'seg_gap': lambda: 1, 'min_wave': lambda: 450., 'max_wave': lambda: 750., 'unit': lambda: 'um',
        'waveunit_': lambda: 'nm', 'name': lambda: 'nm', 'band': lambda: 'V', 'iterable': lambda: [R.Material(transmission=0.9), R.Material(transmission=0.8)],
        'data': lambda: fz(circ + 0j), 'b': lambda: lentil.field.Field(fz(circ + 0j), offset=[0, 0]), 'direction': lambda: 1, 'hex': lambda: (1, -1, 0),
        'qe_red': lambda: 0.5, 'qe_green': lambda: fz(np.array([0.5, 0.25, 0.75])), 'qe_blue': lambda: 0.25, 'bayer_pattern': lambda: 'RGGB',
        'shift': lambda: (0, 0), 'y': lambda: 1e-6, 'dx': lambda: 1e-3, 'ptype': lambda: 'pupil', 'flux': lambda: fz(np.array([1., 2., 3.])),
        'fluxunit': lambda: 'photlam', 'valueunit': lambda: 'photlam', 'mag': lambda: 5.0, 'q': lambda: 1, 'r': lambda: -1, 's': lambda: 0,
        'ends': lambda: 2, 'start': lambda: 450., 'end': lambda: 750., 'emission': lambda: 0.1, 'transmission': lambda: 0.9,
        'extent': lambda: (-2, 2, -3, 3), 'slice': lambda: (slice(1, 5), slice(2, 6)), 'rho': lambda: None, 'theta': lambda: None, 'n': lambda: 2, 'm': lambda: 0,
    }
    return table[name]()

def _instance(cls_name, lentil):
    yy, xx = np.mgrid[0:8, 0:8]
    circ = ((yy - 4) ** 2 + (xx - 4) ** 2 <= 9).astype(float)
    R = lentil.radiometry
    if cls_name in ('Plane', 'Pupil'): return lentil.Pupil(amplitude=circ.copy(), opd=circ * 1e-7 * (xx - 4), pixelscale=1e-3, focal_length=10.0)
    if cls_name == 'Image': return lentil.Image(amplitude=circ.copy(), pixelscale=5e-6)
    if cls_name in ('Tilt', 'TiltInterface'): return lentil.Tilt(x=1e-6, y=2e-6)
    if cls_name == 'Wavefront': return lentil.Wavefront(650e-9) * lentil.Pupil(amplitude=circ.copy(), pixelscale=1e-3, focal_length=10.0)
    if cls_name == 'Field': return lentil.field.Field(circ + 0j, offset=[1, -1])
    if cls_name == 'Spectrum': return R.Spectrum(np.linspace(400., 800., 9), np.linspace(1., 2., 9))
    if cls_name == 'Blackbody': return R.Blackbody(np.linspace(400., 800., 9), 5000.0)
    if cls_name == 'Material': return R.Material(transmission=0.9)
    if cls_name == 'PType': return lentil.pupil
    raise KeyError(cls_name)

def _smoke(c):
    """call every public function of the generated effect table once on fixtures chosen by parameter name; record which parameter slots
    changed and whether the global generator moved. A call the fixtures do not fit (it raises) still must not have changed anything."""
    import re, os, inspect, importlib
    lentil = vlib.import_lentil()
    rows = re.findall(r'fn := "([^"]+)", pub := true', open(os.path.join(vlib.LEAN, 'LentilVerif', 'Gen', 'Effects.lean')).read())
    out = []
    for fn in rows:
        parts = fn.split('.')
        rec = {'fn': fn}
        if parts[-1] in ('setter', 'deleter'):
            rec['status'] = 'no fixture: property setter (documented attribute assignment; exercised by the histories)'; out.append(rec); continue
        try:
            mod = importlib.import_module('lentil.' + parts[0])
            if len(parts) == 2: target, inst = getattr(mod, parts[1]), None
            else:
                klass = getattr(mod, parts[1])
                attr = inspect.getattr_static(klass, parts[2])
                if parts[2] == '__init__': target, inst = klass, None
                elif isinstance(attr, property): target, inst = attr, _instance(parts[1], lentil)
                elif isinstance(attr, (staticmethod, classmethod)): target, inst = getattr(klass, parts[2]), None
                else: inst = _instance(parts[1], lentil); target = getattr(inst, parts[2])
            args = {}
            if isinstance(target, property): sig = []
            else:
                sig = [p for p in inspect.signature(target).parameters.values() if p.name not in ('self', 'cls')]
            for p_ in sig:
                if p_.kind in (p_.VAR_POSITIONAL, p_.VAR_KEYWORD): continue
                if p_.default is not inspect._empty and p_.name not in ('out', 'mask', 'seed', 'opd', 'amplitude'): continue
                args[p_.name] = _fixture(p_.name, lentil)
        except KeyError as e:
            rec['status'] = f'no fixture: {e}'; out.append(rec); continue
        except Exception as e:
            rec['status'] = f'setup: {type(e).__name__}'; out.append(rec); continue
        tracked = dict(args)
        if inst is not None: tracked['self'] = inst
        before = {k: _digest(v) for k, v in tracked.items()}
        g0 = np.random.get_state()[1].tobytes()
        try:
            with warnings.catch_warnings():
                warnings.simplefilter('ignore')
                if isinstance(target, property): target.fget(inst)
                else: target(**args)
            rec['status'] = 'called'
        except Exception as e:
            rec['status'] = f'raised {type(e).__name__}: {e}'[:90]
        rec['changed'] = sorted(k for k, v in tracked.items() if _digest(v) != before[k])
        rec['rng'] = np.random.get_state()[1].tobytes() != g0
        _EXECUTED.add(fn) if rec['status'] == 'called' else None
        out.append(rec)
    _refresh_unproven()
    return {'rows': out}

def _seeded_repeat(c):
    """every seeded stochastic model called twice with identical arguments (and once more after unrelated global-generator activity):
    the results must be identical bit for bit, and the global generator untouched"""
    lentil = vlib.import_lentil()
    D = lentil.detector
    yy, xx = np.mgrid[0:7, 0:9]
    mask = ((yy - 3) ** 2 / 9.0 + (xx - 4) ** 2 / 16.0 <= 1).astype(float)
    frame = np.round(np.abs(np.sin(yy + 1.7 * xx)) * 4000) / 4 + 1000.0
    sd = c['seed']
    calls = {
        'detector.shot_noise(poisson)': lambda: D.shot_noise(frame, seed=sd),
        'detector.shot_noise(gaussian)': lambda: D.shot_noise(frame, method='gaussian', seed=sd),
        'detector.read_noise': lambda: D.read_noise(frame, 7.5, seed=sd),
        'detector.dark_current(fpn)': lambda: D.dark_current(150.0, (6, 5), fpn_factor=0.3, seed=sd),
        'detector.rule07_dark_current(fpn)': lambda: D.rule07_dark_current(110.0, 5.3e-6, 18e-6, shape=(6, 5), fpn_factor=0.3, seed=sd),
        'wfe.power_spectrum': lambda: lentil.power_spectrum(mask, 1e-3, 5e-8, 3.0, 3.0, seed=sd),
    }
    out = []
    for name, f in calls.items():
        g0 = np.random.get_state()[1].tobytes()
        try:
            with warnings.catch_warnings():
                warnings.simplefilter('ignore')
                a = f(); b = f()
                np.random.uniform(size=3)            # unrelated activity on the global generator in between
                g1 = np.random.get_state()[1].tobytes()
                d = f()
                g2 = np.random.get_state()[1].tobytes()
            out.append({'fn': name, 'same': bool(np.array_equal(a, b) and np.array_equal(a, d)), 'ndiff': int(np.sum(np.asarray(a) != np.asarray(b))),
                        'size': int(np.size(a)), 'rng_touched': bool(g1 != g2)})
        except Exception as e:
            out.append({'fn': name, 'exc': f'{type(e).__name__}: {e}'[:120]})
    return {'calls': out}

def impl(c):
    if c['kind'] == 'seeded_repeat': return _seeded_repeat(c)
    if c['kind'] == 'smoke': return _smoke(c)
    if c['kind'] == 'witness': return _witness(c)
    if c['kind'] == 'confluence': return _confluence(c)
    if c['kind'] == 'earlier_result': return _earlier_result(c)
    return _run_history(c)

# ------------------------------------------------------------------------------------------ model
def requests(c, io):
    if c['kind'] == 'seeded_repeat': return []
    if c['kind'] == 'smoke': return [{'op': 'heap.rows', 'fns': [r['fn'] for r in io['rows']]}]
    if c['kind'] != 'history': return []
    ops = [{'fn': s['fn'], 'bind': s['bind'], 'res': s['res'], **({'inplace': s['inplace_flag']} if s.get('inplace_flag') is not None else {})}
           for s in io['steps'] if 'fn' in s]
    return [{'op': 'heap.run', 'ops': ops}]

def compare(c, io, mo):
    if c['kind'] == 'smoke':
        m = mo[0]
        if not m.get('ok'): return f"model refused: {m.get('err')}"
        for r, a in zip(io['rows'], m['rows']):
            if 'changed' not in r: continue
            if not a['known']: return f"{r['fn']} is not in the effect table"
            extra = [k for k in r['changed'] if k not in a['slots']]
            if extra: return f"{r['fn']} changed its argument(s) {extra}; the effect table allows only {a['slots']} ({r['status']})"
            if r['rng'] and not a['rng']: return f"{r['fn']} moved the global generator; the effect table says it does not use it"
        return None
    if c['kind'] != 'history': return None
    m = mo[0]
    if not m.get('ok'): return f"model refused: {m.get('err')}"
    real = [s for s in io['steps'] if 'fn' in s]
    if len(real) != len(m['steps']): return 'step count differs'
    for k, (s, a) in enumerate(zip(real, m['steps'])):
        if not a['known'] and not s['fn'].startswith('caller.'): return f"step {k}: {s['fn']} is not a public function of the generated effect table"
        extra = [i for i in s['changed'] if i not in a['may']]
        if extra: return f"step {k}: {s['fn']} changed cells {extra} ({[s['kinds'][s['changed'].index(i)] for i in extra]}); the effect table allows only {a['may']}"
        if s['rng_changed'] and not a['rng']: return f"step {k}: {s['fn']} changed the global generator; the effect table says it does not use it"
    return None

# ------------------------------------------------------------------------------------------ oracle
SMOKE_INPLACE = {('field.insert', 'out'), ('wavefront.Wavefront.insert', 'out'), ('fourier.dft2', 'out'), ('fourier.idft2', 'out'),
                 ('plane.Plane.fit_tilt', 'self'), ('propagate.propagate_fft', 'scratch')}
SMOKE_EDIT = ('radiometry.Spectrum.', 'radiometry.Material.')       # the documented editing methods / setters change `self`

def _earlier_result(c):
    """w1 = w * plane is kept by the caller; LATER the plane alone is worked on in place (OPD update + fit_tilt(inplace=True), edits of the
    plane's own tilt list): every observable of the earlier product must stay bit-for-bit what it was"""
    lentil = vlib.import_lentil()
    rng = np.random.default_rng(c['hseed'])
    n, m, S = c['n'], c['m'], c['segments']
    yy, xx = np.mgrid[0:n, 0:m]
    base = ((yy - n // 2) ** 2 / (n / 2 - 1) ** 2 + (xx - m // 2) ** 2 / (m / 2 - 1) ** 2 <= 1).astype(float)
    if S == 1: mask = base
    else:
        mask = np.zeros((S, n, m)); e = np.linspace(0, m, S + 1).astype(int)
        for k in range(S): mask[k, :, e[k]:e[k + 1]] = base[:, e[k]:e[k + 1]]
    def surf(): return base * (rng.uniform(-3, 3) * 1e-9 * (yy - n // 2) + rng.uniform(-3, 3) * 1e-9 * (xx - m // 2) + 1e-9 * rng.standard_normal((n, m)))
    P = lentil.Pupil(amplitude=base, opd=surf(), mask=mask, pixelscale=PX, focal_length=10)
    for k in range(c['prefits']):
        if k: P.opd = P.opd + surf()
        P.fit_tilt(inplace=True)
    w = lentil.Wavefront(650e-9)
    w1 = (w * P) if c['form'] == 'mul' else P.multiply(w) if c['form'] == 'multiply' else w.__rmul__(P)
    def obs(wf):
        return ([[(float(t.x), float(t.y)) for t in f.tilt] for f in wf.data],
                lentil.propagate_dft(wf, pixelscale=5e-6, shape=24, oversample=2).intensity)
    t0, i0 = obs(w1)
    done = []
    try:
        for op_ in c['later']:
            if op_ == 'refit': P.opd = P.opd + surf(); P.fit_tilt(inplace=True)
            elif op_ == 'iadd_refit':
                x = P.opd
                if isinstance(x, np.ndarray) and x.flags.writeable and x.ndim == 2: x += surf()
                else: P.opd = P.opd + surf()
                P.fit_tilt(inplace=True)
            elif op_ == 'tilt_append': P.tilt.append(lentil.Tilt(x=float(rng.uniform(-1, 1)) * 1e-6, y=float(rng.uniform(-1, 1)) * 1e-6))
            elif op_ == 'tilt_clear': P.tilt.clear()
            done.append(op_)
    except Exception as ex:
        return {'exc': f'{type(ex).__name__}: {ex}'[:160], 'done': done}
    t1, i1 = obs(w1)
    return {'tilt_same': t0 == t1, 'ntilt': [[len(x) for x in t0], [len(x) for x in t1]], 'img_diff': float(np.max(np.abs(i1 - i0)) / (np.max(i0) or 1.0)), 'peak': float(np.max(i0)),
            'plane_ntilt': len(P.tilt), 'done': done}

def oracle(c, io):
    if c['kind'] == 'earlier_result':
        if 'exc' in io: return f"in-place work on the plane after a product was taken raised {io['exc']} (after {io['done']})"
        how = {'mul': 'w * plane', 'multiply': 'plane.multiply(w)', 'rmul': 'w.__rmul__(plane)'}[c['form']]
        if not io['tilt_same']: return (f"the wavefront returned earlier by {how} changed when the plane was later worked on in place ({c['later']}): its fields had {io['ntilt'][0]} "
                                        f"tilt terms, now {io['ntilt'][1]} — the result shares the plane's tilt list (a result must depend only on the arguments of its own call)")
        if io['img_diff'] != 0: return f"the image of the wavefront returned earlier by {how} changed by {io['img_diff']:.3g} of its peak after later in-place work on the plane ({c['later']})"
        return None
    if c['kind'] == 'seeded_repeat':
        for r in io['calls']:
            if 'exc' in r: return f"{r['fn']} with seed={c['seed']} raised {r['exc']}"
            if not r['same']: return (f"repeating {r['fn']} with identical arguments and seed={c['seed']} gave a different result "
                                      f"({r['ndiff']} of {r['size']} pixels differ): the result does not depend only on the arguments")
            if r['rng_touched']: return f"{r['fn']} with seed={c['seed']} read or advanced the global random state"
        return None
    if c['kind'] == 'smoke':
        for r in io['rows']:
            for k in r.get('changed', []):
                if (r['fn'], k) in SMOKE_INPLACE or (k == 'self' and r['fn'].startswith(SMOKE_EDIT) and r['fn'].split('.')[-1] in
                        ('append', 'crop', 'pad', 'resample', 'to', 'trim')): continue
                return f"{r['fn']} modified its argument {k!r} although it is not documented as in-place ({r['status']})"
            if r.get('rng') and r['fn'] not in ('detector.cosmic_rays', 'convolvable.smear'): return f"{r['fn']} read or advanced the global random state"
        return None
    if c['kind'] == 'witness':
        if io['untouched']: return None
        return io['what'] if io['what'].startswith(('history dependence', c['which'])) else f"{io['what']} modified the caller's object"
    if c['kind'] == 'confluence':
        # (a segment only a few pixels wide makes the per-segment least-squares fit ill-conditioned: residual OPDs are compared for monoliths)
        if c['segments'] == 1 and io['opd_diff'] > 1e-9: return f"same OPD + tilt reached in two orders, but residual OPDs differ by {io['opd_diff']:.3g} (relative)"
        if io['img_diff'] > 1e-7: return f"plane-state confluence broken: images differ by {io['img_diff']:.3g} of the peak (fit, update, fit vs one fit of the total)"
        return None
    for k, s in enumerate(io['steps']):
        if 'repeat_of' in s:
            if not s['same']: return f"step {k}: repeating {s['repeat_of']} with unchanged arguments gave a different result (history dependence)"
            if s['rng_changed']: return f"step {k}: {s['repeat_of']} advanced the global generator"
            continue
        if s['exc'] and 'read-only' in s['exc']: return f"step {k}: {s['fn']} tried to write a read-only caller array ({s['exc']})"
        bad = [i for i in s['changed'] if i not in s['allowed']]
        if bad: return f"step {k}: {s['fn']} modified caller cells {bad} ({[s['kinds'][s['changed'].index(i)] for i in bad]}) that it is not documented to write"
        if s['rng_changed'] and not s['rng_ok']: return f"step {k}: {s['fn']} read or advanced the global random state"
        if s['exc']: return f"step {k}: {s['fn']} raised {s['exc']}"
    return None
