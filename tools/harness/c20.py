"""C20 — array geometry helpers share the floor(n/2) centre convention.

Tie: Gen/Util.lean (pad index block for 2-D arrays and cubes, subarray), Gen/Helper.lean (slice_offset), Gen/Helper20.lean
(boundary_slice), Gen/Hex.lean (hex_directions, ring start, the hex_ring loops and the hex_segments numbering loop as folds, hex_neighbor) are regenerated from the source on every run;
Model/Geometry.lean (array plumbing, boundary search, rebin, mesh, shapes, ring walk) is hand-written and compared here with
the real functions: exactly on integer data, with 1e-9 tolerance where sqrt/sin/cos enter (drawn shapes)."""
import itertools, math, numpy as np
from harness.common import *
import vlib

LEVEL_TEXT = ('Lean 4 theorems, for all shapes/targets/parities: pad (2-D and cubes) is the restriction of the centred zero-extended '
              'array (origin sample floor(m/2) -> floor(S/2), every copied sample keeps its coordinate), its slices are in bounds, '
              'pad-then-crop is the identity; util.window: its whole decision tree is regenerated from the source (Gen.windowAct) and proved for all arguments to be: one-element input or neither argument -> input unchanged, shape= -> the centred crop/pad (origin floor(n/2) kept, 2-D and cubes), slice= inside the array -> exactly the index set [r0:r1, c0:c1], shape= and slice= -> that view iff shape equals the extent of the slice, AssertionError otherwise (window_dispatch, window_shape_keeps_origin, window_slice_indices, window_passthrough, window3_shape_keeps_origin), and on a cube (depth, rows, cols) slice= selects [:, r0:r1, c0:c1] with the depth kept — the leading Ellipsis of the returned view is regenerated as Gen.windowSliceAxesFromEnd (window3_slice_indices); subarray/boundary/boundary_slice/slice_offset address the stated index sets; rebin '
              'preserves the sum — and the reshape target shape and summed axes of both branches of rebin are regenerated (Gen.rebinReshape2/3, Gen.rebinSumAxes2/3) and proved to address, in C order, exactly the factor x factor blocks the model sums (rebin_regenerated, rebin3_regenerated); util.centroid is regenerated statement by statement (Gen.centroid: normalisation by the total, np.mgrid lower bounds, grid/np.dot pairing, order of the returned pair) and proved over any field to return (row numerator / total, column numerator / total) of the quantities the following theorems are about (centroid_regenerated); the centroid of an array that is half-turn symmetric about a sample is that sample (also for any ring of weights: antialiased values), hence the centroid of a drawn circle / rectangle / hexagon with zero shift is the origin sample floor(n/2) UNDER the hypotheses of the theorem: row 0 of the image is zero when the row count is even and column 0 is zero when the column count is even (the mirror image of index 0 on an even axis falls outside the array; satisfiable: centroid_of_drawn_rectangle_instance, a 2x2 rectangle on 6x6 over Q) (centroid_of_drawn_shapes), the centroid of an indicator '
              'set is its mean position; mesh coordinates translate under integer '
              'shifts and negate under the half-turn index map; circle/rectangle/hexagon values lie in [0,1], are binary without '
              'antialiasing, translate under integer shifts (also spider) and are half-turn symmetric and mirror symmetric about the origin ROW (hexagons in both orientations; the column mirror of unrotated circles, rectangles and hexagons is their composition: column_mirror_when_unrotated) — via the closure of their six '
              'edge normals under negation/mirroring, proved for the real angles n·pi/3 + phi; hex_ring is the loop-by-loop translation of the source (hex_ring_translated) and has 6k cells at cube '
              'distance k, pairwise distinct; the segment numbering is the statement-by-statement translation of the source loop (segment_numbering_translated) and a k-ring aperture has 1+3k(k+1) distinct cells minus the dropped numbers in range; for seg_gap > 0 '
              'two segments at distinct cells share no pixel (separating-axis argument over any ordered field, both orientations, with the '
              'exact sin/cos tables of the edge normals proved over R) and, for pad >= 2, every pixel of value 1 of a NON-ANTIALIASED segment has row/column index in '
              '[1, size-2] (clear of the border), and so has every pixel with a non-zero value of an ANTIALIASED segment — the library default — whose edge profile reaches half a pixel (3/5 across a vertex) further (hex_clear_of_border_antialiased) — both also restated over the regenerated size / pitch / hex_to_rc expressions the driver runs; drawing and padding commute, cropping is sub-array extraction. PARTIAL: equal area up to edge sampling is checked on the real code only (no theorem); '
              'float rounding of the edge test and of the ceil in the array size is not modelled.')
LEVEL_NOTE = ('Trusted: Lean kernel, py2lean subset semantics, NumPy slicing/reshape/any/where semantics as modelled in '
              'Model/Geometry.lean, float sqrt/sin/cos (model run at Float, tolerance 1e-9; binary masks compared except where the '
              'real-valued margin to the edge is < 1e-9), generator coverage. Known finding: hex_segments(seg_gap=0, antialias=False) '
              'shares edge pixels between neighbours. Unproven: equal area up to edge sampling (oracle only).')
TECHNIQUE = 'Lean 4 proof (omega/induction/Finset sums) over translator-regenerated index kernel + hand model with differential correspondence'
GEN = ['Util', 'UtilWindow', 'UtilCentroid', 'UtilRebin', 'Helper', 'Helper20', 'Hex', 'Mesh', 'Extent', 'FieldAccum', 'FieldDispatch', 'FieldIdx', 'FieldMerge']      # every Gen module imported transitively (Model/Field)
OPS = ['C20']
RULE = ('cases: pad of 2-D arrays (all source/target sizes 1..9, every grow/shrink/parity mix) and cubes (depth 1..3, non-square), '
        'subarray incl. windows outside the array, boundary/boundary_slice/slice_offset on sparse integer arrays with thresholds and '
        'pads, rebin (2-D, cubes, non-divisible factors), centroid, hex_ring 0..6, hex_segments (rings 1..3, gaps >= 0, drop lists '
        'with duplicates and out-of-range numbers, both orientations; segment centres, array size and overlap checked for every case, the WHOLE segment cube compared pixel by pixel with the model for rings x radius <= 10 and for one larger aperture in eight in the deeper tiers; also the library defaults antialias=True/pad=2/drop=(0,) compared as a flattened aperture), '
        'cross-helper cases (pad of a drawn shape = the shape drawn larger, crop = sub-array, centroid and bounding box of an integer-shifted shape), float and '
        'negative-weight centroids, rebin refusals (factor 0, complex), util.window (20 cases per quick run over every path of its decision tree: shape / slice / both consistent / both inconsistent (must raise AssertionError) / neither / one element with shape or slice / cube with shape / cube with slice and with consistent shape+slice (6 per quick run; reference: the index set on the LAST two axes) / slices with negative and past-the-end bounds — all compared with the model that executes the regenerated tree), '
        'circle/rectangle/hexagon/spider with dyadic parameters, shifts and rotations, antialiased and binary, incl. shapes much larger '
        'than the array or centred far outside it; boundary data at physical scales 1e-18..1e12; half-turn-symmetric arrays for the '
        'centroid; deeper tiers add arrays up to 3001x3 / 3x4097, int8/int16/uint8/int32/float32 data, a 61-segment aperture; distinct = canonical (kind, shapes, parameters) signature; non-trivial = not the '
        'same-shape/identity case')
TRUSTED = ['util.centroid: np.mgrid[a:nr, b:nc] gives the grids (a + i, b + j), np.dot of two equally raveled arrays is the double sum, np.sum the total (Gen.centroid is built on these; compared at Float on every centroid case)',
           'util.window: `img = np.asarray(img)` and img.size = product of the shape (checked structurally / modelled as s0*s1); NumPy basic slicing img[a:b, c:d] as modelled by viewSlice/sliceBound',
           'NumPy slicing, reshape(...).sum, np.any/np.where, np.clip/np.minimum semantics as modelled by hand in Model/Geometry.lean',
           'libm sqrt/sin/cos agree with NumPy to 1e-9 (drawn shapes are compared with the model run at Float)']
UNPROVEN = ['hex_segments: equal segment area up to edge sampling (checked on the real code by the oracle only)',
            'util.window: slices with negative / past-the-end bounds are modelled (sliceBound = Python slice.indices) and compared on generated cases, the theorem window_slice_indices is stated for 0 <= r0 <= r1 <= rows, 0 <= c0 <= c1 <= cols']
ASSUMPTIONS = ['shape parameters, shifts and radii are dyadic rationals of moderate size so that mesh coordinates are exact in float64',
               'non-overlap is judged on non-antialiased masks; seg_gap = 0 is the recorded known finding KF-C20-hex-gap0-shared-edge',
               'border clearance is stated for pad >= 2 (the default); pad < 2 is not claimed',
               'util.window(cube, slice=...) addresses rows and columns (img[..., r0:r1, c0:c1], the cube convention (depth, rows, cols) of pad and window(shape=)); generated in every run and judged by the oracle']

# ------------------------------------------------------------------------------------------ generation
def _ints(rng, n, lo=-4, hi=5): return [int(x) for x in rng.integers(lo, hi, n)]

def _dy(rng, lo, hi, q=4): return float(int(rng.integers(lo * q, hi * q + 1))) / q

def _sparse(rng, s0, s1):
    d = np.zeros((s0, s1), dtype=int)
    k = int(rng.integers(1, 5))
    for _ in range(k):
        d[int(rng.integers(0, s0)), int(rng.integers(0, s1))] = int(rng.integers(1, 4))
    if rng.integers(0, 3) == 0:
        d[int(rng.integers(0, s0)), :] = np.maximum(d[int(rng.integers(0, s0)), :], rng.integers(0, 2, s1))
    return d

def _extremes(rng):
    out = []
    for (m, S) in (((3001, 3), (2048, 4)), ((2, 2500), (3, 4097)), ((1500, 2), (1501, 1)), ((70, 65), (129, 64))):
        dt = ['int8', 'int16', 'uint8', 'int32', 'float32'][int(rng.integers(0, 5))]
        out.append({'kind': 'pad2', 'shape': list(m), 'to': list(S), 'data': _ints(rng, m[0] * m[1], 1, 9), 'dtype': dt})
    out.append({'kind': 'pad3', 'shape': [40, 33, 7], 'to': [64, 6], 'data': _ints(rng, 40 * 33 * 7, 1, 9), 'dtype': 'int16'})
    for m in ((2000, 3), (3, 1800)):
        out.append({'kind': 'subarray', 'shape': list(m), 'sub': [m[0] - 7, 2] if m[0] > m[1] else [2, m[1] - 9], 'shift': [3, 0] if m[0] > m[1] else [0, -4],
                    'data': _ints(rng, m[0] * m[1], 1, 9), 'dtype': 'int32'})
        d = np.zeros(m, dtype=int); d[int(rng.integers(0, m[0])), int(rng.integers(0, m[1]))] = 5; d[m[0] // 2, m[1] // 2] = 1
        out.append({'kind': 'boundary', 'shape': list(m), 'data': [int(x) for x in d.ravel()], 'thr': 0, 'pad': [2, 1], 'scalar_pad': False,
                    'scale': [3e-18, 1e-9, 1e12][int(rng.integers(0, 3))]})
        out.append({'kind': 'centroid', 'shape': list(m), 'data': [int(x) for x in rng.integers(0, 4, m[0] * m[1])], 'dtype': 'uint8'})
    out.append({'kind': 'rebin', 'shape': [1200, 6], 'f': 3, 'data': _ints(rng, 7200, 0, 120), 'dtype': 'uint8'})      # sums exceed the dtype range
    out.append({'kind': 'rebin', 'shape': [33, 64, 4], 'f': 2, 'data': _ints(rng, 33 * 64 * 4, -100, 120), 'dtype': 'int8'})
    out.append({'kind': 'segments', 'rings': 4, 'radius': 3.0, 'gap': 1.0, 'rotate': False, 'drop': [int(x) for x in rng.permutation(61)[:35]], 'pad': 2})
    out.append({'kind': 'hex_ring', 'k': 40})
    return out

def generate(rng, tier):
    n = {'quick': 420, 'thorough': 9000, 'search': 2500}[tier]
    out = []
    for k in range(n):
        t = k % 14
        if t in (0, 1):
            m = (int(rng.integers(1, 10)), int(rng.integers(1, 10))); S = (int(rng.integers(1, 10)), int(rng.integers(1, 10)))
            out.append({'kind': 'pad2', 'shape': list(m), 'to': list(S), 'data': _ints(rng, m[0] * m[1], 1, 9)})
        elif t == 2:
            m = (int(rng.integers(1, 4)), int(rng.integers(1, 8)), int(rng.integers(1, 8))); S = (int(rng.integers(1, 9)), int(rng.integers(1, 9)))
            out.append({'kind': 'pad3', 'shape': list(m), 'to': list(S), 'data': _ints(rng, m[0] * m[1] * m[2], 1, 9)})
        elif t == 3 and k % 28 == 3:
            m = (int(rng.integers(2, 10)), int(rng.integers(2, 10)))
            mode = ['shape', 'slice', 'both', 'none', 'one-element', 'cube-shape'][int(rng.integers(0, 6))]
            c = {'kind': 'window', 'shape': list(m), 'data': _ints(rng, m[0] * m[1], 1, 9), 'mode': mode,
                 'to': [int(rng.integers(1, 12)), int(rng.integers(1, 12))]}
            r0, c0 = int(rng.integers(0, m[0])), int(rng.integers(0, m[1]))
            c['slice'] = [r0, int(rng.integers(r0 + 1, m[0] + 1)), c0, int(rng.integers(c0 + 1, m[1] + 1))]
            if mode.startswith('cube'): c['shape'] = [2] + list(m); c['data'] = _ints(rng, 2 * m[0] * m[1], 1, 9)
            out.append(c)
        elif t == 3:
            m = (int(rng.integers(1, 10)), int(rng.integers(1, 10)))
            sub = (int(rng.integers(1, m[0] + 2)), int(rng.integers(1, m[1] + 2)))
            sh = (int(rng.integers(-3, 4)), int(rng.integers(-3, 4))) if rng.integers(0, 3) else (0, 0)
            out.append({'kind': 'subarray', 'shape': list(m), 'sub': list(sub), 'shift': list(sh), 'data': _ints(rng, m[0] * m[1], 1, 9)})
        elif t in (4, 5):
            m = (int(rng.integers(1, 10)), int(rng.integers(1, 10)))
            d = _sparse(rng, *m)
            pad = [int(rng.integers(0, 3)), int(rng.integers(0, 3))] if rng.integers(0, 2) else [0, 0]
            c = {'kind': 'boundary', 'shape': list(m), 'data': [int(x) for x in d.ravel()], 'thr': int(rng.integers(0, 3)),
                 'pad': pad, 'scalar_pad': bool(pad[0] == pad[1] and rng.integers(0, 2))}
            if k % 5 == 0:
                # the bounding box must not depend on the physical scale of the data: a bright core on a 3e-18 pedestal, nano-scale maps, huge counts
                c['scale'] = [1e-18, 3e-18, 1e-9, 2.0 ** -60, 1e3, 1e12][int(rng.integers(0, 6))]
                if rng.integers(0, 2): c['data'] = [x * 10 ** 6 if x > 1 else x for x in c['data']]
            out.append(c)
        elif t == 6:
            f = int(rng.integers(1, 5)); cube = bool(rng.integers(0, 3) == 0)
            m = [f * int(rng.integers(1, 5)), f * int(rng.integers(1, 5))]
            if rng.integers(0, 6) == 0: m[int(rng.integers(0, 2))] += 1      # usually not divisible
            if cube: m = [int(rng.integers(1, 4))] + m
            out.append({'kind': 'rebin', 'shape': m, 'f': f, 'data': _ints(rng, int(np.prod(m)), -5, 9)})
        elif t == 7:
            m = (int(rng.integers(1, 9)), int(rng.integers(1, 9)))
            d = rng.integers(0, 4, m)
            if d.sum() == 0: d[int(rng.integers(0, m[0])), int(rng.integers(0, m[1]))] = 1
            c = {'kind': 'centroid', 'shape': list(m), 'data': [int(x) for x in d.ravel()]}
            if rng.integers(0, 2):
                # half-turn symmetric about a sample (c0, c1): every non-zero sample has its mirror image inside the array
                c0, c1 = int(rng.integers(0, m[0])), int(rng.integers(0, m[1]))
                e = np.zeros(m, dtype=int)
                for i in range(m[0]):
                    for j in range(m[1]):
                        i2, j2 = 2 * c0 - i, 2 * c1 - j
                        if 0 <= i2 < m[0] and 0 <= j2 < m[1]: e[i, j] = d[i, j] + d[i2, j2]
                if e.sum() == 0: e[c0, c1] = 1
                c['data'] = [int(x) for x in e.ravel()]; c['sym_centre'] = [c0, c1]
            out.append(c)
        elif t == 8 and k % 42 == 8:
            out.append({'kind': 'segments_aa', 'rings': int(rng.integers(1, 3)), 'radius': _dy(rng, 3, 5), 'gap': [1.0, 1.5, 2.0][int(rng.integers(0, 3))]})
        elif t == 8 and k % 42 == 22:
            shp = [int(rng.integers(9, 15)), int(rng.integers(9, 15))]; big = [shp[0] + int(rng.integers(0, 6)), shp[1] + int(rng.integers(0, 6))]
            sub = [int(rng.integers(3, shp[0] + 1)), int(rng.integers(3, shp[1] + 1))]
            out.append({'kind': 'cross', 'shape': shp, 'big': big, 'sub': sub, 'radius': _dy(rng, 1, 3), 'shift': [int(rng.integers(-1, 2)), int(rng.integers(-1, 2))],
                        'which': ['circle', 'hexagon', 'rectangle'][int(rng.integers(0, 3))], 'data': _ints(rng, shp[0] * shp[1], 1, 9)})
        elif t == 8 and k % 42 == 36:
            m = (int(rng.integers(2, 8)), int(rng.integers(2, 8)))
            out.append({'kind': 'centroid_float', 'shape': list(m), 'data': [int(x) / 8 for x in rng.integers(-8, 25, m[0] * m[1])]})
            out.append({'kind': 'rebin_refusal', 'what': ['f0', 'complex'][int(rng.integers(0, 2))]})
        elif t == 8:
            if rng.integers(0, 2):
                out.append({'kind': 'hex_ring', 'k': int(rng.integers(0, 7))})
            else:
                m = (int(rng.integers(1, 10)), int(rng.integers(1, 10)))
                out.append({'kind': 'mesh', 'shape': list(m), 'shift': [int(rng.integers(-4, 5)), int(rng.integers(-4, 5))]})
        elif t == 9:
            rings = int(rng.integers(1, 4))
            N = 1 + 3 * rings * (rings + 1)
            r = rng.integers(0, 4)
            drop = [0] if r == 0 else [] if r == 1 else [int(x) for x in rng.integers(0, N + 4, int(rng.integers(1, 6)))]
            gap = [0.0, 0.5, 1.0, 1.5, 2.0, 3.0][int(rng.integers(0, 6))]
            out.append({'kind': 'segments', 'rings': rings, 'radius': _dy(rng, 3, 7), 'gap': gap, 'rotate': bool(rng.integers(0, 2)),
                        'drop': drop, 'pad': int(rng.integers(2, 4))})
            # the pixel-by-pixel model of the whole segment cube costs ~1-2 s for the largest apertures: always for rings x radius <= 10,
            # for the larger ones on one case in eight of the deeper tiers (never in the quick tier)
            out[-1]['full_model'] = bool(rings * out[-1]['radius'] <= 10 or (tier != 'quick' and rng.integers(0, 8) == 0))
        else:
            shp = [int(rng.integers(5, 17)), int(rng.integers(5, 17))]
            shift = [_dy(rng, -3, 3), _dy(rng, -3, 3)] if rng.integers(0, 4) else [0.0, 0.0]
            aa = bool(rng.integers(0, 2))
            dshift = [int(rng.integers(-2, 3)), int(rng.integers(-2, 3))]
            far = bool(rng.integers(0, 7) == 0)
            if far:
                # extremes: shape much larger than the array and/or centred far outside it (integer shift)
                D = int(np.hypot(*shp)) + 1
                shift = [float(int(rng.integers(-3 * D, 3 * D + 1))), float(int(rng.integers(-3 * D, 3 * D + 1)))] if rng.integers(0, 3) else [0.0, 0.0]
            if t == 10:
                rad = _dy(rng, D, 3 * D) if far else _dy(rng, 1, 6)
                out.append({'kind': 'circle', 'shape': shp, 'radius': rad, 'shift': shift, 'aa': aa, 'dshift': dshift})
            elif t == 12 and k % 28 == 12:
                ang = [0.0, 90.0, 30.0, 45.0, 180.0, float(int(rng.integers(-180, 181)))][int(rng.integers(0, 6))]
                out.append({'kind': 'spider', 'shape': shp, 'width': _dy(rng, 1, 4), 'shift': shift, 'angle': ang, 'aa': aa, 'dshift': dshift})
            elif t in (11, 12):
                ang = [0.0, 0.0, 90.0, 30.0, 45.0, float(int(rng.integers(-180, 181)))][int(rng.integers(0, 6))]
                out.append({'kind': 'rectangle', 'shape': shp, 'width': _dy(rng, D, 4 * D) if far else _dy(rng, 1, 9),
                            'height': _dy(rng, D, 4 * D) if far and rng.integers(0, 2) else _dy(rng, 1, 9), 'shift': shift,
                            'angle': ang, 'aa': aa, 'dshift': dshift})
            else:
                out.append({'kind': 'hexagon', 'shape': shp, 'radius': _dy(rng, D, 3 * D) if far else _dy(rng, 2, 7), 'shift': shift,
                            'rotate': bool(rng.integers(0, 2)), 'aa': aa, 'dshift': dshift})
    # util.window: every path of the regenerated decision tree (Gen.windowAct) in every run
    WM = ['shape', 'slice', 'both', 'both-bad', 'none', 'one-element', 'one-element-slice', 'cube-shape', 'slice-neg', 'slice']
    for q in range({'quick': 20, 'thorough': 400, 'search': 120}[tier]):
        m = (int(rng.integers(2, 10)), int(rng.integers(2, 10)))
        mode = WM[q % len(WM)]
        c = {'kind': 'window', 'shape': list(m), 'data': _ints(rng, m[0] * m[1], 1, 9), 'mode': mode,
             'to': [int(rng.integers(1, 12)), int(rng.integers(1, 12))]}
        r0, c0 = int(rng.integers(0, m[0])), int(rng.integers(0, m[1]))
        c['slice'] = [r0, int(rng.integers(r0 + 1, m[0] + 1)), c0, int(rng.integers(c0 + 1, m[1] + 1))]
        if mode == 'slice-neg':      # negative (from-the-end) and past-the-end bounds: NumPy's slice normalisation
            c['slice'] = [int(rng.integers(-m[0] - 2, m[0] + 3)), int(rng.integers(-m[0] - 2, m[0] + 3)),
                          int(rng.integers(-m[1] - 2, m[1] + 3)), int(rng.integers(-m[1] - 2, m[1] + 3))]
        if mode == 'both': c['to'] = [c['slice'][1] - c['slice'][0], c['slice'][3] - c['slice'][2]]
        if mode == 'both-bad':
            ax = int(rng.integers(0, 2)); c['to'] = [c['slice'][1] - c['slice'][0], c['slice'][3] - c['slice'][2]]
            c['to'][ax] += [-1, 1, 2][int(rng.integers(0, 3))]
        if mode.startswith('cube'): c['shape'] = [2] + list(m); c['data'] = _ints(rng, 2 * m[0] * m[1], 1, 9)
        out.append(c)
    # util.window on cubes (depth, rows, cols) with slice=: the slice must address rows and columns (the last two axes), depth kept
    for q in range({'quick': 6, 'thorough': 150, 'search': 60}[tier]):
        dm = (int(rng.integers(2, 5)), int(rng.integers(2, 9)), int(rng.integers(2, 9)))
        r0, c0 = int(rng.integers(0, dm[1])), int(rng.integers(0, dm[2]))
        sl = [r0, int(rng.integers(r0 + 1, dm[1] + 1)), c0, int(rng.integers(c0 + 1, dm[2] + 1))]
        mode = 'cube-both' if q % 3 == 2 else 'cube-slice'
        out.append({'kind': 'window', 'shape': list(dm), 'data': _ints(rng, dm[0] * dm[1] * dm[2], 1, 9), 'mode': mode,
                    'to': [sl[1] - sl[0], sl[3] - sl[2]], 'slice': sl})
    if tier in ('search', 'thorough'):
        out += _extremes(rng)
    if tier == 'thorough':
        # every 2-D source/target size pair up to 9 on the rows with two column pairs: all grow/shrink/parity mixes
        for m0 in range(1, 10):
            for S0 in range(1, 10):
                for (m1, S1) in ((3, 6), (6, 3), (4, 4), (5, 7)):
                    out.append({'kind': 'pad2', 'shape': [m0, m1], 'to': [S0, S1], 'data': list(range(1, m0 * m1 + 1))})
                    out.append({'kind': 'pad3', 'shape': [2, m1, m0], 'to': [S1, S0], 'data': list(range(1, 2 * m0 * m1 + 1))})
    return out

def signature(c):
    k = c['kind']
    keys = {'pad2': ('shape', 'to'), 'pad3': ('shape', 'to'), 'subarray': ('shape', 'sub', 'shift'), 'boundary': ('shape', 'data', 'thr', 'pad'),
            'rebin': ('shape', 'f'), 'centroid': ('shape', 'data'), 'hex_ring': ('k',), 'mesh': ('shape', 'shift'),
            'segments': ('rings', 'radius', 'gap', 'rotate', 'drop', 'pad'), 'segments_aa': ('rings', 'radius', 'gap'),
            'cross': ('shape', 'big', 'sub', 'radius', 'shift', 'which'), 'centroid_float': ('shape', 'data'), 'rebin_refusal': ('what',), 'circle': ('shape', 'radius', 'shift', 'aa'),
            'rectangle': ('shape', 'width', 'height', 'shift', 'angle', 'aa'), 'spider': ('shape', 'width', 'shift', 'angle', 'aa'),
            'window': ('shape', 'mode', 'to', 'slice'), 'hexagon': ('shape', 'radius', 'shift', 'rotate', 'aa')}[k]
    return k + ' ' + ' '.join(str(c[x]) for x in keys)

def nontrivial(c):
    k = c['kind']
    if k in ('pad2', 'pad3'): return list(c['shape'][-2:]) != list(c['to'])
    if k == 'subarray': return c['sub'] != c['shape'] or c['shift'] != [0, 0]
    if k == 'rebin': return c['f'] > 1
    if k == 'hex_ring': return c['k'] > 0
    return True

def tags(c):
    k = c['kind']; t = [k]
    if c.get('scale', 1) != 1: t.append('boundary:scaled-data')
    if k == 'segments': t.append('segments:full-cube-model' if c.get('full_model', c['rings'] * c['radius'] <= 10) else 'segments:centres-size-overlap-only')
    if 'dtype' in c: t.append('dtype:' + c['dtype'])
    if k in ('pad2', 'pad3', 'subarray', 'boundary', 'centroid', 'rebin') and max(c['shape']) > 64: t.append('large-array')
    if k in ('circle', 'rectangle', 'hexagon') and (max(abs(x) for x in c['shift']) > 16 or c.get('radius', 0) > 16 or c.get('width', 0) > 20):
        t.append(k + ':huge-or-far')
    if k in ('pad2', 'pad3'):
        m = c['shape'][-2:]; S = c['to']
        for ax in (0, 1):
            t.append(f"pad:{'grow' if S[ax] > m[ax] else 'shrink' if S[ax] < m[ax] else 'same'}:{'odd' if m[ax] % 2 else 'even'}->{'odd' if S[ax] % 2 else 'even'}")
        if k == 'pad3' and m[0] != m[1]: t.append('pad3:non-square')
    if k == 'rebin': t.append('rebin:cube' if len(c['shape']) == 3 else 'rebin:2d')
    if k == 'segments': t += [f"segments:gap={'0' if c['gap'] == 0 else '>0'}", f"segments:rings={c['rings']}"]
    if k in ('circle', 'rectangle', 'hexagon', 'spider'): t.append(k + (':aa' if c['aa'] else ':binary'))
    if k == 'window': t.append('window:' + c['mode'])
    return t

# ------------------------------------------------------------------------------------------ implementation
def _arr(c): return (np.array(c['data'], dtype=c.get('dtype', 'float64')) * c.get('scale', 1)).reshape(c['shape'])

def _il(a): return [int(x) for x in np.asarray(a).ravel()]

def _shape_call(c, shift=None, shape=None):
    import lentil
    k = c['kind']; sh = tuple(shift if shift is not None else c['shift']); shp = tuple(shape or c['shape'])
    if k == 'circle': return lentil.circle(shp, c['radius'], shift=sh, antialias=c['aa'])
    if k == 'rectangle': return lentil.rectangle(shp, c['width'], c['height'], shift=sh, angle=c['angle'], antialias=c['aa'])
    if k == 'spider': return lentil.spider(shp, c['width'], angle=c['angle'], shift=sh, antialias=c['aa'])
    return lentil.hexagon(shp, c['radius'], shift=sh, rotate=c['rotate'], antialias=c['aa'])

def impl(c):
    vlib.import_lentil()
    import lentil, lentil.helper as H, lentil.segmented as SG
    k = c['kind']
    try:
        if k in ('pad2', 'pad3'):
            a = _arr(c)
            r = lentil.pad(a, tuple(c['to']))
            back = lentil.pad(r, tuple(c['shape'][-2:]))
            return {'shape': list(r.shape), 'data': _il(r), 'back_shape': list(back.shape), 'back': _il(back), 'dtype_kept': r.dtype == a.dtype}
        if k == 'segments_aa':
            m = np.asarray(lentil.hex_segments(c['rings'], c['radius'], c['gap']))            # library defaults: antialias=True, pad=2, drop=(0,)
            flat = lentil.hex_segments(c['rings'], c['radius'], c['gap'], flatten=True)
            return {'shape': list(m.shape), 'min': float(m.min()), 'max': float(m.max()), 'flat': [float(x) for x in np.ravel(flat)],
                    'flat_is_sum': bool(np.allclose(flat, m.sum(0), atol=1e-12)),
                    'border': float(max(flat[0, :].max(), flat[-1, :].max(), flat[:, 0].max(), flat[:, -1].max()))}
        if k == 'cross':
            shp, big, sub, sh = tuple(c['shape']), tuple(c['big']), tuple(c['sub']), tuple(c['shift'])
            draw = {'circle': lambda s_: lentil.circle(s_, c['radius'], shift=sh, antialias=False),
                    'hexagon': lambda s_: lentil.hexagon(s_, c['radius'] + 1, shift=sh, antialias=False),
                    'rectangle': lambda s_: lentil.rectangle(s_, 2 * c['radius'] + 1, 3.0, shift=sh, antialias=False)}[c['which']]
            small, large = draw(shp), draw(big)
            a = _arr(c)
            cen = lentil.centroid(small)
            soft = {'circle': lambda: lentil.circle(shp, c['radius'], shift=sh, antialias=True),
                    'hexagon': lambda: lentil.hexagon(shp, c['radius'] + 1, shift=sh, antialias=True),
                    'rectangle': lambda: lentil.rectangle(shp, 2 * c['radius'] + 1, 3.0, shift=sh, antialias=True)}[c['which']]()
            soft = np.asarray(soft, dtype=float); cs = lentil.centroid(soft)
            edge = float(max(np.abs(soft[0, :]).max(), np.abs(soft[-1, :]).max(), np.abs(soft[:, 0]).max(), np.abs(soft[:, -1]).max()))
            b = lentil.boundary(small)
            return {'pad_of_shape': _il(lentil.pad(small, big)), 'shape_on_big': _il(large), 'crop_of_big': _il(lentil.pad(large, shp)), 'shape_on_small': _il(small),
                    'subarray': _il(lentil.util.subarray(a, sub)), 'crop': _il(lentil.pad(a, sub)), 'centroid': [float(cen[0]), float(cen[1])], 'bbox': [int(x) for x in b],
                    'centroid_aa': [float(cs[0]), float(cs[1])], 'aa_edge': edge}
        if k == 'centroid_float':
            r = lentil.centroid(_arr(c))
            return {'rc': [float(r[0]), float(r[1])]}
        if k == 'rebin_refusal':
            try:
                lentil.rebin(np.ones((4, 4)), 0) if c['what'] == 'f0' else lentil.rebin(np.ones((4, 4), dtype=complex), 2)
                return {'raised': None}
            except Exception as e:
                return {'raised': type(e).__name__}
        if k == 'window':
            a = _arr(c); md = c['mode']
            if md == 'one-element': a = a.ravel()[:1].reshape(1, 1)
            kw = {}
            if md == 'one-element-slice': a = a.ravel()[:1].reshape(1, 1)
            if md in ('shape', 'both', 'both-bad', 'cube-shape', 'one-element'): kw['shape'] = tuple(c['to'])
            if md in ('slice', 'both', 'both-bad', 'cube-slice', 'cube-both', 'slice-neg', 'one-element-slice'): kw['slice'] = tuple(c['slice'])
            if md == 'cube-both': kw['shape'] = tuple(c['to'])
            if md == 'both': kw['shape'] = (c['slice'][1] - c['slice'][0], c['slice'][3] - c['slice'][2])
            r = lentil.util.window(a, **kw)
            return {'shape': list(np.shape(r)), 'data': _il(r)}
        if k == 'subarray':
            a = _arr(c)
            r = lentil.util.subarray(a, tuple(c['sub']), tuple(c['shift']))
            return {'shape': list(r.shape), 'data': _il(r)}
        if k == 'boundary':
            a = _arr(c)
            thr = c['thr'] * c.get('scale', 1)
            b = lentil.boundary(a, thr)
            pad = c['pad'][0] if c['scalar_pad'] else tuple(c['pad'])
            sl = H.boundary_slice(a, thr, pad)
            off = H.slice_offset(sl, a.shape)
            return {'bbox': [int(x) for x in b], 'slice': [int(sl[0].start), int(sl[0].stop), int(sl[1].start), int(sl[1].stop)],
                    'offset': [int(off[0]), int(off[1])], 'window': _il(a[sl]), 'window_shape': list(a[sl].shape)}
        if k == 'rebin':
            a = _arr(c)
            r = lentil.rebin(a, c['f'])
            return {'shape': list(r.shape), 'data': _il(r)}
        if k == 'centroid':
            r = lentil.centroid(_arr(c))
            return {'rc': [float(r[0]), float(r[1])]}
        if k == 'hex_ring':
            return {'cells': [[int(h.q), int(h.r), int(h.s)] for h in SG.hex_ring(c['k'])]}
        if k == 'mesh':
            rr, cc = H.mesh(tuple(c['shape']), tuple(c['shift']))
            return {'rows': _il(rr[:, 0]), 'cols': _il(cc[0, :]), 'rows_const': bool(np.all(rr == rr[:, :1])), 'cols_const': bool(np.all(cc == cc[:1, :]))}
        if k == 'segments':
            m = lentil.hex_segments(c['rings'], c['radius'], c['gap'], rotate=c['rotate'], antialias=False, pad=c['pad'], drop=tuple(c['drop']))
            m = np.asarray(m)
            if m.ndim != 3: return {'count': 0, 'shape': list(m.shape)}
            s = m.sum(0)
            cents = []
            for x in m:
                rr, cc = np.nonzero(x)
                cents.append([float(rr.mean() - x.shape[0] // 2), float(cc.mean() - x.shape[1] // 2)] if len(rr) else None)
            border = float(max(s[0, :].max(), s[-1, :].max(), s[:, 0].max(), s[:, -1].max()))
            flat = lentil.hex_segments(c['rings'], c['radius'], c['gap'], rotate=c['rotate'], antialias=False, pad=c['pad'],
                                       drop=tuple(c['drop']), flatten=True)
            ring_cells = [h for k in range(1, c['rings'] + 1) for h in SG.hex_ring(k)]
            # how deep inside a second segment do shared pixels lie? measured on the drawn masks themselves: Euclidean distance (in
            # pixels) to the nearest pixel outside the segment; a pixel on the rim of a segment has depth 1
            depth = 0.0
            if s.max() > 1:
                from scipy.ndimage import distance_transform_edt
                deps = np.sort(np.array([distance_transform_edt(x) for x in m]), axis=0)[::-1]     # per pixel, largest first
                depth = float(deps[1][s > 1].max())
            rc = [[float(v) for v in SG.hex_to_rc(h, c['radius'] + c['gap'] / 2, c['rotate'])] for h in ring_cells]
            return {'count': int(m.shape[0]), 'shape': list(m.shape), 'max_overlap': float(s.max()), 'n_overlap': int((s > 1).sum()),
                    'sum': _il(s), 'rc': rc, 'overlap_depth': depth, 'ring_cells': [[int(h.q), int(h.r), int(h.s)] for h in ring_cells],
                    'border': border, 'areas': [float(x.sum()) for x in m], 'centres': cents, 'binary': bool(np.all((m == 0) | (m == 1))),
                    'flatten_ok': bool(np.array_equal(flat, s))}
        # drawn shapes
        a = _shape_call(c)
        d = c['dshift']
        b = _shape_call(c, shift=[c['shift'][0] + d[0], c['shift'][1] + d[1]])
        return {'data': [float(x) for x in a.ravel()], 'moved': [float(x) for x in b.ravel()]}
    except Exception as e:
        return {'exc': type(e).__name__, 'msg': str(e)[:200]}

def _hex_thetas(rotate):
    return [n * np.pi / 3 if rotate else n * np.pi / 3 + np.pi / 6 for n in range(6)]

def requests(c, io):
    k = c['kind']
    if k in ('pad2', 'pad3', 'subarray', 'centroid', 'hex_ring', 'mesh'):
        r = dict(c); r['op'] = k; r.pop('kind'); return [r]
    if k == 'boundary': return [{'op': 'boundary', 'shape': c['shape'], 'data': c['data'], 'thr': c['thr'], 'pad': c['pad']}]
    if k == 'rebin': return [{'op': 'rebin3' if len(c['shape']) == 3 else 'rebin', 'shape': c['shape'], 'data': c['data'], 'f': c['f']}]
    if k == 'segments':
        reqs = [{'op': 'segments', 'rings': c['rings'], 'drop': c['drop']}]
        if 'ring_cells' in io:
            reqs.append({'op': 'hex_to_rc', 'cells': io['ring_cells'], 'radius': vlib.fbits(c['radius'] + c['gap'] / 2), 'rotate': c['rotate']})
            if c.get('full_model', c['rings'] * c['radius'] <= 10):        # see generate: all small apertures, a sample of the large ones in the deeper tiers
              reqs.append({'op': 'hex_segments', 'rings': c['rings'], 'radius': vlib.fbits(c['radius']), 'gap': vlib.fbits(c['gap']), 'rotate': c['rotate'],
                         'pad': c['pad'], 'drop': [d for d in c['drop']], 'theta': vlib.fl(_hex_thetas(c['rotate']))})
        return reqs
    if k == 'circle':
        return [{'op': 'circle', 'shape': c['shape'], 'radius': vlib.fbits(c['radius']), 'shift': vlib.fl(c['shift']), 'aa': c['aa']}]
    if k in ('cross', 'centroid_float', 'rebin_refusal'): return []
    if k == 'segments_aa':
        return [{'op': 'hex_segments', 'rings': c['rings'], 'radius': vlib.fbits(c['radius']), 'gap': vlib.fbits(c['gap']), 'rotate': False,
                 'pad': 2, 'drop': [0], 'theta': vlib.fl(_hex_thetas(False)), 'aa': True}]
    if k == 'window':
        md = c['mode']
        if md == 'cube-shape': return [{'op': 'window3', 'shape': c['shape'], 'data': c['data'], 'to': c['to']}]
        if md in ('cube-slice', 'cube-both'):
            rq = {'op': 'window3', 'shape': c['shape'], 'data': c['data'], 'slice': c['slice']}
            if md == 'cube-both': rq['to'] = c['to']
            return [rq]
        rq = {'op': 'window', 'shape': c['shape'], 'data': c['data']}
        if md.startswith('one-element'): rq['shape'] = [1, 1]; rq['data'] = c['data'][:1]
        if md in ('shape', 'both', 'both-bad', 'one-element'):
            rq['to'] = [c['slice'][1] - c['slice'][0], c['slice'][3] - c['slice'][2]] if md == 'both' else c['to']
        if md in ('slice', 'both', 'both-bad', 'slice-neg', 'one-element-slice'): rq['slice'] = c['slice']
        return [rq]
    if k == 'spider':
        return [{'op': 'spider', 'shape': c['shape'], 'width': vlib.fbits(c['width']), 'shift': vlib.fl(c['shift']),
                 'angle_rad': vlib.fbits(np.deg2rad(c['angle'])), 'aa': c['aa']}]
    if k == 'rectangle':
        return [{'op': 'rectangle', 'shape': c['shape'], 'width': vlib.fbits(c['width']), 'height': vlib.fbits(c['height']),
                 'shift': vlib.fl(c['shift']), 'angle_rad': vlib.fbits(np.deg2rad(c['angle'])), 'aa': c['aa']}]
    return [{'op': 'hexagon', 'shape': c['shape'], 'inner': vlib.fbits(c['radius'] * np.sqrt(3) / 2), 'shift': vlib.fl(c['shift']),
             'theta': vlib.fl(_hex_thetas(c['rotate'])), 'aa': c['aa']}]

# ------------------------------------------------------------------------------------------ references (independent of lentil)
def _coords(n, s): return np.arange(n) - (n // 2) - s

def _margin(c):
    """real-valued signed quantity whose sign decides a binary pixel (for float-tie exclusion); also the reference mask"""
    k = c['kind']; n0, n1 = c['shape']; s = c['shift']
    y = _coords(n0, s[0])[:, None] * np.ones((1, n1)); x = _coords(n1, s[1])[None, :] * np.ones((n0, 1))
    if k == 'circle':
        q = c['radius'] + 0.5 - np.hypot(y, x)
        return np.clip(q, 0, 1), q
    if k == 'rectangle':
        a = np.deg2rad(c['angle'])
        r = y * np.cos(a) + x * np.sin(a); cc = -y * np.sin(a) + x * np.cos(a)
        q = np.minimum(0.5 + c['width'] / 2 - np.abs(cc), 0.5 + c['height'] / 2 - np.abs(r))
        return np.clip(q, 0, 1), q
    if k == 'spider':
        # a vane of the given width running from the (shifted) centre outwards along `angle`, of length sqrt(2)*max(shape)/2
        a = np.deg2rad(c['angle']); L = np.sqrt(2) * max(n0, n1) / 2
        yc = y - (-(L / 2) * np.sin(a)); xc = x - (L / 2) * np.cos(a)
        r = yc * np.cos(a) + xc * np.sin(a); cc = -yc * np.sin(a) + xc * np.cos(a)
        q = np.minimum(0.5 + L / 2 - np.abs(cc), 0.5 + c['width'] / 2 - np.abs(r))
        return 1 - np.clip(q, 0, 1), q
    inner = c['radius'] * np.sqrt(3) / 2
    rho = np.max([y * np.sin(t) + x * np.cos(t) for t in _hex_thetas(c['rotate'])], axis=0)
    if c['aa']: return np.clip(inner + 0.5 - rho, 0, 1), inner + 0.5 - rho
    return (rho <= inner).astype(float), inner - rho

def _ref_mask(c):
    m, q = _margin(c)
    if not c['aa'] and c['kind'] == 'spider': m = 1 - (q > 0).astype(float)
    elif not c['aa'] and c['kind'] != 'hexagon': m = (q > 0).astype(float)
    return m, q

def _cmp_mask(c, got, want, q, what):
    got = np.asarray(got, dtype=float).reshape(c['shape']); want = np.asarray(want, dtype=float).reshape(c['shape'])
    bad = np.abs(got - want) > 1e-9
    if not c['aa']: bad &= np.abs(q) > 1e-9          # a pixel centre within 1e-9 of the edge may fall either side
    if bad.any():
        i, j = np.argwhere(bad)[0]
        return f'{what}: pixel ({i},{j}) {got[i, j]} vs {want[i, j]}'
    return None

def compare(c, io, mo):
    k = c['kind']; m = mo[0] if mo else None
    if k == 'window' and not mo: return None
    if k in ('cross', 'centroid_float', 'rebin_refusal'): return None
    if k == 'segments_aa':
        if 'exc' in io: return f"hex_segments (defaults) raised {io['exc']}: {io.get('msg')}"
        if not m.get('ok'): return f"model refused: {m.get('err')}"
        if io['shape'][1:] != [m['size'], m['size']] or io['shape'][0] != m['count']: return f"hex_segments defaults: shape {io['shape']} vs model count {m['count']}, size {m['size']}"
        want = np.array(vlib.unfl(m['flat'])); got = np.array(io['flat'])
        if np.abs(got - want).max() > 1e-9: return f'hex_segments (antialiased, flattened) differs from the model by {np.abs(got - want).max():.3e}'
        return None
    if 'exc' in io:
        if m.get('ok'): return f"implementation raised {io['exc']} ({io.get('msg')}), model answered"
        return None if m.get('err') == io['exc'] else f"implementation raised {io['exc']}, model {m.get('err')}"
    if not m.get('ok'): return f"model refused ({m.get('err')}), implementation answered"
    if k == 'window':
        if not mo: return None
        m = mo[0]
        if 'exc' in io: return f"window raised {io['exc']}: {io.get('msg')}"
        if io['shape'] != m['shape'] or io['data'] != m['data']: return f"window({c['mode']}) differs from the model (Gen.windowAct on the array model): {io['shape']} vs {m['shape']}"
        return None
    if k in ('pad2', 'pad3', 'subarray', 'rebin'):
        if io['shape'] != m['shape']: return f"shape: impl {io['shape']} model {m['shape']}"
        if io['data'] != m['data']: return f"{k}: values differ"
        return None
    if k == 'boundary':
        for key in ('bbox', 'slice', 'offset'):
            if io[key] != m[key]: return f'{key}: impl {io[key]} model {m[key]}'
        return None
    if k == 'centroid':
        nr, nc, den = m['num']
        for got, num in zip(io['rc'], (nr, nc)):
            if abs(got - num / den) > 1e-9 * (1 + abs(num / den)): return f'centroid {io["rc"]} vs {nr}/{den}, {nc}/{den}'
        rc = vlib.unfl(m['rc'])
        for got, want in zip(io['rc'], rc):
            if not (abs(got - want) <= 1e-9 * (1 + abs(want))) and not (np.isnan(got) and np.isnan(want)):
                return f'centroid {io["rc"]} vs the regenerated Gen.centroid run at Float {rc}'
        return None
    if k == 'hex_ring':
        return None if io['cells'] == m['cells'] else f"hex_ring({c['k']}): impl {io['cells'][:4]}… model {m['cells'][:4]}…"
    if k == 'mesh':
        if not (io['rows_const'] and io['cols_const']): return 'mesh rows/cols are not constant along the other axis'
        return None if (io['rows'], io['cols']) == (m['rows'], m['cols']) else f"mesh: impl {io['rows']},{io['cols']} model {m['rows']},{m['cols']}"
    if k == 'segments':
        if io['count'] != len(m['kept']): return f"segment count: impl {io['count']} model {len(m['kept'])}"
        # the model's kept cells, mapped to pixel centres, must be where the implementation drew the segments
        R = c['radius'] + c['gap'] / 2
        for cell, cen in zip(m['cells'], io['centres']):
            q, r, s = cell
            if c['rotate']: x = R * (math.sqrt(3) * q + math.sqrt(3) / 2 * r); y = R * 1.5 * r
            else: x = R * 1.5 * q; y = R * (math.sqrt(3) / 2 * q + math.sqrt(3) * r)
            if cen is None or abs(cen[0] - (-y)) > 0.75 or abs(cen[1] - x) > 0.75:
                return f'segment for cell {cell}: drawn at {cen}, model centre {(-y, x)}'
        if len(mo) > 1:
            for cell, a, b in zip(io['ring_cells'], io['rc'], mo[1]['rc']):
                b = vlib.unfl(b)
                if max(abs(a[0] - b[0]), abs(a[1] - b[1])) > 1e-12 * (1 + abs(a[0]) + abs(a[1])): return f'hex_to_rc{tuple(cell)}: impl {a} model {b}'
        if len(mo) > 2:
            hs = mo[2]
            if [hs['size'], hs['size']] != io['shape'][1:]: return f"hex_segments array size: impl {io['shape'][1:]} model {hs['size']}"
            if hs['count'] != io['count']: return f"hex_segments count: impl {io['count']} model {hs['count']}"
            n = hs['size']
            got = np.array(io['sum']).reshape(n, n); want = np.array(hs['sum']).reshape(n, n)
            if not np.array_equal(got, want):
                # pixels whose centre lies within 1e-9 of an edge of some segment may fall either side
                inner = c['radius'] * np.sqrt(3) / 2
                y = _coords(n, 0.0)[:, None] * np.ones((1, n)); x = _coords(n, 0.0)[None, :] * np.ones((n, 1))
                near = np.zeros((n, n), dtype=bool)
                cents = [(0.0, 0.0)] * (0 in m['kept']) + [tuple(io['rc'][s - 1]) for s in m['kept'] if s > 0]
                for (cr, cc) in cents:
                    rho = np.max([(y - cr) * np.sin(t) + (x - cc) * np.cos(t) for t in _hex_thetas(c['rotate'])], axis=0)
                    near |= np.abs(inner - rho) < 1e-9
                bad = (got != want) & ~near
                if bad.any(): return f'hex_segments: summed mask differs from the model at pixel {tuple(np.argwhere(bad)[0])} ({int(bad.sum())} pixels)'
        return None
    want = vlib.unfl(m['data'])
    _, q = _margin(c)
    return _cmp_mask(c, io['data'], want, q, f'{k} vs model')

# ------------------------------------------------------------------------------------------ oracle (real code only)
def _centred(a, r, c):
    """sample of `a` at coordinate (r, c) when its index (floor(s0/2), floor(s1/2)) sits at the origin; 0 outside"""
    i, j = r + a.shape[-2] // 2, c + a.shape[-1] // 2
    if 0 <= i < a.shape[-2] and 0 <= j < a.shape[-1]: return a[..., i, j]
    return np.zeros(a.shape[:-2])

def oracle(c, io):
    k = c['kind']
    if k in ('pad2', 'pad3'):
        if 'exc' in io: return f"pad raised {io['exc']}: {io.get('msg')}"
        a = _arr(c); S = c['to']
        want_shape = list(a.shape[:-2]) + list(S)
        if io['shape'] != want_shape: return f"pad shape {io['shape']} != {want_shape}"
        r = np.array(io['data'], dtype=float).reshape(io['shape'])
        for i in range(S[0]):
            for j in range(S[1]):
                if not np.array_equal(r[..., i, j], _centred(a, i - S[0] // 2, j - S[1] // 2)):
                    return (f'pad {list(a.shape)} -> {S}: result[{i},{j}] is not the source sample at the same coordinate relative to the '
                            f'floor(n/2) origin (origin sample must land on [{S[0] // 2},{S[1] // 2}])')
        if S[0] >= a.shape[-2] and S[1] >= a.shape[-1]:
            if io['back_shape'] != list(a.shape) or io['back'] != _il(a): return 'pad then crop back is not the identity'
        if not io['dtype_kept']: return 'pad changed the dtype'
        return None
    if k == 'segments_aa':
        if 'exc' in io: return f"hex_segments (defaults) raised {io['exc']}: {io.get('msg')}"
        N = 1 + 3 * c['rings'] * (c['rings'] + 1)
        if io['shape'][0] != N - 1: return f"hex_segments with the default drop=(0,) drew {io['shape'][0]} segments, expected {N - 1}"
        if io['min'] < 0 or io['max'] > 1: return 'antialiased segment values outside [0, 1]'
        if not io['flat_is_sum']: return 'flatten=True is not the sum of the segment masks'
        if max(io['flat']) > 1 + 1e-12: return f"flattened antialiased aperture exceeds 1 ({max(io['flat'])}) although seg_gap >= 1"
        if io['border'] > 0: return 'an antialiased segment touches the array border'
        return None
    if k == 'cross':
        if 'exc' in io: return f"cross-helper case raised {io['exc']}: {io.get('msg')}"
        shp, big = c['shape'], c['big']
        small = np.array(io['shape_on_small']).reshape(shp); large = np.array(io['shape_on_big']).reshape(big)
        # pad(shape drawn on n) == shape drawn on N, wherever pad copies (the shape fits inside both)
        P = np.array(io['pad_of_shape']).reshape(big)
        for i in range(big[0]):
            for j in range(big[1]):
                r, q = i - big[0] // 2 + shp[0] // 2, j - big[1] // 2 + shp[1] // 2
                if 0 <= r < shp[0] and 0 <= q < shp[1] and P[i, j] != large[i, j]: return f"pad({c['which']} on {shp}) differs from {c['which']} drawn on {big} at [{i},{j}]"
        if io['crop_of_big'] != io['shape_on_small']: return f"cropping {c['which']} drawn on {big} does not give {c['which']} drawn on {shp}"
        if io['subarray'] != io['crop']: return 'subarray(a, s) differs from pad(a, s) for a crop'
        if small.sum() > 0 and small[0, :].sum() + small[-1, :].sum() + small[:, 0].sum() + small[:, -1].sum() == 0:
            want = [shp[0] // 2 + c['shift'][0], shp[1] // 2 + c['shift'][1]]
            if max(abs(io['centroid'][0] - want[0]), abs(io['centroid'][1] - want[1])) > 1e-9:
                return f"centroid of a {c['which']} shifted by the integer vector {c['shift']} is {io['centroid']}, expected floor(n/2) + shift = {want}"
            if io['aa_edge'] == 0 and max(abs(io['centroid_aa'][0] - want[0]), abs(io['centroid_aa'][1] - want[1])) > 1e-9:
                return f"weighted centroid of an ANTIALIASED {c['which']} shifted by the integer vector {c['shift']} is {io['centroid_aa']}, expected floor(n/2) + shift = {want}"
            bb = io['bbox']
            if bb[0] + bb[1] != 2 * want[0] or bb[2] + bb[3] != 2 * want[1]: return f"bounding box {bb} of a {c['which']} is not symmetric about floor(n/2) + shift = {want}"
        return None
    if k == 'centroid_float':
        if 'exc' in io: return f"centroid raised {io['exc']}"
        a = _arr(c); tot = a.sum()
        if abs(tot) < 1e-9: return None
        want = [float((np.arange(a.shape[0])[:, None] * a).sum() / tot), float((np.arange(a.shape[1])[None, :] * a).sum() / tot)]
        if max(abs(want[0] - io['rc'][0]), abs(want[1] - io['rc'][1])) > 1e-9 * (1 + max(a.shape)) * max(1.0, np.abs(a).sum() / abs(tot)): return f"centroid {io['rc']} != {want}"
        return None
    if k == 'rebin_refusal':
        want = 'ZeroDivisionError' if c['what'] == 'f0' else 'ValueError'
        return None if io.get('raised') == want else f"rebin({c['what']}): expected {want}, got {io.get('raised')}"
    if k == 'window':
        if c['mode'] == 'both-bad':
            return None if io.get('exc') == 'AssertionError' else f"window(shape, slice) with shape != extent of the slice did not refuse: {io.get('exc', io.get('shape'))}"
        if 'exc' in io: return f"window raised {io['exc']}: {io.get('msg')}"
        a = _arr(c); md = c['mode']
        if md.startswith('one-element'): want = a.ravel()[:1].reshape(1, 1)
        elif md == 'none': want = a
        elif md in ('slice', 'both', 'cube-slice', 'cube-both', 'slice-neg'):
            sl = c['slice']; want = a[..., sl[0]:sl[1], sl[2]:sl[3]]
        else:
            S = c['to']; want = np.zeros(a.shape[:-2] + tuple(S))
            for i in range(S[0]):
                for j in range(S[1]): want[..., i, j] = _centred(a, i - S[0] // 2, j - S[1] // 2)
        if md in ('cube-slice', 'cube-both') and (io['shape'] != list(want.shape) or io['data'] != _il(want)):
            return (f"window(cube of shape {tuple(c['shape'])} (depth, rows, cols), slice={tuple(c['slice'])}) returned shape {tuple(io['shape'])}, expected "
                    f"{tuple(want.shape)} = img[:, {c['slice'][0]}:{c['slice'][1]}, {c['slice'][2]}:{c['slice'][3]}] (rows and columns sliced, depth kept)")
        if io['shape'] != list(want.shape) or io['data'] != _il(want):
            return f"window({md}) is not {'the requested slice' if 'slice' in md or md == 'both' else 'the centred crop/pad (origin at floor(n/2))'}"
        return None
    if k == 'subarray':
        a = _arr(c); h, w = c['sub']; o = c['shift']
        r0 = a.shape[0] // 2 - h // 2 + o[0]; c0 = a.shape[1] // 2 - w // 2 + o[1]
        inside = r0 >= 0 and c0 >= 0 and r0 + h <= a.shape[0] and c0 + w <= a.shape[1]
        if 'exc' in io:
            return None if (io['exc'] == 'ValueError' and not inside) else f"subarray raised {io['exc']} for a window {'inside' if inside else 'outside'} the array"
        if not inside: return 'subarray accepted a window lying outside the array'
        if io['shape'] != [h, w]: return f"subarray shape {io['shape']}"
        r = np.array(io['data'], dtype=float).reshape(h, w)
        for i in range(h):
            for j in range(w):
                if r[i, j] != _centred(a, i - h // 2 + o[0], j - w // 2 + o[1]): return f'subarray[{i},{j}] is not the sample at centre-relative coordinate + shift'
        return None
    if k == 'boundary':
        a = _arr(c); idx = np.argwhere(a > c['thr'] * c.get('scale', 1))
        if 'exc' in io:
            return None if len(idx) == 0 else f"boundary raised {io['exc']} on a non-empty mask"
        if len(idx) == 0: return 'boundary answered on an empty mask'
        bb = [int(idx[:, 0].min()), int(idx[:, 0].max()), int(idx[:, 1].min()), int(idx[:, 1].max())]
        if io['bbox'] != bb: return f"boundary {io['bbox']} != bounding box {bb}"
        p = c['pad']; sl = io['slice']
        want = [max(bb[0] - p[0], 0), min(bb[1] + p[0] + 1, a.shape[0]), max(bb[2] - p[1], 0), min(bb[3] + p[1] + 1, a.shape[1])]
        if sl != want: return f'boundary_slice {sl} != padded bounding box clipped to the array {want}'
        # the offset must place the window, as a field, on the pixels it was cut from (centre convention of C06)
        e = ext_of((sl[1] - sl[0], sl[3] - sl[2]), io['offset'])
        g = (sl[0] - a.shape[0] // 2, sl[1] - 1 - a.shape[0] // 2, sl[2] - a.shape[1] // 2, sl[3] - 1 - a.shape[1] // 2)
        if tuple(e) != g: return f"slice_offset {io['offset']} puts the window at {e}, it was cut from {g}"
        if io['window'] != _il(a[sl[0]:sl[1], sl[2]:sl[3]]): return 'boundary_slice window content'
        return None
    if k == 'rebin':
        a = _arr(c); f = c['f']
        ok = a.shape[-2] % f == 0 and a.shape[-1] % f == 0
        if 'exc' in io: return None if not ok else f"rebin raised {io['exc']} on divisible axes"
        if not ok: return 'rebin accepted axes not divisible by the factor'
        r = np.array(io['data'], dtype=float).reshape(io['shape'])
        if io['shape'] != list(a.shape[:-2]) + [a.shape[-2] // f, a.shape[-1] // f]: return f"rebin shape {io['shape']}"
        if not np.array_equal(r.sum((-1, -2)), a.sum((-1, -2))):
            narrow = a.ndim == 3 and np.issubdtype(a.dtype, np.integer) and a.dtype.itemsize < 8
            return 'rebin does not preserve the sum (per slice)' + (f' — {a.dtype} cube: the output keeps the input dtype and the bin sums wrap' if narrow else '')
        for i in range(r.shape[-2]):
            for j in range(r.shape[-1]):
                if not np.array_equal(r[..., i, j], a[..., i * f:(i + 1) * f, j * f:(j + 1) * f].sum((-1, -2))): return f'rebin bin ({i},{j})'
        return None
    if k == 'centroid':
        if 'exc' in io: return f"centroid raised {io['exc']}"
        a = _arr(c); tot = a.sum()
        want = [float((np.arange(a.shape[0])[:, None] * a).sum() / tot), float((np.arange(a.shape[1])[None, :] * a).sum() / tot)]
        if max(abs(want[0] - io['rc'][0]), abs(want[1] - io['rc'][1])) > 1e-9 * (1 + max(a.shape)): return f"centroid {io['rc']} != {want}"
        if 'sym_centre' in c and max(abs(io['rc'][0] - c['sym_centre'][0]), abs(io['rc'][1] - c['sym_centre'][1])) > 1e-9 * (1 + max(a.shape)):
            return f"centroid {io['rc']} of an array that is half-turn symmetric about the sample {c['sym_centre']} is not that sample"
        return None
    if k == 'hex_ring':
        if 'exc' in io: return f"hex_ring raised {io['exc']}"
        cells = [tuple(x) for x in io['cells']]; kk = c['k']
        if len(cells) != 6 * kk: return f'hex_ring({kk}) has {len(cells)} cells, expected {6 * kk}'
        if len(set(cells)) != len(cells): return 'hex_ring repeats a cell'
        for q, r, s in cells:
            if q + r + s != 0 or max(abs(q), abs(r), abs(s)) != kk: return f'hex_ring({kk}) cell {(q, r, s)} is not at cube distance {kk}'
        # the documented walk (redblobgames): start at the corner (-k, k, 0), k steps along each of the six directions in table order — the
        # order is what numbers the segments of hex_segments
        dirs = [(1, 0, -1), (1, -1, 0), (0, -1, 1), (-1, 0, 1), (-1, 1, 0), (0, 1, -1)]
        want = []; h = (-kk, kk, 0)
        for i in range(6):
            for _ in range(kk):
                want.append(h); h = (h[0] + dirs[i][0], h[1] + dirs[i][1], h[2] + dirs[i][2])
        for n_, (a, b) in enumerate(zip(cells, want)):
            if a != b: return f'hex_ring({kk}) position {n_} is {a}, the walk from the corner (-k, k, 0) along the six directions gives {b} (segment numbering follows this order)'
        return None
    if k == 'mesh':
        if 'exc' in io: return f"mesh raised {io['exc']}"
        n0, n1 = c['shape']; s = c['shift']
        if io['rows'] != [i - n0 // 2 - s[0] for i in range(n0)] or io['cols'] != [j - n1 // 2 - s[1] for j in range(n1)]:
            return 'mesh coordinates are not index - floor(n/2) - shift'
        return None
    if k == 'segments':
        if 'exc' in io: return f"hex_segments raised {io['exc']}: {io.get('msg')}"
        rings = c['rings']; N = 1 + 3 * rings * (rings + 1)
        want = N - len({d for d in c['drop'] if 0 <= d < N})
        if io['count'] != want: return f"hex_segments drew {io['count']} segments, expected {want} = 1+3k(k+1) minus dropped"
        if want == 0: return None
        if not io['binary']: return 'non-antialiased segment masks are not binary'
        if not io['flatten_ok']: return 'flatten=True is not the sum of the segment masks'
        if io['border'] > 0: return 'a segment touches the array border'
        A = 3 * math.sqrt(3) / 2 * c['radius'] ** 2
        for x in io['areas']:
            if abs(x - A) > 6 * c['radius']: return f'segment area {x} far from the hexagon area {A:.1f}'
        if max(io['areas']) - min(io['areas']) > 6 * c['radius']: return 'segment areas differ by more than edge sampling'
        if io['max_overlap'] > 1:
            k_ = c['rings']
            edge_only = (io['overlap_depth'] <= 1.5 and io['max_overlap'] <= 3
                         and io['n_overlap'] <= (3 * k_ * k_ + k_) * (c['radius'] + 1) + 6 * k_ * k_)
            how = ('on shared edges only (shared pixels lie on the rim of all but one of their segments)' if edge_only
                   else f"GROSSLY: shared pixels lie up to {io['overlap_depth']:.3g} px deep inside a second segment (rim = 1)")
            return (f"segments overlap {how}: {io['n_overlap']} pixels belong to more than one segment "
                    f"(max multiplicity {io['max_overlap']:.0f}, seg_gap={c['gap']})")
        return None
    # drawn shapes
    if 'exc' in io: return f"{k} raised {io['exc']}: {io.get('msg')}"
    n0, n1 = c['shape']
    a = np.array(io['data']).reshape(n0, n1); b = np.array(io['moved']).reshape(n0, n1)
    if a.min() < 0 or a.max() > 1: return f'{k} values outside [0,1]'
    if not c['aa'] and not np.all((a == 0) | (a == 1)): return f'{k} without antialiasing is not binary'
    ref, q = _ref_mask(c)
    d = _cmp_mask(c, a, ref, q, f'{k} vs textbook reference (centre at index floor(n/2) + shift)')
    if d: return d
    d0, d1 = c['dshift']
    # integer shift = exact translation of the sampled picture (on the common support)
    src = a[max(0, -d0):n0 - max(0, d0), max(0, -d1):n1 - max(0, d1)]
    dst = b[max(0, d0):n0 - max(0, -d0), max(0, d1):n1 - max(0, -d1)]
    if k == 'spider':
        # the vane's own offset (len/2·(−sin, cos)) is added to the shift in floating point: translation holds to rounding only
        qs = q[max(0, -d0):n0 - max(0, d0), max(0, -d1):n1 - max(0, d1)]
        bad = (np.abs(src - dst) > 1e-9) & ((np.abs(qs) > 1e-9) | c['aa'])
        if bad.any(): return f'{k}: shifting by the integer vector {c["dshift"]} does not translate the samples'
    elif not np.array_equal(src, dst): return f'{k}: shifting by the integer vector {c["dshift"]} does not translate the samples exactly'
    if c['shift'] == [0.0, 0.0]:
        c0, c1 = n0 // 2, n1 // 2
        exact = k != 'hexagon'
        if k == 'spider': return None      # a single vane has no half-turn symmetry
        for i in range(n0):
            for j in range(n1):
                i2, j2 = 2 * c0 - i, 2 * c1 - j
                if 0 <= i2 < n0 and 0 <= j2 < n1:
                    if (a[i, j] != a[i2, j2]) if exact else (abs(a[i, j] - a[i2, j2]) > 1e-9 and abs(q[i, j]) > 1e-9):
                        return f'{k} is not symmetric under the half-turn about the origin sample ({c0},{c1}): [{i},{j}] vs [{i2},{j2}]'
                unrot = (k == 'circle') or (k == 'rectangle' and c['angle'] == 0.0) or k == 'hexagon'
                if unrot and 0 <= i2 < n0:
                    if abs(a[i, j] - a[i2, j]) > 1e-9 and abs(q[i, j]) > 1e-9: return f'{k} is not mirror symmetric about the origin row'
    return None

def shrink(c):
    k = c['kind']
    if k == 'segments':
        if c['rings'] > 1: d = dict(c); d['rings'] = c['rings'] - 1; d['drop'] = [x for x in c['drop'] if x < 1 + 3 * d['rings'] * (d['rings'] + 1)]; yield d
        if c['drop']: d = dict(c); d['drop'] = c['drop'][:-1]; yield d
    if k in ('circle', 'rectangle', 'hexagon'):
        if c['dshift'] != [0, 0]: d = dict(c); d['dshift'] = [0, 0]; yield d
        if c['shift'] != [0.0, 0.0]: d = dict(c); d['shift'] = [0.0, 0.0]; yield d

# ------------------------------------------------------------------------------------------ known finding
def matches_finding(kf, case, msg):
    m = kf.get('match', {})
    if kf.get('id') != 'KF-C20-hex-gap0-shared-edge': return False
    # only the bounded shared-edge overlap is the known finding: multiplicity <= 3, shared pixels on the rim of all but one segment, at most
    # (3k^2+k axis-parallel shared edges) x (R+1 pixel centres each) + 6k^2 vertex pixels — anything more at gap 0 stays a VIOLATION
    return (case.get('kind') == 'segments' and case.get('gap') == m.get('seg_gap', 0)
            and msg.startswith('segments overlap on shared edges only'))

def replay_finding(kf):
    """the recorded witness on the real code"""
    if kf.get('id') != 'KF-C20-hex-gap0-shared-edge': return False
    c = kf['witness']
    io = impl(c)
    msg = oracle(c, io) if 'exc' not in io else None
    return bool(msg and msg.startswith('segments overlap on shared edges only'))
