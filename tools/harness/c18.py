"""C18 — stochastic models are reproducible from their seed and physically bounded.

Tie: Model/Stochastic.lean models every seeded function as a deterministic wrapper around an uninterpreted sampler. The
harness obtains the sampler's draws from an identically seeded NumPy generator (contract: Generator methods are pure
functions of the state), the driver runs the wrapper at Float on those draws, and the result is compared with what the
real function returned. Gen/Effects.lean (effect-site scan) is the regenerated part: seeded functions use nothing but
their own generator. Distributional clauses are sampled as assumption checks with >= 6 sigma margins on fixed seeds."""
import warnings
import numpy as np
from harness.common import *
import vlib

LEVEL_TEXT = ('partial. Lean 4 theorems about the deterministic wrappers around an uninterpreted sampler: Poisson shot noise is a '
              'non-negative integer; both shot-noise methods reject exactly the frames with a negative or an unrepresentably large count; '
              'the guard tests of shot_noise (the except-ValueError chain of the Poisson branch, the tests before the Gaussian draw: reduction np.min/np.max, comparison, literal bound 9.223372006484771e18) are REGENERATED (Gen/ShotDark.lean) and proved to refuse exactly the frames the model refuses (shot_guards_follow_source, shot_guard_bound_value), and the driver cross-checks them on every shot case; read noise is additive and signal-independent, the model being the REGENERATED source line img + rng.normal(loc=0.0, scale=electrons, size=img.shape) with the draw written loc + scale*z (Gen/ShotDark.lean readNoiseFrame, read_noise_follows_source); the dark frame is the floor of the regenerated source expression rate*ones(shape)*fpn with the draw, or 1, as pattern (dark_follows_source; the test fpn_factor > 0 and the lognormal(mean=1.0, sigma=fpn_factor, size=shape) call are checked forms: any other shape is a refusal); a dark frame without pattern noise is floor(rate); a power-spectrum '
              'surface is zero outside its mask with mean square exactly rms^2 over its non-zero pixels for every mask shape; '
              'the accumulation of non-negative ray deposits is non-negative, bounded by the total deposited charge, zero where no ray deposits and zero everywhere without rays (cosmic_frame_support, cosmic_frame_bounded; tie to cosmic_rays sampled); the Rule-07 frame without pattern noise is the floor of the regenerated rate; power_spectrum grid/filter/noise shapes and per-axis frequency normalisation as the source builds them (regenerated PINS: theorems about generated text that the numeric model does not consume), its mask-and-normalise tail regenerated AND consumed by the model, the result being independent of any positive rescaling of the filtered noise (power_spectrum_invariant_under_noise_scale); every function with a parameter named seed (filter on the signature) builds its generator as default_rng(seed) with the bare parameter (or hands seed on unchanged: rule07 -> dark_current) '
              'and touches no global generator, cache or module global: read off the source on every run (effect table with generator argument and seed-forwarding call sites). '
              'Distribution moments and "different seeds differ" are sampled assumption checks, not proved.')
LEVEL_NOTE = ('partial by nature: means/variances and seed sensitivity are properties of NumPy\'s generators (unproven clauses, sampled).')
TECHNIQUE = 'Lean 4 proof (ordered-field algebra, Int.floor, decide on a regenerated effect table) + differential correspondence on identical draws'
GEN = ['DetectorIdx', 'Effects', 'Extent', 'FieldDispatch', 'FieldIdx', 'FieldMerge', 'PowerSpectrum', 'Rule07', 'ShotDark', 'Units']     # every Gen module the model, lemmas, theorems and driver ops import (transitively)
OPS = ['C18']
RULE = ('cases: rule07_dark_current (fpn 0 / > 0, explicit seed, repeated), read noise on float/int/uint frames, power_spectrum with float/int/bool masks; shot noise (poisson/gaussian; frames 1..12 x 1..12, non-square, float and integer counts 0..1e6, frames with a negative or '
        'a > 9.22e18 entry), read noise, dark current (fpn 0 and > 0, scalar and array shapes), power_spectrum on elliptical/annular '
        'masks of every aspect ratio (3..16 x 3..16), cosmic rays under random global states, and moment checks on 200x200 frames; '
        'distinct = (kind, shape, method, seed, parameters); non-trivial = non-square or rejected or fpn > 0 or masked')
TRUSTED = ['np.random.Generator.poisson/normal/lognormal/standard_normal are pure functions of the generator state and parameters; '
           'normal(loc, scale) = loc + scale * standard_normal() drawn in C order; Poisson draws are non-negative integers and '
           'poisson raises ValueError for lam < 0 or lam > 9.223372006484771e18',
           'np.fft and the PSD noise filter of power_spectrum are not modelled: its index bookkeeping and its final mask-and-normalise lines are '
           'regenerated (Gen/PowerSpectrum.lean: psMaskStep, psNormalise) and consumed by the model; the Rule-07 rate is regenerated (Gen/Rule07.lean)',
           'shot_noise: that NumPy refuses the Poisson draw (ValueError) exactly for lam < 0 or lam > 9.223372006484771e18 — only then does the regenerated except-chain run; the final `raise e` (any other ValueError, e.g. NaN counts) and the FloatingPointError handler of the Gaussian branch are not modelled and not exercised (NaN frames are not generated)']
UNPROVEN = ['shot noise has mean and variance equal to the signal; read noise has zero mean and the requested standard deviation: '
            'distributional facts about NumPy generators, sampled with 6-sigma margins (assumption checks)',
            'different seeds give different draws: sampled',
            'cosmic_rays: the ray tracing is not modelled. Sampled: the frame is the running sum of the recorded per-ray frames into zeros(shape) '
            '(op st.cosmic, exact), every ray frame has the requested shape and is non-negative; cosmic_accumulation_nonneg is a theorem about that '
            'accumulation only',
            'the spectral content (PSD) of the power_spectrum surface: not claimed by the property, not checked']
ASSUMPTIONS = ['read_noise with negative `electrons` (NumPy raises on a negative scale) and power_spectrum with non-binary masks (values other than 0/1: the map is '
               'weighted by the mask and the RMS is over its non-zero pixels) are not generated; theorems on power_spectrum over the mask assume a binary mask',
               'NaN counts / NaN rates are not generated (NumPy-level behaviour, unspecified by the property)', 'identical-draw comparisons assume one vectorised Generator call per function in C order (shot_noise: poisson(img) / normal(img, sqrt(img)); '
               'read_noise: normal(0, e, shape); dark_current/rule07: lognormal(1, f, shape)) — an equivalent but differently ordered draw '
               'would be reported although the documented contract (determinism in the seed) still holds; power_spectrum and cosmic_rays '
               'are compared without any assumption on the draws',
               'Gaussian shot noise is exercised in its documented regime (counts > 1000, or exactly 0): below it the normal draw can be negative '
               '(shot_gaussian_support states the exact condition z >= -sqrt(count))',
               'power_spectrum_rms_over_mask: for a binary mask and noise that is non-zero on it (probability 1) the RMS is over the mask exactly',
               ]

LAM_MAX = 9.223372006484771e+18

def _shape(rng, lo=1, hi=12):
    t = int(rng.integers(0, 6))
    if t == 0: return (int(rng.integers(lo, hi + 1)),) * 2
    return (int(rng.integers(lo, hi + 1)), int(rng.integers(lo, hi + 1)))

def gen_extreme(rng):
    """seams: seeds >= 2**32 (and pairs differing by 2**32), dark rates a hair below a whole electron, counts at the representable limit"""
    t = int(rng.integers(0, 4))
    seed = int(rng.integers(2**32, 2**48)) if rng.integers(0, 2) else int(rng.integers(0, 2**31))
    if rng.integers(0, 4) == 0: seed = 0
    if t == 0:
        sh = _shape(rng, 3, 10)
        return {'kind': 'power', 'shape': list(sh), 'hole': bool(rng.integers(0, 2)), 'rms': float(rng.choice([1e-12, 5e-9, 1e-3, 10.0])),
                'hpf': float(rng.uniform(1, 8)), 'exp': float(rng.uniform(1.5, 4)), 'px': float(rng.choice([1e-9, 1e-3, 1e3])), 'seed': seed,
                'mask_dtype': 'float64', 'extreme': 'seed/scale'}
    if t == 1:
        k = int(rng.integers(1, 2000)); e = int(rng.choice([30, 34, 40]))
        return {'kind': 'dark', 'shape': (list(_shape(rng, 1, 4)) if rng.integers(0, 2) else 1), 'rate': float(k) - 2.0 ** -e, 'fpn': 0, 'seed': seed,
                'extreme': 'rate-just-below-integer'}
    if t == 2:
        sh = _shape(rng, 1, 6)
        return {'kind': 'read', 'shape': list(sh), 'img': vlib.fl(np.round(rng.uniform(0, 500, sh)).ravel()), 'electrons': float(rng.choice([1e-6, 0.5, 1e6])),
                'seed': seed, 'frame_dtype': ['float64', 'int16', 'uint8'][int(rng.integers(0, 3))], 'extreme': 'seed/scale'}
    sh = _shape(rng, 1, 6)
    method = ['poisson', 'gaussian'][int(rng.integers(0, 2))]
    lim = LAM_MAX * (1 - 2.0 ** -40) if rng.integers(0, 2) else LAM_MAX * (1 + 2.0 ** -40)
    vals = rng.uniform(1000, 1e6, sh); vals.flat[0] = lim
    return {'kind': 'shot', 'method': method, 'shape': list(sh), 'img': vlib.fl(vals.ravel()), 'seed': seed,
            'flavor': 'ok' if lim <= LAM_MAX else 'huge', 'int_dtype': False, 'extreme': 'count-at-limit'}

def generate(rng, tier):
    n = {'quick': 150, 'thorough': 3000, 'search': 600}[tier]
    out = []
    for _ in range({'quick': 8, 'thorough': 150, 'search': 300}[tier]): out.append(gen_extreme(rng))
    for k in range({'quick': 6, 'thorough': 60, 'search': 60}[tier]):
        out.append({'kind': 'seedforms', 'fn': ['read', 'shot', 'dark', 'power'][k % 4], 'form': ['none', 'negative', 'sequence', 'numpy-int'][(k // 4 + k) % 4],
                    'seed': int(rng.integers(1, 2**31))})
    for k in range(n):
        t = k % 10
        seed = int(rng.integers(0, 2**31))
        if k % 7 == 3: seed = 0          # seed 0 is a seed: it must be as reproducible as any other (a `seed or None` would lose it)
        if t in (0, 1, 2):
            sh = _shape(rng)
            method = 'poisson' if t != 2 else 'gaussian'
            scale = [3, 50, 5000, 1e6][int(rng.integers(0, 4))]
            vals = rng.uniform(0, scale, sh)
            if method == 'gaussian': vals = rng.uniform(1000, 1e6, sh)     # documented large-count regime of the approximation
            if rng.integers(0, 3) == 0: vals = np.floor(vals)
            flavor = 'ok'
            r = int(rng.integers(0, 8))
            if r == 0: vals.flat[int(rng.integers(0, vals.size))] = -float(rng.uniform(0.5, 5)); flavor = 'negative'
            elif r == 1: vals.flat[int(rng.integers(0, vals.size))] = float(rng.uniform(1.01, 3)) * LAM_MAX; flavor = 'huge'
            elif r == 2: vals.flat[int(rng.integers(0, vals.size))] = 0.0
            out.append({'kind': 'shot', 'method': method, 'shape': list(sh), 'img': vlib.fl(vals.ravel()), 'seed': seed, 'flavor': flavor,
                        'int_dtype': bool(flavor == 'ok' and rng.integers(0, 4) == 0)})
        elif t == 3:
            sh = _shape(rng)
            out.append({'kind': 'read', 'shape': list(sh), 'img': vlib.fl(np.round(rng.uniform(-5, 500, sh) * 4).ravel() / 4),
                        'electrons': float(rng.integers(0, 40)) / 2, 'seed': seed,
                        'frame_dtype': ['float64', 'float64', 'int64', 'int32', 'uint16', 'uint8', 'float32'][int(rng.integers(0, 7))]})
        elif t == 4 and k % 20 == 4:
            sh = _shape(rng, 1, 8)
            out.append({'kind': 'rule07', 'shape': (list(sh) if rng.integers(0, 5) else 1), 'temperature': float(rng.uniform(60, 160)),
                        'cutoff': float(rng.uniform(2.0, 12.0)) * 1e-6, 'pixelscale': float(rng.choice([10e-6, 18e-6, 25e-6])),
                        'fpn': [0, 0.1, 0.25, 0.4][int(rng.integers(0, 4))], 'seed': seed})
        elif t == 4:
            sh = _shape(rng, 1, 8)
            out.append({'kind': 'dark', 'shape': (list(sh) if rng.integers(0, 5) else 1), 'rate': float(rng.uniform(0, 300)),
                        'fpn': [0, 0, 0.1, 0.4][int(rng.integers(0, 4))], 'seed': seed})
        elif t in (5, 6, 7):
            sh = _shape(rng, 3, 16)
            out.append({'kind': 'power', 'shape': list(sh), 'hole': bool(rng.integers(0, 2)), 'rms': float(rng.uniform(1, 100)) * 1e-9,
                        'hpf': float(rng.uniform(1, 8)), 'exp': float(rng.uniform(1.5, 4)), 'px': [1e-3, 5e-3][int(rng.integers(0, 2))], 'seed': seed,
                        'mask_dtype': ['float64', 'int64', 'bool', 'uint8'][int(rng.integers(0, 4))]})
        elif t == 8:
            sh = (int(rng.integers(4, 40)), int(rng.integers(4, 40)))
            out.append({'kind': 'cosmic', 'shape': list(sh), 'ts': float(rng.choice([1.0, 200.0, 5000.0])), 'state': seed % 2**32})
        else:
            which = ['poisson', 'gaussian', 'read'][int(rng.integers(0, 3))]
            level = float([20, 400, 5000][int(rng.integers(0, 3))])
            if which == 'gaussian': level = float([2000, 5000, 50000][int(rng.integers(0, 3))])      # only inside the documented regime (> 1000)
            out.append({'kind': 'moments', 'which': which, 'seed': seed, 'level': level})
    return out

def _seeded_call(lentil, c, seed):
    D = lentil.detector
    if c['fn'] == 'read': return D.read_noise(np.full((4, 5), 100.0), 5.0, seed=seed)
    if c['fn'] == 'shot': return D.shot_noise(np.full((4, 5), 100.0), seed=seed)
    if c['fn'] == 'dark': return D.dark_current(100.0, (4, 5), fpn_factor=0.3, seed=seed)
    yy, xx = np.mgrid[0:6, 0:7]
    return lentil.power_spectrum(((yy - 3) ** 2 + (xx - 3) ** 2 <= 9).astype(float), 1e-3, 5e-8, 3.0, 3.0, seed=seed)

def signature(c): return ' '.join(str(c.get(k)) for k in ('kind', 'method', 'which', 'shape', 'seed', 'flavor', 'fpn', 'state', 'fn', 'form'))
def nontrivial(c):
    if c['kind'] in ('cosmic', 'moments', 'power', 'seedforms'): return True
    if c['kind'] == 'shot': return c['flavor'] != 'ok' or c['shape'][0] != c['shape'][1]
    if c['kind'] in ('dark', 'rule07'): return c['fpn'] > 0 or c['shape'] != 1
    return c['shape'][0] != c['shape'][1]
def tags(c):
    t = [c['kind']] + (['extreme:' + c['extreme']] if c.get('extreme') else [])
    if c['kind'] == 'shot': t += ['shot:' + c['method'], 'shot:' + c['flavor']]
    if c['kind'] in ('dark', 'rule07'): t.append(c['kind'] + (':fpn' if c['fpn'] > 0 else ':nofpn'))
    if c['kind'] == 'read': t.append('read:' + c.get('frame_dtype', 'float64'))
    if c['kind'] == 'power': t.append('mask:' + c.get('mask_dtype', 'float64'))
    if c['kind'] in ('shot', 'read', 'power') and c['shape'][0] != c['shape'][1]: t.append('non-square')
    if c['kind'] == 'moments': t.append('moments:' + c['which'])
    if c['kind'] == 'seedforms': t.append(f"seed:{c['form']}:{c['fn']}")
    return t

def _mask(c):
    n, m = c['shape']
    yy, xx = np.mgrid[0:n, 0:m]
    r = ((yy - (n - 1) / 2) / (n / 2)) ** 2 + ((xx - (m - 1) / 2) / (m / 2)) ** 2
    mk = (r <= 1).astype(float)
    if c['hole']: mk[r < 0.15] = 0
    return mk

def _read_frame(c):
    img = np.array(vlib.unfl(c['img'])).reshape(c['shape'])
    dt = c.get('frame_dtype', 'float64')
    if dt.startswith(('int', 'uint')): img = np.floor(np.abs(img) if dt.startswith('uint') else img)
    if dt == 'uint8': img = np.minimum(img, 255)
    return img.astype(dt)

def _gstate():
    s = np.random.get_state(); return (s[1].tobytes(), s[2], s[3], s[4])

def impl(c):
    lentil = vlib.import_lentil()
    D = lentil.detector
    k = c['kind']
    g0 = _gstate()
    res = {}
    with warnings.catch_warnings():
        warnings.simplefilter('ignore')
        try:
            if k == 'shot':
                img = np.array(vlib.unfl(c['img'])).reshape(c['shape'])
                if c['int_dtype']: img = np.floor(img).astype(np.int64)
                snap = img.tobytes(); img.flags.writeable = False
                out = D.shot_noise(img, method=c['method'], seed=c['seed'])
                again = D.shot_noise(img, method=c['method'], seed=c['seed'])
                other = D.shot_noise(img, method=c['method'], seed=c['seed'] + (2**32 if c['seed'] % 2 else 1))
                res = {'out': vlib.fl(np.asarray(out, dtype=float).ravel()), 'shape': list(np.shape(out)), 'same': bool(np.array_equal(out, again)),
                       'differs': bool(not np.array_equal(out, other)), 'untouched': img.tobytes() == snap, 'dtype': str(np.asarray(out).dtype)}
            elif k == 'read':
                img = _read_frame(c); img.flags.writeable = False
                out = D.read_noise(img, c['electrons'], seed=c['seed'])
                again = D.read_noise(img, c['electrons'], seed=c['seed'])
                other = D.read_noise(img, c['electrons'], seed=c['seed'] + 2**32 * (c['seed'] % 2) + 1 - (c['seed'] % 2))
                out0 = D.read_noise(np.zeros(c['shape']), c['electrons'], seed=c['seed'])
                res = {'out': vlib.fl(np.asarray(out, dtype=float).ravel()), 'shape': list(out.shape), 'same': bool(np.array_equal(out, again)),
                       'differs': bool(not np.array_equal(out, other)), 'noise_only': vlib.fl(out0.ravel()), 'dtype': str(out.dtype)}
            elif k == 'dark':
                sh = c['shape'] if c['shape'] == 1 else tuple(c['shape'])
                out = D.dark_current(c['rate'], sh, fpn_factor=c['fpn'], seed=c['seed'])
                again = D.dark_current(c['rate'], sh, fpn_factor=c['fpn'], seed=c['seed'])
                if c['fpn'] > 0:
                    wrap = D.dark_current(c['rate'], sh, fpn_factor=c['fpn'], seed=c['seed'] + 2**32)
                    res['differs_wrap'] = bool(np.size(out) < 4 or not np.array_equal(out, wrap))
                res.update({'out': vlib.fl(np.asarray(out, dtype=float).ravel()), 'shape': list(np.shape(out)), 'same': bool(np.array_equal(out, again))})
            elif k == 'rule07':
                sh = c['shape'] if c['shape'] == 1 else tuple(c['shape'])
                args = (c['temperature'], c['cutoff'], c['pixelscale'])
                out = D.rule07_dark_current(*args, shape=sh, fpn_factor=c['fpn'], seed=c['seed'])
                again = D.rule07_dark_current(*args, shape=sh, fpn_factor=c['fpn'], seed=c['seed'])
                other = D.rule07_dark_current(*args, shape=sh, fpn_factor=c['fpn'], seed=c['seed'] + 1)
                res = {'out': vlib.fl(np.asarray(out, dtype=float).ravel()), 'shape': list(np.shape(out)), 'same': bool(np.array_equal(out, again)),
                       'differs': bool(not np.array_equal(out, other))}
            elif k == 'power':
                mk = _mask(c).astype(c.get('mask_dtype', 'float64')); snap = mk.tobytes(); mk.flags.writeable = False
                out = lentil.power_spectrum(mk, c['px'], c['rms'], c['hpf'], c['exp'], seed=c['seed'])
                again = lentil.power_spectrum(mk, c['px'], c['rms'], c['hpf'], c['exp'], seed=c['seed'])
                other = lentil.power_spectrum(mk, c['px'], c['rms'], c['hpf'], c['exp'], seed=c['seed'] + 1)
                wrap = lentil.power_spectrum(mk, c['px'], c['rms'], c['hpf'], c['exp'], seed=c['seed'] + 2**32)
                # history independence: the same call, before and after unrelated calls with other pixel scales / filter parameters
                alt1 = lentil.power_spectrum(mk, c['px'] * 3, c['rms'], c['hpf'], c['exp'], seed=c['seed'])
                lentil.power_spectrum(mk, c['px'], c['rms'], c['hpf'] + 1.5, c['exp'], seed=c['seed'])
                alt2 = lentil.power_spectrum(mk, c['px'] * 3, c['rms'], c['hpf'], c['exp'], seed=c['seed'])
                res['history_free'] = bool(np.array_equal(alt1, alt2))
                res.update({'out': vlib.fl(out.ravel()), 'shape': list(out.shape), 'same': bool(np.array_equal(out, again)),
                       'differs': bool(not np.array_equal(out, other)), 'differs_wrap': bool(not np.array_equal(out, wrap)), 'untouched': mk.tobytes() == snap})
            elif k == 'cosmic':
                np.random.seed(c['state'])
                area = c['shape'][0] * 5e-6 * c['shape'][1] * 5e-6
                nr = [0.3, 3.0, 25.0][c['state'] % 3]          # expected number of rays (below 1: the Bernoulli branch)
                rays = []
                orig = D._cosmic_ray
                def rec(*a, **k):
                    r = orig(*a, **k); rays.append(np.array(r, copy=True)); return r
                D._cosmic_ray = rec
                try: out = D.cosmic_rays(tuple(c['shape']), (5e-6, 5e-6, 3e-6), c['ts'], rate=nr / (area * c['ts']))
                finally: D._cosmic_ray = orig
                pix, amt = [], []
                for r in rays:
                    nzp = np.flatnonzero(r)
                    pix += [int(p) for p in nzp]; amt += [float(v) for v in r.ravel()[nzp]]
                return {'shape': list(out.shape), 'min': float(out.min()), 'finite': bool(np.all(np.isfinite(out))), 'hits': int(np.count_nonzero(out)),
                        'out': vlib.fl(out.ravel()), 'pixel': pix, 'amount': vlib.fl(amt), 'nrays': len(rays),
                        'ray_shapes_ok': bool(all(list(r.shape) == c['shape'] for r in rays)), 'ray_min': float(min([r.min() for r in rays], default=0.0))}
            elif k == 'seedforms':
                form = c['form']
                if form == 'none':
                    a, b = _seeded_call(lentil, c, None), _seeded_call(lentil, c, None)
                    res = {'two_unseeded_differ': bool(not np.array_equal(a, b))}
                elif form == 'negative':
                    try: _seeded_call(lentil, c, -c['seed']); res = {'negative_refused': False}
                    except (ValueError, TypeError): res = {'negative_refused': True}
                else:
                    sd = [c['seed'], 7, 11] if form == 'sequence' else np.int64(c['seed'])
                    sd2 = [c['seed'], 7, 12] if form == 'sequence' else np.int64(c['seed'] + 1)
                    a, b, d = _seeded_call(lentil, c, sd), _seeded_call(lentil, c, sd), _seeded_call(lentil, c, sd2)
                    res = {'same': bool(np.array_equal(a, b)), 'differs': bool(not np.array_equal(a, d)),
                           'as_int': bool(form != 'numpy-int' or np.array_equal(a, _seeded_call(lentil, c, int(c['seed']))))}
            elif k == 'moments':
                N = 200
                lam = c['level']
                if c['which'] in ('poisson', 'gaussian'):
                    x = D.shot_noise(np.full((N, N), lam), method=c['which'], seed=c['seed'])
                    res = {'mean': float(x.mean()), 'var': float(x.var()), 'n': N * N}
                else:
                    x = D.read_noise(np.zeros((N, N)), lam, seed=c['seed'])
                    res = {'mean': float(x.mean()), 'var': float(x.var()), 'n': N * N}
        except ValueError as e:
            res = {'exc': 'ValueError', 'msg': str(e)[:120]}
    res['global_rng_untouched'] = _gstate() == g0
    return res

# ------------------------------------------------------------------------------------------ model requests
def requests(c, io):
    k = c['kind']
    if k == 'shot':
        img = np.array(vlib.unfl(c['img']))
        if c['int_dtype']: img = np.floor(img)
        if c['method'] == 'poisson':
            try: draws = np.random.default_rng(c['seed']).poisson(img.reshape(c['shape'])).ravel()
            except ValueError: draws = np.zeros(img.size, dtype=np.int64)
            return [{'op': 'st.shot_poisson', 'img': vlib.fl(img), 'draws': [int(x) for x in draws], 'lam_max': vlib.fbits(LAM_MAX)}]
        z = np.random.default_rng(c['seed']).standard_normal(tuple(c['shape'])).ravel()
        return [{'op': 'st.shot_gaussian', 'img': vlib.fl(img), 'z': vlib.fl(z), 'lam_max': vlib.fbits(LAM_MAX)}]
    if k == 'read':
        z = np.random.default_rng(c['seed']).standard_normal(tuple(c['shape'])).ravel()
        return [{'op': 'st.read_noise', 'img': vlib.fl(np.asarray(_read_frame(c), dtype=float).ravel()), 'z': vlib.fl(z), 'electrons': vlib.fbits(c['electrons'])}]
    if k == 'rule07':
        sh = c['shape'] if c['shape'] == 1 else tuple(c['shape'])
        n = int(np.prod(sh))
        fpn = np.random.default_rng(c['seed']).lognormal(mean=1.0, sigma=c['fpn'], size=sh).ravel() if c['fpn'] > 0 else np.ones(n)
        return [{'op': 'st.rule07', 'temperature': vlib.fbits(c['temperature']), 'cutoff': vlib.fbits(c['cutoff']), 'pixelscale': vlib.fbits(c['pixelscale']),
                 'fpn_factor': vlib.fbits(c['fpn']), 'fpn': vlib.fl(np.atleast_1d(fpn)), 'n': n}]
    if k == 'dark':
        sh = c['shape'] if c['shape'] == 1 else tuple(c['shape'])
        n = int(np.prod(sh))
        fpn = np.random.default_rng(c['seed']).lognormal(mean=1.0, sigma=c['fpn'], size=sh).ravel() if c['fpn'] > 0 else np.ones(n)
        return [{'op': 'st.dark', 'rate': vlib.fbits(c['rate']), 'fpn_factor': vlib.fbits(c['fpn']), 'fpn': vlib.fl(np.atleast_1d(fpn)), 'n': n}]
    if k == 'power' and 'out' in io:
        # distribution-free tie: the returned map must be a fixed point of the model's mask-and-normalise step (the noise filter and the
        # order of the draws are NOT part of the comparison)
        return [{'op': 'st.power', 'x': io['out'], 'mask': vlib.fl(_mask(c).ravel()), 'rms': vlib.fbits(c['rms'])}]
    if k == 'cosmic' and 'out' in io:
        return [{'op': 'st.cosmic', 'pixel': io['pixel'], 'amount': io['amount'], 'n': int(np.prod(c['shape']))}]
    return []

def compare(c, io, mo):
    if not mo: return None
    m = mo[0]
    if 'exc' in io:
        return None if m.get('err') == io['exc'] else f"implementation raised {io['exc']}, model {'answered' if m.get('ok') else m.get('err')}"
    if not m.get('ok'): return f"model answers {m.get('err')}, implementation returned a frame"
    got = np.array(vlib.unfl(io['out']))
    k = c['kind']
    if k == 'rule07':
        # exp/pow come from two libm front ends: the rate may differ in the last bits, so a pixel whose value rate*fpn lies within
        # 1e-9 (relative) of an integer may floor to either side
        want = np.array(m['out'], dtype=float); vals = np.array(vlib.unfl(m['vals']))
        if got.shape != want.shape: return f'sizes differ {got.shape} {want.shape}'
        for p in np.nonzero(got != want)[0]:
            near = abs(vals[p] - np.round(vals[p])) <= 1e-9 * (1 + abs(vals[p]))
            if not (near and abs(got[p] - want[p]) <= 1): return f'pixel {int(p)}: implementation {got[p]}, model {want[p]} (rate*fpn = {vals[p]!r})'
        return None
    if k in ('shot', 'dark'):
        want = np.array(m['out'], dtype=float)
        if got.shape != want.shape: return f'sizes differ {got.shape} {want.shape}'
        bad = np.nonzero(got != want)[0]
        if bad.size:
            # the Gaussian method truncates loc + scale*z: an ulp-level difference exactly at an integer may flip the truncation
            if k == 'shot' and c['method'] == 'gaussian' and np.all(np.abs(got[bad] - want[bad]) <= 1) and bad.size <= 1: return None
            return f'pixel {int(bad[0])}: implementation {got[bad[0]]}, model {want[bad[0]]}'
        return None
    want = np.array(vlib.unfl(m['out']))
    tol = 1e-9 * np.max(np.abs(want)) + 1e-300
    if got.shape != want.shape: return 'sizes differ'
    if np.max(np.abs(got - want)) > tol: return f'max difference {np.max(np.abs(got - want)):.3g} (tolerance {tol:.3g})'
    return None

# ------------------------------------------------------------------------------------------ oracle
def oracle(c, io):
    k = c['kind']
    if not io.get('global_rng_untouched', True) and k != 'cosmic': return 'a seeded function read or advanced the global random state'
    if k == 'shot':
        if c['flavor'] in ('negative', 'huge'):
            return None if io.get('exc') == 'ValueError' else f"shot noise accepted a {c['flavor']} count"
        if 'exc' in io: return f"shot noise raised {io['msg']} on a valid frame"
        out = np.array(vlib.unfl(io['out']))
        if io['shape'] != c['shape']: return f"shape {io['shape']}"
        if out.min() < 0: return f'negative shot-noise count {out.min()}'
        if np.any(out != np.floor(out)): return 'non-integer shot-noise count'
        if not io['same']: return 'same seed gave a different frame'
        if not io['untouched']: return 'input frame modified'
        if not io['differs'] and np.max(vlib.unfl(c['img'])) > 20 and out.size >= 4: return 'different seeds gave identical frames'
        return None
    if k == 'read':
        if 'exc' in io: return f"read_noise raised {io['msg']}"
        if not io['same']: return 'same seed gave a different frame'
        if c['electrons'] > 0 and not io['differs'] : return 'different seeds gave identical noise'
        out = np.array(vlib.unfl(io['out'])); img = np.asarray(_read_frame(c), dtype=float).ravel(); n0 = np.array(vlib.unfl(io['noise_only']))
        if not io['dtype'].startswith('float'): return f"read noise returned dtype {io['dtype']} (noise truncated to the frame's integer type)"
        if np.max(np.abs((out - img) - n0)) > 1e-9 * (1 + np.max(np.abs(img))): return 'read noise depends on the signal'
        if c['electrons'] == 0 and not np.array_equal(out, img): return 'zero read noise changed the frame'
        return None
    if k == 'dark':
        if 'exc' in io: return f"dark_current raised {io['msg']}"
        out = np.array(vlib.unfl(io['out']))
        want_shape = [] if c['shape'] == 1 else c['shape']
        if c['shape'] == 1: want_shape = [1] if io['shape'] == [1] else io['shape']
        if c['shape'] != 1 and io['shape'] != c['shape']: return f"dark frame shape {io['shape']}"
        if c['fpn'] == 0 and np.any(out != np.floor(c['rate'])): return f"dark frame without pattern noise is not floor(rate) = {np.floor(c['rate'])}"
        if out.min() < 0 or np.any(out != np.floor(out)): return 'dark frame not a non-negative integer'
        if not io['same']: return 'same seed gave a different dark frame'
        if c['fpn'] > 0 and c['rate'] > 50 and not io.get('differs_wrap', True): return 'seeds differing by 2**32 gave the same pattern noise'
        return None
    if k == 'rule07':
        if 'exc' in io: return f"rule07_dark_current raised {io['msg']}"
        out = np.array(vlib.unfl(io['out']))
        if c['shape'] != 1 and io['shape'] != c['shape']: return f"dark frame shape {io['shape']}"
        if not io['same']: return 'rule07_dark_current: same arguments and seed gave a different frame (seed not honoured)'
        if c['fpn'] > 0 and out.size >= 4 and out.max() > 50 and not io['differs']: return 'rule07_dark_current: different seeds gave identical pattern noise'
        if c['fpn'] == 0 and np.any(out != out.flat[0]): return 'dark frame without pattern noise is not constant'
        if out.min() < 0 or np.any(out != np.floor(out)): return 'dark frame not a non-negative integer'
        return None
    if k == 'power':
        if 'exc' in io: return f"power_spectrum raised {io['msg']} on a {c['shape']} mask"
        out = np.array(vlib.unfl(io['out'])).reshape(io['shape']); mk = _mask(c)
        if io['shape'] != c['shape']: return f"surface shape {io['shape']} for mask {c['shape']}"
        if np.any(out[mk == 0] != 0): return 'surface error is not zero outside the mask'
        rms = np.sqrt(np.mean(out[mk != 0] ** 2))
        if abs(rms - c['rms']) > 1e-9 * c['rms']: return f"RMS over the mask is {rms:.6g}, requested {c['rms']:.6g}"
        if not io['same']: return 'same seed gave a different surface'
        if not io.get('history_free', True): return 'power_spectrum: the same arguments and seed gave a different surface after unrelated calls (history dependence)'
        if not io['differs']: return 'different seeds gave the same surface'
        if not io.get('differs_wrap', True): return f"seeds {c['seed']} and {c['seed']} + 2**32 gave the same surface"
        if not io['untouched']: return 'mask modified'
        return None
    if k == 'cosmic':
        if 'exc' in io: return f"cosmic_rays raised {io['msg']}"
        if not io['ray_shapes_ok']: return 'a ray frame does not have the requested shape'
        if io['ray_min'] < 0: return f"a ray deposited a negative charge ({io['ray_min']})"
        if io['shape'] != c['shape']: return f"cosmic-ray frame shape {io['shape']}"
        if io['min'] < 0 or not io['finite']: return f"cosmic-ray frame has negative or non-finite values (min {io['min']})"
        return None
    if k == 'seedforms':
        if 'exc' in io: return f"{c['fn']} with a {c['form']} seed raised {io['msg']}"
        if c['form'] == 'none': return None if io['two_unseeded_differ'] else 'two unseeded calls returned the same draw'
        if c['form'] == 'negative': return None if io['negative_refused'] else 'a negative seed was accepted'
        if not io['same']: return f"same {c['form']} seed gave different draws"
        if not io['differs']: return f"different {c['form']} seeds gave the same draw"
        if not io['as_int']: return 'np.int64 seed and the equal Python int gave different draws'
        return None
    # moments: assumption checks with generous margins (>= 6 sigma)
    n = io['n']; lam = c['level']
    if c['which'] in ('poisson', 'gaussian'):
        sm = np.sqrt(lam / n) ; sv = lam * np.sqrt(2.0 / n) * (1 + 1 / np.sqrt(lam))
        bias = 0.5 if c['which'] == 'gaussian' else 0.0     # truncation toward zero of the continuous draw
        if abs(io['mean'] - (lam - bias)) > 7 * sm + 0.05: return f"shot-noise mean {io['mean']:.4f} vs signal {lam}"
        if abs(io['var'] - lam) > 7 * sv + 0.2: return f"shot-noise variance {io['var']:.4f} vs signal {lam}"
        return None
    if abs(io['mean']) > 7 * lam / np.sqrt(n): return f"read-noise mean {io['mean']:.4f} (sigma {lam})"
    if abs(np.sqrt(io['var']) - lam) > 7 * lam / np.sqrt(2 * n): return f"read-noise std {np.sqrt(io['var']):.4f} vs {lam}"
    return None
