"""C06 — field and extent bookkeeping equals arithmetic on an infinite zero-padded plane.

Tie: Gen/Extent.lean and Gen/FieldIdx.lean are regenerated from lentil/extent.py and lentil/field.py (translator);
Model/Field.lean (array plumbing of __mul__/merge/reduce/insert) is hand-written and compared here with the real
lentil.field on Gaussian-integer data (float64 arithmetic is exact on it, so comparisons are exact)."""
import itertools, numpy as np
from harness.common import *
import vlib

LEVEL_TEXT = ('Lean 4 theorems, for all shapes/offsets/data: extent queries = sets of pixel coordinates; product = pointwise product of '
              'embeddings; merge = sum (also for 0-d fields and (1,1) arrays at the origin); reduce terminates within as many merge steps as '
              'there are fields (the Python _disjoint is a loop whose iterations are the model\'s fuel steps), is total, preserves the '
              'total and yields pairwise non-overlapping fields for every collection of positive-shape fields of any size; a product '
              'fed into merge/reduce/insert keeps emb a · emb b (+ the rest) (product_then_merge/_reduce/_insert); reduce leaves a '
              'pairwise non-overlapping collection unchanged and is idempotent (reduce_of_disjoint, reduce_idempotent); the overlap '
              'test and product emptiness are symmetric (intersect_comm, mul_empty_comm); merges and reduced totals do not depend on '
              'the order of the fields nor on the absolute position (merge_order_independent, merge_translate, merge_translate_extent, '
              'reduce_order_total, reduce_translate_total); insertions commute and weights add up (insert_comm, insert_weights_add); boundary = the exact bounding box of '
              'the pixel sets for every non-empty collection of extents within ±(2^63 − 1), the range of the initial value sys.maxsize '
              '(boundary_is_bbox, hypothesis hM; boundary_is_bbox_general without it), wholly negative ones included, independent of the '
              'order of the fields and covariant under translation (boundary_order_independent, boundary_translate); public merge = sum of the two embeddings, refused iff overlap is enforced and no pixel is '
              'shared; public overlap = common pixel (2 fields) / reduce leaves one field carrying the total (otherwise) — their '
              'branch tests, the dispatch of __mul__, the whole of _mul_broadcast (mul_broadcast_spec: generated = the broadcast step of the model, inherited offsets included), the index flow of _mul_array (mul_array_spec, mul_via_gen), the extent and default offset set by Field.__init__ (field_init_extent_spec, field_init_default_spec), the statement flow of _merge (zero canvas, in-place accumulation per field, helper wiring: merge_flow_spec), the loop body of reduce and the pair value of overlap (reduce_group_out_spec, reduceZ_group_out_spec, overlap_pair_value_spec), the merge test of reduce and the step of _disjoint are generated from the '
              'source (Gen.FieldDispatch) and consumed by the models; insert adds '
              'exactly the part of the embedding inside the target (insert_emb; on the plane: insert_emb_plane for post 0 = 0); the NumPy slice pairs of product and insert are in range and of '
              'equal shape. Index arithmetic is regenerated from extent.py/field.py on every run; the NumPy array plumbing is a hand '
              'model checked against the implementation on exact Gaussian-integer data, with operand snapshots (inputs byte-identical '
              'afterwards, results share no memory with operands, same call twice = same answer).')
LEVEL_NOTE = ('Trusted: Lean kernel, py2lean subset semantics, NumPy slicing/broadcast semantics as modelled in Model/Field.lean and '
              'Model/FieldZ.lean, NumPy same_kind casting of `out[...] += …`, generator coverage of the '
              'correspondence. Scope: two one-element fields multiply only at equal offsets (documented '
              'rule, a scope cut of the literal statement: mul_scalar_scalar_sem_partial); insert places a one-element (1,1) field as '
              'one pixel, not as an infinite constant; 0-d data is accepted only into a 0-d target at offset (0,0) (fast path, what '
              'Wavefront.field does on a fresh wavefront) and refused with ValueError otherwise; 1-D targets are refused; the empty product is the object '
              'Field(data=[]) whose cached extent is (0,0,0,0) — the model treats it as the zero field; it is a sentinel that the only caller '
              '(Plane.multiply) drops, and the composition cases (product -> mul/merge/reduce/insert) drop it the same way.')
TECHNIQUE = 'Lean 4 proof (omega/induction) over translator-regenerated index kernel + hand model with differential correspondence'
GEN = ['Extent', 'FieldIdx', 'FieldMerge', 'FieldDispatch', 'FieldAccum', 'FieldBroadcast', 'FieldMulArray', 'FieldInit', 'FieldMergeFlow', 'FieldReduceFlow', 'FieldOverlapPair', 'FieldMergeOrigin', 'FieldPublicFlow', 'FieldMulScalar']
OPS = ['C06']
RULE = ('cases: extent pairs, bounding boxes (boundary) of 1..5 fields incl. wholly negative, field products (array/array, '
        'scalar/array, scalar/scalar, 0-d), merges (_merge and public merge with both enforce_overlap values, equal/different '
        'pixelscale), compositions (a product — dropped when empty, 0-d when both operands are — fed to mul/merge/reduce/insert), '
        'inserts into 0-d and 1-D targets, reduces of 1..6 fields, public overlap of 1..6 fields, each with 0-d members, one-element fields at the '
        'origin (0-d and (1,1)), collections whose FIRST field spans the whole bounding box or with identical extents; inserts into '
        'targets 1..8 drawn by category (inside / clipped on the top, bottom, left or right side / corner or two-sided clipping / '
        'wholly outside on each side / uniform offsets in [-9,9] / 0-d field; a fifth of them into float64/float32/int64/complex64 targets); data = small Gaussian integers; every '
        'mul/merge/reduce/insert is run twice on the same operand objects with byte snapshots around it. An extremes stream (4 % '
        'of quick, 5 % of thorough, a third of the failing-input search) adds: one-element/array products, merges, reduces and '
        'inserts at offsets 1e5 .. 2^40 (equal, or one or two pixels apart), reduces/overlaps of 33..70 fields (tiles sharing '
        'exactly one pixel row/column, abutting tiles, one-pixel-wide bars), and 1-D-like products/inserts of 65..500 (search: 2600) samples. thorough adds two '
        'exhaustive enumerations: every insert with field shape <= 3x3, offset in [-4,4]^2, target <= 4x4 (11 664 cases), and every '
        'extent pair a = shape <= 5x5 at the origin (plus four shifted copies), b = shape <= 5x5 at offset in [-6,6]^2; the container '
        'type of every offset (list / tuple / ndarray / list of np.int64) is drawn for half of the fields; half of the fields at offset [0, 0] are built as Field(data) with no offset argument (the default of __init__), and every extent case also builds a Field of that shape/offset (without the offset argument when it is [0, 0] and its first row is even) and judges its cached extent; compositions include '
        'products that overlap in exactly one pixel followed by a one-element factor on or next to that pixel; corpus: D20 '
        'witnesses (fields wholly outside), the 0-d merge witness fixed by 5cccd0c, spanning-first-field collections, run first. '
        'distinct = canonical (kind, shapes, offsets) signature; non-trivial = extents overlap partially / clipping on some side / '
        'more than one group, i.e. not the all-inside-or-identity case')
TRUSTED = ['itertools.combinations(range(n), r) yields the r-element index tuples in lexicographic order (modelled as Lentil.combos, Model/FieldPublicFlow.lean)',
           'NumPy slicing/broadcasting semantics for data[slice] * data[slice], out[slice] += data and out[...] += 0-d data '
           '(modelled by hand in Model/Field.lean, Model/FieldZ.lean)',
           'NumPy casting rule (same_kind) of the in-place add in insert: complex128/complex64 targets take every term, float targets '
           'take the real-valued intensity term only, integer targets none (sampled and judged by the oracle, not modelled)']
UNPROVEN = ['product of two one-element fields at DIFFERENT offsets: the code returns the empty product (documented rule of '
            'Field.__mul__, proved in full as mul_scalar_scalar_rule), not the product of two infinite constants as the property text '
            'reads literally; that reading is false of the code there (witness example in Props/C06.lean), so '
            'mul_scalar_scalar_sem_partial (equal offsets) cannot be completed by a proof — it is a scope cut of the statement']
ASSUMPTIONS = ['merge/reduce never raise (mergeZ_total, reduce_defined, reduceZ_defined): on the single origin pixel the merged data '
               'is 0-d iff every member is, else a (1,1) array (mergeZ_zero_d_iff); _disjoint is a loop (recognised structurally by the '
               'translator: scan in combinations order, merge the first intersecting pair, rescan), so there is no recursion bound: '
               'thorough/search run one reduce and one overlap of ~1200 mutually overlapping fields and one reduce of 1100 '
               'non-overlapping fields, which must answer and satisfy the property (the interpreted model is not run beyond 200 '
               'fields: oracle only there)',
               'insert targets: complex128 (default) and complex64 take both branches; float64/float32 targets take intensity inserts '
               '(what Wavefront.intensity uses) and refuse field inserts, int64 targets refuse both (UFuncTypeError, target untouched) '
               'unless the field lies wholly outside — NumPy casting, judged by the oracle, not modelled (the model is generic in the '
               'value type)',
               'offsets are integer-valued (list, tuple, ndarray, np.int64 or integral floats are drawn); non-integer offsets are '
               'outside the documented interface (array_extent and insert truncate them differently)',
               'boundary_is_bbox is stated for extents within ±sys.maxsize (2^63 − 1), the range of the implementation\'s initial value',
               'the product of two one-element fields follows the documented rule: empty unless the offsets are equal',
               'reduce_spec / reduceZ_spec: input fields of positive shape, nothing else (reduce_disjoint / reduce_total keep the '
               'hypothesis reduce fs = out.map some for their users; it is always satisfiable: reduce_defined); the fields of a merged group occupy boundary() of the group, the exact bounding box of its '
               'members (zero padding inside that box included)',
               'insert_emb uses the one-pixel embedding (emb), not the infinite-constant reading (sem), for a one-element (1,1) '
               'field; insert of 0-d data is outside the theorems: the implementation accepts it only into a 0-d target at offset (0,0) '
               'and refuses it (ValueError) into any other target; 1-D targets are refused (IndexError/ValueError) — both sampled '
               '(insert_nd) and judged by the oracle only',
               'pixelscale/tilt bookkeeping of Field is not modelled; the harness checks only that merge refuses different '
               'pixelscales and keeps a common one, and that a product carries self.tilt + other.tilt (sampled); _merge drops tilt '
               'and __mul__ drops pixelscale by design of the code (not judged)',
               'the tests generated into Gen.FieldDispatch are consumed by the models: Fld.mul (size test, offset comparison), disjoint '
               'and disjointZ (step constants), GroupZ.out / overlapL / mergePublic (thresholds); closed forms: Fld.mul_closed, '
               'disjoint_succ_some, GroupZ.out_eq, overlapL_two/many, mergePublic_eq; insertArr / insertArrMode evaluate the generated '
               'accumulation terms of insert (Gen.FieldAccum; insertTerm_eq, insert_accum_spec, insert_mode_eq). _mul_broadcast is regenerated whole (Gen.FieldBroadcast.mulBroadcast: shape test, both size tests, broadcast targets, inherited offsets; the arrays enter through .shape/.size and np.broadcast_to as a flag) and proved equal to the broadcast step of Fld.mul for every pair not both one-element (mul_broadcast_spec, mul_via_gen_broadcast); the same function is regenerated a second time with shapes that may be () (Gen.mulBroadcastZ: a shape is the triple (ndim, d0, d1), () = (0, 1, 1)) and proved to return two 2-D operands, those of the 2-D translation on the 1x1 reading of 0-d data, whenever __mul__ goes to _mul_array (mul_broadcast_zd_spec: why ZFld.mul may run Fld.mul); the both-0-d product goes through _mul_scalar. Field._mul_array after that call is regenerated too (Gen.FieldMulArray.mulArrayIdx: both array_extent calls, the intersect test, intersection_slices, intersection_shift, calling Gen.Extent) and proved to be the index flow of Fld.mulArr for all fields (mul_array_spec; end to end on generated definitions: mul_via_gen); its array product `self_data[self_slice] * other_data[other_slice]`, the empty result and the argument order of the _mul_broadcast call are matched textually by the translator hook. Field.__init__ is regenerated (Gen.FieldInit: the offset default [0, 0] and the cached extent = array_extent(self.shape, self.offset); the data / pixelscale / tilt assignments and the property Field.shape are matched textually): the cached extent is Fld.extent and the pixel set of the data (field_init_extent_spec), the default is the origin-centred field (field_init_default_spec). The statements of _merge after the pixelscale guard are regenerated (Gen.FieldMergeFlow: np.zeros canvas of _merge_shape, slices = _merge_slices, `out[slc] += field.data` per field in zip order, Field(data=out, offset=_merge_offset); guard, zip order and the Field(...) arguments matched structurally) and run by Lentil.mergeFlowL (Model/FieldMergeFlow.lean), proved equal to mergeL for all lists of fields (merge_flow_spec). The loop body of reduce is regenerated (Gen.FieldReduceFlow: the values appended in the two branches, beside the generated size test) and proved to be the match of Lentil.reduce / GroupZ.out on every non-empty group (reduce_group_out_spec, reduceZ_group_out_spec); the value of the pair branch of overlap is regenerated (Gen.FieldOverlapPair.overlapPairValue, calling Gen.Extent) and is overlapL on two fields (overlap_pair_value_spec). The test of the origin branch of _merge_slices (every slice = Ellipsis) is regenerated (Gen.FieldMergeOrigin.mergeSlicesOrigin) and shown to agree with the general slice formula mergeL uses everywhere: it holds exactly on the box (0,0,0,0), where the general slice of every member is the whole (1,1) canvas (merge_slices_origin_spec). The remaining value-carrying pieces are regenerated into Gen.FieldPublicFlow and run by Model/FieldPublicFlow.lean: the group construction of _reduce (reduce_init_flow_spec), the two constants of the many-branch of overlap (overlap_flow_spec: overlapFlow = overlapL for all lists), the tuple `_merge((a, b))` and the default enforce_overlap=True of merge (merge_public_flow_spec: = mergePublic), the r of combinations(range(len(fields)), r) in _disjoint (disjoint_scan_spec / disjoint_first_pair_spec: the scan is the index list of firstPair, for every n), the defaults intensity=False, weight=1 of insert (insert_defaults_spec). The branch bodies of Field._mul_scalar are regenerated (Gen.FieldMulScalar: factors of `data = self.data * other.data` and the operand whose offset is kept) and run as mulScalarFlow, equal to Fld.mul on two one-element fields (mul_scalar_flow_spec). Field.shift (floats, tilt interface) is outside C06 and stays pinned. The container type of an offset (list / tuple / '
               'ndarray) enters the translation of _mul_scalar as a tag that np.array_equal ignores (mul_dispatch_spec); the model '
               'itself has integer offsets only, the harness draws the container types']

def _field(rng, kmax=5, omax=6, allow_one=True, zero_d=False):
    shape = pick_shape(rng, kmax, allow_one)
    off = rng.integers(-omax, omax + 1, 2)
    if rng.integers(0, 4) == 0: off = rng.integers(-1, 2, 2)
    if zero_d and shape == (1, 1) and rng.integers(0, 2): shape = ()
    return gi_field(rng, shape, off)

def generate(rng, tier):
    n = {'quick': 2500, 'thorough': 20000, 'search': 3000}[tier]
    out = []
    for k in range(n):
        t = k % 10
        if t == 0 and k % 20 == 10:
            m = int(rng.integers(1, 6))
            fs = [_field(rng, omax=int(rng.integers(2, 9))) for _ in range(m)]
            neg = int(rng.integers(0, 8)) % 6        # wholly negative rows and/or columns: the box must be the exact bounding box there too (boundary's maxima used to start at 0)
            for f in fs:
                if neg & 1: f['off'][0] = -abs(f['off'][0]) - 4
                if neg & 2: f['off'][1] = -abs(f['off'][1]) - 4
            out.append({'kind': 'boundary', 'fields': fs})
        elif t == 0:
            a, b = _field(rng), _field(rng)
            out.append({'kind': 'extent', 'a': list(ext_of(a['shape'], a['off'])), 'b': list(ext_of(b['shape'], b['off'])),
                        'sa': a['shape'], 'oa': a['off']})
        elif t in (1, 2, 3):
            a = _field(rng, zero_d=True); b = _field(rng, zero_d=True)
            if rng.integers(0, 10) < 7:              # ~70 %: b placed so that the two extents share at least one pixel
                ea = ext_of(a['shape'], a['off']); sb = b['shape'] if len(b['shape']) == 2 else [1, 1]
                rminb = int(rng.integers(ea[0] - sb[0] + 1, ea[1] + 1)); cminb = int(rng.integers(ea[2] - sb[1] + 1, ea[3] + 1))
                b['off'] = [rminb + sb[0] // 2, cminb + sb[1] // 2]
            if k % 20 == 13:        # composition: the product (dropped when empty, as Plane.multiply does) goes on into another call
                nxt = ('mul', 'merge', 'reduce', 'insert')[int(rng.integers(0, 4))]
                near = lambda: [a['off'][0] + int(rng.integers(-3, 4)), a['off'][1] + int(rng.integers(-3, 4))]
                cs = [_field(rng, kmax=4, allow_one=(nxt != 'merge' and rng.integers(0, 4) == 0), zero_d=True) for _ in range(int(rng.integers(1, 4)) if nxt == 'reduce' else 1)]
                for cf in cs: cf['off'] = near()
                if rng.integers(0, 5) == 0:          # 0-d product: two 0-d operands at the same offset (what Wavefront * Plane() gives)
                    a = gi_field(rng, (1, 1), a['off']); a['shape'] = []; b = gi_field(rng, (1, 1), a['off']); b['shape'] = []
                    if rng.integers(0, 2): a['off'] = [0, 0]; b['off'] = [0, 0]
                elif rng.integers(0, 4) == 0:        # a*b overlap in exactly ONE pixel (corner touch): the intermediate product is one-element
                    ha, wa, hb, wb = (int(x) for x in rng.integers(2, 5, 4))
                    oa = [int(x) for x in rng.integers(-4, 5, 2)]
                    a = gi_field(rng, (ha, wa), oa, lo=1); ea = ext_of((ha, wa), oa)
                    sr, sc = int(rng.integers(0, 2)), int(rng.integers(0, 2))          # which corner of a
                    pr, pc = (ea[1] if sr else ea[0]), (ea[3] if sc else ea[2])        # the shared pixel
                    rminb = pr if sr else pr - hb + 1; cminb = pc if sc else pc - wb + 1
                    b = gi_field(rng, (hb, wb), (rminb + hb // 2, cminb + wb // 2), lo=1)
                    if nxt == 'mul':
                        d = [(0, 0), (0, 0), (0, 0), (0, 1), (1, 0)][int(rng.integers(0, 5))]
                        one = gi_field(rng, (1, 1), (pr + d[0], pc + d[1]), lo=1)
                        if rng.integers(0, 2): one['shape'] = []
                        cs = [one]
                c = {'kind': 'chain', 'a': a, 'b': b, 'then': nxt, 'cs': cs}
                if nxt == 'insert':
                    c['out'] = gi_field(rng, (int(rng.integers(1, 9)), int(rng.integers(1, 9))), (0, 0))
                    c['weight'] = int(rng.integers(-2, 4)); c['intensity'] = bool(rng.integers(0, 2)); c['cs'] = []
                    if rng.integers(0, 2): a['off'] = [int(x) for x in rng.integers(-2, 3, 2)]; b['off'] = [a['off'][0] + int(rng.integers(-1, 2)), a['off'][1] + int(rng.integers(-1, 2))]
                out.append(c)
            else:
                m = {'kind': 'mul', 'a': a, 'b': b}
                if rng.integers(0, 5) == 0: m['tilt'] = [int(rng.integers(0, 3)), int(rng.integers(0, 3))]   # number of tilt objects on each operand
                out.append(m)
        elif t in (4, 5):
            r = int(rng.integers(0, 10))
            if r <= 1: fs = _spanning(rng, int(rng.integers(2, 5)))           # first field spans the whole box / identical extents
            elif r in (2, 3): fs = _origin_ones(rng, int(rng.integers(1, 5)))  # one-element fields at the origin (0-d and/or (1,1))
            else:
                m = int(rng.integers(2, 5))
                fs = [_field(rng, allow_one=(rng.integers(0, 3) == 0), omax=4, zero_d=True) for _ in range(m)]
            if k % 20 == 15:                                            # public merge(a, b, enforce_overlap)
                fs = fs[:2] if len(fs) >= 2 else fs + [_field(rng, omax=2)]
                c = {'kind': 'merge_public', 'fields': fs, 'enforce': bool(rng.integers(0, 2))}
                if rng.integers(0, 4) == 0: c['ps'] = [int(rng.integers(1, 3)), int(rng.integers(1, 3))]
                out.append(c)
            else:
                out.append({'kind': 'merge', 'fields': fs})
        elif t in (6, 7):
            m = int(rng.integers(1, 7))
            om = int(rng.integers(2, 9))
            r = int(rng.integers(0, 10))
            if r <= 1:                                                        # a spanning group plus bystanders
                fs = _spanning(rng, int(rng.integers(2, 4))) + [_field(rng, kmax=3, omax=9) for _ in range(int(rng.integers(0, 3)))]
                if rng.integers(0, 2): fs = [fs[-1]] + fs[:-1]
            elif r in (2, 3):                                                 # one-element fields at the origin among others
                fs = _origin_ones(rng, int(rng.integers(1, 5))) + [_field(rng, kmax=3, omax=om, zero_d=True) for _ in range(int(rng.integers(0, 3)))]
                fs = [fs[i] for i in rng.permutation(len(fs))]
            else:
                fs = [_field(rng, kmax=4, omax=om, allow_one=(rng.integers(0, 3) == 0), zero_d=True) for _ in range(m)]
                if rng.integers(0, 3) == 0:          # wholly negative extents
                    for f in fs: f['off'] = [-abs(f['off'][0]) - 4, -abs(f['off'][1]) - 4]
            if k % 20 == 17:                                             # public overlap(fields)
                out.append({'kind': 'overlap', 'fields': fs if rng.integers(0, 3) else fs[:2]})
            else:
                out.append({'kind': 'reduce', 'fields': fs})
        elif k % 40 == 9:           # targets that are not 2-D: 0-d (what Wavefront.field uses on a fresh wavefront) and 1-D
            f = gi_field(rng, (1, 1), (0, 0)) if rng.integers(0, 3) else _field(rng, kmax=3, omax=1)
            if f['shape'] == [1, 1] and rng.integers(0, 3): f['shape'] = []
            if rng.integers(0, 3) == 0: f['off'] = [int(x) for x in rng.integers(-1, 2, 2)]
            tshape = [] if rng.integers(0, 2) else [int(rng.integers(1, 5))]
            o = gi_field(rng, tshape, (0, 0))
            out.append({'kind': 'insert_nd', 'field': f, 'out': o, 'weight': int(rng.integers(-2, 4)), 'intensity': bool(rng.integers(0, 2))})
        else:
            out.append(_insert_case(rng))
    # extremes stream: huge offsets, > 32 fields, long 1-D shapes (a small sample in quick/thorough, a large one in search)
    out += _extremes(rng, {'quick': n // 25, 'thorough': n // 20, 'search': n // 3}[tier], lmax=2600 if tier == 'search' else 500)
    if tier in ('thorough', 'search'):
        # more merges than the interpreter's default recursion limit (~1000): `_disjoint` used to recurse once per merge and raise
        # RecursionError here (fixed defect: it is a loop now); these must answer and satisfy the property
        for kind in ('reduce', 'overlap'):
            nn = int(rng.integers(1150, 1300))
            fs = [gi_field(rng, (2, 2), (int(rng.integers(0, 2)), int(rng.integers(0, 2)))) for _ in range(nn)]
            out.append({'kind': kind, 'fields': fs, 'ext': 'recursion'})
        fs = [gi_field(rng, (2, 2), (0, 3 * i)) for i in range(1100)]            # 1100 fields, none overlapping: no merge, no recursion
        out.append({'kind': 'reduce', 'fields': fs, 'ext': 'many-disjoint'})
    _vary_offset_types(out, rng)
    if tier == 'thorough':
        out += exhaustive_extents() + exhaustive_inserts()
    return out

_BASES = (10 ** 5, 10 ** 5 + 1, 131072, 10 ** 6, 123456789, 2 ** 31 - 1, 2 ** 31, 2 ** 32 + 5, 10 ** 12, 2 ** 40)

def _base(rng, signed=True):
    b = [int(_BASES[int(rng.integers(0, len(_BASES)))]) if rng.integers(0, 4) else int(rng.integers(-3, 4)) for _ in range(2)]
    if b[0] == 0 and b[1] == 0: b[int(rng.integers(0, 2))] = int(_BASES[int(rng.integers(0, len(_BASES)))])
    if signed: b = [x * (-1 if rng.integers(0, 3) == 0 else 1) for x in b]
    return b

def _shifted(f, b):
    g = dict(f); g['off'] = [f['off'][0] + b[0], f['off'][1] + b[1]]
    return g

def _many(rng):
    """33..70 fields: tiles that share exactly one pixel row/column with their neighbours (stride = size - 1), abut without
    sharing (stride = size) or leave gaps, 1-pixel-wide bars crossing them, and random small fields"""
    n = int(rng.integers(33, 71))
    mode = int(rng.integers(0, 4))
    fs = []
    if mode <= 1:
        h, w = int(rng.integers(1, 5)), int(rng.integers(1, 5))
        cols = int(rng.integers(3, 10))
        sr = h - 1 if mode == 0 else h + int(rng.integers(0, 2))
        sc = w - 1 if mode == 0 else w + int(rng.integers(0, 2))
        if mode == 0 and rng.integers(0, 2): sr, sc = (h - 1, w) if rng.integers(0, 2) else (h, w - 1)   # chains along one axis only
        sr, sc = max(sr, 1), max(sc, 1)
        o = [int(x) for x in rng.integers(-6, 7, 2)]
        for i in range(n):
            r, q = divmod(i, cols)
            fs.append(gi_field(rng, (h, w), (o[0] + r * sr, o[1] + q * sc)))
    elif mode == 2:
        for i in range(n):
            if i % 3 == 0:   # bars, one pixel wide
                L = int(rng.integers(2, 12))
                shape = (1, L) if rng.integers(0, 2) else (L, 1)
            else: shape = (int(rng.integers(1, 4)), int(rng.integers(1, 4)))
            fs.append(gi_field(rng, shape, rng.integers(-14, 15, 2)))
    else:
        span = int(rng.integers(8, 30))
        for i in range(n): fs.append(_field(rng, kmax=3, omax=span, allow_one=True))
    if rng.integers(0, 2): fs = [fs[i] for i in rng.permutation(len(fs))]
    return fs

def _extremes(rng, n, lmax=2600):
    out = []
    for k in range(n):
        t = k % 8
        if t <= 1:       # two one-element fields at huge offsets that are equal / differ by a pixel or two
            b = _base(rng)
            a = gi_field(rng, (1, 1), b, lo=1); c = gi_field(rng, (1, 1), b, lo=1)
            d = [(0, 0), (0, 1), (1, 0), (1, 1), (-1, 0), (0, -2), (2, 2), (0, 0)][int(rng.integers(0, 8))]
            c['off'] = [b[0] + d[0], b[1] + d[1]]
            if rng.integers(0, 2): a['shape'] = []
            if rng.integers(0, 2): c['shape'] = []
            out.append({'kind': 'mul', 'a': a, 'b': c, 'ext': 'huge-offset'})
        elif t == 2:     # array products at a huge common offset
            b = _base(rng)
            a = _field(rng, zero_d=True); c = _field(rng, zero_d=True)
            c['off'] = [a['off'][0] + int(rng.integers(-2, 3)), a['off'][1] + int(rng.integers(-2, 3))]
            out.append({'kind': 'mul', 'a': _shifted(a, b), 'b': _shifted(c, b), 'ext': 'huge-offset'})
        elif t == 3:     # merge / reduce / overlap of a few fields near a huge offset of either sign (the merged box must not reach back to 0)
            b = _base(rng)
            fs = [_shifted(_field(rng, kmax=4, omax=4, zero_d=True), b) for _ in range(int(rng.integers(2, 6)))]
            kind = ('merge', 'reduce', 'reduce', 'overlap')[int(rng.integers(0, 4))]
            out.append({'kind': kind, 'fields': fs, 'ext': 'huge-offset'})
        elif t == 4:     # inserts: field at a huge offset (wholly outside), or long 1-D-like field/target
            if rng.integers(0, 2):
                c = _insert_case(rng); c['field'] = _shifted(c['field'], _base(rng)); c['ext'] = 'huge-offset'
            else:
                L = int(rng.integers(65, lmax)); T = int(rng.integers(65, lmax))
                tr = bool(rng.integers(0, 2))
                f = gi_field(rng, (L, int(rng.integers(1, 3))) if tr else (int(rng.integers(1, 3)), L), (0, 0))
                sh = int(rng.integers(-(L + T) // 2 - 2, (L + T) // 2 + 3))
                f['off'] = [sh, int(rng.integers(-2, 3))] if tr else [int(rng.integers(-2, 3)), sh]
                o = gi_field(rng, (T, int(rng.integers(1, 4))) if tr else (int(rng.integers(1, 4)), T), (0, 0))
                c = {'kind': 'insert', 'field': f, 'out': o, 'weight': int(rng.integers(-2, 4)), 'intensity': bool(rng.integers(0, 2)), 'ext': 'long'}
            out.append(c)
        elif t == 5:     # long 1-D-like products
            L = int(rng.integers(65, lmax)); M = int(rng.integers(65, lmax)); tr = bool(rng.integers(0, 2))
            sh = int(rng.integers(-(L + M) // 2 - 2, (L + M) // 2 + 3))
            a = gi_field(rng, (L, 1) if tr else (1, L), (0, 0)); c = gi_field(rng, (M, 2) if tr else (2, M), (sh, 0) if tr else (0, sh))
            out.append({'kind': 'mul', 'a': a, 'b': c, 'ext': 'long'})
        else:            # more than 32 fields
            fs = _many(rng)
            kind = ('reduce', 'reduce', 'overlap')[int(rng.integers(0, 3))]
            out.append({'kind': kind, 'fields': fs, 'ext': 'many'})
    return out

_SIDES = ('top', 'bottom', 'left', 'right')

def _spanning(rng, m):
    """m fields of which the FIRST spans the bounding box of all (big field, the others wholly inside it; sometimes identical
    extents): what an in-place "optimisation" of _merge corrupts. Anywhere on the plane, also wholly negative."""
    h, w = int(rng.integers(2, 8)), int(rng.integers(2, 8))
    off = [int(x) for x in rng.integers(-9, 6, 2)]
    e = ext_of((h, w), off)
    fs = [gi_field(rng, (h, w), off)]
    for _ in range(m - 1):
        if rng.integers(0, 4) == 0: fs.append(gi_field(rng, (h, w), off)); continue      # identical extent
        hh, ww = int(rng.integers(1, h + 1)), int(rng.integers(1, w + 1))
        rmin = int(rng.integers(e[0], e[1] - hh + 2)); cmin = int(rng.integers(e[2], e[3] - ww + 2))
        f = gi_field(rng, (hh, ww), (rmin + hh // 2, cmin + ww // 2))
        if (hh, ww) == (1, 1) and rng.integers(0, 2): f['shape'] = []
        fs.append(f)
    return fs

def _origin_ones(rng, m):
    """m one-element fields at offset (0, 0): all 0-d (what Wavefront.__init__ creates), all (1, 1) arrays (what
    propagate_dft(prop_shape=1) of a segmented pupil creates), or a mix"""
    fs = []
    for _ in range(m):
        f = gi_field(rng, (1, 1), (0, 0))
        fs.append(f)
    mode = int(rng.integers(0, 3))            # all 0-d / all (1,1) arrays / a mix
    for f in fs:
        if mode == 0 or (mode == 2 and rng.integers(0, 2)): f['shape'] = []
    return fs

def _axis_pos(rng, n, t0, t1, how):
    """first coordinate (rmin or cmin) of a length-n interval relative to the target interval [t0,t1]:
    how = 'in' (inside; n <= t1-t0+1), 'lo' (sticks out below t0 but overlaps; n >= 2), 'hi' (sticks out above t1 but
    overlaps; n >= 2), 'any' (overlaps somehow), 'out-lo' / 'out-hi' (no overlap, gap 0..3)"""
    if how == 'in': return int(rng.integers(t0, t1 - n + 2))
    if how == 'lo': return int(rng.integers(t0 - n + 1, t0))
    if how == 'hi': return int(rng.integers(max(t1 - n + 2, t0 - n + 1), t1 + 1))
    if how == 'any': return int(rng.integers(t0 - n + 1, t1 + 1))
    if how == 'out-lo': return t0 - n - int(rng.integers(0, 4))
    return t1 + 1 + int(rng.integers(0, 4))

def _insert_case(rng):
    """insert case drawn by category so that inside / clipped on each side / outside on each side are all frequent"""
    S0, S1 = int(rng.integers(1, 9)), int(rng.integers(1, 9))
    h, w = pick_shape(rng, 6, True)
    te = ext_of((S0, S1), (0, 0))
    cat = int(rng.integers(0, 12))
    if cat <= 1:                                     # inside (incl. the identical-shape fast path)
        h, w = min(h, S0), min(w, S1)
        if rng.integers(0, 4) == 0: h, w = S0, S1
        hr, hc = 'in', 'in'
    elif cat <= 5:                                   # clipped on exactly the chosen side of that axis (maybe more on the other)
        side = _SIDES[cat - 2]
        if side in ('top', 'bottom'):
            h = max(h, 2); hr = 'lo' if side == 'top' else 'hi'; hc = 'in' if w <= S1 and rng.integers(0, 2) else 'any'
        else:
            w = max(w, 2); hc = 'lo' if side == 'left' else 'hi'; hr = 'in' if h <= S0 and rng.integers(0, 2) else 'any'
    elif cat == 6:                                   # corner / two-sided / larger than the target
        if rng.integers(0, 2): h, w = h + S0, w + S1
        hr, hc = 'any', 'any'
    elif cat <= 8:                                   # wholly outside, on a chosen side; other axis anywhere near
        side = _SIDES[int(rng.integers(0, 4))]
        hr = {'top': 'out-lo', 'bottom': 'out-hi'}.get(side, 'any' if rng.integers(0, 3) else 'out-lo')
        hc = {'left': 'out-lo', 'right': 'out-hi'}.get(side, 'any' if rng.integers(0, 3) else 'out-hi')
    else:
        hr = hc = None                               # uniform offsets
    if hr is None:
        off = [int(x) for x in rng.integers(-9, 10, 2)]
    else:
        rmin = _axis_pos(rng, h, te[0], te[1], hr); cmin = _axis_pos(rng, w, te[2], te[3], hc)
        off = [rmin + h // 2, cmin + w // 2]
    f = gi_field(rng, (h, w), off)
    if (h, w) == (1, 1) and rng.integers(0, 3) == 0: f['shape'] = []       # 0-d data: insert refuses it (documented scope)
    o = gi_field(rng, (S0, S1), (0, 0))
    c = {'kind': 'insert', 'field': f, 'out': o, 'weight': int(rng.integers(-2, 4)), 'intensity': bool(rng.integers(0, 2))}
    if rng.integers(0, 5) == 0:        # target dtype other than complex128: what Wavefront.intensity uses (float64), and the refusals
        c['tdtype'] = ('float64', 'float64', 'float32', 'int64', 'complex64')[int(rng.integers(0, 5))]
        if c['tdtype'].startswith('float') and rng.integers(0, 3): c['intensity'] = True
    return c

def _target(c):
    """the target array of an insert case: complex128 unless `tdtype` says otherwise (then the real part of the data, cast)"""
    a = np_data(c['out'])
    dt = c.get('tdtype')
    if dt is None: return a.copy()
    return a.astype(dt) if dt.startswith('complex') else np.real(a).astype(dt)

def _det_field(shape, off, k=0):
    """deterministic Gaussian-integer data with all samples distinct and non-zero"""
    n = shape[0] * shape[1]
    return {'shape': list(shape), 'off': [int(off[0]), int(off[1])], 're': [1 + i + k for i in range(n)], 'im': [(-1) ** i * (2 + i) for i in range(n)]}

def exhaustive_inserts():
    """every insert with field shape <= 3x3, offset in [-4,4]^2 and target shape <= 4x4 (thorough tier)"""
    out = []
    n = 0
    for h in range(1, 4):
        for w in range(1, 4):
            for S0 in range(1, 5):
                for S1 in range(1, 5):
                    o = _det_field((S0, S1), (0, 0), 7)
                    for r in range(-4, 5):
                        for c in range(-4, 5):
                            n += 1
                            out.append({'kind': 'insert', 'field': _det_field((h, w), (r, c)), 'out': o,
                                        'weight': 1 + n % 3, 'intensity': n % 5 == 0, 'exh': True})
    return out

def exhaustive_extents():
    """all extent pairs a = shape <= 5x5 at the origin, b = shape <= 5x5 at offset in [-6,6]^2, plus the same b against four
    shifted copies of a for shapes <= 3 (thorough tier)"""
    out = []
    shapes = [(a, b) for a in range(1, 6) for b in range(1, 6)]
    offs = [(r, c) for r in range(-6, 7) for c in range(-6, 7)]
    for sa in shapes:
        ea = list(ext_of(sa, (0, 0)))
        for sb in shapes:
            for ob in offs:
                out.append({'kind': 'extent', 'a': ea, 'b': list(ext_of(sb, ob)), 'sa': list(sb), 'oa': list(ob), 'exh': True})
    small = [(a, b) for a in range(1, 4) for b in range(1, 4)]
    for oa in ((-5, 2), (3, -4), (-1, -1), (6, 6)):
        for sa in small:
            ea = list(ext_of(sa, oa))
            for sb in small:
                for ob in offs:
                    out.append({'kind': 'extent', 'a': ea, 'b': list(ext_of(sb, ob)), 'sa': list(sa), 'oa': list(oa), 'exh': True})
    return out

def signature(c):
    k = c['kind']
    if k == 'extent': return f"extent {c['a']} {c['b']}"
    if k == 'mul': return f"mul {c['a']['shape']}@{c['a']['off']} {c['b']['shape']}@{c['b']['off']}"
    if k == 'chain': return f"chain {c['then']} {c['a']['shape']}@{c['a']['off']} {c['b']['shape']}@{c['b']['off']} " + ' '.join(f"{f['shape']}@{f['off']}" for f in c['cs']) + (f" -> {c['out']['shape']}" if 'out' in c else '')
    if k == 'insert_nd': return f"insert_nd {c['field']['shape']}@{c['field']['off']} -> {c['out']['shape']} i={c['intensity']}"
    if k in ('merge', 'reduce', 'boundary', 'overlap'): return k + ' ' + ' '.join(f"{f['shape']}@{f['off']}" for f in c['fields'])
    if k == 'merge_public': return f"merge_public {c['enforce']} {c.get('ps')} " + ' '.join(f"{f['shape']}@{f['off']}" for f in c['fields'])
    return f"insert {c['field']['shape']}@{c['field']['off']} -> {c['out']['shape']} i={c['intensity']}"

def _overlap(ea, eb):
    return ea[0] <= eb[1] and ea[1] >= eb[0] and ea[2] <= eb[3] and ea[3] >= eb[2]

def nontrivial(c):
    k = c['kind']
    if k == 'extent': return c['a'] != c['b']
    if k in ('mul', 'chain', 'insert_nd'):
        return True
    if k in ('merge', 'reduce', 'boundary', 'overlap', 'merge_public'): return len(c['fields']) > 1
    f, o = c['field'], c['out']
    return not (f['shape'] == o['shape'] and f['off'] == [0, 0])

def tags(c):
    k = c['kind']
    t = [k]
    if k == 'mul':
        sa, sb = c['a']['shape'], c['b']['shape']
        one = lambda s: len(s) < 2 or s == [1, 1]
        t.append('mul:' + ('scalar*scalar' if one(sa) and one(sb) else 'scalar*array' if one(sa) or one(sb) else 'array*array'))
        if not _overlap(ext_of(sa, c['a']['off']), ext_of(sb, c['b']['off'])): t.append('mul:disjoint')
    if k == 'chain':
        t.append('chain:' + c['then'])
        pe = _ref_mul(c['a'], c['b'])
        if pe is not None and _is_one(pe) and not (_is_one(c['a']) and _is_one(c['b'])): t.append('chain:one-pixel-product')
        if not _overlap(ext_of(c['a']['shape'], c['a']['off']), ext_of(c['b']['shape'], c['b']['off'])) and not (_is_one(c['a']) != _is_one(c['b'])): t.append('chain:empty-product')
        if _is0d(c['a']) and _is0d(c['b']): t.append('chain:0d-product')
    if k == 'insert_nd': t.append('insert_nd:0d-target' if c['out']['shape'] == [] else 'insert_nd:1d-target')
    if k == 'mul' and c.get('tilt'): t.append('mul:with-tilt')
    if k == 'insert':
        f, o = c['field'], c['out']
        e = ext_of(f['shape'], f['off']); te = ext_of(o['shape'], (0, 0))
        if not _overlap(e, te):
            t.append('insert:outside')
            if e[1] < te[0]: t.append('insert:outside-top')
            if e[0] > te[1]: t.append('insert:outside-bottom')
            if e[3] < te[2]: t.append('insert:outside-left')
            if e[2] > te[3]: t.append('insert:outside-right')
        elif e[0] >= te[0] and e[1] <= te[1] and e[2] >= te[2] and e[3] <= te[3]:
            t.append('insert:inside')
            if f['shape'] == o['shape'] and f['off'] == [0, 0]: t.append('insert:identical')
        else:
            t.append('insert:clipped')
            sides = [nm for nm, cond in (('top', e[0] < te[0]), ('bottom', e[1] > te[1]), ('left', e[2] < te[2]), ('right', e[3] > te[3])) if cond]
            t += ['insert:clip-' + nm for nm in sides]
            if len(sides) > 1: t.append('insert:clip-multi')
    if k == 'boundary':
        es = [ext_of(f['shape'], f['off']) for f in c['fields']]
        if max(e[1] for e in es) < 0 or max(e[3] for e in es) < 0: t.append('boundary:negative-side')
    if k in ('merge', 'reduce', 'overlap', 'merge_public') and (max(ext_of(f['shape'], f['off'])[1] for f in c['fields']) < 0 or max(ext_of(f['shape'], f['off'])[3] for f in c['fields']) < 0): t.append(k + ':negative-side')
    if k == 'reduce': t.append(f"reduce:n={len(c['fields'])}" if len(c['fields']) <= 6 else 'reduce:n>6')
    if k in ('merge', 'reduce', 'merge_public', 'overlap'):
        fs = c['fields']; es = [ext_of(f['shape'], f['off']) for f in fs]
        if any(len(f['shape']) < 2 for f in fs): t.append(k + ':has-0d')
        if sum(e == (0, 0, 0, 0) for e in es) >= 2:
            t.append(k + ':origin-ones>=2')
            if sum(e == (0, 0, 0, 0) and not _is0d(f) for e, f in zip(es, fs)) >= 1: t.append(k + ':origin-1x1-array')
        if len(fs) > 1:
            box = (min(e[0] for e in es), max(e[1] for e in es), min(e[2] for e in es), max(e[3] for e in es))
            if es[0] == box: t.append(k + ':first-spans-box')
            if len(set(es)) < len(es): t.append(k + ':identical-extents')
    if k == 'merge_public':
        t.append('merge_public:enforce' if c['enforce'] else 'merge_public:no-enforce')
        if not _overlap(*[ext_of(f['shape'], f['off']) for f in c['fields']]): t.append('merge_public:disjoint')
        if c.get('ps') and c['ps'][0] != c['ps'][1]: t.append('merge_public:pixelscale-differs')
    if k == 'overlap': t.append('overlap:n=2' if len(c['fields']) == 2 else 'overlap:n!=2')
    if k == 'insert' and len(c['field']['shape']) < 2: t.append('insert:0d-field')
    if k == 'insert' and c.get('tdtype'): t.append('insert:target-' + c['tdtype'] + (':intensity' if c['intensity'] else ':field'))
    if c.get('ext'): t.append('extreme:' + c['ext'])
    for f in _case_fields(c):
        if f.get('ot', 'list') != 'list': t.append('offset-type:' + f['ot'])
    if k in ('reduce', 'overlap') and len(c['fields']) > 32: t.append(k + ':n>32')
    if k in ('reduce', 'overlap') and len(c['fields']) > 1000: t.append(k + ':n>1000')
    return t

# ------------------------------------------------------------------------------------------ implementation
_OTYPES = ('list', 'tuple', 'ndarray', 'np64', 'float', 'list')

def _offset_as(off, ot):
    """the same integer offset in the container types callers really pass: list (default), tuple (what intersection_shift and
    _merge_offset return), ndarray, list of np.int64, list of integral floats"""
    if ot == 'tuple': return (int(off[0]), int(off[1]))
    if ot == 'ndarray': return np.array([int(off[0]), int(off[1])])
    if ot == 'np64': return [np.int64(off[0]), np.int64(off[1])]
    if ot == 'float': return [float(off[0]), float(off[1])]       # integral values only: non-integer offsets are outside the interface
    return [int(off[0]), int(off[1])]

def _F(f, ps=None):
    import lentil
    from lentil.field import Field
    if f.get('ot') == 'default':     # Field.__init__'s default: no offset argument at all (only drawn for fields at [0, 0])
        assert list(f['off']) == [0, 0]
        return Field(np_data(f), pixelscale=ps)
    return Field(np_data(f), pixelscale=ps, offset=_offset_as(f['off'], f.get('ot', 'list')))

def _case_fields(c):
    out = [c[k] for k in ('a', 'b', 'field') if isinstance(c.get(k), dict) and 'off' in c[k]]
    for k in ('fields', 'cs'): out += list(c.get(k) or [])
    return out

def _vary_offset_types(cases, rng):
    """the container type of every field's offset is drawn too (the value is the same): half of the fields keep a list"""
    for c in cases:
        for f in _case_fields(c):
            if rng.integers(0, 2): f['ot'] = _OTYPES[int(rng.integers(0, len(_OTYPES)))]
            if list(f['off']) == [0, 0] and rng.integers(0, 2): f['ot'] = 'default'    # built as Field(data): offset left to __init__'s default
    return cases

def _snap(Fs):
    """byte-exact snapshot of operand fields: data bytes/shape/dtype, offset, cached extent"""
    return [(F.data.tobytes(), F.data.shape, F.data.dtype.str, [int(x) for x in F.offset], tuple(int(v) for v in F.extent)) for F in Fs]

def _aliased(results, Fs):
    """a result that is not itself one of the operand objects must not share memory with an operand"""
    return any(np.shares_memory(R.data, F.data) for R in results if not any(R is F for F in Fs) for F in Fs)

def _fields_out(results):
    """observables of result fields: data/offset, cached extent, and the empty-product object as it really is"""
    out = {'fields': [field_json(x) for x in results if x.size > 0],
           'extents': [[int(v) for v in x.extent] for x in results if x.size > 0]}
    emp = [x for x in results if x.size == 0]
    if emp: out['empty'] = [{'shape': list(x.shape), 'offset': [int(v) for v in x.offset], 'extent': [int(v) for v in x.extent]} for x in emp]
    return out

def _run_twice(op, Fs):
    """run `op(Fs)` twice on the SAME operand objects; report the first result, whether operands stayed byte-identical,
    whether a result aliases an operand, and whether the second call gave the same answer"""
    before = _snap(Fs)
    def call():
        try:
            r = op(Fs); r = list(r) if isinstance(r, (list, tuple)) else [r]
            return r, None
        except Exception as e:
            return None, {'exc': type(e).__name__, 'msg': str(e)[:200]}
    r1, e1 = call()
    mutated1 = _snap(Fs) != before
    aliased = bool(r1) and _aliased(r1, Fs)
    o1 = _fields_out(r1) if r1 is not None else e1
    r2, e2 = call()
    o2 = _fields_out(r2) if r2 is not None else e2
    side = {'mutated': mutated1 or _snap(Fs) != before, 'aliased': aliased,
            'repeat_equal': (o1 == o2) if r1 is not None and r2 is not None else ((e1 or {}).get('exc') == (e2 or {}).get('exc'))}
    res = dict(o1); res['side'] = side
    if r1 is not None: res['pixelscale'] = [x.pixelscale for x in r1]
    return res

def _arr_json(a):
    rnd = lambda x: int(round(x)) if abs(x - round(x)) < 1e-9 else float(x)   # |z**2| goes through hypot: integer up to an ulp
    re, im = np.real(a).ravel(), np.imag(a).ravel()
    return {'shape': list(a.shape), 're': [rnd(x) for x in re], 'im': [rnd(x) for x in im]}

def impl(c):
    vlib.import_lentil()
    import lentil.extent as X, lentil.field as LF
    k = c['kind']
    try:
        if k == 'extent':
            a, b = tuple(c['a']), tuple(c['b'])
            sl = X.intersection_slices(a, b)
            return {'intersect': bool(X.intersect(a, b)), 'extent': [int(x) for x in X.intersection_extent(a, b)],
                    'shape': [int(x) for x in X.intersection_shape(a, b)],
                    'slices': [int(x) for s in (sl[0][0], sl[0][1], sl[1][0], sl[1][1]) for x in (s.start, s.stop)],
                    'shift': [int(x) for x in X.intersection_shift(a, b)], 'center_a': [int(x) for x in X.array_center(a)],
                    'array_extent': [int(x) for x in X.array_extent(tuple(c['sa']), tuple(c['oa']))],
                    'field_extent': [int(x) for x in (LF.Field(np.zeros(tuple(c['sa']))) if list(c['oa']) == [0, 0] and c['a'][0] % 2 == 0
                                                      else LF.Field(np.zeros(tuple(c['sa'])), offset=list(c['oa']))).extent]}
        if k == 'mul':
            Fa, Fb = _F(c['a']), _F(c['b'])
            if c.get('tilt'):
                Fa.tilt = [object() for _ in range(c['tilt'][0])]; Fb.tilt = [object() for _ in range(c['tilt'][1])]
                ta, tb = list(Fa.tilt), list(Fb.tilt)
            res = _run_twice(lambda Fs: Fs[0] * Fs[1], [Fa, Fb])
            if c.get('tilt') and 'exc' not in res:
                r = Fa * Fb
                res['tilt_ok'] = len(r.tilt) == len(ta) + len(tb) and all(x is y for x, y in zip(r.tilt, ta + tb)) and Fa.tilt == ta and Fb.tilt == tb
            return res
        if k == 'chain':
            def op(Fs):
                p = Fs[0] * Fs[1]
                if p.size == 0:
                    if c['then'] == 'reduce': return LF.reduce(Fs[2:])
                    return []
                if c['then'] == 'mul': return p * Fs[2]
                if c['then'] == 'merge': return LF._merge([p] + Fs[2:])
                if c['then'] == 'reduce': return LF.reduce([p] + Fs[2:])
            Fs = [_F(c['a']), _F(c['b'])] + [_F(f) for f in c['cs']]
            if c['then'] != 'insert': return _run_twice(op, Fs)
            out = np_data(c['out']).copy(); out0 = out.copy(); before = _snap(Fs)
            p = Fs[0] * Fs[1]
            res = {'dropped': p.size == 0, 'p0d': p.data.ndim == 0}
            try:
                r = LF.insert(p, out, intensity=c['intensity'], weight=c['weight']) if p.size else out
            except Exception as e:
                return {'exc': type(e).__name__, 'msg': str(e)[:200], 'p0d': p.data.ndim == 0, 'target_untouched': bool(np.array_equal(out, out0)),
                        'side': {'mutated': _snap(Fs) != before}}
            res.update({'out': _arr_json(out), 'same_object': r is out, 'side': {'mutated': _snap(Fs) != before}})
            return res
        if k == 'insert_nd':
            out = np_data(c['out']).copy(); out0 = out.copy()
            Ff = _F(c['field']); before = _snap([Ff])
            try:
                r = LF.insert(Ff, out, intensity=c['intensity'], weight=c['weight'])
            except Exception as e:
                return {'exc': type(e).__name__, 'msg': str(e)[:200], 'target_untouched': bool(np.array_equal(out, out0)),
                        'side': {'mutated': _snap([Ff]) != before}}
            return {'out': _arr_json(out), 'same_object': r is out, 'returned_equal': bool(np.array_equal(r, out)), 'side': {'mutated': _snap([Ff]) != before}}
        if k == 'boundary':
            Fs = [_F(f) for f in c['fields']]; before = _snap(Fs)
            return {'extent': [int(x) for x in LF.boundary(Fs)], 'side': {'mutated': _snap(Fs) != before}}
        if k == 'merge':
            return _run_twice(lambda Fs: LF._merge(Fs), [_F(f) for f in c['fields']])
        if k == 'merge_public':
            ps = c.get('ps') or [None, None]
            return _run_twice(lambda Fs: LF.merge(Fs[0], Fs[1], enforce_overlap=c['enforce']),
                              [_F(c['fields'][0], ps[0]), _F(c['fields'][1], ps[1])])
        if k == 'reduce':
            return _run_twice(lambda Fs: LF.reduce(Fs), [_F(f) for f in c['fields']])
        if k == 'overlap':
            Fs = [_F(f) for f in c['fields']]; before = _snap(Fs)
            r1 = LF.overlap(Fs); m = _snap(Fs) != before; r2 = LF.overlap(tuple(Fs))
            return {'overlap': bool(r1), 'is_bool': isinstance(r1, (bool, np.bool_)),
                    'side': {'mutated': m or _snap(Fs) != before, 'repeat_equal': bool(r1) == bool(r2)}}
        if k == 'insert':
            out = _target(c); out0 = out.copy()
            Ff = _F(c['field']); before = _snap([Ff])
            rnd = lambda x: int(round(x)) if abs(x - round(x)) < 1e-9 else float(x)   # |z**2| goes through hypot: integer up to an ulp
            def arr(a):
                re, im = np.real(a).ravel(), np.imag(a).ravel()
                return {'shape': list(a.shape), 're': [rnd(x) for x in re], 'im': [rnd(x) for x in im]}
            try:
                r = LF.insert(Ff, out, intensity=c['intensity'], weight=c['weight'])
            except Exception as e:
                return {'exc': type(e).__name__, 'msg': str(e)[:200], 'target_untouched': bool(np.array_equal(out, out0)),
                        'side': {'mutated': _snap([Ff]) != before}}
            res = {'out': arr(out), 'returned': arr(r), 'same_object': r is out, 'dtype': out.dtype.name,
                   'side': {'mutated': _snap([Ff]) != before, 'aliased': bool(np.shares_memory(out, Ff.data))}}
            # same field object into a fresh copy of the target: same increment
            out2 = out0.copy(); LF.insert(Ff, out2, intensity=c['intensity'], weight=c['weight'])
            res['side']['repeat_equal'] = _arr_json(out2) == _arr_json(out)     # |z|^2 goes through hypot: compare up to the ulp-rounding _arr_json removes
            return res
    except Exception as e:
        return {'exc': type(e).__name__, 'msg': str(e)[:200]}

def _zf(f):
    g = to_model_field(f); g['zd'] = len(f['shape']) < 2
    return g

def _is0d(f): return len(f['shape']) < 2

def requests(c, io):
    k = c['kind']
    if k == 'extent':
        return [{'op': 'extent.pair', 'a': c['a'], 'b': c['b']}, {'op': 'extent.array_extent', 'shape': c['sa'], 'shift': c['oa']}]
    if k == 'mul': return [{'op': 'field.mul', 'a': to_model_field(c['a']), 'b': to_model_field(c['b'])},
                           {'op': 'field.mulz', 'a': _zf(c['a']), 'b': _zf(c['b'])}]
    if k == 'chain':
        r = {'op': 'field.chain', 'a': _zf(c['a']), 'b': _zf(c['b']), 'then': c['then'], 'cs': [_zf(f) for f in c['cs']]}
        if c['then'] == 'insert': r.update({'out': c['out'], 'weight': c['weight'], 'intensity': c['intensity']})
        return [r]
    if k == 'insert_nd': return []
    if k == 'boundary': return [{'op': 'field.boundary', 'fields': [to_model_field(f) for f in c['fields']]}]
    if k == 'merge': return [{'op': 'field.mergez', 'fields': [_zf(f) for f in c['fields']]}]
    if k == 'merge_public':
        if c.get('ps') and c['ps'][0] != c['ps'][1]: return []          # pixelscale guard: not in the model, see compare
        return [{'op': 'field.merge_public', 'a': _zf(c['fields'][0]), 'b': _zf(c['fields'][1]), 'enforce': c['enforce']}]
    if k in ('reduce', 'overlap') and len(c['fields']) > 200: return []   # the interpreted model scans n^2 pairs per merge
    if k == 'reduce':
        r = [{'op': 'field.reducez', 'fields': [_zf(f) for f in c['fields']]}]
        if not any(_is0d(f) for f in c['fields']):                       # the plain-array model must agree wherever it answers
            r.append({'op': 'field.reduce', 'fields': [to_model_field(f) for f in c['fields']]})
        return r
    if k == 'overlap': return [{'op': 'field.overlap', 'fields': [to_model_field(f) for f in c['fields']]}]
    if _is0d(c['field']): return []                                     # insert of 0-d data: refused by the implementation
    if c.get('tdtype') not in (None, 'complex64'): return []           # real/integer targets: NumPy casting, judged by the oracle only
    return [{'op': 'field.insert', 'field': to_model_field(c['field']), 'out': c['out'], 'weight': c['weight'], 'intensity': c['intensity']}]

def _is_one(f): return len(f['shape']) < 2 or list(f['shape']) == [1, 1]

def _same_fields(c, A, B):
    """compare two field lists as observables: number of fields and their summed embedding on a canvas"""
    if len(A) != len(B): return f'{len(A)} fields vs {len(B)}'
    box = box_of([A, B])
    if not np.array_equal(canvas(A, box), canvas(B, box)): return 'embeddings differ'
    return None

def compare(c, io, mo):
    k = c['kind']
    if k == 'insert' and _is0d(c['field']):
        return None if io.get('exc') == 'ValueError' else 'insert of a 0-d field: implementation did not refuse with ValueError'
    if k == 'insert' and c.get('tdtype') not in (None, 'complex64'): return None
    if k in ('reduce', 'overlap') and not mo: return None               # > 200 fields: too slow for the interpreted model, oracle only
    if k == 'insert_nd': return None                                   # outside the model (2-D targets only); judged by the oracle
    if k == 'merge_public' and not mo:
        return None if io.get('exc') == 'ValueError' else 'merge of fields with different pixelscale: implementation did not refuse with ValueError'
    m = mo[0]
    if 'exc' in io:
        if m.get('ok'): return f"implementation raised {io['exc']}, model answered"
        return None if m.get('err') == io['exc'] else f"implementation raised {io['exc']}, model {m.get('err')}"
    if not m.get('ok'): return f"model refused ({m.get('err')}), implementation answered"
    if k == 'extent':
        for key in ('intersect', 'extent', 'slices', 'shift', 'center_a'):
            if key in ('slices', 'shift') and not io['intersect']: continue
            if io[key] != m[key]: return f'{key}: impl {io[key]} model {m[key]}'
        if io['shape'] != m['shape']: return f"shape: impl {io['shape']} model {m['shape']}"
        if io['array_extent'] != mo[1]['extent']: return f"array_extent: impl {io['array_extent']} model {mo[1]['extent']}"
        if io['field_extent'] != mo[1]['extent']: return f"Field.extent: impl {io['field_extent']} model {mo[1]['extent']}"
        return None
    if k == 'boundary':
        return None if io['extent'] == m['extent'] else f"boundary: impl {io['extent']} model {m['extent']}"
    if k == 'overlap':
        return None if io['overlap'] == m['overlap'] else f"overlap: impl {io['overlap']} model {m['overlap']}"
    if k == 'chain' and c['then'] == 'insert':
        if io['dropped'] != m['dropped']: return f"empty product: impl {io['dropped']} model {m['dropped']}"
        return None if io['out'] == {kk: m['out'][kk] for kk in ('shape', 're', 'im')} else 'inserted arrays differ'
    if k in ('mul', 'merge', 'merge_public', 'reduce', 'chain'):
        d = _same_fields(c, io['fields'], m['fields'])
        if d: return d
        if k == 'mul':
            mz = mo[1]
            d = _same_fields(c, io['fields'], mz['fields'])
            if d: return '0-d aware product: ' + d
            for x, y in zip(io['fields'], mz['fields']):
                if _is0d(x) != bool(y.get('zd')): return f"0-d-ness of the product differs: impl shape {x['shape']} model zd={y.get('zd')}"
        key = lambda f: (f['off'], f['shape'] if len(f['shape']) == 2 else [1, 1])
        if k != 'mul':
            # per-field comparison (same grouping), and the same fields are 0-d
            for x, y in zip(sorted(io['fields'], key=key), sorted(m['fields'], key=key)):
                if _same_fields(c, [x], [y]): return 'grouping differs'
                if _is0d(x) != bool(y.get('zd')): return f"0-d-ness differs: impl shape {x['shape']} model zd={y.get('zd')}"
        if k == 'reduce' and len(mo) > 1:
            m2 = mo[1]
            if m2.get('ok'):
                d = _same_fields(c, m['fields'], m2['fields'])
                if d: return 'plain-array model and 0-d aware model: ' + d
            elif not any(ext_of(f['shape'], f['off']) == (0, 0, 0, 0) for f in c['fields']):
                return 'plain-array model refuses where the 0-d aware model answers'
        return None
    if io['out'] != {kk: m['out'][kk] for kk in ('shape', 're', 'im')}: return 'inserted arrays differ'
    return None

# ------------------------------------------------------------------------------------------ oracle (real code only)
def _side(k, io):
    """operands byte-identical afterwards, result shares no memory with an operand, same call twice = same answer"""
    sd = io.get('side') or {}
    if sd.get('mutated'): return f'{k} modified an operand (data/offset/extent not byte-identical afterwards)'
    if sd.get('aliased'): return f'{k}: the result shares memory with an operand'
    if sd.get('repeat_equal') is False: return f'{k}: the same call on the same operands gave a different answer the second time'
    return None

def _ref_groups(es):
    """independent re-statement of the grouping of reduce/overlap: repeatedly merge the first pair (in combinations order) of
    groups whose boxes intersect; a merged box is the bounding box of its members"""
    gs = [([e], e) for e in es]
    while True:
        for m, n in itertools.combinations(range(len(gs)), 2):
            if _overlap(gs[m][1], gs[n][1]):
                mem = gs[m][0] + gs[n][0]
                box = (min(e[0] for e in mem), max(e[1] for e in mem), min(e[2] for e in mem), max(e[3] for e in mem))
                gs[m] = (mem, box); gs.pop(n); break
        else:
            return gs

def _val(f): return complex(np_data(f).ravel()[0])

def _mk(shape, off, arr):
    arr = np.asarray(arr, dtype=complex).ravel()
    return {'shape': list(shape), 'off': [int(off[0]), int(off[1])], 're': [int(round(x.real)) for x in arr], 'im': [int(round(x.imag)) for x in arr]}

def _ref_mul(x, y):
    """independent re-statement of the product of two fields as a field (None = empty): one-element operand = constant that
    inherits the other's place; two one-element operands multiply only at equal offsets; the data is 0-d iff both are"""
    if _is_one(x) and _is_one(y):
        if x['off'] != y['off']: return None
        return _mk([] if _is0d(x) and _is0d(y) else [1, 1], x['off'], [_val(x) * _val(y)])
    if _is_one(x): return _mk(y['shape'], y['off'], np_data(y) * _val(x))
    if _is_one(y): return _mk(x['shape'], x['off'], np_data(x) * _val(y))
    ex, ey = ext_of(x['shape'], x['off']), ext_of(y['shape'], y['off'])
    if not _overlap(ex, ey): return None
    box = (max(ex[0], ey[0]), min(ex[1], ey[1]), max(ex[2], ey[2]), min(ex[3], ey[3]))
    d = canvas([x], box) * canvas([y], box)
    return _mk(d.shape, (box[0] + d.shape[0] // 2, box[2] + d.shape[1] // 2), d)

def _oracle_chain(c, io):
    p = _ref_mul(c['a'], c['b'])
    cs = c['cs']; nxt = c['then']
    if nxt == 'insert':
        if p is not None and _is0d(p):
            if io.get('exc') != 'ValueError': return 'insert of a 0-d product did not refuse with ValueError'
            return None if io.get('target_untouched') else 'refused insert modified the target'
        if 'exc' in io: return f"chain product->insert raised {io['exc']}: {io.get('msg')}"
        if io['dropped'] != (p is None): return f"product empty = {io['dropped']}, reference says {p is None}"
        if not io['same_object']: return 'insert did not return the array it was given'
        S0, S1 = c['out']['shape']
        box = (-(S0 // 2), -(S0 // 2) + S0 - 1, -(S1 // 2), -(S1 // 2) + S1 - 1)
        e = canvas([p] if p is not None else [], box)
        add = ((e.real ** 2 + e.imag ** 2) if c['intensity'] else e) * c['weight']
        return None if np.array_equal(np_data(io['out']), np_data(c['out']) + add) else 'product->insert did not add the part of (emb a · emb b) inside the array'
    if nxt == 'mul':
        want = [q for q in [_ref_mul(p, cs[0]) if p is not None else None] if q is not None]
    elif nxt == 'merge':
        want = None if p is None else [p] + cs
    else:
        want = ([p] if p is not None else []) + cs
    if 'exc' in io: return f"chain product->{nxt} raised {io['exc']}: {io.get('msg')}"
    if want is None: return None if io['fields'] == [] else 'empty product was not dropped'
    box = box_of([want, io['fields'], [c['a'], c['b']]])
    if not np.array_equal(canvas(io['fields'], box), canvas(want, box)): return f'product->{nxt}: result is not the {"product" if nxt == "mul" else "sum"} of the embeddings'
    if nxt == 'mul' and len(io['fields']) != len(want): return 'product->mul: emptiness differs from the reference'
    if nxt == 'reduce':
        for x, y in itertools.combinations(io['extents'], 2):
            if _overlap(x, y): return f'reduced fields overlap: {x} {y}'
        if len(io['fields']) != len(_ref_groups([ext_of(f['shape'], f['off']) for f in want])): return 'product->reduce: number of fields differs from the reference grouping'
    return None

def oracle(c, io):
    """the property's own statement evaluated on the implementation's result, with an independent reference"""
    k = c['kind']
    sd = _side(k, io)
    if sd: return sd
    if k == 'chain':
        if 'fields' in io:
            for f, e in zip(io['fields'], io['extents']):
                if list(ext_of(f['shape'], f['off'])) != e: return 'chain: cached extent of a result differs from its shape/offset'
        return _oracle_chain(c, io)
    if k == 'insert_nd':
        f, o = c['field'], c['out']
        if _is0d(f) and o['shape'] == [] and f['off'] == [0, 0]:
            # the one supported non-2-D case (Wavefront.field on a fresh wavefront): 0-d into 0-d at the origin
            if 'exc' in io: return f"insert of a 0-d field into a 0-d target raised {io['exc']}: {io.get('msg')}"
            if not io['same_object']: return 'insert did not return the array it was given'
            v = _val(f); add = ((v.real ** 2 + v.imag ** 2) if c['intensity'] else v) * c['weight']
            return None if complex(np_data(io['out']).ravel()[0]) == _val(o) + add else 'insert 0-d into 0-d did not add the value'
        # everything else with a 0-d / 1-D target is outside the documented interface: it must refuse and leave the target alone
        if 'exc' not in io: return f"insert into a {len(o['shape'])}-d target answered instead of refusing"
        return None if io.get('target_untouched') else 'refused insert modified the target'
    if k == 'mul' and io.get('tilt_ok') is False: return "product does not carry the operands' tilt lists (self.tilt + other.tilt)"
    if k == 'extent':
        if 'exc' in io: return f"extent query raised {io['exc']}"
        a, b = c['a'], c['b']
        pa = {(r, q) for r in range(a[0], a[1] + 1) for q in range(a[2], a[3] + 1)}
        pb = {(r, q) for r in range(b[0], b[1] + 1) for q in range(b[2], b[3] + 1)}
        common = pa & pb
        if io['intersect'] != bool(common): return f'overlap test {io["intersect"]} but common pixels = {len(common)}'
        if common:
            rs = [p[0] for p in common]; cs = [p[1] for p in common]
            bb = [min(rs), max(rs), min(cs), max(cs)]
            if io['extent'] != bb: return f'intersection extent {io["extent"]} != bounding box of common pixels {bb}'
            if io['shape'] != [bb[1] - bb[0] + 1, bb[3] - bb[2] + 1]: return f'intersection shape {io["shape"]}'
            if list(ext_of(io['shape'], io['shift'])) != bb: return f'shape+shift {io["shape"]},{io["shift"]} do not rebuild {bb}'
            s = io['slices']
            if [a[0] + s[0], a[0] + s[1] - 1, a[2] + s[2], a[2] + s[3] - 1] != bb: return 'slice of a does not address the common pixels'
            if [b[0] + s[4], b[0] + s[5] - 1, b[2] + s[6], b[2] + s[7] - 1] != bb: return 'slice of b does not address the common pixels'
        else:
            if io['shape'] != []: return f'disjoint extents but shape {io["shape"]}'
        if io['array_extent'] != list(ext_of(c['sa'], c['oa'])): return f'array_extent {io["array_extent"]}'
        if io['field_extent'] != list(ext_of(c['sa'], c['oa'])): return f'the extent cached by Field.__init__ {io["field_extent"]} is not the pixel set of its data {list(ext_of(c["sa"], c["oa"]))}'
        ca = io['center_a']
        if list(ext_of((a[1] - a[0] + 1, a[3] - a[2] + 1), ca)) != a: return f'centre {ca} does not rebuild the extent'
        return None
    if k == 'boundary':
        if 'exc' in io: return f"boundary raised {io['exc']}: {io.get('msg')}"
        es = [ext_of(f['shape'], f['off']) for f in c['fields']]
        px = [(r, q) for e in es for r in (e[0], e[1]) for q in (e[2], e[3])]
        # the bounding box of the occupied pixels, wherever they lie (the property's clause; boundary_is_bbox)
        exact = [min(p[0] for p in px), max(p[0] for p in px), min(p[1] for p in px), max(p[1] for p in px)]
        return None if io['extent'] == exact else f"boundary {io['extent']} is not the bounding box {exact} of the fields' pixels"
    if k == 'overlap':
        if 'exc' in io: return f"overlap raised {io['exc']}: {io.get('msg')}"
        if not io['is_bool']: return 'overlap did not return a bool'
        es = [ext_of(f['shape'], f['off']) for f in c['fields']]
        if len(es) == 2:
            want = bool({(r, q) for r in range(es[0][0], es[0][1] + 1) for q in range(es[0][2], es[0][3] + 1)} &
                        {(r, q) for r in range(es[1][0], es[1][1] + 1) for q in range(es[1][2], es[1][3] + 1)})
        else:
            want = len(_ref_groups(es)) <= 1
        return None if io['overlap'] == want else f'overlap of {len(es)} fields is {io["overlap"]}, reference says {want}'
    # cached extent of every (non-empty) result field must be the extent of its shape and offset
    if 'fields' in io:
        for f, e in zip(io['fields'], io['extents']):
            if list(ext_of(f['shape'], f['off'])) != e: return f'{k}: cached extent {e} of a result differs from its shape/offset'
    if k == 'mul':
        a, b = c['a'], c['b']
        if 'exc' in io: return f"product raised {io['exc']}: {io.get('msg')}"
        if _is_one(a) and _is_one(b):
            if a['off'] != b['off']:
                return None if io['fields'] == [] else 'two one-element fields at different offsets gave a non-empty product'
            want = np_data(a).ravel()[0] * np_data(b).ravel()[0]
            got = np_data(io['fields'][0]).ravel()[0] if io['fields'] else None
            return None if got == want else f'scalar product {got} != {want}'
        box = box_of([[a, b], io['fields']])
        ca = canvas([a], box) if not _is_one(a) else np.full(canvas([b], box).shape, np_data(a).ravel()[0])
        cb = canvas([b], box) if not _is_one(b) else np.full(ca.shape, np_data(b).ravel()[0])
        got = canvas(io['fields'], box)
        if not np.array_equal(got, ca * cb): return 'product is not the pointwise product of the embeddings'
        return None
    if k in ('merge', 'merge_public', 'reduce'):
        fs = c['fields']
        es = [ext_of(f['shape'], f['off']) for f in fs]
        if k == 'merge_public':
            ps = c.get('ps') or [None, None]
            if ps[0] != ps[1]:
                return None if io.get('exc') == 'ValueError' else 'merge of fields with different pixelscale was not refused'
            if c['enforce'] and not _overlap(es[0], es[1]):
                return None if io.get('exc') == 'ValueError' else 'merge(enforce_overlap=True) of non-overlapping fields was not refused'
        if 'exc' in io: return f"{k} raised {io['exc']}: {io.get('msg')}"     # _merge never refuses (also (1,1) arrays at the origin)
        box = box_of([fs, io['fields']])
        if not np.array_equal(canvas(io['fields'], box), canvas(fs, box)): return f'{k} changed the total field'
        if k == 'merge_public' and io.get('pixelscale') != [(c.get('ps') or [None])[0]]: return 'merge lost the pixelscale'
        if k in ('merge', 'merge_public') and len(io['fields']) == 1:
            want0d = all(e == (0, 0, 0, 0) for e in es) and all(_is0d(f) for f in fs)
            if _is0d(io['fields'][0]) != want0d: return f"merged data is {'0-d' if _is0d(io['fields'][0]) else 'an array'}; it must be 0-d exactly when every member is 0-d on the origin pixel"
        if k == 'reduce':
            for x, y in itertools.combinations(io['extents'], 2):
                if _overlap(x, y): return f'reduced fields overlap: {x} {y}'
            if len(io['fields']) != len(_ref_groups(es)): return f"reduce returned {len(io['fields'])} fields, reference grouping has {len(_ref_groups(es))}"
        return None
    # insert
    f, o = c['field'], c['out']
    if _is0d(f):
        # documented scope: insert cannot place 0-d data (it has no shape to index); it must refuse and leave the target alone
        if io.get('exc') != 'ValueError': return 'insert of a 0-d field did not refuse with ValueError'
        return None if io.get('target_untouched') else 'refused insert modified the target'
    dt = c.get('tdtype')
    if dt not in (None, 'complex64'):
        # NumPy casting of `out[...] += …` (same_kind): a real target takes the real-valued intensity term, refuses the complex field
        # term; an integer target refuses both — unless nothing is added at all (field wholly outside: early return)
        hits = _overlap(ext_of(f['shape'], f['off']), ext_of(o['shape'], (0, 0)))
        if hits and (dt.startswith('int') or not c['intensity']):
            if 'exc' not in io: return f'insert of a {"intensity" if c["intensity"] else "complex field"} term into a {dt} target answered instead of refusing'
            if io['exc'] not in ('UFuncTypeError', 'TypeError'): return f"insert into a {dt} target raised {io['exc']}: {io.get('msg')}"
            return None if io.get('target_untouched') else 'refused insert modified the target'
    if 'exc' in io: return f"insert raised {io['exc']}: {io.get('msg')}"
    if not io['same_object']: return 'insert did not return the array it was given'
    if io['returned'] != io['out']: return 'returned array differs from the target array'
    if dt is not None and io.get('dtype') != dt: return f"target dtype changed from {dt} to {io.get('dtype')}"
    S0, S1 = o['shape']
    box = (-(S0 // 2), -(S0 // 2) + S0 - 1, -(S1 // 2), -(S1 // 2) + S1 - 1)
    e = canvas([f], box)
    add = ((e.real ** 2 + e.imag ** 2) if c['intensity'] else e) * c['weight']
    want = (np_data(o) if dt in (None, 'complex64') else np.real(np_data(o))) + add
    got = np_data(io['out'])          # the array that was passed in, not the return value
    if not np.array_equal(got, want): return 'insert did not add exactly the part of the embedding inside the array (target array after the call)'
    return None

def shrink(c):
    """smaller variants of a failing case"""
    k = c['kind']
    if k in ('merge', 'reduce', 'overlap') and len(c['fields']) > 1:
        for i in range(len(c['fields'])):
            d = dict(c); d['fields'] = c['fields'][:i] + c['fields'][i + 1:]; yield d
    if k == 'insert' and c.get('weight') != 1:
        d = dict(c); d['weight'] = 1; yield d
