"""C11 — Zernike modes are the Noll-ordered orthonormal polynomials.

Tie: Model/Zernike.lean (Noll row/position by subtraction, closed-form |m|, literal list construction of zernike_index,
radialCoeff, zernAt = normalisation · radial · azimuthal, zernike_coordinates) is hand-written; compared here with
lentil.zernike.zernike_index for every j <= 861 (thorough: 20 000 contiguous + random j up to 10^6), with lentil.zernike.R through
exact rational evaluation of the model's integer coefficients at dyadic nodes, with lentil.zernike(mask, j, rho=, theta=) on
dyadic nodes and with zernike_coordinates on random masks (model run at Float, tolerance 1e-9 relative to the coefficient scale)."""
import math, numpy as np
from fractions import Fraction
from harness.common import *
import vlib

LEVEL_TEXT = ('Tie: the coefficient formula / guard / term count / exponents of R, the decision tree and leaf products of zernike, the pieces of '
              'zernike_index (row-search argument, k, r, sign, seeds, loop, append step), the default origin of zernike_coordinates, helper.mesh and the block of zernike that decides where (rho, theta) come from (Gen.zernCoordSrc: no rho -> zernike_coordinates(mask), rho without theta -> ValueError, both -> the caller\'s arrays; coordinate_source_dispatch) are '
              're-translated from the source on every run (Gen/ZernikeR, Gen/Mesh); so are angle = (90 - rotate)·pi/180 and the complex argument of theta = np.angle(…) of zernike_coordinates (and the complex argument of r = np.abs(…): Gen.zRadArg, radius_regenerated) (Gen.zAngle, Gen.zThetaArg — the model\'s theta is atan2 of the regenerated imaginary and real part: theta_regenerated), and the centroid the default origin is built from is proved to be the regenerated util.centroid (Gen.centroid) applied to the 0/1 mask (default_centroid_is_regenerated); the body of zernike is now covered statement by statement (cast, coordinate block, index call, tree, return: anything else is refused); the model and the driver are built from them. '
              'Lean 4 theorems: Noll j -> (n, m) is valid (|m| <= n, n-|m| even, even j <-> cosine/+, odd j <-> sine/-) and a bijection '
              'onto the valid (n, m) (explicit inverse, both round trips, all j >= 1); the literal list-and-negative-index code of '
              'zernike_index equals the closed form for every j >= 1 and its row search is the Noll row in exact real arithmetic; '
              'R_n^m(1) = 1 for all n <= 40 and the regenerated coefficient is exact and equals the textbook binomial form (n <= 40; R_n^n = rho^n, R_2^0 = 2rho^2-1); the model\'s mode over R is N * R_n^|m|(rho) * A_m(theta) with N^2 = n+1 or 2(n+1) and '
              'A_m = 1 / cos(m theta) / sin(m theta); the exact rational Gram table equals the radial integrals of the model\'s '
              'polynomials (n, n\' <= 20); angular integrals over a period; and hence ORTHONORMALITY of the model\'s modes: the polar '
              'mean (1/pi) int int Z_j Z_j\' rho drho dtheta — and, by the polar change of variables, the area mean over the unit disk — is 1 if j = j\' else 0 for all pairs among the first 231 modes; the default '
              'origin is the mask centroid (first moments vanish) for any parity/position — UNDER the hypothesis (maskMoments mask).1 != 0 in the scalar field, i.e. a non-empty mask in characteristic 0 (coords_origin_is_centroid); '
              'rho = 1 at a farthest masked sample and <= 1 on the mask — UNDER 0 < zRmax (the farthest masked sample is not the origin itself: this EXCLUDES one-sample masks, the residual known finding) and a square root that reflects order '
              '(rho_one_at_farthest, rho_one_is_farthest); values vanish outside the mask (the regenerated Gen.zernCore selects with the mask since 99180f6); the support-only theorems (depends_on_support_only, support_scale_invariant) are '
              'NEAR-DEFINITIONAL: they say that decide(x != 0) agrees for masks with the same support — the real content, that the code casts the mask to bool before any use, is checked structurally by the translator spec for zernike() ONLY, '
              'for zernike_coordinates it rests on pins and on the comparison on weighted masks. The centroid hypothesis is equivalent to the mask having a sample inside the array (centroid_hypothesis_iff_nonempty), so the origin clause holds for every non-empty mask (coords_origin_is_centroid_of_nonempty); the hypotheses of the coordinate theorems are shown satisfiable on a concrete 2x3 mask over Q (coordinate_theorems_nonvacuous); '
              'the sign convention of the odd modes is a theorem: Z_j = -sqrt2 sqrt(n+1) R sin(|m| theta) for odd j, m != 0 (odd_mode_sign_convention). '
              '|R_n^m| <= 1 on [-1,1] and hence |Z_j| <= 1 on the unit disk without normalisation for n <= 20 (j <= 231): 2^n R_n^m = sum_t W_t T_t with Chebyshev T_t(cos x) = cos tx and '
              'integer weights W_t >= 0 summing to 2^n, weights and coefficient identity decided exactly by the kernel, the inequality proved. '
              'PARTIAL: the bound and orthonormality are for n <= 20 in the quick tier (n <= 40, all 861 modes, in the thorough tier), not for all n.')
LEVEL_NOTE = ('SIGN CONVENTION (of the code, not fixed by the property statement): for odd j with m != 0 the code evaluates sin(m theta) with the NEGATIVE m of zernike_index, i.e. Z_j = -sqrt(2(n+1)) R_n^|m|(rho) sin(|m| theta) — the opposite sign to Noll (1976), e.g. zernike(ones, 3, rho=.5, theta=.3) = -0.2955 where Noll\'s Z3 is +0.2955. The Lean model, the theorems (mode_formula_tie, mode_factorisation) and the harness\'s reference all COPY this sign, so the reference is not independent on this point; orthonormality, the index map and every C12 clause are unaffected by it. Trusted: Lean kernel, float sqrt/cos/sin/atan2 (model run at Float, tolerance 1e-9 x coefficient scale), NumPy semantics of '
              'np.angle/np.abs/np.max as modelled, generator coverage. Known finding KF-C11-nan-outside-mask (narrowed): a one-sample mask gives rho = 0/0 at its sample; non-finite coordinates outside the mask '
              'and the empty mask give 0 (the code selects with the mask). Unproven clauses: |Z| <= 1 unnormalised and orthonormality for 20 < n <= 40 only in the thorough tier, for n > 40 not at all '
              '(sampled by the oracle); the float sqrt/ceil row search of zernike_index beyond the sampled range of j.')
TECHNIQUE = 'Lean 4 proof (omega/induction, Mathlib integrals, decide +kernel exact tables) over translator-regenerated formulas + hand model with differential correspondence'
GEN = ['ZernikeR', 'Mesh', 'Util', 'UtilWindow', 'UtilCentroid', 'UtilRebin', 'Helper', 'Helper20', 'Hex', 'Extent', 'FieldAccum', 'FieldDispatch', 'FieldIdx', 'FieldMerge']      # every Gen module the model, driver and Props import (transitively, through Model/Geometry and Model/Field)
OPS = ['C11']
RULE = ('cases: every Noll index 1..861 (all 41 rows n <= 40) against zernike_index; every valid (n, m) with n <= 40 for the radial '
        'coefficients (exact rational evaluation at dyadic nodes); modes j <= 231 (some to 861) on dyadic (rho, theta) nodes with both '
        'normalisations and non-boolean masks; Gauss-Legendre x uniform-angle quadrature of products of modes j, j\' <= 231 (orthonormality '
        'of the real functions); zernike_coordinates on random masks (even/odd sizes, off-centre blobs, weights incl. values <= 1e-8, explicit shift/rotate), '
        'one-sample and empty masks, non-finite caller coordinates outside the mask; Noll indices at 2^31, 2^32, 1e10 and row boundaries; '
        'refusals (index < 1, rho without theta); the four (rho given?, theta given?) call forms of zernike on off-centre masks with caller coordinates that differ from the default ones (which coordinates were used is observed from the result and compared with the regenerated dispatch); '
        'distinct = canonical (kind, parameters) signature; non-trivial = n >= 2 / mask not symmetric about the array centre')
TRUSTED = ['libm sqrt/cos/sin/atan2 agree with NumPy to 1e-9', 'np.angle = atan2(imag, real), np.abs = hypot, np.max over r*mask as modelled in Model/Zernike.lean']
UNPROVEN = ['|Z_j| <= 1 on the unit disk without normalisation for n > 40: proved for n <= 20 (raw_mode_abs_le_one, exact Chebyshev certificate) and n <= 40 (raw_mode_abs_le_one_40, thorough tier) — a table, not a proof for all n',
            'orthonormality for 20 < n <= 40 is proved (zernike_orthonormal_40) but built and audited only by the THOROUGH tier (the exact integer '
            'Gram table takes ~5 min); the quick tier carries n <= 20']
ASSUMPTIONS = ['zernike(mask, j, theta=...) without rho ignores theta and uses the default coordinates (as coded; proved as the first case of coordinate_source_dispatch, generated, not judged by the oracle)',
               'caller-supplied rho/theta are ndarrays (lists raise AttributeError in R for j > 1: input validation, not judged)',
               'the quantifier "all Noll indices up to a large bound" is carried for all j >= 1 on the index map and for n <= 40 (j <= 861) on the '
               'radial tables; beyond n = 40 the float evaluation of R cancels catastrophically',
               'azimuthal convention as coded: even j -> cos(m theta), odd j -> sin(m theta) with m < 0 (i.e. -sin(|m| theta))']

# ------------------------------------------------------------------------------------------ independent references
def noll_ref(j):
    n = (math.isqrt(8 * j - 7) - 1) // 2
    p = j - n * (n + 1) // 2 - 1
    a = 2 * ((p + 1) // 2) if n % 2 == 0 else 2 * (p // 2) + 1
    return n, (a if j % 2 == 0 else -a)

def radial_ref(n, m, rho):
    """binomial form (independent of the factorial quotient used by the code), exact on Fractions"""
    m = abs(m)
    if (n - m) % 2: return Fraction(0)
    return sum(Fraction((-1) ** k * math.comb(n - k, k) * math.comb(n - 2 * k, (n - m) // 2 - k)) * rho ** (n - 2 * k) for k in range((n - m) // 2 + 1))

def radial_scale(n, m, rho):
    m = abs(m)
    if (n - m) % 2: return 0.0
    return float(sum(math.comb(n - k, k) * math.comb(n - 2 * k, (n - m) // 2 - k) * rho ** (n - 2 * k) for k in range((n - m) // 2 + 1)))

def zern_ref(j, normalize, rho, theta):
    n, m = noll_ref(j)
    R = float(radial_ref(n, m, Fraction(rho)))
    if m == 0: N, ang = math.sqrt(n + 1), 1.0
    elif m > 0: N, ang = math.sqrt(2 * (n + 1)), math.cos(m * theta)
    else: N, ang = math.sqrt(2 * (n + 1)), -math.sin(-m * theta)
    return (N if normalize else 1.0) * R * ang

# ------------------------------------------------------------------------------------------ generation
def _mask(rng, shape, weights=True):
    s0, s1 = shape
    m = np.zeros(shape)
    c = (rng.uniform(0, s0 - 1), rng.uniform(0, s1 - 1)); r = rng.uniform(1.0, max(s0, s1) / 2)
    ii, jj = np.mgrid[0:s0, 0:s1]
    m[(ii - c[0]) ** 2 + (jj - c[1]) ** 2 <= r * r] = 1
    extra = int(rng.integers(0, 4))
    for _ in range(extra): m[int(rng.integers(0, s0)), int(rng.integers(0, s1))] = 1
    if m.sum() < 2: m[0, 0] = 1; m[s0 - 1, s1 - 1] = 1
    if weights and rng.integers(0, 2):
        w = rng.integers(1, 5, shape) * np.array([0.5, -1.0, 2.0, 7.0])[rng.integers(0, 4, shape)]
        m = m * w
    t = rng.integers(0, 6)
    if weights and t == 0: m = m * 1e-9                                   # a weight/amplitude map in nano-scale units
    elif weights and t == 1: m = m * np.array([1.0, 1e-10, -3e-12, 1e-300])[rng.integers(0, 4, shape)]   # ordinary and tiny weights mixed
    return m

def generate(rng, tier):
    out = []
    # ---- index: contiguous blocks
    top = {'quick': 861, 'thorough': 20000, 'search': 861}[tier]
    a = 1
    while a <= top:
        b = min(a + 122, top); out.append({'kind': 'index', 'j0': a, 'j1': b}); a = b + 1
    if tier == 'thorough':
        for _ in range(40):
            out.append({'kind': 'index_list', 'js': sorted(int(x) for x in rng.integers(20001, 1000001, 50))})
    if tier == 'thorough':
        # the 5-minute exact Gram table for n <= 40 and the orthonormality theorems for all 861 modes: built and audited here only
        out.append({'kind': 'lean_thorough', 'module': 'LentilVerif.Props.C11Thorough',
                    'theorems': ['Lentil.C11.gramUpTo_40', 'Lentil.C11.zernike_orthonormal_40', 'Lentil.C11.zernike_orthonormal_area_40',
                                 'Lentil.C11.radial_abs_le_one_40', 'Lentil.C11.raw_mode_abs_le_one_40']})
    if True:
        # extremes (every tier, 13 calls): indices near 2^31, 2^32 and 10^10 (float row search), row boundaries n(n+1)/2 and n(n+1)/2 + 1
        big = [2 ** 31 - 1, 2 ** 31, 2 ** 32 + 1, 10 ** 9, 10 ** 10 + 7]
        for n in (1000, 46340, 65535, 92681):
            big += [n * (n + 1) // 2, n * (n + 1) // 2 + 1]
        out.append({'kind': 'index_list', 'js': sorted(big)})
    # ---- radial: every valid (n, m), n <= 40
    nm = [(n, m) for n in range(0, 41) for m in range(n % 2, n + 1, 2)]
    if tier == 'search': nm = nm[:200]
    for n, m in nm:
        out.append({'kind': 'radial', 'n': n, 'm': m, 'den': 16})
    for _ in range(6):
        n = int(rng.integers(1, 12)); out.append({'kind': 'radial', 'n': n, 'm': int(rng.integers(0, n)) // 2 * 2 + (1 - n % 2), 'den': 8})   # odd n-m -> 0
    # ---- mode values on dyadic nodes
    nz = {'quick': 120, 'thorough': 1500, 'search': 400}[tier]
    for k in range(nz):
        j = int(rng.integers(1, 232)) if k % 5 else int(rng.integers(232, 862))
        if k < 36: j = k + 1
        sh = (int(rng.integers(2, 6)), int(rng.integers(2, 6)))
        rho = [int(x) / 8 for x in rng.integers(0, 9, sh[0] * sh[1])]
        if k % 7 == 0: rho = [int(x) / 8 for x in rng.integers(0, 13, sh[0] * sh[1])]       # caller coordinates beyond the unit disk
        theta = [int(x) / 4 for x in rng.integers(-13, 14, sh[0] * sh[1])]
        wts = np.array([1.0, 0.5, -2.0]) if k % 4 != 1 else np.array([1e-9, -3e-12, 1e-300])      # support only: tiny non-zero weights count
        mask = [float(x) for x in (rng.integers(0, 3, sh[0] * sh[1]) * wts[rng.integers(0, 3, sh[0] * sh[1])])]
        c = {'kind': 'zern', 'j': j, 'normalize': bool(k % 2), 'shape': list(sh), 'rho': rho, 'theta': theta, 'mask': mask}
        if k % 9 == 4 and any(x == 0 for x in mask) and j > 1:
            # arbitrary caller coordinates: non-finite where the mask is zero (e.g. a polar grid undefined outside the pupil)
            for i, x in enumerate(mask):
                if x == 0:
                    bad = [float('inf'), float('nan'), float('-inf')][int(rng.integers(0, 3))]
                    if rng.integers(0, 2): c['rho'][i] = bad
                    else: c['theta'][i] = bad
            c['bad_outside'] = True
        out.append(c)
    # ---- orthonormality of the real functions by exact quadrature
    ng = {'quick': 60, 'thorough': 600, 'search': 200}[tier]
    for k in range(ng):
        top = 67 if k % 4 else 232          # every pair claimed by radial_gram / zernike_orthonormal (n <= 20) is eligible
        j = int(rng.integers(1, top)); j2 = j if k % 3 == 0 else int(rng.integers(1, top))
        out.append({'kind': 'gram', 'j': j, 'j2': j2})
    # ---- coordinates
    nc = {'quick': 80, 'thorough': 1200, 'search': 300}[tier]
    for k in range(nc):
        sh = (int(rng.integers(3, 13)), int(rng.integers(3, 13)))
        if k % 4 == 0: sh = (sh[0], sh[0])
        m = _mask(rng, sh)
        c = {'kind': 'coords', 'shape': list(sh), 'mask': [float(x) for x in m.ravel()], 'shift': None, 'rotate': 0.0}
        if k % 5 == 4: c['rotate'] = float([30, 90, -45, 180][int(rng.integers(0, 4))])
        if k % 6 == 5: c['shift'] = [int(rng.integers(-8, 9)) / 4, int(rng.integers(-8, 9)) / 4]
        if k % 3 == 0: c['j'] = int(rng.integers(1, 37)); c['normalize'] = bool(rng.integers(0, 2))
        out.append(c)
    if tier in ('search', 'thorough'):
        for sh in ((257, 64), (90, 301)):                       # large arrays, off-centre weighted masks
            m = _mask(rng, sh)
            out.append({'kind': 'coords', 'shape': list(sh), 'mask': [float(x) for x in m.ravel()], 'shift': None, 'rotate': 0.0})
    out.append({'kind': 'coords', 'shape': [4, 5], 'mask': [0.0] * 20, 'shift': None, 'rotate': 0.0, 'j': 4, 'normalize': True, 'one_sample': True, 'empty': True})
    out.append({'kind': 'refusal', 'what': 'index0'}); out.append({'kind': 'refusal', 'what': 'index-negative'})
    out.append({'kind': 'refusal', 'what': 'rho-without-theta'})
    # where zernike takes its coordinates from: all four (rho given?, theta given?) combinations on off-centre masks
    for k in range({'quick': 8, 'thorough': 80, 'search': 24}[tier]):
        sh = (int(rng.integers(5, 10)), int(rng.integers(5, 10)))
        m = (_mask(rng, sh) != 0).astype(float)
        m[0, 0] = 1.0; m[sh[0] - 1, sh[1] - 2] = 1.0
        out.append({'kind': 'zsrc', 'shape': list(sh), 'mask': [float(x) for x in m.ravel()], 'j': int(rng.integers(2, 22)),
                    'normalize': bool(rng.integers(0, 2)), 'rho_none': bool(k % 2), 'theta_none': bool((k // 2) % 2),
                    'cshift': [int(rng.integers(1, 5)) / 2, -int(rng.integers(1, 5)) / 2], 'crot': float([30, 90, -45, 60][int(rng.integers(0, 4))])})
    for k in range({'quick': 3, 'thorough': 20, 'search': 3}[tier]):
        sh = (int(rng.integers(3, 8)), int(rng.integers(3, 8)))
        m = np.zeros(sh); m[int(rng.integers(0, sh[0])), int(rng.integers(0, sh[1]))] = 1.0
        out.append({'kind': 'coords', 'shape': list(sh), 'mask': [float(x) for x in m.ravel()], 'shift': None, 'rotate': 0.0,
                    'j': int(rng.integers(2, 12)), 'normalize': True, 'one_sample': True})
    return out

def signature(c):
    k = c['kind']
    if k == 'lean_thorough': return 'lean_thorough ' + c['module']
    if k == 'refusal': return 'refusal ' + c['what']
    if k == 'index': return f"index {c['j0']}..{c['j1']}"
    if k == 'index_list': return f"index_list {c['js'][:3]}"
    if k == 'radial': return f"radial {c['n']} {c['m']} /{c['den']}"
    if k == 'zern': return f"zern {c['j']} {c['normalize']} {vlib.jhash([c['rho'], c['theta'], c['mask']])}"
    if k == 'gram': return f"gram {c['j']} {c['j2']}"
    if k == 'zsrc': return f"zsrc {c['shape']} {vlib.jhash(c['mask'])} {c['j']} {c['normalize']} {c['rho_none']} {c['theta_none']} {c['cshift']} {c['crot']}"
    return f"coords {c['shape']} {vlib.jhash(c['mask'])} {c['shift']} {c['rotate']} {c.get('j')}"

def nontrivial(c):
    k = c['kind']
    if k in ('index', 'index_list', 'lean_thorough', 'refusal'): return True
    if k == 'radial': return c['n'] >= 2
    if k == 'zern': return c['j'] >= 4
    if k == 'gram': return max(c['j'], c['j2']) >= 4
    return True

def tags(c):
    k = c['kind']; t = [k]
    if k == 'lean_thorough': return t + ['thorough-tier Lean module: orthonormality n<=40']
    if k == 'refusal': return t + ['refusal:' + c['what']]
    if k == 'zsrc': return t + [f"zsrc:rho={'None' if c['rho_none'] else 'given'},theta={'None' if c['theta_none'] else 'given'}"]
    if k == 'zern':
        t += ['zern:normalized' if c['normalize'] else 'zern:raw', 'zern:n<=20' if c['j'] <= 231 else 'zern:n>20']
        if c.get('bad_outside'): t.append('zern:non-finite-coordinates-outside-mask')
    if k == 'coords' and c.get('one_sample'): t.append('coords:one-sample-mask')
    if k in ('coords', 'zern'):
        nz = [abs(x) for x in c['mask'] if x != 0]
        if nz and min(nz) <= 1e-8: t.append(k + ':mask-with-tiny-weights(<=1e-8)')
        if k == 'coords' and max(c['shape']) > 64: t.append('coords:large-array')
    if k == 'index_list' and max(c['js']) >= 2 ** 31: t.append('index:j>=2^31')
    if k == 'gram': t.append('gram:diag' if c['j'] == c['j2'] else 'gram:offdiag')
    if k == 'coords':
        t.append(f"coords:{'even' if c['shape'][0] % 2 == 0 else 'odd'}x{'even' if c['shape'][1] % 2 == 0 else 'odd'}")
        if c['shift'] is not None: t.append('coords:explicit-shift')
        if c['rotate']: t.append('coords:rotated')
    return t

# ------------------------------------------------------------------------------------------ implementation
def _quad(nmax):
    """nodes/weights exact for products of two modes with radial order <= nmax: Gauss-Legendre in x = rho^2, uniform angles"""
    K = nmax + 2
    x, w = np.polynomial.legendre.leggauss(K)
    x = (x + 1) / 2; w = w / 2                      # integral over [0,1] dx ; rho drho = dx/2
    T = 2 * nmax + 3
    th = 2 * np.pi * np.arange(T) / T
    rho = np.sqrt(x)[:, None] * np.ones((1, T)); theta = np.ones((K, 1)) * th[None, :]
    W = (w / 2)[:, None] * np.full((1, T), 2 * np.pi / T) / np.pi      # mean over the unit disk = (1/pi) * integral
    return rho, theta, W

def impl(c):
    with np.errstate(all='ignore'):
        return _impl(c)

def _lean_thorough(c):
    b = vlib.lake_build([c['module']], timeout=2400)
    if not b['ok']: return {'ok': False, 'why': 'lake build failed: ' + '; '.join(f"{e['file']}:{e['line']}: {e['msg']}" for e in b['errors'][:3]) + b['log'][-300:]}
    ax, log = vlib.print_axioms('C11T', c['module'], c['theorems'])
    bad = [n for n in c['theorems'] if n not in ax or not set(ax[n]) <= vlib.STD_AXIOMS]
    hits = vlib.forbidden_tokens([p for m, p in vlib.lean_deps(c['module']).items() if m.startswith('LentilVerif')])
    return {'ok': not bad and not hits, 'why': f'axiom audit failed for {bad}: {ax}; forbidden tokens {hits}' if (bad or hits) else '',
            'axioms': {n: ax.get(n) for n in c['theorems']}, 'build_s': b['wall_s']}

def _refusal(c):
    vlib.import_lentil()
    import lentil, sys
    Z = sys.modules['lentil.zernike']
    try:
        if c['what'] == 'index0': Z.zernike_index(0)
        elif c['what'] == 'index-negative': Z.zernike_index(-3)
        else: lentil.zernike(np.ones((3, 3)), 4, rho=np.ones((3, 3)) / 2)
        return {'raised': None}
    except Exception as e:
        return {'raised': type(e).__name__}

def _kept(out, **pairs):
    """the caller's coordinate / mask arrays must come back as they were handed in (name=(array, private copy))"""
    for name, (a, snap) in pairs.items():
        if not np.array_equal(a, snap, equal_nan=True): out.setdefault('touched', name)
    return out

def _impl(c):
    if c['kind'] == 'lean_thorough': return _lean_thorough(c)
    if c['kind'] == 'refusal': return _refusal(c)
    vlib.import_lentil()
    import lentil, sys
    Z = sys.modules['lentil.zernike']      # `lentil.zernike` the attribute is the function; the module lives in sys.modules
    k = c['kind']
    if k == 'zsrc':
        mask = np.array(c['mask']).reshape(c['shape'])
        # caller coordinates deliberately different from the default ones (other origin, rotated)
        rho_c, theta_c = Z.zernike_coordinates(mask, shift=tuple(c['cshift']), rotate=c['crot'])
        kw = {}
        if not c['rho_none']: kw['rho'] = rho_c.copy()
        if not c['theta_none']: kw['theta'] = theta_c.copy()
        try:
            z = np.asarray(lentil.zernike(mask, c['j'], c['normalize'], **kw), dtype=float)
        except ValueError:
            return {'src': 'refuse'}
        except Exception as e:
            return {'src': 'raised ' + type(e).__name__}
        rho_d, theta_d = Z.zernike_coordinates(mask)
        z_d = np.asarray(lentil.zernike(mask, c['j'], c['normalize'], rho=rho_d, theta=theta_d), dtype=float)
        z_c = np.asarray(lentil.zernike(mask, c['j'], c['normalize'], rho=rho_c, theta=theta_c), dtype=float)
        on = mask != 0
        ref_d = np.array([zern_ref(c['j'], c['normalize'], float(a), float(b)) for a, b in zip(rho_d[on], theta_d[on])])
        is_d, is_c = bool(np.array_equal(z, z_d)), bool(np.array_equal(z, z_c))
        return {'src': 'default' if is_d and not is_c else 'caller' if is_c and not is_d else 'ambiguous' if is_d else 'neither',
                'default_matches_reference': bool(np.allclose(z_d[on], ref_d, rtol=0, atol=1e-9 * _zscale(c['j'], c['normalize'], 1.0) * 50)),
                'zero_outside': bool(np.all(z[~on] == 0))}
    try:
        if k in ('index', 'index_list'):
            js = range(c['j0'], c['j1'] + 1) if k == 'index' else c['js']
            r = [Z.zernike_index(j) for j in js]
            return {'m': [int(x[0]) for x in r], 'n': [int(x[1]) for x in r]}
        if k == 'radial':
            rho = np.arange(c['den'] + 1) / c['den']; rho_in = rho.copy()
            v = Z.R(c['m'], c['n'], rho)
            t = _kept({}, rho=(rho, rho_in))
            v2 = Z.R(-c['m'], c['n'], rho_in.copy())
            if np.isscalar(v): return dict(t, scalar=float(v), neg_same=bool(np.all(np.asarray(v2) == v)))
            return dict(t, values=[float(x) for x in v], neg_same=bool(np.array_equal(v, v2)))
        if k == 'zern':
            sh = tuple(c['shape'])
            mask = np.array(c['mask']).reshape(sh); rho = np.array(c['rho']).reshape(sh); th = np.array(c['theta']).reshape(sh)
            keep = {'mask': (mask, mask.copy()), 'rho': (rho, rho.copy()), 'theta': (th, th.copy())}
            z = lentil.zernike(mask, c['j'], c['normalize'], rho=rho, theta=th)
            t = _kept({}, **keep)
            zb = lentil.zernike(mask != 0, c['j'], c['normalize'], rho=keep['rho'][1].copy(), theta=keep['theta'][1].copy())
            return {**t, 'values': [float(x) for x in np.asarray(z, dtype=float).ravel()], 'shape': list(np.shape(z)),
                    'support_only': bool(np.array_equal(np.asarray(z, dtype=float), np.asarray(zb, dtype=float), equal_nan=True))}
        if k == 'gram':
            n1, n2 = noll_ref(c['j'])[0], noll_ref(c['j2'])[0]
            rho, theta, W = _quad(max(n1, n2))
            ones = np.ones(rho.shape)
            a = np.asarray(lentil.zernike(ones, c['j'], rho=rho, theta=theta), dtype=float)
            b = np.asarray(lentil.zernike(ones, c['j2'], rho=rho, theta=theta), dtype=float)
            au = np.asarray(lentil.zernike(ones, c['j'], normalize=False, rho=rho, theta=theta), dtype=float)
            return {'inner': float((a * b * W).sum()), 'mean': float((a * W).sum()), 'max_abs_raw': float(np.abs(au).max())}
        # coords
        sh = tuple(c['shape']); mask = np.array(c['mask']).reshape(sh)
        kw = {}
        if c['shift'] is not None: kw['shift'] = tuple(c['shift'])
        if c['rotate']: kw['rotate'] = c['rotate']
        rho, theta = Z.zernike_coordinates(mask, **kw)
        rho_b, theta_b = Z.zernike_coordinates(mask != 0, **kw)
        out = {'rho': [float(x) for x in rho.ravel()], 'theta': [float(x) for x in theta.ravel()],
               'support_only': bool(np.array_equal(rho, rho_b, equal_nan=True) and np.array_equal(theta, theta_b, equal_nan=True))}
        if 'j' in c and c['shift'] is None and not c['rotate']:
            z = np.asarray(lentil.zernike(mask, c['j'], c['normalize']), dtype=float)
            z2 = np.asarray(lentil.zernike(mask, c['j'], c['normalize'], rho=rho, theta=theta), dtype=float)
            out['z'] = [float(x) for x in z.ravel()]; out['z_same'] = bool(np.array_equal(z, z2, equal_nan=True))
        return out
    except Exception as e:
        return {'exc': type(e).__name__, 'msg': str(e)[:200]}

def requests(c, io):
    k = c['kind']
    if k in ('lean_thorough', 'refusal'): return []
    if k == 'zsrc': return [{'op': 'zsrc', 'rho_none': c['rho_none'], 'theta_none': c['theta_none']}]
    if k == 'index': return [{'op': 'noll', 'j0': c['j0'], 'j1': c['j1']}]
    if k == 'index_list': return [{'op': 'noll_list', 'js': c['js']}]
    if k == 'radial':
        rho = [i / c['den'] for i in range(c['den'] + 1)]
        return [{'op': 'radial_coeffs', 'n': c['n'], 'm': c['m']}, {'op': 'radial_eval', 'n': c['n'], 'm': c['m'], 'rho': vlib.fl(rho)}]
    if k == 'zern':
        return [{'op': 'zernike', 'j': c['j'], 'normalize': c['normalize'], 'rho': vlib.fl(c['rho']), 'theta': vlib.fl(c['theta']),
                 'mask': [int(x != 0) for x in c['mask']]}]
    if k == 'gram': return []
    a = np.deg2rad(90 - c['rotate'])
    r = {'op': 'coords', 'shape': c['shape'], 'mask': [int(x != 0) for x in c['mask']], 'cs': vlib.fl([np.cos(a), np.sin(a)])}
    if c['shift'] is not None: r['shift'] = vlib.fl(c['shift'])
    reqs = [r]
    if 'z' in io:
        reqs.append({'op': 'zernike', 'j': c['j'], 'normalize': c['normalize'], 'rho': vlib.fl(io['rho']), 'theta': vlib.fl(io['theta']),
                     'mask': [int(x != 0) for x in c['mask']]})
    return reqs

def _same(a, b, tol):
    """equal within tol; NaN matches NaN and an infinity matches the same infinity"""
    if math.isnan(a) or math.isnan(b): return math.isnan(a) and math.isnan(b)
    if math.isinf(a) or math.isinf(b): return a == b
    return abs(a - b) <= tol

def _angle_diff(a, b):
    d = (a - b + np.pi) % (2 * np.pi) - np.pi
    return abs(d)

def _zscale(j, normalize, rho):
    n, m = noll_ref(j)
    return (math.sqrt(2 * (n + 1)) if normalize else 1.0) * max(1.0, radial_scale(n, m, abs(rho)))

def compare(c, io, mo):
    k = c['kind']
    if k in ('gram', 'lean_thorough', 'refusal'): return None
    m = mo[0]
    if 'exc' in io: return f"implementation raised {io['exc']}: {io.get('msg')}"
    if not m.get('ok'): return f"model refused: {m.get('err')}"
    if k == 'zsrc':
        return None if io.get('src') == m['src'] else f"zernike(rho {'None' if c['rho_none'] else 'given'}, theta {'None' if c['theta_none'] else 'given'}) used coordinates '{io.get('src')}', the regenerated dispatch (Gen.zernCoordSrc) says '{m['src']}'"
    if k in ('index', 'index_list'):
        js = list(range(c['j0'], c['j1'] + 1)) if k == 'index' else c['js']
        for i, j in enumerate(js):
            if (io['n'][i], io['m'][i]) != (m['n'][i], m['m'][i]):
                return f"zernike_index({j}) = (m={io['m'][i]}, n={io['n'][i]}), model (m={m['m'][i]}, n={m['n'][i]})"
            if k == 'index':
                if (m['code_n'][i], m['code_m'][i]) != (m['n'][i], m['m'][i]): return f'literal list model differs from closed form at j={j}'
                if m['inv'][i] != j: return f'nollInv(nollN {j}, nollM {j}) = {m["inv"][i]}'
        return None
    if k == 'radial':
        coeffs = m['coeffs']; n, mm = c['n'], c['m']
        odd = (n - mm) % 2 == 1
        if 'scalar' in io:
            return None if (odd and io['scalar'] == 0) else f"R({mm},{n}) returned the scalar {io['scalar']}"
        if odd: return f'R({mm},{n}) with odd n-m did not return 0'
        mv = vlib.unfl(mo[1]['values'])
        for i, v in enumerate(io['values']):
            rho = Fraction(i, c['den'])
            exact = sum(Fraction(ck) * rho ** (n - 2 * kk) for kk, ck in enumerate(coeffs))
            scale = float(sum(abs(ck) * rho ** (n - 2 * kk) for kk, ck in enumerate(coeffs)))
            tol = 1e-11 * (1 + scale)
            if abs(v - float(exact)) > tol: return f'R({mm},{n}) at rho={float(rho)}: impl {v}, model coefficients give {float(exact)}'
            if abs(v - mv[i]) > tol: return f'R({mm},{n}) at rho={float(rho)}: impl {v}, model at Float {mv[i]}'
        return None
    if k == 'zern':
        mv = vlib.unfl(m['values'])
        if io['shape'] != c['shape']: return f"zernike returned shape {io['shape']}"
        for i, (a, b) in enumerate(zip(io['values'], mv)):
            r = c['rho'][i]
            tol = 1e-9 * _zscale(c['j'], c['normalize'], r) if math.isfinite(r) else 0.0
            if not _same(a, b, tol): return f"zernike(j={c['j']}) node {i}: impl {a} model {b}"
        return None
    # coords
    rho = vlib.unfl(m['rho']); th = vlib.unfl(m['theta'])
    for i, (a, b) in enumerate(zip(io['rho'], rho)):
        if not _same(a, b, 1e-9 * (1 + abs(b)) if math.isfinite(b) else 0.0): return f'rho[{i}]: impl {a} model {b}'
    for i, (a, b) in enumerate(zip(io['theta'], th)):
        if math.isfinite(io['rho'][i]) and io['rho'][i] > 1e-9 and _angle_diff(a, b) > 1e-9: return f'theta[{i}]: impl {a} model {b}'
    if 'z' in io:
        mv = vlib.unfl(mo[1]['values'])
        for i, (a, b) in enumerate(zip(io['z'], mv)):
            r = io['rho'][i]
            if not _same(a, b, 1e-9 * _zscale(c['j'], c['normalize'], r) if math.isfinite(r) else 0.0):
                return f"zernike(mask, j={c['j']}) sample {i}: impl {a} model {b}"
    return None

# ------------------------------------------------------------------------------------------ oracle (real code only)
def oracle(c, io):
    k = c['kind']
    if k == 'refusal':
        return None if io.get('raised') == 'ValueError' else f"{c['what']}: expected ValueError (no Noll index < 1; rho needs theta), got {io.get('raised')}"
    if k == 'zsrc':
        want = 'refuse' if (not c['rho_none'] and c['theta_none']) else 'caller' if not c['rho_none'] else 'default'
        if c['rho_none'] and not c['theta_none']: want = io.get('src') if io.get('src') in ('default', 'refuse') else 'default'   # theta without rho: ignored or refused, not judged
        if io.get('src') != want: return f"zernike with rho {'None' if c['rho_none'] else 'given'} / theta {'None' if c['theta_none'] else 'given'}: coordinates '{io.get('src')}', expected '{want}'"
        if want != 'refuse' and not io.get('zero_outside'): return 'zernike is not zero outside the mask'
        if want != 'refuse' and not io.get('default_matches_reference'): return 'zernike on the default coordinates differs from the textbook mode at (rho, theta) about the centroid'
        return None
    if k == 'lean_thorough':
        return None if io.get('ok') else f"thorough-tier theorems {c['theorems']} (radial Gram table and orthonormality for n <= 40) no longer check: {io.get('why')}"
    if 'exc' in io: return f"{k}: implementation raised {io['exc']}: {io.get('msg')}"
    if io.get('touched'):
        what = f"R({c['m']},{c['n']}, rho)" if k == 'radial' else f"zernike(mask, {c['j']}, rho=, theta=)"
        return f"{what} overwrote the caller's `{io['touched']}` array in place — a second evaluation on the same coordinates sees other values"
    if k in ('index', 'index_list'):
        js = list(range(c['j0'], c['j1'] + 1)) if k == 'index' else c['js']
        seen = set()
        for j, n, m in zip(js, io['n'], io['m']):
            if (n, m) != noll_ref(j): return f'zernike_index({j}) = (m={m}, n={n}), Noll ordering gives (m={noll_ref(j)[1]}, n={noll_ref(j)[0]})'
            if abs(m) > n or (n - abs(m)) % 2: return f'zernike_index({j}): invalid (n, m) = ({n}, {m})'
            if m != 0 and (m > 0) != (j % 2 == 0): return f'zernike_index({j}): even j must be the cosine (+m) mode'
            if (n, m) in seen: return f'zernike_index is not one-to-one: ({n}, {m}) repeated'
            seen.add((n, m))
        if k == 'index' and c['j0'] == 1:
            # rows completed inside the block contain every valid (n, m) exactly once
            full = [n for n in range(0, 60) if (n + 1) * (n + 2) // 2 <= c['j1']]
            for n in full:
                want = {(n, s * a) for a in range(n % 2, n + 1, 2) for s in (1, -1)}
                if {(x, y) for x, y in seen if x == n} != want: return f'row n={n}: modes {sorted(y for x, y in seen if x == n)} are not all valid m'
        return None
    if k == 'radial':
        n, m = c['n'], c['m']
        if not io['neg_same']: return f'R({m},{n}) depends on the sign of m'
        if (n - m) % 2: return None if io.get('scalar') == 0 else f'R({m},{n}) with odd n-m is not 0'
        for i, v in enumerate(io['values']):
            rho = Fraction(i, c['den'])
            tol = 1e-11 * (1 + radial_scale(n, m, float(rho)))
            if abs(v - float(radial_ref(n, m, rho))) > tol: return f'R({m},{n}) at rho={float(rho)} = {v}, textbook radial polynomial = {float(radial_ref(n, m, rho))}'
        if abs(io['values'][-1] - 1) > 1e-11 * (1 + radial_scale(n, m, 1.0)): return f'R({m},{n}) at rho=1 is {io["values"][-1]}, not 1'
        return None
    if k == 'zern':
        if not io['support_only']: return 'zernike depends on the mask beyond its support'
        for i, v in enumerate(io['values']):
            if c['mask'][i] == 0:
                if v != 0:
                    why = '' if math.isfinite(c['rho'][i]) and math.isfinite(c['theta'][i]) else f" (caller coordinates there: rho={c['rho'][i]}, theta={c['theta'][i]})"
                    return f"zernike(j={c['j']}) is {v} outside the mask" + why
                continue
            ref = zern_ref(c['j'], c['normalize'], c['rho'][i], c['theta'][i])
            tol = 1e-9 * _zscale(c['j'], c['normalize'], c['rho'][i])
            if abs(v - ref) > tol: return f"zernike(j={c['j']}, normalize={c['normalize']}) at (rho={c['rho'][i]}, theta={c['theta'][i]}) = {v}, textbook {ref}"
            if not c['normalize'] and c['rho'][i] <= 1 and abs(v) > 1 + tol: return f"|Z_{c['j']}| = {abs(v)} > 1 without normalisation"
        return None
    if k == 'gram':
        want = 1.0 if c['j'] == c['j2'] else 0.0
        if abs(io['inner'] - want) > 1e-9: return f"mean of Z_{c['j']}·Z_{c['j2']} over the unit disk is {io['inner']}, expected {want}"
        if c['j'] > 1 and abs(io['mean']) > 1e-9: return f"Z_{c['j']} has mean {io['mean']} over the unit disk"
        if io['max_abs_raw'] > 1 + 1e-9: return f"|Z_{c['j']}| reaches {io['max_abs_raw']} > 1 without normalisation"
        return None
    # coords
    sh = tuple(c['shape']); mask = np.array(c['mask']).reshape(sh) != 0
    rho = np.array(io['rho']).reshape(sh); th = np.array(io['theta']).reshape(sh)
    if mask.sum() == 0:
        z = np.array(io.get('z', [0.0])); bad = not np.all(z == 0)
        return 'empty mask (one-sample mask class): everything is outside the mask, the modes must be zero — got NaN (centroid 0/0)' if bad else None      # rho/theta of an empty aperture carry no requirement
    if mask.sum() == 1 and c['shift'] is None:
        # the farthest masked sample is the origin itself: rho cannot be 1 there; the property still demands zeros outside the mask
        if 'z' in io:
            z = np.array(io['z']).reshape(sh)
            if np.any(z[~mask] != 0): return f"zernike(mask, j={c['j']}) is {z[~mask][0]} outside the mask of a one-sample mask (rho = r/0)"
        if not np.all(np.isfinite(rho)): return 'one-sample mask: rho is not finite (division by the zero maximum radius)'
        return None
    if not io['support_only']: return 'zernike_coordinates depends on the mask beyond its support'
    ii, jj = np.nonzero(mask)
    if c['shift'] is None:
        orr, occ = ii.mean(), jj.mean()
    else:
        orr, occ = sh[0] // 2 + c['shift'][0], sh[1] // 2 + c['shift'][1]
    I, J = np.mgrid[0:sh[0], 0:sh[1]]
    r = np.hypot(I - orr, J - occ)
    rmax = r[mask].max()
    if rmax > 0:
        if np.abs(rho - r / rmax).max() > 1e-9 * (1 + (r / rmax).max()):
            return ('rho is not distance from the mask centroid / distance of the farthest masked sample' if c['shift'] is None
                    else 'rho is not distance from floor(shape/2)+shift scaled to the farthest masked sample')
        if abs(rho[mask].max() - 1) > 1e-12: return f'max rho over the mask is {rho[mask].max()}, not 1'
    if c['shift'] is None:
        # origin = centroid: first moments of the polar coordinates vanish over the mask
        mom = (rho[mask] * np.exp(1j * th[mask])).sum()
        if abs(mom) > 1e-9 * mask.sum(): return f'polar origin is not the mask centroid: sum over the mask of rho·exp(i·theta) = {mom}'
    # angle convention: theta = angle((-(rr) + i cc) e^{i(90-rotate)°})
    a = np.deg2rad(90 - c['rotate'])
    ref = np.angle((-(I - orr) + 1j * (J - occ)) * np.exp(1j * a))
    bad = (r > 1e-9) & (np.abs((th - ref + np.pi) % (2 * np.pi) - np.pi) > 1e-9)
    if bad.any(): return f'theta convention: sample {tuple(np.argwhere(bad)[0])} has theta {th[bad][0]}, expected {ref[bad][0]}'
    if 'z' in io:
        z = np.array(io['z']).reshape(sh)
        if not io['z_same']: return 'zernike(mask, j) differs from zernike(mask, j, rho=, theta=) with the default coordinates'
        if np.any(z[~mask] != 0): return f"zernike(mask, j={c['j']}) is non-zero outside the mask"
        for (i, j) in zip(ii, jj):
            ref = zern_ref(c['j'], c['normalize'], rho[i, j], th[i, j])
            if abs(z[i, j] - ref) > 1e-9 * _zscale(c['j'], c['normalize'], rho[i, j]): return f"zernike(mask, j={c['j']})[{i},{j}] = {z[i, j]}, textbook {ref}"
    return None

# ------------------------------------------------------------------------------------------ known finding
KF_NAN = 'KF-C11-nan-outside-mask'

def matches_finding(kf, case, msg):
    if kf.get('id') != KF_NAN: return False
    if case.get('kind') == 'coords' and case.get('one_sample'): return 'one-sample mask' in msg
    return False

def replay_finding(kf):
    if kf.get('id') != KF_NAN: return False
    c = kf['witness']
    io = impl(c)
    msg = oracle(c, io) if 'exc' not in io else None
    return bool(msg and matches_finding(kf, c, msg))
