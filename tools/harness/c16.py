"""C16 — detector chain: right quantum efficiency at every pixel, exact digitisation.

Tie: Model/Detector.lean (collect_charge, qe_asarray, the np.tile/np.repeat mosaic, adc) is hand-written and run at exact
rationals by the driver; the real lentil.detector is run on dyadic data (float64 arithmetic is exact on it), so the
comparison is `==` except where a Spectrum QE is interpolated (relative 1e-9)."""
import math, warnings
from fractions import Fraction as Fr
import numpy as np
from harness.common import *
import vlib

LEVEL_TEXT = ('partial. Lean 4 theorems, for all cubes/patterns/oversampling/frames/gains: collected charge is the bilinear wavelength sum; scalar, '
              'vector and Spectrum efficiencies agree when they denote the same flat efficiency (band condition in the request unit or in the grid unit: qe_representations_agree, qe_representations_agree_grid_unit; any Spectrum equals the vector of its own samples: qe_spectrum_equals_its_samples), the Spectrum branch being DERIVED from a model of '
              'Spectrum.sample (unit factor regenerated from radiometry.py + linear interpolation), and Spectrum.sample is invariant under the '
              'unit of the request; format_bayer_string refuses exactly foreign letters / non-square lengths and lays the pattern out row-major; '
              'the Bayer mosaic (np.tile then np.repeat on both axes) has the image shape when the size is a multiple of d*os (one-row '
              'non-multiples are broadcast to an empty result by NumPy: modelled, outside the quantifier) and assigns to sub-pixel (i,j) the colour '
              'pattern[(i/os)%d][(j/os)%d]; equal QEs reproduce the monochrome result and the channels sum to the flat image; DN = max 0 (floor '
              '(gain polynomial at the clipped count)) for the four gain forms with the exponents of the source power cube, steps in source order, never rounded up, the gain dispatch knows exactly the ranks 0..3 (adc_gain_rank_dispatch: any higher rank is refused), never above the digitised capacity for curves non-decreasing on [0, cap] (adc_le_at_cap), all saturated pixels read the same DN (adc_saturated_pixels_agree), refusal of a Bayer image iff its size is not a multiple (>= 2 rows/cols), non-negative, monotone for every gain curve that '
              'is non-decreasing on [0, cap], warning iff a pixel exceeds capacity (condition hand-modelled); the Bayer channel wiring (which efficiency and which letter each channel uses, what is summed) is read off the source and proved equal to the model (bayer_flat_follows_source, bayer_separate_follows_source). Hand model checked against lentil.detector on exact dyadic data.')
LEVEL_NOTE = ('partial: "input frame untouched" and "requested dtype" are observed by the correspondence (read-only, snapshotted '
              'frames; dtype compared) and by the regenerated effect table of C10, not proved about NumPy; a non-flat Spectrum QE agrees with a '
              'vector only through the sampled correspondence (the theorem covers flat spectra and unit invariance); float rounding is not '
              'modelled (test data is dyadic so float64 is exact). The Bayer tile/repeat bookkeeping, the adc gain dispatch, power-cube loop, einsum '
              'subscripts and step order are REGENERATED from detector.py (Gen/DetectorIdx.lean), and so is the channel wiring of collect_charge_bayer (per channel: letter of np.where(bayer_pattern == ., 1, 0) behind its mosaic, einsum subscripts, efficiency variable; the terms of the flatten=True sum and the order of the flatten=False tuple: Gen.bayerChannels/bayerFlattenTerms/bayerSeparateOrder) — bayer_flat_follows_source and bayer_separate_follows_source prove that the image computed THROUGH that table is the model bayerFlat / (R, G, B) channel list all Bayer theorems are about: mosaic_*, adc_follows_source_steps (the model digitisation is RUN through the regenerated step list), adc_matches_source (a pin of the key expressions), power_cube_exponent, gain_dispatch_matches_model depend on them. NaN/inf frames are not generated (outside the model).')
TECHNIQUE = 'Lean 4 proof (omega/Int.ediv-emod, ordered-field algebra, Int.floor) over a hand model with exact differential correspondence'
GEN = ['DetectorIdx', 'Effects', 'Extent', 'FieldDispatch', 'FieldIdx', 'FieldMerge', 'Units']     # every Gen module the model, lemmas, theorems and driver ops import (transitively)
OPS = ['C16']
RULE = ('histories (10 per quick run, 150 per search): a QE Spectrum is first used in its OWN wave unit (Spectrum.sample or a collect_charge in that unit, result discarded), then the judged collect_charge / collect_charge_bayer uses the same object with another waveunit and is held to the full oracle; gain-rank cases (6 per quick run): adc with gain arrays of rank 0..6, ranks above 3 must raise ValueError (compared with the regenerated dispatch, op det.gain_rank); extremes stream (12 per quick run): wavelengths a hair inside/outside the QE band in m/um/nm/angstrom, gain values 2^-k below an '
        'integer; Bayer sizes with only the rows, only the columns, or a single row/column off the multiple; cases: collect_charge on cubes (1..4 slices, shapes 1..5, dyadic signed photons, 2-D input), QE as scalar / vector / Spectrum '
        'in nm, um, m, angstrom (grid and sample units independent); Bayer: patterns d=1..3 with random colours (upper/lower case), '
        'os=1..5, image = (d*os*a) x (d*os*b), plus sizes that are not multiples and malformed pattern strings; adc: frames 1..5 '
        'with negatives and over-capacity values (float and integer dtypes, read-only), four gain forms with dyadic coefficients '
        'of order 1..3, capacity none/positive, warn flag, output dtypes; distinct = canonical (kind, shape, d, os, pattern, '
        'gain form, order, cap?, dtype) signature; non-trivial = more than one colour / os>1 / clipping or negative DN occurs')
TRUSTED = ['np.einsum(ijk,i->jk) is the sum over the first axis; np.tile/np.repeat index maps; np.where/np.floor/astype as documented '
           '(modelled in Model/Detector.lean)',
           'radiometry.Spectrum.sample returns the spectrum value at the requested wavelengths (C13/C15); here compared with an '
           'independent np.interp in nm to 1e-9']
UNPROVEN = ['a Spectrum QE that is reused across calls after its value/wave was reassigned is sampled at its CURRENT contents (no stale state between calls): '
            'sampled (a third of the Spectrum cases use the same object for an earlier call with other values); C10 histories cover the general clause',
            'adc leaves the input frame untouched: sampled (frame frozen read-only and snapshotted byte-for-byte on every adc case) and '
            'tied to the regenerated effect table Gen/Effects.lean (theorem adc_has_no_write_site), not proved about NumPy',
            'output dtype equals the requested dtype: sampled (compared on every adc case); DN must be representable in the dtype',
            'that the model of Spectrum.sample (spectrumSample: regenerated unit factor + linear interpolation with zero fill) IS what '
            'radiometry.Spectrum.sample computes: by the correspondence only (every Spectrum case samples the object itself in the model); given that model, '
            'flat spectra agree with scalars/vectors (qe_representations_agree), any Spectrum equals the vector of its own samples '
            '(qe_spectrum_equals_its_samples) and the request unit does not matter (spectrum_sample_unit_invariant)',
            'the saturation warning: the CONDITION (warn_saturate and saturation_capacity and any(img > capacity)) is hand-modelled (adcWarns, theorem '
            'adc_warns_iff_exceeds) and tied by the correspondence; only the order of the digitisation steps is regenerated (Gen.adcSteps)']
ASSUMPTIONS = ['the Spectrum.sample model assumes a unit-less QE spectrum (valueunit=None: unit conversion rescales wavelengths only) on an ascending wavelength '
               'grid, method=\'linear\' and fill_value=0 (the defaults qe_asarray uses); other valueunits/methods are not modelled or generated',
               'float32 electron frames and integer frames whose powers/products wrap in their dtype are outside the model (real arithmetic) and are not generated '
               '(integer frames are paired only with powers that fit; NaN/inf frames are not generated)',
               'saturation_capacity 0 is treated like None by the code (`if saturation_capacity:`) and by the model',
               'integer electron frames: the powers x**order must be representable in the frame dtype (NumPy wraps silently: '
               'adc(int16 [[58]], gain=[0.5, 0, 1.25]) returns 0, not 97628); float overflow/rounding likewise not modelled',
               'floor is discontinuous: when the exact polynomial value is within 1e-13 (relative to its largest term) of an integer a one-DN difference is '
               'accepted (NumPy float64 x**3 is not correctly rounded: 77.0**3 = 456532.99999999994)',
               'adc_monotone: any gain curve non-decreasing on [0, cap] (hypothesis on the curve) and inputs >= 0 (a polynomial with an even '
               'power is not increasing on negatives); for scalar/per-pixel gain >= 0 monotone on all inputs',
               'collect_charge_bayer on a one-row or one-column image whose size is not a multiple of pattern*oversample returns an EMPTY array '
               '(NumPy broadcasts the size-1 axis against the empty mosaic) instead of raising — outside the property quantifier ("image sizes '
               'that are multiples of the pattern"); modelled (bayerShape, theorem bayer_one_row_broadcasts_empty), accepted by the oracle, reported',
               'a single photon slice (or 2-D image) given together with nw > 1 wavelengths/efficiencies is broadcast by einsum to '
               'photons * sum(qe) instead of being refused: model and oracle follow the code; reported as questionable']

UNITS = {'nm': Fr(1), 'um': Fr(1, 1000), 'm': Fr(1, 10**9), 'angstrom': Fr(10)}

# ------------------------------------------------------------------------------------------ generators
def _rat(nums, den): return {'num': [int(x) for x in nums], 'den': int(den)}
def _np(r, shape=None):
    a = np.array(r['num'], dtype=float) / r['den']
    return a.reshape(shape) if shape is not None else a
def _fr(r): return [Fr(n, r['den']) for n in r['num']]

def _qe(rng, nw, wave_nm):
    t = int(rng.integers(0, 4))
    if t == 0: return {'kind': 'scalar', **_rat([rng.integers(0, 9)], 8)}
    if t == 1: return {'kind': 'vector', **_rat(rng.integers(0, 9, nw), 8)}
    if t == 2 and rng.integers(0, 6) == 0:   # wrong length -> AssertionError
        return {'kind': 'vector', **_rat(rng.integers(0, 9, nw + 1), 8)}
    # Spectrum on a grid enclosing the sample wavelengths, in its own unit
    lo, hi = min(wave_nm) - 50, max(wave_nm) + 50
    k = int(rng.integers(2, 7))
    grid = sorted(set([lo, hi] + [int(x) for x in rng.integers(lo + 1, hi, k)]))
    flat = bool(rng.integers(0, 4) == 0)
    vals = [4] * len(grid) if flat else [int(x) for x in rng.integers(0, 9, len(grid))]
    return {'kind': 'spectrum', 'grid_nm': grid, 'val': _rat(vals, 8), 'unit': ['nm', 'um', 'm', 'angstrom'][int(rng.integers(0, 4))],
            'flat': flat}

def _waves(rng, nw):
    w = set()
    while len(w) < nw: w.add(int(rng.integers(400, 1000)))
    return sorted(w)

def _cube(rng, nw, R, C, signed=True):
    lo = -8 if signed else 0
    return _rat(rng.integers(lo, 41, nw * R * C), 4)

def gen_collect(rng):
    nw = int(rng.integers(1, 5)); R, C = pick_shape(rng, 5)
    wave = _waves(rng, nw)
    two_d = nw == 1 and bool(rng.integers(0, 2))
    ns = nw
    r = int(rng.integers(0, 10))
    if r == 0 and nw >= 2: ns = 1; two_d = bool(rng.integers(0, 2))          # one slice / 2-D image against several efficiencies (broadcast by einsum)
    elif r == 1 and nw >= 2: ns = nw + int(rng.choice([-1, 1])) if nw > 2 else nw + 1      # genuine mismatch -> ValueError
    return {'kind': 'collect', 'nw': nw, 'ns': ns, 'shape': [R, C], 'img': _cube(rng, ns, R, C), 'wave_nm': wave, 'two_d': two_d, 'reuse': bool(rng.integers(0, 3) == 0),
            'waveunit': ['nm', 'um', 'm', 'angstrom'][int(rng.integers(0, 4))], 'qe': _qe(rng, nw, wave)}

def gen_bayer(rng, d=None, os_=None, pattern=None):
    d = d or int(rng.integers(1, 4)); os_ = os_ or int(rng.integers(1, 6))
    a, b = int(rng.integers(1, 3)), int(rng.integers(1, 3))
    if d * os_ >= 9: a, b = 1, int(rng.integers(1, 3))
    R, C = d * os_ * a, d * os_ * b
    bad_size = rng.integers(0, 12) == 0
    if bad_size and d * os_ > 1:
        r = int(rng.integers(0, 4))
        if r == 0: R += int(rng.integers(1, d * os_))
        elif r == 1: C += int(rng.integers(1, d * os_))                 # only the columns are off
        elif r == 2: R = 1                                                # one-row image: NumPy broadcasts against the (empty) mosaic
        else: C = 1
    nw = int(rng.integers(1, 4))
    wave = _waves(rng, nw)
    pattern = pattern or ''.join('RGB'[int(x)] for x in rng.integers(0, 3, d * d))
    if rng.integers(0, 5) == 0: pattern = pattern.lower()
    same = rng.integers(0, 6) == 0
    qr = _qe(rng, nw, wave)
    while qr['kind'] == 'vector' and len(qr['num']) != nw: qr = _qe(rng, nw, wave)
    def good():
        q = _qe(rng, nw, wave)
        while q['kind'] == 'vector' and len(q['num']) != nw: q = _qe(rng, nw, wave)
        return q
    qg, qb = (qr, qr) if same else (good(), good())
    return {'kind': 'bayer', 'nw': nw, 'shape': [R, C], 'img': _cube(rng, nw, R, C, signed=bool(rng.integers(0, 2))), 'wave_nm': wave,
            'waveunit': ['nm', 'um'][int(rng.integers(0, 2))], 'qe_r': qr, 'qe_g': qg, 'qe_b': qb, 'd': d, 'os': os_,
            'pattern': pattern, 'same_qe': bool(same), 'reuse': bool(rng.integers(0, 3) == 0)}

def gen_badpattern(rng):
    c = gen_bayer(rng, d=2, os_=1)
    c['kind'] = 'badpattern'
    c['pattern'] = ['RGB', 'RGGX', 'RG', 'RGGBR', 'rgbw'][int(rng.integers(0, 5))]
    return c

DTYPES = [None, 'uint8', 'uint16', 'int32', 'int64', 'uint32', 'float32', 'float64']

def _adc_ref(c):
    """independent exact reference (Fractions): DN per pixel, warn flag"""
    R, C = c['shape']
    x = _fr(c['img'])
    cap = Fr(c['cap']['num'][0], c['cap']['den']) if c['cap'] is not None else None
    if cap == 0: cap = None
    g = c['gain']; gv = _fr(g)
    dn = []; vals = []
    for p in range(R * C):
        xv = x[p]
        if cap is not None and xv > cap: xv = cap
        if g['kind'] == 'scalar': co = [gv[0]]
        elif g['kind'] == 'poly': co = gv
        elif g['kind'] == 'pixel': co = [gv[p]]
        else: co = [gv[k * R * C + p] for k in range(g['n'])]
        n = len(co)
        v = sum(co[k] * xv ** (n - k) for k in range(n))
        dn.append(max(0, math.floor(v))); vals.append((v, sum(abs(co[k] * xv ** (n - k)) for k in range(n))))
    warns = bool(c['warn'] and cap is not None and any(v > cap for v in x))
    return dn, warns, vals

def _dn_mismatch(c, got):
    """index of the first pixel whose DN differs from the exact reference, or None. float64 `x**3` in NumPy is not correctly
    rounded (77.0**3 = 456532.99999999994), so when the exact polynomial value is an integer (or within 1e-13 relative of
    one) the floor may legitimately fall on either side: that one-DN ambiguity at the discontinuity is not a disagreement."""
    dn, _, vals = _adc_ref(c)
    for p, (g, d, (v, mag)) in enumerate(zip(got, dn, vals)):
        if g == d: continue
        # a few ulps of the largest term (NumPy's x**3 is off by one ulp) — NOT a fixed 1e-9: a value 1e-10 below an integer must floor down
        near = abs(v - round(v)) <= 1e-13 * (1 + mag)
        if near and abs(g - d) == 1 and g >= 0: continue
        return p
    return None

def gen_adc(rng):
    R, C = pick_shape(rng, 5)
    intframe = rng.integers(0, 4) == 0
    if intframe: img = _rat(rng.integers(-10, 120, R * C), 1)
    else: img = _rat(rng.integers(-40, 480, R * C), 4)
    gk = ['scalar', 'poly', 'pixel', 'pixelpoly'][int(rng.integers(0, 4))]
    n = 1 if gk in ('scalar', 'pixel') else int(rng.integers(1, 4))
    cnt = {'scalar': 1, 'poly': n, 'pixel': R * C, 'pixelpoly': n * R * C}[gk]
    signed_gain = rng.integers(0, 3) == 0
    co = rng.integers(-6 if signed_gain else 0, 17, cnt)
    gain = {'kind': gk, 'n': n, **_rat(co, 8)}
    compressive = gk in ('poly', 'pixelpoly') and rng.integers(0, 3) == 0
    t = int(rng.integers(0, 5))
    if compressive:
        # increasing but compressive curve l*x - q*x^2 with q <= l/(2*cap): non-decreasing on [0, cap] although a coefficient is negative
        capv = int(rng.choice([64, 128, 256])); l = int(rng.integers(1, 5)); n = 2
        qmax = Fr(l, 2 * capv)
        q = qmax / int(rng.choice([1, 2, 4]))
        den = q.denominator
        cnt = R * C if gk == 'pixelpoly' else 1
        gain = {'kind': gk, 'n': 2, 'num': [-int(q * den)] * cnt + [l * den] * cnt, 'den': den}
        img = _rat(rng.integers(0, 4 * capv + 40, R * C), 4) if not intframe else _rat(rng.integers(0, capv + 20, R * C), 1)
        t = -1
    if t == 0: cap = None
    elif t == 1: cap = _rat([int(rng.integers(1, 120))], 1)
    elif t == 2: cap = _rat([int(rng.integers(1, 480))], 4)
    elif t == 3: cap = _rat([int(np.max(img['num'])) // img['den'] + int(rng.integers(0, 3))], 1)   # near the maximum
    else: cap = _rat([0], 1) if rng.integers(0, 3) == 0 else _rat([int(rng.integers(1, 60))], 1)
    if compressive: cap = _rat([capv], 1)
    # NumPy integer overflow is outside the model (DESIGN §4): an int16 frame is only paired with powers that fit
    # (119**2 < 2**15 <= 58**3; witness of the excluded class: adc(int16 [[58]], [0.5, 0, 1.25]) = 0, not 97628)
    fdt = ['int64', 'int32', 'int16'][int(rng.integers(0, 3))] if intframe else 'float64'
    if intframe:
        top = max(abs(int(v)) for v in img['num']) ** max(n, gain['n'])
        if fdt == 'int16' and top >= 2 ** 15: fdt = 'int32'
        if fdt == 'int32' and top >= 2 ** 31: fdt = 'int64'
    c = {'kind': 'adc', 'shape': [R, C], 'img': img, 'intframe': bool(intframe),
         'frame_dtype': fdt,
         'gain': gain, 'cap': cap, 'warn': bool(rng.integers(0, 2)), 'dtype': None, 'mono_curve': bool(compressive)}
    dn, _, _ = _adc_ref(c)
    mx = max(dn) + 1
    ok = [d for d in DTYPES if d is None or d.startswith('float') or mx <= np.iinfo(d).max]
    if mx >= 2 ** 24 and 'float32' in ok: ok.remove('float32')
    c['dtype'] = ok[int(rng.integers(0, len(ok)))]
    return c

def gen_extreme(rng):
    """inputs at the seams: wavelengths a hair inside/outside the QE band in every unit (incl. metres, where absolute tolerances bite),
    gain-polynomial values a hair below an integer, large and small physical magnitudes"""
    t = int(rng.integers(0, 4))
    if t == 0:
        R, C = pick_shape(rng, 3); lo, hi = int(rng.integers(400, 500)), int(rng.integers(700, 900))
        mid = sorted(set(int(x) for x in rng.integers(lo + 20, hi - 20, 3)))
        grid = [lo] + mid + [hi]
        eps = [3, 30, 300][int(rng.integers(0, 3))]       # 0.003 .. 0.3 nm
        wave = [f'{lo * 1000 - eps}/1000', f'{lo * 1000 + eps}/1000', mid[0], f'{hi * 1000 - eps}/1000', f'{hi * 1000 + eps}/1000']
        unit = ['m', 'm', 'um', 'nm', 'angstrom'][int(rng.integers(0, 5))]
        q = {'kind': 'spectrum', 'grid_nm': grid, 'val': _rat([int(x) for x in rng.integers(2, 9, len(grid))], 8), 'unit': unit, 'flat': False}
        return {'kind': 'collect', 'nw': 5, 'ns': 5, 'shape': [R, C], 'img': _cube(rng, 5, R, C, signed=False), 'wave_nm': wave, 'two_d': False,
                'waveunit': unit if rng.integers(0, 2) else ['m', 'nm'][int(rng.integers(0, 2))], 'qe': q, 'extreme': 'band-edge', 'reuse': bool(rng.integers(0, 2))}
    R, C = pick_shape(rng, 4)
    gk = ['scalar', 'poly', 'pixel', 'pixelpoly'][int(rng.integers(0, 4))]
    n = 1 if gk in ('scalar', 'pixel') else 2
    cnt = {'scalar': 1, 'poly': 1, 'pixel': R * C, 'pixelpoly': R * C}[gk]
    k = int(rng.choice([30, 34, 40]))
    den = 2 ** k
    one_minus = den - 1                                 # gain 1 - 2^-k: value x - x*2^-k, a hair below the integer x
    nums = ([0] * cnt if n == 2 else []) + [one_minus] * cnt
    img = _rat(rng.integers(1, 17, R * C), 1)
    cap = None if rng.integers(0, 2) else _rat([int(rng.integers(4, 14))], 1)
    c = {'kind': 'adc', 'shape': [R, C], 'img': img, 'intframe': bool(rng.integers(0, 2)), 'frame_dtype': 'float64',
         'gain': {'kind': gk, 'n': n, 'num': nums, 'den': den}, 'cap': cap, 'warn': False, 'dtype': [None, 'uint16', 'int32'][int(rng.integers(0, 3))],
         'mono_curve': False, 'extreme': 'just-below-integer'}
    if c['intframe']: c['frame_dtype'] = ['int64', 'int16', 'uint8'][int(rng.integers(0, 3))]
    return c

def generate(rng, tier):
    n = {'quick': 240, 'thorough': 5000, 'search': 1500}[tier]
    out = []
    for _ in range({'quick': 12, 'thorough': 250, 'search': 400}[tier]): out.append(gen_extreme(rng))
    for k in range(n):
        t = k % 12
        if t in (0, 1, 2): out.append(gen_collect(rng))
        elif t in (3, 4, 5, 6): out.append(gen_bayer(rng))
        elif t == 7 and k % 5 == 0: out.append(gen_badpattern(rng))
        else: out.append(gen_adc(rng))
    # forced coverage of every (d, os)
    for d in (1, 2, 3):
        for os_ in (1, 2, 3, 4, 5):
            out.append(gen_bayer(rng, d=d, os_=os_))
    if tier == 'thorough':
        import itertools
        for pat in itertools.product('RGB', repeat=4):
            for os_ in range(1, 7):
                out.append(gen_bayer(rng, d=2, os_=os_, pattern=''.join(pat)))
        for pat in 'RGB':
            for os_ in range(1, 7): out.append(gen_bayer(rng, d=1, os_=os_, pattern=pat))
    # histories (appended last: the streams above keep their draws): a QE Spectrum is first sampled in its OWN wave unit (directly or through a
    # collect_charge in that unit), then the judged call uses the same object with ANOTHER waveunit — it must see the spectrum, not earlier state
    for k in range({'quick': 10, 'thorough': 300, 'search': 150}[tier]): out.append(gen_native_first(rng, k))
    # rank of the gain array: 0..3 are the four documented forms, anything above must be refused (ValueError of the dispatch)
    for k in range({'quick': 6, 'thorough': 40, 'search': 12}[tier]):
        out.append({'kind': 'adc_rank', 'ndim': [4, 5, 0, 1, 2, 3, 6][k % 7], 'shape': [int(rng.integers(1, 4)), int(rng.integers(1, 4))], 'order': int(rng.integers(1, 4))})
    return out

def gen_native_first(rng, k):
    while True:
        c = gen_collect(rng) if k % 2 == 0 else gen_bayer(rng)
        qs = [c['qe']] if c['kind'] == 'collect' else [c['qe_r'], c['qe_g'], c['qe_b']]
        if c['kind'] == 'collect' and c.get('ns', c['nw']) != c['nw']: continue
        if any(q['kind'] == 'spectrum' and q['unit'] != c['waveunit'] for q in qs): break
    c['native_first'] = ['sample', 'collect'][(k // 2) % 2]
    return c

def signature(c):
    k = c['kind']
    if k == 'adc_rank': return f"adc_rank ndim={c['ndim']} {c['shape']} order={c['order']}"
    if k == 'collect': return f"collect {c['nw']} {c['shape']} {c['qe']['kind']} {c['qe'].get('unit')} {c['waveunit']} 2d={c['two_d']}"
    if k in ('bayer', 'badpattern'): return f"{k} {c['shape']} d={c['d']} os={c['os']} {c['pattern']} {c['qe_r']['kind']}"
    g = c['gain']
    return f"adc {c['shape']} {g['kind']} n={g['n']} cap={c['cap'] and (c['cap']['num'][0], c['cap']['den'])} {c['dtype']} {c['frame_dtype']} w={c['warn']}"

def nontrivial(c):
    k = c['kind']
    if k == 'adc_rank': return True
    if k == 'collect': return c['nw'] > 1 or c['qe']['kind'] != 'scalar'
    if k == 'bayer': return len(set(c['pattern'].upper())) > 1 or c['os'] > 1
    if k == 'badpattern': return True
    dn, _, _ = _adc_ref(c)
    x = _fr(c['img'])
    cap = c['cap'] and Fr(c['cap']['num'][0], c['cap']['den'])
    return any(v < 0 for v in x) or bool(cap and any(v > cap for v in x)) or c['gain']['n'] > 1

def tags(c):
    k = c['kind']; t = [k]
    if k == 'adc_rank': return t + ['gain-rank:' + ('refused(>3)' if c['ndim'] > 3 else str(c['ndim']))]
    if c.get('extreme'): t.append('extreme:' + c['extreme'])
    if c.get('native_first'): t.append('history:Spectrum-used-in-its-own-unit-first:' + c['native_first'])
    if k == 'collect' and c.get('reuse') and c['qe']['kind'] == 'spectrum': t.append('collect:same-Spectrum-reused-after-value-edit')
    if k == 'collect' and c.get('ns', c['nw']) != c['nw']: t.append('collect:slices!=wavelengths' + (':broadcast' if c['ns'] == 1 else ':refused'))
    if k == 'collect': t += ['qe:' + c['qe']['kind'] + (':' + c['qe']['unit'] if c['qe']['kind'] == 'spectrum' else ''), 'waveunit:' + c['waveunit']]
    if k == 'bayer':
        t += [f"bayer:d={c['d']}", f"bayer:os={c['os']}"]
        R, C = c['shape']
        if R % (c['d'] * c['os']) or C % (c['d'] * c['os']): t.append('bayer:size-not-multiple')
        if c['same_qe']: t.append('bayer:equal-qe')
    if k == 'adc':
        t += ['gain:' + c['gain']['kind'], f"order:{c['gain']['n']}", f"dtype:{c['dtype']}", 'frame:' + c['frame_dtype']]
        x = _fr(c['img']); cap = c['cap'] and Fr(c['cap']['num'][0], c['cap']['den'])
        if any(v < 0 for v in x): t.append('adc:negative-electrons')
        if cap and any(v > cap for v in x): t.append('adc:over-capacity')
        if c['cap'] is None: t.append('adc:no-cap')
        if c['cap'] is not None and c['cap']['num'][0] == 0: t.append('adc:cap-zero')
        dn, w, _ = _adc_ref(c)
        if w: t.append('adc:warns')
        g = _fr(c['gain'])
        if any(v < 0 for v in g): t.append('adc:negative-gain')
        if c.get('mono_curve'): t.append('adc:compressive-increasing-curve')
    return t

# ------------------------------------------------------------------------------------------ implementation
def _qe_obj(q, lentil):
    if q['kind'] == 'scalar': return float(_np(q)[0])
    if q['kind'] == 'vector': return _np(q)
    u = UNITS[q['unit']]
    grid = np.array([float(Fr(g) * u) for g in q['grid_nm']])
    return lentil.radiometry.Spectrum(grid, _np(q['val']), waveunit=q['unit'])

def _native_first(c, pairs, img, D, lentil):
    """earlier use of the same Spectrum objects in their own wave unit (results discarded)"""
    for q, o in pairs:
        if not isinstance(o, lentil.radiometry.Spectrum): continue
        own = np.array(o.wave, dtype=float, copy=True)
        if c['native_first'] == 'sample' or img.ndim != 3: o.sample(own[:max(1, img.shape[0] if img.ndim == 3 else 1)], waveunit=q['unit'])
        else:
            w = np.linspace(own[0], own[-1], img.shape[0]) if img.shape[0] > 1 else own[:1]
            D.collect_charge(img, w, o, waveunit=q['unit'])

def _wu(c):
    """the waveunit argument; omitted in half of the nm cases so the documented default ('nm') is exercised"""
    return {} if (c['waveunit'] == 'nm' and c.get('hseed_default', len(c['wave_nm']) + c['shape'][0]) % 2 == 0) else {'waveunit': c['waveunit']}

def _wave(c):
    u = UNITS[c['waveunit']]
    return np.array([float(Fr(w) * u) for w in c['wave_nm']])

def _pairs(a):
    return [list(float(x).as_integer_ratio()) for x in np.asarray(a, dtype=float).ravel()]

def impl(c):
    lentil = vlib.import_lentil()
    import lentil.detector as D
    k = c['kind']
    if k == 'adc_rank':
        R, C = c['shape']; nd = c['ndim']
        shp = {0: (), 1: (c['order'],), 2: (R, C)}.get(nd, (1,) * (nd - 3) + (c['order'], R, C))
        frame = np.full((R, C), 3.0); frame.flags.writeable = False
        try:
            out = D.adc(frame, np.full(shp, 0.5))
            return {'ok': True, 'shape': list(out.shape)}
        except Exception as e:
            return {'exc': type(e).__name__, 'msg': str(e)[:120]}
    try:
        if k == 'collect':
            R, C = c['shape']
            img = _np(c['img'], (c.get('ns', c['nw']), R, C))
            if c['two_d']: img = img[0]
            snap = img.tobytes(); img.flags.writeable = False
            qe = _qe_obj(c['qe'], lentil)
            if c.get('reuse') and c['qe']['kind'] == 'spectrum':
                # the SAME Spectrum object is used for an earlier call with other values, then edited through its public attribute:
                # the later call must see the current values (and be linear in them)
                final = np.array(qe.value, copy=True)
                qe.value = final[::-1] * 0.5 + 0.125
                D.collect_charge(img, _wave(c), qe, **_wu(c))
                qe.value = final
            if c.get('native_first'): _native_first(c, [(c['qe'], qe)], img, D, lentil)
            out = D.collect_charge(img, _wave(c), qe, **_wu(c))
            return {'shape': list(out.shape), 'out': _pairs(out), 'untouched': img.tobytes() == snap}
        if k in ('bayer', 'badpattern'):
            R, C = c['shape']
            img = _np(c['img'], (c['nw'], R, C))
            snap = img.tobytes(); img.flags.writeable = False
            args = (img, _wave(c), _qe_obj(c['qe_r'], lentil), _qe_obj(c['qe_g'], lentil), _qe_obj(c['qe_b'], lentil), c['pattern'])
            if c.get('reuse') and c['kind'] == 'bayer' and R % (c['d'] * c['os']) == 0 and C % (c['d'] * c['os']) == 0:
                specs = [q for q in args[2:5] if isinstance(q, lentil.radiometry.Spectrum)]
                finals = [np.array(q.value, copy=True) for q in specs]
                for q, f in zip(specs, finals): q.value = f[::-1] * 0.5 + 0.125
                D.collect_charge_bayer(*args, oversample=c['os'], **_wu(c))
                for q, f in zip(specs, finals): q.value = f
            if c.get('native_first') and c['kind'] == 'bayer': _native_first(c, list(zip((c['qe_r'], c['qe_g'], c['qe_b']), args[2:5])), img, D, lentil)
            flat = D.collect_charge_bayer(*args, oversample=c['os'], **_wu(c))
            ch = D.collect_charge_bayer(*args, oversample=c['os'], waveunit=c['waveunit'], flatten=False)
            if list(flat.shape) != [R, C]:
                return {'shape': list(flat.shape), 'broadcast': True, 'size': int(flat.size), 'untouched': img.tobytes() == snap}
            res = {'shape': list(flat.shape), 'flat': _pairs(flat), 'r': _pairs(ch[0]), 'g': _pairs(ch[1]), 'b': _pairs(ch[2]),
                   'untouched': img.tobytes() == snap}
            if c.get('same_qe'):
                res['mono'] = _pairs(D.collect_charge(img, _wave(c), _qe_obj(c['qe_r'], lentil), **_wu(c)))
            return res
        if k == 'adc':
            R, C = c['shape']
            img = _np(c['img'], (R, C)).astype(c['frame_dtype'])
            snap = img.tobytes(); img.flags.writeable = False
            g = c['gain']
            gv = _np(g)
            gain = {'scalar': lambda: float(gv[0]), 'poly': lambda: gv, 'pixel': lambda: gv.reshape(R, C),
                    'pixelpoly': lambda: gv.reshape(g['n'], R, C)}[g['kind']]()
            gsnap = np.asarray(gain).tobytes()
            if isinstance(gain, np.ndarray): gain.flags.writeable = False
            cap = None if c['cap'] is None else (int(c['cap']['num'][0]) if c['cap']['den'] == 1 else c['cap']['num'][0] / c['cap']['den'])
            with warnings.catch_warnings(record=True) as w:
                warnings.simplefilter('always')
                out = D.adc(img, gain, saturation_capacity=cap, warn_saturate=c['warn'], dtype=c['dtype'])
            sat = [x for x in w if 'saturated' in str(x.message)]
            return {'shape': list(out.shape), 'dn': _pairs(out), 'dtype': str(out.dtype), 'warns': len(sat) > 0,
                    'other_warnings': [str(x.message)[:80] for x in w if x not in sat],
                    'untouched': img.tobytes() == snap and np.asarray(gain).tobytes() == gsnap, 'same_object': out is img}
    except Exception as e:
        if isinstance(e, (ValueError, AssertionError)):
            return {'exc': type(e).__name__, 'msg': str(e)[:200]}
        raise

# ------------------------------------------------------------------------------------------ model requests
def _qe_ref(q, wave_nm, nw):
    """the QE as a vector of exact fractions (independent reference; Spectrum: linear interpolation computed in nm)"""
    if q['kind'] == 'scalar': return [_fr(q)[0]] * nw
    if q['kind'] == 'vector': return _fr(q)
    g = q['grid_nm']; v = _fr(q['val'])
    out = []
    for w in wave_nm:
        w = Fr(w)
        if w < g[0] or w > g[-1]: out.append(Fr(0)); continue          # outside the band: fill_value = 0
        k = max(i for i in range(len(g) - 1) if g[i] <= w)
        out.append(v[k] + (v[k + 1] - v[k]) * Fr(w - g[k], g[k + 1] - g[k]))
    return out

def _ratlist(fr):
    den = 1
    for r in fr: den = den * r.denominator // math.gcd(den, r.denominator)
    return {'num': [int(r * den) for r in fr], 'den': den}

def _qe_req(q, wave_nm, nw, waveunit=None):
    if q['kind'] != 'spectrum': return {'kind': q['kind'], 'num': q['num'], 'den': q['den']}
    if waveunit is not None:
        # the Spectrum object itself goes to the model: grid in its own unit, the call's wavelengths in the call's unit; the model
        # converts with the regenerated unit table and interpolates (Model/Detector.lean spectrumSample)
        return {'kind': 'spectrumobj', 'num': q['val']['num'], 'den': q['val']['den'], 'su': q['unit'], 'wu': waveunit,
                'grid': _ratlist([Fr(g) * UNITS[q['unit']] for g in q['grid_nm']]), 'wave': _ratlist([Fr(w) * UNITS[waveunit] for w in wave_nm])}
    ref = _qe_ref(q, wave_nm, nw)
    den = 1
    for r in ref: den = den * r.denominator // math.gcd(den, r.denominator)
    return {'kind': 'spectrum', 'num': [int(r * den) for r in ref], 'den': den}

def requests(c, io):
    k = c['kind']
    if k == 'adc_rank': return [{'op': 'det.gain_rank', 'ndim': c['ndim']}]
    if k == 'collect':
        return [{'op': 'det.collect', 'nw': c['nw'], 'ns': c.get('ns', c['nw']), 'shape': c['shape'], 'img': c['img'], 'qe': _qe_req(c['qe'], c['wave_nm'], c['nw'], c['waveunit'])}]
    if k in ('bayer', 'badpattern'):
        return [{'op': 'det.bayer', 'nw': c['nw'], 'shape': c['shape'], 'img': c['img'], 'd': c['d'], 'os': c['os'],
                 'pattern': c['pattern'], **{x: _qe_req(c[x], c['wave_nm'], c['nw'], c['waveunit']) for x in ('qe_r', 'qe_g', 'qe_b')}}]
    if k == 'adc':
        return [{'op': 'det.adc', 'shape': c['shape'], 'img': c['img'], 'gain': c['gain'], 'cap': c['cap'], 'warn': c['warn']}]
    return []

def _exact(c):
    qs = [c[x] for x in ('qe', 'qe_r', 'qe_g', 'qe_b') if x in c]
    return all(q['kind'] != 'spectrum' for q in qs)

def _cmp_img(c, got_pairs, want_fr, what):
    if len(got_pairs) != len(want_fr): return f'{what}: {len(got_pairs)} values vs {len(want_fr)}'
    if _exact(c):
        for p, (g, w) in enumerate(zip(got_pairs, want_fr)):
            if Fr(g[0], g[1]) != w: return f'{what}: pixel {p}: implementation {float(Fr(g[0], g[1]))!r}, reference {float(w)!r}'
        return None
    scale = 1 + max(abs(float(w)) for w in want_fr)
    for p, (g, w) in enumerate(zip(got_pairs, want_fr)):
        if abs(g[0] / g[1] - float(w)) > 1e-9 * scale: return f'{what}: pixel {p}: implementation {g[0] / g[1]!r}, reference {float(w)!r}'
    return None

def _mfr(m): return [Fr(n, d) for n, d in zip(m['num'], m['den'])]

def compare(c, io, mo):
    k = c['kind']
    m = mo[0]
    if k == 'adc_rank':
        if not m.get('ok'): return f"model refused {m.get('err')}"
        if m['accepted'] != ('exc' not in io): return f"gain of rank {c['ndim']}: implementation {io.get('exc', 'accepted')}, regenerated dispatch {'accepts' if m['accepted'] else 'refuses'}"
        return None
    if 'exc' in io:
        if m.get('ok'): return f"implementation raised {io['exc']}, model answered"
        return None if m.get('err') == io['exc'] else f"implementation raised {io['exc']}, model {m.get('err')}"
    if not m.get('ok'): return f"model refused ({m.get('err')}), implementation answered"
    if k == 'collect':
        if io['shape'] != c['shape']: return f"shape {io['shape']}"
        return _cmp_img(c, io['out'], _mfr(m['out']), 'electrons')
    if k == 'bayer':
        if io.get('broadcast') or 'broadcast_shape' in m:
            return None if io.get('shape') == m.get('broadcast_shape') else f"broadcast result shape: implementation {io.get('shape')}, model {m.get('broadcast_shape')}"
        if io['shape'] != c['shape']: return f"shape {io['shape']}"
        for key in ('flat', 'r', 'g', 'b'):
            d = _cmp_img(c, io[key], _mfr(m[key]), key)
            if d: return d
        return None
    if io['shape'] != c['shape']: return f"shape {io['shape']}"
    got = [Fr(a, b) for a, b in io['dn']]
    if [Fr(x) for x in m['dn']] != [Fr(x) for x in _adc_ref(c)[0]]: return 'model DN differ from the exact reference'
    p = _dn_mismatch(c, got)
    if p is not None: return f"DN differ at pixel {p}: implementation {float(got[p])}, model {m['dn'][p]}"
    if io['warns'] != m['warns']: return f"warning: implementation {io['warns']}, model {m['warns']}"
    return None

# ------------------------------------------------------------------------------------------ oracle (real code only)
def oracle(c, io):
    k = c['kind']
    if k == 'adc_rank':
        if c['ndim'] > 3: return None if io.get('exc') == 'ValueError' else f"adc accepted a gain array of rank {c['ndim']} ({io.get('exc', 'returned ' + str(io.get('shape')))}); only scalar, polynomial, per-pixel and per-pixel-polynomial gains exist"
        if 'exc' in io: return f"adc refused a gain of rank {c['ndim']}: {io['exc']} {io['msg']}"
        return None if io['shape'] == c['shape'] else f"adc output shape {io['shape']}"
    R, C = c['shape']
    if k == 'badpattern':
        return None if io.get('exc') == 'ValueError' else f"malformed Bayer string {c['pattern']!r} accepted"
    if k == 'collect':
        q = c['qe']
        if q['kind'] == 'vector' and len(q['num']) != c['nw']:
            return None if io.get('exc') == 'AssertionError' else 'QE vector of the wrong length accepted'
        ns = c.get('ns', c['nw'])
        if ns != c['nw'] and ns != 1:
            return None if io.get('exc') == 'ValueError' else f"cube of {ns} slices accepted with {c['nw']} wavelengths"
        if 'exc' in io: return f"collect_charge raised {io['exc']}: {io.get('msg')}"
        if not io['untouched']: return 'collect_charge modified the photon cube'
        x = _fr(c['img']); qe = _qe_ref(q, c['wave_nm'], c['nw'])
        # (a single slice against nw > 1 efficiencies is broadcast by the code: photons * sum(qe) — accepted silently, reported)
        want = [sum(x[(l if ns == c['nw'] else 0) * R * C + p] * qe[l] for l in range(c['nw'])) for p in range(R * C)]
        if io['shape'] != [R, C]: return f"result shape {io['shape']}"
        return _cmp_img(c, io['out'], want, 'collected charge is not sum_l photons*QE')
    if k == 'bayer':
        d, os_ = c['d'], c['os']
        if R % (d * os_) or C % (d * os_):
            if io.get('exc') == 'ValueError': return None
            # outside the quantifier (sizes that are multiples of the pattern): a one-row/one-column image is broadcast against an empty
            # mosaic and comes back EMPTY instead of being refused (reported); anything else that is accepted is a violation
            if (R == 1 or C == 1) and io.get('broadcast') and io.get('size') == 0: return None
            return 'image size is not a multiple of pattern*oversample but was accepted'
        if 'exc' in io: return f"collect_charge_bayer raised {io['exc']}: {io.get('msg')} (image {R}x{C} is a multiple of pattern {d}x{d} x oversample {os_})"
        if io.get('broadcast'): return f"collect_charge_bayer returned shape {io['shape']} for a {R}x{C} image (multiple of pattern x oversample)"
        if not io['untouched']: return 'collect_charge_bayer modified the photon cube'
        x = _fr(c['img']); pat = c['pattern'].upper()
        qe = {'R': _qe_ref(c['qe_r'], c['wave_nm'], c['nw']), 'G': _qe_ref(c['qe_g'], c['wave_nm'], c['nw']),
              'B': _qe_ref(c['qe_b'], c['wave_nm'], c['nw'])}
        flat, ch = [], {'R': [], 'G': [], 'B': []}
        for i in range(R):
            for j in range(C):
                col = pat[((i // os_) % d) * d + (j // os_) % d]
                v = sum(x[l * R * C + i * C + j] * qe[col][l] for l in range(c['nw']))
                flat.append(v)
                for cc in 'RGB': ch[cc].append(v if cc == col else Fr(0))
        msg = _cmp_img(c, io['flat'], flat, f'sub-pixel does not use the QE of the tiled pattern colour (d={d}, os={os_})')
        if msg: return msg
        for cc, key in zip('RGB', ('r', 'g', 'b')):
            msg = _cmp_img(c, io[key], ch[cc], f'channel {cc}')
            if msg: return msg
        s = [Fr(*a) + Fr(*b) + Fr(*e) for a, b, e in zip(io['r'], io['g'], io['b'])]
        if _exact(c) and s != [Fr(*a) for a in io['flat']]: return 'channel images do not sum to the flattened image'
        if c.get('same_qe') and 'mono' in io:
            if [Fr(*a) for a in io['mono']] != [Fr(*a) for a in io['flat']]: return 'equal QEs do not reproduce the monochrome result'
        return None
    # adc
    if 'exc' in io: return f"adc raised {io['exc']}: {io.get('msg')}"
    if not io['untouched']: return 'adc modified its input frame or gain'
    dn, warns, _ = _adc_ref(c)
    got = [Fr(a, b) for a, b in io['dn']]
    if io['shape'] != [R, C]: return f"DN frame shape {io['shape']}"
    if any(g < 0 for g in got): return 'negative DN'
    p = _dn_mismatch(c, got)
    if p is not None:
        return f"DN at pixel {p} is {float(got[p])}, floor of the gain polynomial at the clipped count is {dn[p]}"
    if io['warns'] != warns: return f"saturation warning {'emitted' if io['warns'] else 'missing'} (expected {warns})"
    if io['other_warnings']: return f"unexpected warning {io['other_warnings'][0]}"
    want_dt = 'float64' if c['dtype'] is None else str(np.dtype(c['dtype']))
    if io['dtype'] != want_dt: return f"output dtype {io['dtype']}, requested {want_dt}"
    # monotone for non-negative coefficients and inputs (global gain forms)
    g = c['gain']
    if (g['kind'] in ('scalar', 'poly') and all(v >= 0 for v in _fr(g))) or c.get('mono_curve'):
        # (compressive cases: the same curve at every pixel, non-decreasing on [0, cap])
        x = _fr(c['img'])
        pts = sorted((xv, int(d_)) for xv, d_ in zip(x, got) if xv >= 0 or (g['n'] == 1 and not c.get('mono_curve')))
        for (x1, d1), (x2, d2) in zip(pts, pts[1:]):
            if d1 > d2: return f'DN not monotone: {float(x1)} -> {d1}, {float(x2)} -> {d2}'
    return None

def shrink(c):
    if c['kind'] == 'adc' and c['dtype'] is not None:
        d = dict(c); d['dtype'] = None; yield d
    if c['kind'] == 'adc' and c['warn']:
        d = dict(c); d['warn'] = False; yield d
