"""C09 — FFT propagation agrees with DFT propagation at the reported wavelength; scratch space is transparent.

Tie: Gen/FftScratch.lean (scratch regions, _has_tilt fold, _fft_shape call site and reported wavelengths, both shape branches and
guards, scratch guard, metadata hand-over, scratch_shape's call, the _fft2 composition), Gen/PropagateMeta.lean (_dft_alpha), Gen/Util.lean
(util.pad index block), Gen/FieldIdx (insert) and Gen/Extent are regenerated from the repository and consumed by Model/PropagateFft.lean;
hand-written there: the plumbing between them and np.fft.fft2 / fftshift / ifftshift / np.round / np.min by their documented contracts.
The model runs at Float and is compared with the real `lentil.propagate_fft`.
Oracle (real code only): propagate_fft versus propagate_dft of the same fields at the reported wavelength; scratch
exact / larger / dirty / left over from a previous call versus no scratch; refusals."""
import numpy as np
from harness.common import *
from harness import c02 as P
import vlib

LEVEL_TEXT = ('Lean 4 theorems about the model of propagate_fft, for all fields, samplings, oversampling factors, shapes and scratch '
              'buffers: at C/R and isotropic dx·du (or per-axis sampling whose axes lead to the same wavelength, e.g. non-square grids 20x40), every sample of Wavefront.field of propagate_fft equals the sample of Wavefront.field of '
              'the propagate_dft model (C02, proved against the Fraunhofer sum) at the reported wavelength, for every accepted output shape (fft_eq_fraunhofer_sum states it directly as the defining double sum '
              'with alpha = dx·du/(λ_reported z os)), '
              'with or without scratch (centred FFT = unitary dft2 with alpha = 1/S for both parities by the NumPy contracts; reported '
              'wavelength makes alpha = 1/S; dft2 of the padded grid = sum of per-field dft2 with offsets); the result with a sufficient '
              'scratch of any size/content equals the result without; a buffer of exactly fft_shape is accepted, smaller ones, shapes with (refuses_larger_shape_real / accepted_shape_fits_real at C/R) '
              'shape > fft_shape/oversample (float comparison, proved equivalent to shape·oversample > fft_shape) and wavefronts in which ANY field '
              'carries tilt are refused; scratch_shape is the grid at max(wavelength) and suffices for every smaller wavelength (scratch_shape_monotone_real: unconditional at R, '
              'the monotonicity of round-half-even is proved, roundEven_real_mono); metadata carried. '
              'Regenerated from propagate.py/util.py: scratch slice regions, the _has_tilt fold, _dft_alpha, the _fft_shape call site and reported '
              'wavelengths, both shape branches and guards, the scratch guard, the metadata hand-over, scratch_shape\'s call, the pad index block, and the _fft2 '
              'composition (which shift is applied inside/outside and the norm= keyword are read from the source: Gen.fft2InnerIdx/fft2OuterIdx/fft2Norm, '
              'fft2_composition proves they are ifftshift / fftshift / ortho). propagateFft_scale_covariant: scaling every length by k>0 leaves the whole outcome '
              '(accepted field data and extents, or the same refusal) unchanged and multiplies the reported wavelength by k, and scratch_shape is unit independent (scratch_shape_scale_invariant_real) (for 0 < k; min(ka, kb) = k min(a, b) is proved, fft_scale_invariant_real / propagateFft_scale_covariant_real carry no other hypothesis). The oracle also checks that a '
              'caller\'s scratch buffer is untouched outside the fft_shape corner after the call. '
              'The call on a wavefront of any plane type (propagateFftCall = regenerated entry-guard table Gen.codePropagateFft, then propagateFft): a tilted wavefront is refused '
              'whatever its plane type, also an untyped one (call_refuses_tilted_any_type), no outcome of the call carries a field of a tilted wavefront (call_result_implies_untilted), '
              'an untilted untyped wavefront is refused with TypeError and on a pupil / image wavefront the call IS propagateFft with the plane type flipped (call_untilted). '
              'The arithmetic of _fft_shape is regenerated too: Gen.fftShapeOfAlpha (the composition np.round(np.reciprocal(alpha)).astype(int) over abstract round/floor/ceil/reciprocal) and '
              'Gen.fftWavelengthReduce (np.min); fft_shape_is_generated proves the model\'s fftShape, scratchShape and propWavelength are these with round-half-even, 1/x and min.')
LEVEL_NOTE = ('Partial: np.fft.fft2/fftshift/ifftshift and np.round/np.min/np.max enter through their documented contracts (not verified; which of them _fft2 composes and in which order IS regenerated; the real-number round-half-even and min are the instances the theorems are proved at); oversample is an integer in the model and theorems — float '
              'oversample is exercised by the oracle only (known finding KF-C09-float-oversample-explicit-shape); anisotropic dx·du whose per-axis wavelengths DIFFER is excluded by '
              'hypothesis (KF-C09-fft-anisotropic-wavelength; consistent per-axis grids are covered). Trusted: Lean kernel, py2lean subset semantics, generator coverage.')
TECHNIQUE = 'Lean 4 proof (finite-sum reindexing, omega) over hand model with differential correspondence at Float'
GEN = ['Extent', 'FftScratch', 'FieldDispatch', 'FieldIdx', 'FieldMerge', 'FourierWiring', 'Helper', 'Helper20', 'Hex', 'Mesh', 'PlanePhase', 'PlaneType', 'PropagateMeta', 'TiltFit', 'Util', 'Window', 'FieldAccum']      # every Gen module the model, lemmas and driver import (transitively)
OPS = ['C02', 'C09']
RULE = ('cases: pupils 1..6 x 1..6 (even/odd/non-square, off-centre, segmented) no larger than the grid; FFT grids 2..12 of both '
        'parities chosen through du (1/alpha within +-0.35 of the target, incl. non-integer); oversample 1..4; shape None/int/pair '
        'accepted and too large (one in three given as np.int64 / int32 array); scratch none / exact / larger / too small, zero / random-dirty / left from a previous call, one in three a non-contiguous strided view whose parent array is watched too; '
        'tilted wavefronts; one case in five has anisotropic dx*du (non-square grids, wider and taller, mostly with dirty/re-used scratch: '
        'scratch = no scratch, exact scratch_shape and refusals are checked there too; only FFT vs DFT is the known-finding class). distinct = (pupil, grid, os, shape, scratch, class); '
        'non-trivial = odd grid or scratch or explicit shape or refusal'
        ' Untyped stream (8 quick / 60 search / 120 thorough): the same cases on a wavefront of plane type none (plain Plane), every second tilted.'
        ' Extremes stream: every length scaled by 1e-9..1e3, 1/alpha within 1e-9..3e-4 of an integer, per-axis output pitches differing by 1e-5..3e-3 relative, grids up to 48 in search/thorough (oracle only above 16).')
TRUSTED = ['np.fft.fft2(norm="ortho") = unitary DFT with origin at index 0; np.fft.fftshift/ifftshift = rotations by +-floor(n/2); '
           'np.round = round-half-even; lentil.field.insert as modelled by insertArr (C06)']
UNPROVEN = ['float (non-integer) oversample: outside the model; explicit shapes then end in TypeError (known finding)',
            'anisotropic dx*du with different per-axis wavelengths (known finding): a single reported wavelength cannot describe both grids']
ASSUMPTIONS = ['untyped wavefronts (plane type none: only a plain lentil.Plane met; tilted through Wavefront(tilt=) / a Tilt plane or not, with any shape / scratch) are generated: NotImplementedError when tilted, else TypeError (oracle); model = propagateFftCall over the regenerated guard table Gen.codePropagateFft',
               'scratch buffers are complex128 arrays (contiguous or strided views): a complex64 / real buffer would store the padded field at lower precision or drop its '
               'imaginary part, so "scratch transparent" is only claimed for buffers of the working dtype; such buffers are not generated',
               'pupil (wavefront.shape) no larger than the FFT grid; for the FFT = DFT clause dx*du is isotropic or the per-axis grids agree on the wavelength (S0*dx0*du0 = S1*dx1*du1, e.g. non-square grids 20x40; otherwise the open known finding); integer oversample >= 1 in model and '
               'theorems (float oversample: oracle only, shape=None works, explicit shapes are an open known finding)']

WL, Z = P.WL, P.Z

def _even_round(x):
    return int(np.round(x))

def _case(rng, tier, k, out, scale=1.0, near=None, smax=None, kmax=6, float_os=False, untyped=False):
    """one case appended to `out`. `scale` multiplies every length (nothing observable but the reported wavelength, which
    scales along, may change); near='int': 1/alpha within 1e-9 .. 3e-4 of an integer; near='axis': per-axis output pitches that
    differ by a relative 1e-5 .. 3e-3 only"""
    if True:
        WL = float(rng.choice([5e-7, 4.25e-7, 6.5e-7, 1.1e-6])) * scale; Z = float(rng.choice([8.0, 2.5, 20.0, 0.75])) * scale
        p = P._pupil(rng, kmax, wl=WL)
        m, nn = p['shape']
        os_ = int(rng.integers(1, 5))
        smax = smax or (12 if tier != 'thorough' else 16)
        cls = 'aniso' if (k % 5 == 4 and near is None) else 'iso'
        if rng.integers(0, 2): dx = [scale / 64, scale / 64]; scalar_dx = True
        else: dx = [float(rng.choice([1 / 64, 1 / 32])) * scale, float(rng.choice([1 / 64, 1 / 32])) * scale]; scalar_dx = dx[0] == dx[1]
        S = int(rng.integers(max(m, nn, 2), max(m, nn, 2, smax) + 1))
        target = S + float(rng.choice([0.0, 0.0, rng.uniform(-0.35, 0.35), 0.5 if rng.integers(0, 6) == 0 else 0.0]))
        if near == 'int': target = S + float(rng.choice([-1, 1]) * 10 ** rng.uniform(-9, -3.5))
        # 1/alpha = wl*z*os/(dx*du) = target  ->  du = wl*z*os/(dx*target)
        du = [WL * Z * os_ / (dx[0] * target), WL * Z * os_ / (dx[1] * target)]
        if cls == 'aniso':
            S2 = int(rng.integers(max(m, nn, 2), smax + 1))
            if S2 == S: S2 = S + 1
            du[1] = WL * Z * os_ / (dx[1] * S2)
            if rng.integers(0, 2):
                # different grid sizes per axis, 1/alpha integral on both: one wavelength describes both axes, FFT must equal DFT
                du[0] = WL * Z * os_ / (dx[0] * S); cls = 'aniso-consistent'
        if near == 'axis':
            cls = 'aniso'; S2 = S
            du[1] = du[0] * dx[0] / dx[1] * (1 + float(rng.choice([-1, 1]) * 10 ** rng.uniform(-5, -2.5)))
        scalar_du = bool(du[0] == du[1] and rng.integers(0, 2))
        t = rng.integers(0, 6)
        Smin = min(S, S if cls == 'iso' else S2)
        if t <= 1: shape = None
        elif t == 2: shape = int(rng.integers(1, max(2, Smin // os_ + 1)))
        elif t == 3: shape = [int(rng.integers(1, max(2, Smin // os_ + 1))), int(rng.integers(1, max(2, Smin // os_ + 1)))]
        elif t == 4: shape = [max(1, Smin // os_ + int(rng.integers(0, 2))), Smin // os_ + 1]      # too large on at least one axis
        else: shape = Smin // os_ if Smin // os_ >= 1 else None                            # the largest accepted
        t = rng.integers(0, 7)
        if t <= 1: scratch = None
        else:
            scratch = {'size': ['exact', 'exact', 'larger', 'larger', 'small'][t - 2], 'content': ['zero', 'dirty', 'prev'][int(rng.integers(0, 3))],
                       'pad': [int(rng.integers(0, 4)), int(rng.integers(0, 4))], 'seed': int(rng.integers(0, 2 ** 31))}
            if scratch['size'] == 'larger' and scratch['pad'] == [0, 0]: scratch['pad'] = [1, 2]
            if scratch['size'] == 'small': scratch['pad'] = [-1, 0] if rng.integers(0, 2) else [0, -1]
        if cls.startswith('aniso') and near is None and rng.integers(0, 10) < 7:
            # non-square grids (wider than tall and taller than wide) with a dirty / re-used buffer, exact or larger
            scratch = {'size': 'exact' if rng.integers(0, 2) else 'larger', 'content': 'dirty' if rng.integers(0, 2) else 'prev',
                       'pad': [0, 0], 'seed': int(rng.integers(0, 2 ** 31))}
            if scratch['size'] == 'larger': scratch['pad'] = [int(rng.integers(0, 4)), int(rng.integers(1, 4))]
            if shape is not None and rng.integers(0, 2): shape = None
        # the caller's buffer as a non-contiguous strided view into a larger array; shape given as NumPy integers / arrays
        if scratch is not None and rng.integers(0, 3) == 0: scratch['view'] = True
        shape_np = bool(shape is not None and rng.integers(0, 3) == 0)
        tilt = None
        if rng.integers(0, 10) == 0: tilt = [float(rng.uniform(-1e-6, 1e-6)), float(rng.uniform(-1e-6, 1e-6))]
        # which fields carry the tilt: all of them (Tilt plane / Wavefront(tilt)), or only ONE segment of a segmented pupil
        tilt_on = 'all'
        if tilt is not None and p['seg'] is not None and rng.integers(0, 3) > 0: tilt_on = int(rng.integers(0, max(p['seg'])))
        # scratch_shape may be asked for a list of wavelengths (broadband): the buffer must do for each of them
        wl_list = None
        if scratch is not None and scratch['size'] != 'small' and rng.integers(0, 3) == 0:
            wl_list = [WL * f for f in (0.7, 1.0, 0.85)] if rng.integers(0, 2) else [WL, WL * 0.6]
            if rng.integers(0, 2): wl_list = wl_list[::-1]
        c = ({'kind': 'fft', 'class': cls, 'pupil': p, 'dx': dx, 'scalar_dx': bool(scalar_dx), 'du': du, 'scalar_du': scalar_du,
                    'wl': WL, 'z': Z, 'os': os_, 'shape': shape, 'shape_np': shape_np, 'scratch': scratch, 'tilt': tilt, 'tilt_on': tilt_on, 'wl_list': wl_list,
                    'wtilt': bool(tilt is not None and tilt_on == 'all' and rng.integers(0, 2))})
        if scale != 1.0: c['scale'] = scale
        if near: c['near'] = near
        if float_os:
            # the documented type of `oversample` is float: non-integral factors, and integral factors of float type
            f = float(rng.choice([1.5, 2.5, 2.0, 1.0]))
            c['du'] = [d * f / os_ for d in c['du']]; c['os'] = f; c['float_os'] = True; c['nomodel'] = True
            if c['shape'] is not None and rng.integers(0, 2): c['shape'] = None
        if untyped:
            # a wavefront that has met no pupil/image plane (a plain lentil.Plane): plane type none; every second one carries tilt
            # (Wavefront(tilt=...) or a Tilt plane), shape / scratch of any kind, also the refused ones: the entry guards come first
            c['untyped'] = True; c['tilt_on'] = 'all'; c['pupil']['seg'] = None
            if k % 2: c['tilt'] = [float(rng.uniform(-1e-6, 1e-6)), float(rng.uniform(-1e-6, 1e-6))]; c['wtilt'] = bool(rng.integers(0, 2))
            else: c['tilt'] = None; c['wtilt'] = False
        if S > 16: c['nomodel'] = True
        out.append(c)

SCALES = [1e-9, 1e-6, 1e-3, 1.0, 1e3]

def generate(rng, tier):
    n = {'quick': 150, 'thorough': 2500, 'search': 300}[tier]
    out = []
    for k in range(n): _case(rng, tier, k, out)
    # extremes stream: tiny/huge physical scales, near-integer 1/alpha, near-equal per-axis pitches, larger grids
    for k in range({'quick': 10, 'thorough': 200, 'search': 240}[tier]):
        t = k % 5
        if t == 0 and k % 2: _case(rng, tier, k, out, float_os=True)
        elif t == 0: _case(rng, tier, k, out, scale=float(rng.choice(SCALES)))
        elif t == 1: _case(rng, tier, k, out, near='int', scale=float(rng.choice([1.0, 1e-6])))
        elif t == 2: _case(rng, tier, k, out, near='axis', scale=float(rng.choice([1.0, 1e-3, 1e-6])))
        elif t == 3: _case(rng, tier, k, out, near='int', smax=12)
        else:
            if tier == 'quick': _case(rng, tier, k, out, near='axis')
            else: _case(rng, tier, k, out, near=['int', 'axis', None][int(rng.integers(0, 3))], smax=48, kmax=8)
    # untyped stream: the call on a wavefront without plane type (entry guards of propagate_fft, Gen.codePropagateFft / propagateFftCall)
    for k in range({'quick': 8, 'thorough': 120, 'search': 60}[tier]): _case(rng, tier, k, out, untyped=True)
    return out


# ------------------------------------------------------------------------------------------ implementation
def _wave(c):
    import lentil
    WL, Z = P._wz(c)
    if c.get('untyped'):
        p = c['pupil']; m, n = p['shape']
        dx = c['dx'][0] if c['scalar_dx'] else tuple(c['dx'])
        plane = lentil.Plane(amplitude=np.array(p['amp']).reshape(m, n), opd=np.array(p['opd']).reshape(m, n), pixelscale=dx)
        if c['tilt'] is not None and c.get('wtilt'): return lentil.Wavefront(wavelength=WL, tilt=c['tilt']) * plane
        w = lentil.Wavefront(wavelength=WL) * plane
        return w if c['tilt'] is None else w * lentil.Tilt(x=c['tilt'][0], y=c['tilt'][1])
    if c['tilt'] is not None and c.get('tilt_on', 'all') != 'all':
        # a segmented wavefront in which ONE field only (not necessarily the first) carries a tilt element
        p = c['pupil']; m, n = p['shape']
        seg = np.array(p['seg']).reshape(m, n)
        mask = np.array([(seg == k).astype(int) for k in range(1, seg.max() + 1)])
        dx = c['dx'][0] if c['scalar_dx'] else tuple(c['dx'])
        pupil = lentil.Pupil(amplitude=np.array(p['amp']).reshape(m, n), opd=np.array(p['opd']).reshape(m, n), mask=mask, pixelscale=dx, focal_length=Z)
        k = int(c['tilt_on'])
        w = lentil.Wavefront(wavelength=WL) * pupil
        from lentil.field import Field
        if k < len(w.data):
            f = w.data[k]
            w.data[k] = Field(data=f.data, pixelscale=f.pixelscale, offset=f.offset, tilt=[lentil.Tilt(x=c['tilt'][0], y=c['tilt'][1])])
        return w
    w = P._build({'pupil': c['pupil'], 'dx': c['dx'], 'scalar_dx': c['scalar_dx'], 'wl': WL, 'z': Z})
    if c['tilt'] is not None:
        if c.get('wtilt'):
            p = c['pupil']; m, n = p['shape']
            dx = c['dx'][0] if c['scalar_dx'] else tuple(c['dx'])
            pupil = lentil.Pupil(amplitude=np.array(p['amp']).reshape(m, n), opd=np.array(p['opd']).reshape(m, n), pixelscale=dx, focal_length=Z)
            w = lentil.Wavefront(wavelength=WL, tilt=c['tilt']) * pupil
        else:
            w = w * lentil.Tilt(x=c['tilt'][0], y=c['tilt'][1])
    return w

def _scratch(c, S):
    import lentil
    WL, Z = P._wz(c)
    s = c['scratch']
    if s is None: return None
    shp = (max(1, S[0] + s['pad'][0]), max(1, S[1] + s['pad'][1]))
    buf = _scratch_content(c, s, shp)
    if s.get('view'):
        # every second row/column of a larger array: same values, not contiguous; the parent's other entries are watched too
        parent = np.full((2 * shp[0] + 1, 2 * shp[1] + 2), 5 - 2j, dtype=complex)
        v = parent[1:1 + 2 * shp[0]:2, 1:1 + 2 * shp[1]:2]
        v[...] = buf
        return v
    return buf

def _scratch_content(c, s, shp):
    import lentil
    WL, Z = P._wz(c)
    r = np.random.default_rng(s['seed'])
    if s['content'] == 'zero': return np.zeros(shp, dtype=complex)
    if s['content'] == 'dirty': return (r.integers(-3, 4, shp) + 1j * r.integers(-3, 4, shp)).astype(complex)
    # left over from a previous propagation of another wavefront through the same buffer
    buf = (np.ones(shp) * (2 - 1j)).astype(complex)
    if s['size'] != 'small':
        w0 = lentil.Wavefront(wavelength=WL) * lentil.Pupil(amplitude=np.ones((2, 2)), pixelscale=c['dx'][0] if c['scalar_dx'] else tuple(c['dx']), focal_length=Z)
        try:
            lentil.propagate_fft(w0, pixelscale=tuple(c['du']), oversample=c['os'], scratch=buf)
        except Exception:
            pass
    return buf

def impl(c):
    vlib.import_lentil()
    import lentil, copy
    WL, Z = P._wz(c)
    w = _wave(c)
    du = c['du'][0] if c['scalar_du'] else tuple(c['du'])
    dxa = c['dx'][0] if c['scalar_dx'] else tuple(c['dx'])
    adv = [int(x) for x in lentil.propagate.scratch_shape(WL, dxa, du, Z, c['os'])]
    adv_list = None
    if c.get('wl_list'):
        adv_list = [int(x) for x in lentil.propagate.scratch_shape(list(c['wl_list']), dxa, du, Z, c['os'])]
        adv_each = [[int(x) for x in lentil.propagate.scratch_shape(wl, dxa, du, Z, c['os'])] for wl in c['wl_list']]
    shape = c['shape'] if not isinstance(c['shape'], list) else tuple(c['shape'])
    if c.get('shape_np') and shape is not None: shape = np.int64(shape) if isinstance(shape, int) else np.array(shape, dtype=np.int32)
    scr = _scratch(c, adv_list if adv_list is not None else adv)
    inp = {'fields': [dict(P._cx(f.data), off=[int(f.offset[0]), int(f.offset[1])]) for f in w.data],
           'has_tilt': bool(any(f.tilt for f in w.data)), 'ptype': str(w.ptype), 'ntilt': [len(f.tilt) for f in w.data],
           'advertised_list': adv_list, 'advertised_each': None if adv_list is None else adv_each, 'canvas': P._cx(w.field), 'shape': [int(x) for x in w.shape],
           'pixelscale': [float(x) for x in w.pixelscale], 'wavelength': float(w.wavelength), 'focal_length': float(w.focal_length),
           'scratch': None if scr is None else P._cx(scr), 'advertised': adv}
    scr0 = None if scr is None else scr.copy()
    parent0 = scr.base.copy() if scr is not None and scr.base is not None else None
    try:
        o = lentil.propagate_fft(w, pixelscale=du, shape=shape, oversample=c['os'], scratch=scr)
    except Exception as e:
        return {'in': inp, 'exc': type(e).__name__, 'msg': str(e)[:200], 'stage': 'propagate_fft'}
    try:
        fld = o.field
    except Exception as e:
        return {'in': inp, 'exc': type(e).__name__, 'msg': str(e)[:200], 'stage': 'Wavefront.field', 'out_shape': [float(x) for x in o.shape]}
    res = {'in': inp, 'out': P._cx(fld), 'wavelength': float(o.wavelength), 'focal_length': float(o.focal_length),
           'pixelscale': [float(x) for x in o.pixelscale], 'ptype': str(o.ptype), 'shape': [int(x) for x in o.shape],
           'grid': [int(x) for x in o.data[0].data.shape], 'nfields': len(o.data)}
    if scr is not None:
        # the caller's buffer outside the S0 x S1 corner that the propagation uses must be left as it was
        g0, g1 = res['grid']
        keep = np.ones(scr.shape, bool); keep[:g0, :g1] = False
        res['outside_unchanged'] = bool(np.array_equal(scr[keep], scr0[keep]))
        if parent0 is not None:
            inview = np.zeros(parent0.shape, bool); inview[1:1 + 2 * scr.shape[0]:2, 1:1 + 2 * scr.shape[1]:2] = True
            res['outside_unchanged'] = res['outside_unchanged'] and bool(np.array_equal(scr.base[~inview], parent0[~inview]))
    # reference 1: the same call without scratch
    if scr is not None:
        o2 = lentil.propagate_fft(w, pixelscale=du, shape=shape, oversample=c['os'])
        res['noscratch'] = P._cx(o2.field)
    # reference 2: DFT propagation of the same fields at the reported wavelength, on the same output samples
    w2 = copy.deepcopy(w); w2._wavelength = o.wavelength
    d = lentil.propagate_dft(w2, pixelscale=(c['du'][0] / c['os'], c['du'][1] / c['os']), shape=tuple(res['shape']), oversample=1)
    res['dft'] = P._cx(d.field)
    return res

def requests(c, io):
    if c.get('nomodel'): return []
    inp = io['in']
    shape = c['shape']
    if isinstance(shape, int): shape = [shape, shape]
    scr = inp['scratch']
    mw = max(c['wl_list']) if c.get('wl_list') else inp['wavelength']
    return [{'op': 'c09.scratch_shape', 'dx': vlib.fl(inp['pixelscale']), 'du': vlib.fl(c['du']), 'max_wl': vlib.fbits(mw),
             'z': vlib.fbits(P._wz(c)[1] if c.get('untyped') else inp['focal_length']), 'os': c['os']},
            {'op': 'c09.propagate_fft', 'wtype': inp['ptype'],
             'fields': [{'shape': f['shape'], 'off': f['off'], 're': vlib.fl(f['re']), 'im': vlib.fl(f['im'])} for f in inp['fields']],
             'ntilt': inp['ntilt'], 'wshape': inp['shape'], 'dx': vlib.fl(inp['pixelscale']), 'du': vlib.fl(c['du']),
             'wl': vlib.fbits(inp['wavelength']), 'z': vlib.fbits(inp['focal_length']), 'os': c['os'], 'shape': shape,
             'scratch': None if scr is None else {'shape': scr['shape'], 're': vlib.fl(scr['re']), 'im': vlib.fl(scr['im'])}}]

def _c(d): return (np.array(d['re']) + 1j * np.array(d['im'])).reshape(d['shape'])

def compare(c, io, mo):
    if c.get('nomodel'): return None
    adv = io['in']['advertised_list'] if io['in'].get('advertised_list') is not None else io['in']['advertised']
    if not mo[0].get('ok') or mo[0]['shape'] != adv: return f"scratch_shape: impl {adv} model {mo[0].get('shape', mo[0].get('err'))}"
    m = mo[1]
    if 'exc' in io:
        if m.get('ok'): return f"implementation raised {io['exc']} ({io.get('msg')}), model answered"
        return None if m.get('err') == io['exc'] else f"implementation raised {io['exc']}, model {m.get('err')}"
    if not m.get('ok'): return f"model refused ({m.get('err')}), implementation answered"
    if io['grid'] != m['fft_shape']: return f"fft grid: impl {io['grid']} model {m['fft_shape']}"
    if io['shape'] != m['shape_out']: return f"output shape: impl {io['shape']} model {m['shape_out']}"
    lam = vlib.bitsf(m['wavelength'])
    if abs(io['wavelength'] - lam) > 1e-12 * abs(lam): return f"reported wavelength: impl {io['wavelength']!r} model {lam!r}"
    got = _c(io['out']); want = P._arr(m['canvas'])
    if got.shape != want.shape: return f'Wavefront.field shape {got.shape} vs model {want.shape}'
    d = float(np.max(np.abs(got - want))) if got.size else 0.0
    if d > P._tol(io): return f'Wavefront.field differs from the model by {d:.3e}'
    ps = vlib.unfl(m['pixelscale'])
    if any(abs(x - y) > 1e-12 * abs(y) for x, y in zip(io['pixelscale'], ps)): return f"output pixelscale {io['pixelscale']} vs model {ps}"
    if io['focal_length'] != vlib.bitsf(m['focal_length']): return f"output focal length {io['focal_length']!r} vs model {vlib.bitsf(m['focal_length'])!r}"
    if io['ptype'] != m.get('ptype'): return f"output plane type: impl {io['ptype']} model {m.get('ptype')} (input {io['in']['ptype']})"
    return None

# ------------------------------------------------------------------------------------------ oracle (real code only)
ANISO_MSG = 'differs from propagate_dft at the reported wavelength'

def oracle(c, io):
    inp = io['in']
    os_ = c['os']
    WL, Z = P._wz(c)
    if inp.get('advertised_list') is not None:
        # a buffer advertised for a list of wavelengths must be sufficient for every one of them
        for wl, each in zip(c['wl_list'], inp['advertised_each']):
            if inp['advertised_list'][0] < each[0] or inp['advertised_list'][1] < each[1]:
                return f"scratch_shape for wavelengths {c['wl_list']} is {inp['advertised_list']}, smaller than the grid {each} needed at {wl:.4g}"
    # the grid, from the property's own definition: round(1/alpha) per axis
    S = []
    for a in (0, 1):
        x = WL * Z * os_ / (inp['pixelscale'][a] * c['du'][a])
        # at a rounding tie either neighbour is a legitimate grid: take the advertised one
        S.append(inp['advertised'][a] if abs(x - np.floor(x) - 0.5) < 1e-6 and abs(inp['advertised'][a] - x) < 0.51 else _even_round(x))
    if inp['advertised'] != S: return f"scratch_shape advertises {inp['advertised']}, grid is {S}"
    shape = c['shape']
    sh = None if shape is None else ([shape, shape] if isinstance(shape, int) else list(shape))
    want_exc = None
    if any(n > 0 for n in inp['ntilt']): want_exc = 'NotImplementedError'      # ANY field carrying tilt, whatever the plane type
    elif inp['ptype'] not in ('pupil', 'image'): want_exc = 'TypeError'        # nothing to propagate from: refused, whatever shape / scratch
    elif sh is not None and (sh[0] * os_ > S[0] or sh[1] * os_ > S[1]): want_exc = 'ValueError'
    elif inp['scratch'] is not None and (inp['scratch']['shape'][0] < S[0] or inp['scratch']['shape'][1] < S[1]): want_exc = 'ValueError'
    if want_exc:
        if io.get('exc') == want_exc: return None
        what = f"a wavefront whose fields carry {inp['ntilt']} tilt elements" if any(inp['ntilt']) else f"a wavefront of plane type {inp['ptype']}" if want_exc == 'TypeError' else (f'shape {sh} larger than the grid {S}/os={os_}' if want_exc == 'ValueError' and sh is not None and (sh[0] * os_ > S[0] or sh[1] * os_ > S[1]) else f"scratch {inp['scratch']['shape']} smaller than {S}")
        return f"{what} must be refused with {want_exc}, got {io.get('exc', 'a result')}"
    if 'exc' in io and c.get('float_os') and io['exc'] == 'TypeError':
        return (f"float oversample: oversample={c['os']!r} with shape={sh} passes the shape guard (shape*oversample = "
                f"{None if sh is None else [sh[0] * os_, sh[1] * os_]} <= grid {S}) but the result is neither answered nor refused: "
                f"{io.get('stage')} raises TypeError ({io.get('msg')})")
    if 'exc' in io:
        scr = inp['scratch']
        return (f"accepted configuration refused: {io['exc']}: {io.get('msg')} (grid {S}, shape {sh}, "
                f"scratch {None if scr is None else scr['shape']})")
    S_out = S if sh is None else [sh[0] * os_, sh[1] * os_]
    if io['shape'] != S_out: return f"output shape {io['shape']} != {S_out}"
    if io['focal_length'] != inp['focal_length']: return 'focal length not carried'
    if any(abs(a - b / os_) > 1e-12 * b for a, b in zip(io['pixelscale'], c['du'])): return 'output sampling != du/oversample'
    # the wavelength it reports is the one at which the grid is critically sampled: alpha(lambda') = 1/S (on the axis it is
    # taken from; for isotropic dx*du on both)
    lam_axis = [S[a] * inp['pixelscale'][a] * c['du'][a] / (Z * os_) for a in (0, 1)]
    if min(abs(io['wavelength'] - l) / l for l in lam_axis) > 1e-9:
        return (f"reported wavelength {io['wavelength']!r} is not the wavelength of the FFT grid {S} (per axis {lam_axis[0]!r}, {lam_axis[1]!r}; "
                f"requested {WL!r}, 1/alpha = {WL * Z * os_ / (inp['pixelscale'][0] * c['du'][0])!r})")
    got = _c(io['out'])
    tol = P._tol(io)
    if got.size == 0: return None
    if io.get('outside_unchanged') is False:
        return f"propagate_fft changed the scratch buffer {inp['scratch']['shape']} outside the {io['grid']} corner it uses"
    if 'noscratch' in io:
        d = float(np.max(np.abs(got - _c(io['noscratch']))))
        if d > 1e-12 * (1 + float(np.max(np.abs(got)))): return f"result with scratch ({c['scratch']['size']}, {c['scratch']['content']}) differs from the result without scratch by {d:.3e}"
    ref = _c(io['dft'])
    d = float(np.max(np.abs(got - ref)))
    if d > tol:
        k = np.unravel_index(np.argmax(np.abs(got - ref)), got.shape)
        # known-finding class: the two axes lead to DIFFERENT wavelengths (a single reported wavelength cannot fit both grids);
        # anisotropic sampling whose per-axis wavelengths coincide (e.g. integral 1/alpha on both axes) must agree with the DFT
        pre = 'anisotropic dx*du: ' if abs(lam_axis[0] - lam_axis[1]) > 1e-9 * max(lam_axis) else ''
        return (f"{pre}propagate_fft {ANISO_MSG} {io['wavelength']:.6g}: sample {tuple(int(x) for x in k)} = {got[k]:.6g} vs {ref[k]:.6g} "
                f"(max error {d:.3e}, grid {io['grid']})")
    return None

def matches_finding(kf, c, msg):
    if kf.get('id') == 'KF-C09-float-oversample-explicit-shape':
        return bool(isinstance(msg, str) and msg.startswith('float oversample:') and c.get('float_os') and c.get('shape') is not None)
    if kf.get('id') != 'KF-C09-fft-anisotropic-wavelength': return False
    if not isinstance(msg, str) or ANISO_MSG not in msg or not msg.startswith('anisotropic dx*du'): return False
    # input class of the finding: the two axes lead to different wavelengths S_i*dx_i*du_i/(z*os)
    WL, Z = P._wz(c)
    S = [_even_round(WL * Z * c['os'] / (c['dx'][a] * c['du'][a])) for a in (0, 1)]
    lam = [S[a] * c['dx'][a] * c['du'][a] / (Z * c['os']) for a in (0, 1)]
    return abs(lam[0] - lam[1]) > 1e-9 * max(lam)

def replay_finding(kf):
    if kf.get('id') not in ('KF-C09-fft-anisotropic-wavelength', 'KF-C09-float-oversample-explicit-shape'): return False
    c = kf['witness']
    io = impl(c)
    msg = oracle(c, io)
    return bool(msg and matches_finding(kf, c, msg))

# ------------------------------------------------------------------------------------------ coverage
def signature(c):
    s = c['scratch']
    return (f"sc={c.get('scale')} near={c.get('near')} {c['class']} wl={P._wz(c)[0]:.3g} z={P._wz(c)[1]:g} wll={c.get('wl_list') is not None} ton={c.get('tilt_on')} {c['pupil']['shape']} seg={c['pupil']['seg'] is not None} du={c['du'][0]:.6g},{c['du'][1]:.6g} os={c['os']} shape={c['shape']} "
            f"scratch={None if s is None else (s['size'], s['content'], s['pad'], bool(s.get('view')))} np={bool(c.get('shape_np'))} tilt={c['tilt'] is not None}" + (' untyped' if c.get('untyped') else ''))

def nontrivial(c):
    return bool(c['scratch'] is not None or c['shape'] is not None or c['tilt'] is not None or c['class'].startswith('aniso') or c.get('untyped')
                or _even_round(P._wz(c)[0] * P._wz(c)[1] * c['os'] / (c['dx'][0] * c['du'][0])) % 2 == 1)

def tags(c):
    S = _even_round(P._wz(c)[0] * P._wz(c)[1] * c['os'] / (c['dx'][0] * c['du'][0]))
    t = [c['class'], f"os={c['os']}", 'grid:' + ('odd' if S % 2 else 'even'),
         'pupil:' + ('odd' if c['pupil']['shape'][0] % 2 else 'even') + '/' + ('odd' if c['pupil']['shape'][1] % 2 else 'even')]
    s = c['scratch']
    t.append('scratch:' + ('none' if s is None else s['size'] + '/' + s['content']))
    sh = c['shape']
    t.append('shape:' + ('default' if sh is None else 'int' if isinstance(sh, int) else 'pair'))
    if c['tilt'] is not None: t.append('tilted:' + ('one-segment' if c.get('tilt_on', 'all') != 'all' else 'wavefront' if c.get('wtilt') else 'plane'))
    if c.get('wl_list'): t.append('scratch_shape:wavelength-list')
    if s is not None and s.get('view'): t.append('scratch:strided-view')
    if c.get('shape_np'): t.append('shape:numpy-int')
    if c.get('scale'): t.append(f"scale={c['scale']:g}")
    if c.get('near'): t.append('near:' + c['near'])
    if c.get('float_os'): t.append(f"oversample:float {c['os']}")
    if c.get('untyped'): t.append('untyped:' + ('tilted' if c['tilt'] is not None else 'untilted'))
    t.append(f"wl={P._wz(c)[0]:.3g}"); t.append(f"z={P._wz(c)[1]:g}")
    return t

def shrink(c):
    for key in ('scratch', 'shape', 'tilt'):
        if c.get(key) is not None:
            d = P.json_copy(c); d[key] = None; yield d
    if c['pupil']['seg'] is not None:
        d = P.json_copy(c); d['pupil']['seg'] = None; yield d
