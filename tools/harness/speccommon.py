"""helpers shared by the spectrum harnesses (C13, C14, C15): exact rationals over the pipe, dyadic data"""
from fractions import Fraction
import numpy as np

def q(x):
    """float (or int/Fraction) -> exact [numerator, denominator]"""
    f = x if isinstance(x, Fraction) else Fraction(float(x)) if not isinstance(x, int) else Fraction(x)
    return [f.numerator, f.denominator]

def qs(xs): return [q(x) for x in np.asarray(xs, dtype=float).ravel().tolist()]
def unq(p): return Fraction(int(p[0]), int(p[1]))
def unqs(ps): return [unq(p) for p in ps]

def close(a, b, rel=1e-12, abs_=0.0):
    a, b = float(a), float(b)
    if a == b: return True
    if not (np.isfinite(a) and np.isfinite(b)): return False
    return abs(a - b) <= rel * max(abs(a), abs(b)) + abs_

def all_close(A, B, rel=1e-12, abs_=0.0):
    A, B = list(A), list(B)
    if len(A) == len(B) and len(A) > 512:
        a, b = np.asarray(A, dtype=float), np.asarray(B, dtype=float)
        with np.errstate(all='ignore'):
            ok = (a == b) | (np.isfinite(a) & np.isfinite(b) & (np.abs(a - b) <= rel * np.maximum(np.abs(a), np.abs(b)) + abs_))
        return bool(ok.all())
    return len(A) == len(B) and all(close(a, b, rel, abs_) for a, b in zip(A, B))

def dyadic(rng, lo, hi, bits=4):
    """random multiple of 2^-bits in [lo, hi]"""
    s = 1 << bits
    return int(rng.integers(int(lo * s), int(hi * s) + 1)) / s

def inc_grid(rng, n, start=None, bits=3, maxstep=4.0, uniform=None):
    """strictly increasing dyadic grid of n points (positive)"""
    s = 1 << bits
    x0 = dyadic(rng, 1, 40, bits) if start is None else start
    if uniform is None: uniform = bool(rng.integers(0, 2))
    if uniform:
        d = int(rng.integers(1, int(maxstep * s) + 1)) / s
        return [x0 + k * d for k in range(n)]
    out = [x0]
    for _ in range(n - 1): out.append(out[-1] + int(rng.integers(1, int(maxstep * s) + 1)) / s)
    return out
