"""C03 — splitting an aperture into segments never changes the result.

Every case describes the same optics twice: `seg` (some planes carry a 3-D mask whose layers partition the support,
bounding boxes overlapping in about half of the cases) and `mono` (the same planes with the 2-D global mask). Both
descriptions are run on the real lentil (chain of Pupil planes, then propagate_dft) and on the Lean model
(Model/Plane.lean + Model/PropSeg.lean + Model/Fourier.lean); the oracle compares the two real results with each other
(field and intensity, before and after propagation) and checks that the intensity is the squared modulus of the
coherent sum."""
import math, numpy as np
from harness.common import *
import harness.c07 as H7
import vlib

LEVEL_TEXT = ('Lean 4 theorems, for all shapes, masks, amplitudes and OPDs — the plane, chain and end-to-end statements under the input-level hypotheses WF (covering slices, disjoint supports, no one-pixel bounding box: hbig) and ExtOK (no one-pixel intersection of boxes along the chain): a sub-array placed at slice_offset(s, shape) embeds to the array '
              'restricted to s (slice_offset regenerated from helper.py on every run); the phasors of masks with pairwise disjoint supports '
              'add up to the phasor of the global mask, also with overlapping bounding boxes; a plane multiplies the summed embedding by its '
              'transmission, so chains of planes give the same total field for both descriptions; propagate_dft is additive in the embedded '
              'field; intensity is the squared modulus of the coherent sum; composed end to end (segmented_eq_monolithic_end_to_end): '
              'a fresh wavefront through any non-empty chain of array-masked partitioned planes, then propagate_dft as the driver models it (generated window block and shapes, a tilt shift common to all fields, optional output mask: segmented_eq_monolithic_propagateDft) -> equal Wavefront.field and intensity at every sample; non-vacuity examples instantiate the whole end-to-end and interleaved theorems on a two-plane chain; well-formedness follows from the masks alone for constructed planes (splitPlane_wf_of_masks); Tilt planes anywhere in the chain and Wavefront(tilt=) as ONE theorem (segmented_eq_monolithic_interleaved: every field carries each Tilt once, data unchanged); through propagate_fft by composition with C09 (segmented_eq_monolithic_propagate_fft and …_intensity: under the hypotheses that propagate_fft answers FftOut.ok for both descriptions with the same reported wavelength, grid and output shape; no sampled class in this harness); a masked plane after the propagation keeps the equality (plane_after_propagation); segments with their own fitted tilts sum to the monolithic propagation on the common window (fitted_tilts_eq_monolithic, with C04); chain_exp: the explicit product of amplitude*exp(2 pi i opd/lambda) over the planes. The NumPy plumbing is a hand model checked against the '
              'implementation, with both descriptions run on the real code; the per-segment slices Plane._slice of the model are proved to be the regenerated helper.boundary_slice (pad 0) of each segment mask and the phasor offsets the regenerated slice_offset(s, self.shape) call of the loop body (segment_slices_are_boundary_slices); a 3-D mask with k >= 1 layers (incl. one) and a 2-D mask are read by Plane.shape / Plane.size / _plane_slice (regenerated, Gen/PlaneGeom) as the model reads them (C07 plane_geometry_matches_model).')
LEVEL_NOTE = ('Partial: segments / intermediate fields with exactly one element are excluded by hypothesis (open known finding '
              'KF-C03-one-pixel-segment — not repaired because C06 as given makes a (1,1) array a broadcastable constant, so the two properties conflict on that input; the hypothesis ExtOK is evaluated by the model (c03.extok, extOKb_iff) on every case of the classes the ExtOK theorems cover: segmented-vs-monolithic chains in both number systems and the mixed Tilt/segmented chains; not for the fitted-tilt, re-use and big-aperture classes); the theorems '
              'cover a shift common to all fields (shared Tilt planes, Wavefront(tilt=)), an output mask and propagate_fft (via C09); per-segment '
              'fitted tilts are correspondence + oracle only. '
              'Trusted: Lean kernel, py2lean subset semantics, NumPy semantics as modelled, np.dot sums, generator coverage.')
TECHNIQUE = 'Lean 4 proof (omega/induction/Finset sums) over translator-regenerated kernels + hand model with differential correspondence'
GEN = ['Extent', 'FftScratch', 'FieldDispatch', 'FieldIdx', 'FieldMerge', 'FourierWiring', 'Helper', 'Helper20', 'Hex', 'Mesh', 'PlaneHandover', 'PlanePhase', 'PlanePx', 'PlaneType', 'PropagateMeta', 'TiltFit', 'Util', 'Window', 'WfViews', 'FieldAccum', 'PlaneLoop', 'PlaneGeom']
OPS = ['C07', 'C03']
RULE = ('cases: random supports on shapes 2..10, partitions into 1..9 segments (random labels = overlapping bounding boxes in half the cases, '
        'bands otherwise), chains of 1..3 masked planes (Pupil; also Image or plain Plane chains) with scalar/array amplitude and OPD, each plane described segmented or '
        'monolithic, then propagate_dft with random per-axis sampling (mixed Tilt/segmented chains also with an output mask and single-sample windows); plane objects re-used after setters/copy and rescaled/resampled (oracle-only); an extremes stream (physical units with per-segment OPD classes incl. nanometres, apertures of 1030..2600 rows vs bands <= 1024 rows; 5 % of quick/thorough, half of the failing-input search); plus 3..5 tilted segments (OPD ramps fitted by fit_tilt) propagated with prop_shape < shape so that the per-segment output fields overlap as chains, oversampling 1..3, output shape and prop_shape; exact stream '
        '(no propagation, Gaussian-integer data) and float stream. distinct = canonical (shapes, partition, attribute kinds, propagation '
        'setting) signature; non-trivial = some plane has at least two segments')
TRUSTED = ['the bounding box of propagate_dft\'s output mask is computed by the harness (lentil.boundary rule) and handed to the model; _mask_shape/_mask_shift are C02\'s',
           'the propagation models of C02 (propagateDft, generated window) and C09 (propagateFft) that the end-to-end theorems compose',
           'NumPy slicing/elementwise product in Plane.multiply (the loop body itself is regenerated into Gen/PlaneLoop.lean and proved equal to the hand model: C07 loop_body_is_segPhasor) and util.boundary (first/last set row/column, modelled by hand as bboxSlice in Model/Plane.lean; the clamping arithmetic of helper.boundary_slice that turns it into Plane._slice is regenerated, Gen/Helper20, and proved to give the model\'s slices: segment_slices_are_boundary_slices)',
           'np.dot / einsum in fourier.dft2 compute the sums of products (Model/Fourier.lean; C01 checks dft2 itself)',
           'np.exp(1j*t) = cos t + i sin t']
UNPROVEN = [
            'propagate_fft: segmented_eq_monolithic_propagate_fft (field) and segmented_eq_monolithic_propagate_fft_intensity (intensity, for returned fields of positive shape) are conditional on both calls returning FftOut.ok with the same lam/S0/S1/so, has no non-vacuity example of those hypotheses in Props/C03.lean (C09 has one for propagateFft itself) and no correspondence or oracle class in c03.py (propagate_fft itself is C09)',
            'per-segment FITTED tilts (fit_tilt: a different shift and window per field): fitted_tilts_eq_monolithic (C04 segmented_tilt_equiv_complex composed with propagateField_linear) proves that the segment fields sum to the propagation of the monolithic description at every output coordinate lying in ALL segment windows and in the tilt-free window; outside that common window the two computations crop differently — no equality is claimed there (correspondence via c03.chain and the oracle cover the class as generated)',
            'the end-to-end theorems start from a fresh wavefront and use planes with array masks (scalar-mask planes inside the chain: plane_multiply_total only)',
            'planes re-used after the amplitude/OPD setters and copy(), and rescaled/resampled planes (bounding slices of the new mask): oracle only; the interpolation itself is C17',
            'partitions containing a segment (or producing an intermediate field) with exactly one element (known finding KF-C03-one-pixel-segment)']
ASSUMPTIONS = ['rescaled/resampled planes are judged only when Plane.rescale returns: for small segments the order-0 rescaled mask can lose a layer and rescale then raises IndexError in _plane_slice (C17; reported)',
               'every segment bounding box and every intersection of boxes along the chain has more than one element (ExtOK: a condition on the bounding slices and shapes of the input, used by segmented_eq_monolithic_end_to_end)',
               'segment masks of one plane have pairwise disjoint supports']

def _split_plane(rng, mode, shape):
    """one plane with its global mask M and a partition of M; returns (segmented description, monolithic description)"""
    for _ in range(100):
        M = H7._support(rng, shape, float(rng.uniform(0.5, 0.95)))
        if not H7._ok_layer(M): continue
        k = int(rng.integers(1, 6)) if (shape[0] * shape[1] < 30 or rng.integers(0, 2)) else int(rng.integers(6, 10))
        layers = [M] if k == 1 else H7.partition(rng, M, k, interleave=bool(rng.integers(0, 2)))
        if layers is None: continue
        amp = H7._attr(rng, mode, 'amp', shape, bool(rng.integers(0, 4) == 0))
        opd = H7._attr(rng, mode, 'opd', shape, bool(rng.integers(0, 4) == 0))
        def mk(ls):
            sc = int(rng.choice([1, 1, 1, 2, -1]))          # raw mask entries other than 0/1: the constructor normalises them
            return {'kind': 'pupil', 'amp': amp, 'opd': opd, 'px': None, 'fl': 1.0,
                    'mask': {'shape': [int(shape[0]), int(shape[1])], 'ndim': (2 if rng.integers(0, 2) else 3) if len(ls) == 1 else 3,
                             'layers': [[int(x) * sc for x in L.ravel()] for L in ls]}}
        return mk(layers), mk([M])
    raise RuntimeError('could not build a partition')

def gen_case(rng, mode, prop):
    for _ in range(200):
        shape = (int(rng.integers(2, 8)), int(rng.integers(2, 8))) if rng.integers(0, 5) else (int(rng.integers(6, 11)), int(rng.integers(6, 11)))
        n = int(rng.integers(1, 4))
        seg, mono = [], []
        for i in range(n):
            s, m = _split_plane(rng, mode, shape if rng.integers(0, 5) else (int(rng.integers(2, 8)), int(rng.integers(2, 8))))
            # each plane of the segmented description is segmented with probability 3/4
            seg.append(s if rng.integers(0, 4) else m); mono.append(m)
        if not any(len(p['mask']['layers']) > 1 for p in seg): continue
        if H7.has_one_element_field(seg) or H7.has_one_element_field(mono): continue
        dx = [1.0, 1.0] if rng.integers(0, 2) else [1.0, 2.0]
        fl = float(rng.integers(2, 9))
        for p in seg + mono: p['px'] = dx; p['fl'] = fl
        c = {'kind': 'seg', 'mode': mode, 'seg': seg, 'mono': mono, 'wavelength': H7.WL_GI}
        kind = 'pupil' if rng.integers(0, 3) else ('image' if rng.integers(0, 2) else ('pupil' if prop else 'plane'))
        for p in seg + mono: p['kind'] = kind
        if prop:
            os_ = int(rng.integers(1, 4))
            du = [float(rng.integers(1, 4)), float(rng.integers(1, 4))] if rng.integers(0, 2) else [2.0, 2.0]
            # wavelength chosen so that alpha = dx*du/(lambda z os) lands in a useful range
            alpha = float(rng.uniform(0.04, 0.3))
            wl = float(np.round(dx[0] * du[0] / (alpha * fl * os_), 4))
            oshape = [int(rng.integers(2, 6)), int(rng.integers(2, 6))]
            pshape = None
            if rng.integers(0, 3) == 0: pshape = [1, 1] if rng.integers(0, 4) == 0 else [int(rng.integers(1, oshape[0] + 1)), int(rng.integers(1, oshape[1] + 1))]
            c['wavelength'] = wl
            c['prop'] = {'du': du, 'os': os_, 'shape': oshape, 'prop_shape': pshape, 'dx': dx, 'z': fl}
        return c
    raise RuntimeError('generator could not build a case')

def gen_tilt(rng):
    """K >= 3 segments (bands of blocks) with per-segment OPD ramps + pistons, fitted as tilt metadata (fit_tilt), propagated with
    prop_shape < shape: one image-plane chip per segment, displaced by the segment's tilt. In 3/4 of the cases the spacing d
    satisfies P/2 <= d < P (P = chip width), so the chips overlap as a CHAIN: neighbours overlap, second neighbours do not."""
    K = int(rng.integers(3, 6))
    bw = int(rng.integers(2, 4)); bh = int(rng.integers(2, 5))          # block size of a segment
    axis = int(rng.integers(0, 2))                                       # segments laid out along rows (0) or columns (1)
    gap = int(rng.integers(0, 2))
    L = K * bw + (K - 1) * gap + int(rng.integers(0, 3)); Wd = bh + int(rng.integers(0, 3))
    shape = (L, Wd) if axis == 0 else (Wd, L)
    layers = []
    for k in range(K):
        m = np.zeros(shape, dtype=int)
        a = k * (bw + gap)
        if axis == 0: m[a:a + bw, 0:bh] = 1
        else: m[0:bh, a:a + bw] = 1
        layers.append(m)
    os_ = int(rng.integers(1, 3))
    pshape = int(rng.integers(2, 5)) if os_ == 2 else int(rng.integers(4, 9))
    P = pshape * os_
    chain = bool(rng.integers(0, 4))
    d = float(rng.integers((P + 1) // 2, P)) if chain else float(rng.integers(1, 2 * P))
    if rng.integers(0, 2): d += float(np.round(rng.uniform(-0.4, 0.4), 2))          # sub-pixel part
    direction = [(0, 1), (1, 0), (1, 1), (1, -1)][int(rng.integers(0, 4))]
    order = list(range(K))
    if rng.integers(0, 3) == 0: order = [int(x) for x in rng.permutation(K)]       # chips not in segment order
    shifts = [[(order[k] - (K - 1) / 2) * d * direction[0], (order[k] - (K - 1) / 2) * d * direction[1]] for k in range(K)]
    oshape = int(np.ceil((K * d + P) / os_)) + int(rng.integers(0, 3))
    dx = [1.0, 1.0]; du = [2.0, 2.0] if rng.integers(0, 2) else [1.0, 2.0]
    fl = float(rng.integers(2, 9))
    alpha = float(rng.uniform(0.03, 0.12))
    wl = float(np.round(dx[0] * du[0] / (alpha * fl * os_), 4))
    amp = [float(x) for x in np.round(rng.uniform(0.5, 1.5, shape[0] * shape[1]), 3)]
    piston = [float(x) for x in np.round(rng.uniform(-0.4, 0.4, K) * wl, 6)]
    return {'kind': 'tilt', 'mode': 'cf', 'shape': [int(shape[0]), int(shape[1])], 'layers': [[int(x) for x in m.ravel()] for m in layers],
            'amp': amp, 'piston': piston, 'shifts': shifts, 'dx': dx, 'du': du, 'fl': fl, 'os': os_, 'wavelength': wl,
            'oshape': oshape, 'pshape': pshape, 'chain': chain}

def gen_phys(rng, prop):
    """extremes stream, physical units: wavelength 1e-9 .. 1e-5 m; every segment gets its own OPD magnitude class — exactly 0,
    nanometres (|opd| <= 1e-8 m, non-zero), ~100 nm, ~a wave — as piston plus figure; amplitudes 1e-9 .. 1e3; pixel scales,
    focal length and output sampling in metres at magnitudes 1e-6 .. 1e1 (alpha is unit-free)"""
    for _ in range(200):
        c = gen_case(rng, 'cf', prop)
        wl = float(rng.choice([13.5e-9, 1e-9, 5e-7, 6.33e-7, 1e-5]))
        ok = True
        for k, (ps, pm) in enumerate(zip(c['seg'], c['mono'])):
            sh = pm['mask']['shape']; n = sh[0] * sh[1]
            # per-segment classes follow the *partition* of this plane (the finest description available)
            L = H7.plane_mask_layers(ps) if len(ps['mask']['layers']) > 1 else H7.plane_mask_layers(pm)
            if len(L) == 1 and rng.integers(0, 2):          # split the single mask into two halves for the OPD classes
                idx = np.argwhere(L[0]); half = np.zeros_like(L[0]); 
                for (i, j) in idx[:len(idx) // 2]: half[i, j] = 1
                L = [half, L[0] - half]
            opd = np.zeros(sh)
            for lay in L:
                cls = int(rng.integers(0, 4))
                mag = [0.0, 8e-9, 1.5e-7, wl][cls]
                fig = rng.uniform(-1, 1, sh) * mag * (0.0 if rng.integers(0, 3) == 0 else 0.3)
                opd += lay * (mag * float(rng.choice([-1, 1])) * float(rng.uniform(0.5, 1.0)) + fig)
            ka = float(10.0 ** rng.integers(-9, 4))
            a = pm['amp']
            amp = {'scalar': float(a['scalar']) * ka} if 'scalar' in a else {'shape': a['shape'], 'v': [float(x) * ka for x in a['v']]}
            o = {'shape': [int(sh[0]), int(sh[1])], 'v': [float(x) for x in opd.ravel()]}
            for p in (ps, pm): p['amp'] = amp; p['opd'] = o
        c['wavelength'] = wl
        if prop:
            pr = c['prop']
            u = float(10.0 ** rng.integers(-6, 1))
            dx = [u * x for x in pr['dx']]; v = float(10.0 ** rng.integers(-6, 0)); du = [v * x for x in pr['du']]
            alpha = float(rng.uniform(0.04, 0.3))
            z = dx[0] * du[0] / (alpha * wl * pr['os'])          # focal length in metres that gives this alpha
            pr['dx'] = dx; pr['du'] = du; pr['z'] = z
            for p in c['seg'] + c['mono']: p['px'] = dx; p['fl'] = z
        c['extreme'] = 'phys'
        return c

def gen_big(rng):
    """extremes stream, size: a slit-like aperture with 1030 .. 2600 rows (never a multiple of 1024) and 2..3 columns as one global
    mask, against its partition into row bands of at most 1024 rows each; one plane; propagation to a small output. Oracle-only
    (the interpreted model is not run on thousands of rows)."""
    m = int(rng.choice([1030, 1100, 1200, 1500, 2049, 2600])) + int(rng.integers(0, 7))
    if m % 1024 == 0: m += 3
    ncol = int(rng.integers(2, 4))
    shape = (m, ncol) if rng.integers(0, 4) else (ncol, m)
    ax = 0 if shape[0] == m else 1
    M = np.ones(shape, dtype=int)
    if rng.integers(0, 2):        # trim the ends a little so that the bounding box is not the whole array
        a, b = int(rng.integers(0, 3)), int(rng.integers(0, 3))
        if ax == 0: M[:a] = 0; M[m - b:] = 0 if b else M[m - b:]
        else: M[:, :a] = 0
    K = int(np.ceil(m / 1024)) + int(rng.integers(0, 2))
    cuts = sorted(int(x) for x in rng.choice(np.arange(m // (K + 1), m - m // (K + 1)), size=K - 1, replace=False)) if K > 1 else []
    while True:
        edges = [0] + cuts + [m]
        if all(b - a <= 1024 and b - a >= 2 for a, b in zip(edges[:-1], edges[1:])): break
        K += 1
        cuts = [int(round(m * (i + 1) / K)) for i in range(K - 1)]
    layers = []
    for a, b in zip(edges[:-1], edges[1:]):
        L = np.zeros(shape, dtype=int)
        if ax == 0: L[a:b] = M[a:b]
        else: L[:, a:b] = M[:, a:b]
        if L.sum() >= 2: layers.append(L)
    M = np.sum(layers, axis=0)
    n = shape[0] * shape[1]
    amp = {'shape': list(shape), 'v': [float(x) for x in np.round(rng.uniform(0.5, 1.5, n), 3)]}
    wl = 5e-7
    opd = {'shape': list(shape), 'v': [float(x) for x in np.round(rng.uniform(-1, 1, n), 3) * 2e-7]}
    def mk(ls):
        return {'kind': 'pupil', 'amp': amp, 'opd': opd, 'px': None, 'fl': 1.0,
                'mask': {'shape': list(shape), 'ndim': 2 if len(ls) == 1 else 3, 'layers': [[int(x) for x in L.ravel()] for L in ls]}}
    os_ = int(rng.integers(1, 3))
    dx = [1e-4, 1e-4]; du = [5e-6, 5e-6]
    alpha = float(rng.uniform(0.5, 2.0)) / (m * os_)
    z = dx[0] * du[0] / (alpha * wl * os_)
    seg, mono = [mk(layers)], [mk([M])]
    for p in seg + mono: p['px'] = dx; p['fl'] = z
    oshape = [int(rng.integers(3, 7)), int(rng.integers(3, 7))]
    return {'kind': 'seg', 'mode': 'cf', 'seg': seg, 'mono': mono, 'wavelength': wl, 'extreme': 'big',
            'prop': {'du': du, 'os': os_, 'shape': oshape, 'prop_shape': None, 'dx': dx, 'z': z}}

def gen_reuse(rng):
    """a plane object used, then given new amplitude / OPD through the setters (the mask and with it `_slice` stay), used again and
    copied: it must act exactly like a freshly constructed plane with the new attributes, segmented or monolithic (oracle-only)"""
    for _ in range(100):
        shape = (int(rng.integers(3, 8)), int(rng.integers(3, 8)))
        a, b = _split_plane(rng, 'gi', shape)
        if len(a['mask']['layers']) < 2 or H7.has_one_element_field([a]) or H7.has_one_element_field([b]): continue
        new_amp = H7._attr(rng, 'gi', 'amp', shape, False); new_opd = H7._attr(rng, 'gi', 'opd', shape, bool(rng.integers(0, 3) == 0))
        if not H7._ok_layer(np.array(new_amp['v']).reshape(shape) != 0): continue
        for p in (a, b): p['px'] = [1.0, 1.0]; p['fl'] = 3.0
        return {'kind': 'reuse', 'mode': 'gi', 'wavelength': H7.WL_GI, 'seg': a, 'mono': b, 'new_amp': new_amp, 'new_opd': new_opd,
                'scale': float(rng.choice([2.0, 3.0, 1.5, 0.75])), 'how': 'rescale' if rng.integers(0, 2) else 'resample'}
    raise RuntimeError('generator could not build a reuse case')

def gen_mixed(rng):
    """chains mixing Tilt planes / Wavefront(tilt=...) with segmented Pupil planes (no fitted tilt): tilt elements before AND
    after the segmented plane(s) in most cases; both descriptions (segmented / monolithic) of every Pupil"""
    for _ in range(200):
        shape = (int(rng.integers(3, 8)), int(rng.integers(3, 8)))
        npl = int(rng.integers(1, 3))
        seg, mono = [], []
        for i in range(npl):
            a, b = _split_plane(rng, 'cf', shape)
            seg.append(a); mono.append(b)
        if not any(len(p['mask']['layers']) > 1 for p in seg): continue
        if H7.has_one_element_field(seg) or H7.has_one_element_field(mono): continue
        dx = [1.0, 1.0] if rng.integers(0, 2) else [1.0, 2.0]
        fl = float(rng.integers(2, 9))
        os_ = int(rng.integers(1, 3))
        du = [float(rng.integers(1, 4)), float(rng.integers(1, 4))] if rng.integers(0, 2) else [2.0, 2.0]
        alpha = float(rng.uniform(0.04, 0.25))
        wl = float(np.round(dx[0] * du[0] / (alpha * fl * os_), 4))
        for p in seg + mono: p['px'] = dx; p['fl'] = fl
        def tilt():
            # a few output pixels of displacement, sub-pixel part included
            s = rng.uniform(-3, 3, 2)
            return {'kind': 'tilt', 'x': float(np.round(s[0] * du[1] / (fl * os_), 6)), 'y': float(np.round(s[1] * du[0] / (fl * os_), 6))}
        pat = int(rng.integers(0, 8))          # bit 0: tilt before, bit 1: tilt after, bit 2: Wavefront(tilt=)
        if pat == 0: pat = 3
        order = []          # indices into planes or 'T'
        if pat & 1: order.append(tilt())
        for i in range(npl):
            order.append(i)
            if i + 1 < npl and rng.integers(0, 2): order.append(tilt())
        if pat & 2:
            order.append(tilt())
            if rng.integers(0, 3) == 0: order.append(tilt())
        wt = None
        if pat & 4:
            t = tilt(); wt = [t['x'], t['y']]
        oshape = [int(rng.integers(3, 7)), int(rng.integers(3, 7))]
        pshape = None
        if rng.integers(0, 3) == 0: pshape = [int(rng.integers(2, oshape[0] + 1)), int(rng.integers(2, oshape[1] + 1))]
        mask = None
        if rng.integers(0, 3) == 0:          # output mask of propagate_dft: a random support inside the oversampled output array
            ms = (oshape[0] * os_, oshape[1] * os_)
            for _ in range(20):
                m = (rng.random(ms) < 0.5).astype(int)
                if m.sum() >= 2 and (np.ptp(np.where(m.any(axis=1))[0]) + 1) * (np.ptp(np.where(m.any(axis=0))[0]) + 1) > 1:
                    mask = {'shape': [int(ms[0]), int(ms[1])], 'v': [int(x) for x in m.ravel()]}; break
        return {'kind': 'mixed', 'mode': 'cf', 'seg': seg, 'mono': mono, 'order': order, 'wtilt': wt, 'wavelength': wl,
                'prop': {'du': du, 'os': os_, 'shape': oshape, 'prop_shape': pshape, 'dx': dx, 'z': fl, 'mask': mask}}
    raise RuntimeError('generator could not build a mixed chain')

def generate(rng, tier):
    n = {'quick': 150, 'thorough': 3000, 'search': 1000}[tier]
    out = []
    for k in range(n):
        # extremes stream: half of the failing-input search; about 5 % of the other tiers (one big-aperture case per 100)
        if tier == 'search' and k % 2 == 0:
            out.append(gen_big(rng) if k % 10 == 0 else gen_phys(rng, prop=bool(k % 4))); continue
        if tier != 'search' and k % 20 == 19:
            out.append(gen_big(rng) if k % 100 == 19 else gen_phys(rng, prop=bool(k % 40 == 19))); continue
        if k % 25 == 11:
            out.append(gen_reuse(rng)); continue
        if k % 7 == 6:
            out.append(gen_tilt(rng)); continue
        if k % 7 == 5:
            out.append(gen_mixed(rng)); continue
        t = k % 5
        if t in (0, 1): out.append(gen_case(rng, 'gi', prop=False))
        elif t == 2: out.append(gen_case(rng, 'cf', prop=False))
        else: out.append(gen_case(rng, 'cf', prop=True))
    return out

def signature(c):
    if c['kind'] == 'reuse': return 'reuse ' + vlib.jhash({k: c[k] for k in ('seg', 'new_amp', 'new_opd')})
    if c['kind'] == 'mixed':
        o = ''.join('T' if isinstance(x, dict) else f"P{len(c['seg'][x]['mask']['layers'])}" for x in c['order'])
        return f"mixed {'W' if c['wtilt'] else ''}{o} {c['seg'][0]['mask']['shape']} {vlib.jhash(c['seg'])[:6]} prop={c['prop']}"
    if c['kind'] == 'tilt':
        return f"tilt {c['shape']} K={len(c['layers'])} os={c['os']} P={c['pshape']} out={c['oshape']} shifts={c['shifts']} du={c['du']}"
    s = ' | '.join(f"{p['mask']['shape']} k={len(p['mask']['layers'])} amp:{H7._akind(p['amp'])} opd:{H7._akind(p['opd'])} {vlib.jhash(p['mask'])[:6]}"
                   for p in c['seg'])
    return f"{c['mode']} {s} prop={c.get('prop')}"

def nontrivial(c):
    if c['kind'] in ('tilt', 'mixed', 'reuse'): return True
    return any(len(p['mask']['layers']) > 1 for p in c['seg'])

def tags(c):
    if c['kind'] == 'reuse': return ['plane-reused-after-setters-and-copy', 'plane-' + c.get('how', 'rescale') + 'd']
    if c['kind'] == 'mixed':
        idx = [i for i, x in enumerate(c['order']) if not isinstance(x, dict)]
        before = bool(c['wtilt']) or any(isinstance(x, dict) for x in c['order'][:idx[0]])
        after = any(isinstance(x, dict) for x in c['order'][idx[0] + 1:])
        return (['mixed:output-mask'] if c['prop'].get('mask') else []) + ['mixed-tilt-chain', 'mixed:tilt-before+after' if before and after else 'mixed:tilt-before' if before else 'mixed:tilt-after',
                'mixed:Wavefront(tilt)' if c['wtilt'] else 'mixed:no-wavefront-tilt']
    if c['kind'] == 'tilt':
        return ['tilted-segments', f"tilt:K={len(c['layers'])}", 'tilt:chain-spacing' if c['chain'] else 'tilt:random-spacing']
    t = [f"mode:{c['mode']}", f"planes:{len(c['seg'])}", 'propagated' if 'prop' in c else 'not-propagated', 'class:' + c['seg'][0]['kind']]
    if any(len(p['mask']['layers']) > 5 for p in c['seg']): t.append('segments:>5')
    if c.get('extreme'): t.append('extreme:' + c['extreme'])
    for p in c['seg']:
        t.append(f"segments:{len(p['mask']['layers'])}")
        if H7._boxes_overlap(p): t.append('overlapping-boxes')
    if 'prop' in c:
        t.append(f"os:{c['prop']['os']}")
        t.append('prop_shape:given' if c['prop']['prop_shape'] else 'prop_shape:none')
        if c['prop']['dx'][0] != c['prop']['dx'][1] or c['prop']['du'][0] != c['prop']['du'][1]: t.append('anisotropic-sampling')
    return t

# ------------------------------------------------------------------------------------------ implementation
def _run(c, planes):
    lentil = vlib.import_lentil()
    mode = c['mode']; wl = c['wavelength']
    w = lentil.Wavefront(wavelength=wl)
    for pl in planes: w = w * H7.build_plane(pl, mode, wl)
    o = {'pre': H7.wf_out(w, {'mode': mode}), 'nfields': len(w.data)}
    if 'prop' in c:
        p = c['prop']
        w2 = lentil.propagate_dft(w, pixelscale=tuple(p['du']), shape=tuple(p['shape']),
                                  prop_shape=None if p['prop_shape'] is None else tuple(p['prop_shape']), oversample=p['os'])
        # the same propagated wavefront is read several times, in different orders (broadband / detector loops do this):
        # intensity, field, intensity, insert twice — every read must give the same answer
        i1 = H7.arr_out(w2.intensity, mode)
        o['field'] = H7.arr_out(w2.field, mode); o['intensity'] = H7.arr_out(w2.intensity, mode); o['nout'] = len(w2.data)
        a1 = H7.arr_out(w2.insert(np.zeros(w2.shape), 1), mode); a2 = H7.arr_out(w2.insert(np.zeros(w2.shape), 1), mode)
        f2 = H7.arr_out(w2.field, mode)
        o['reread_same'] = (i1 == o['intensity'] and a1 == a2 and f2 == o['field'] and a1['re'] == o['intensity']['re'])
    return o

def _chip(f):
    return {'ext': [int(x) for x in f.extent], 're': [float(x) for x in f.data.real.ravel()], 'im': [float(x) for x in f.data.imag.ravel()]}

def _run_tilt(c):
    """segments with OPD ramps: (A) ramps fitted as tilt metadata, small propagation windows -> displaced chips;
    (B) the same plane with the ramps left in the OPD, full propagation window -> one full-size field per segment"""
    lentil = vlib.import_lentil()
    shape = tuple(c['shape']); K = len(c['layers'])
    mask = np.array(c['layers']).reshape((K,) + shape)
    amp = np.array(c['amp']).reshape(shape) * mask.sum(axis=0)
    r, q = lentil.helper.mesh(shape)
    z, os_, du, dx = c['fl'], c['os'], c['du'], c['dx']
    opd = np.zeros(shape)
    for k in range(K):
        sr, sc = c['shifts'][k]
        # Plane.ptt_vector convention: opd = tx * (r*dx0) + ty * (-c*dx1); a ramp along rows moves the chip along rows
        tx = sr * du[0] / (z * os_); ty = -sc * du[1] / (z * os_)
        opd += mask[k] * (tx * r * dx[0] + ty * (-q) * dx[1] + c['piston'][k])
    pupil = lentil.Pupil(amplitude=amp, mask=mask, opd=opd, pixelscale=tuple(dx), focal_length=z)
    fitted = pupil.fit_tilt()
    wA = lentil.Wavefront(c['wavelength']) * fitted
    pre = {'opd': [float(x) for x in np.asarray(fitted.opd).ravel()], 'amp': [float(x) for x in amp.ravel()],
           'seg_tilts': [[[float(t.y), float(t.x)] for t in fitted.tilt[n::fitted.size]] for n in range(fitted.size)],
           'fields': [dict(H7.fld_out(f, 'cf'), tilts=_tilt_vals(f)) for f in wA.data]}
    wA = lentil.propagate_dft(wA, pixelscale=tuple(du), shape=c['oshape'], prop_shape=c['pshape'], oversample=os_)
    wB = lentil.Wavefront(c['wavelength']) * pupil
    wB = lentil.propagate_dft(wB, pixelscale=tuple(du), shape=c['oshape'], oversample=os_)
    return {'pre': pre, 'shape': [int(x) for x in wA.shape], 'chips': [_chip(f) for f in wA.data], 'full': [_chip(f) for f in wB.data],
            'field': H7.arr_out(wA.field, 'cf'), 'intensity': H7.arr_out(wA.intensity, 'cf')}

def _tilt_vals(f):
    # Tilt.__init__ stores self.x = y, self.y = x: report the constructor arguments (x, y)
    return [[float(t.y), float(t.x)] for t in f.tilt]

def _run_mixed(c, planes):
    lentil = vlib.import_lentil()
    wl = c['wavelength']
    w = lentil.Wavefront(wavelength=wl, tilt=c['wtilt'])
    for x in c['order']:
        w = w * (lentil.Tilt(x=x['x'], y=x['y']) if isinstance(x, dict) else H7.build_plane(planes[x], 'cf', wl))
    o = {'fields': [dict(H7.fld_out(f, 'cf'), tilts=_tilt_vals(f)) for f in w.data], 'focal': float(w.focal_length)}
    p = c['prop']
    mk = p.get('mask')
    w2 = lentil.propagate_dft(w, pixelscale=tuple(p['du']), shape=tuple(p['shape']),
                              prop_shape=None if p['prop_shape'] is None else tuple(p['prop_shape']), oversample=p['os'],
                              mask=None if mk is None else np.array(mk['v']).reshape(mk['shape']))
    o['field'] = H7.arr_out(w2.field, 'cf'); o['intensity'] = H7.arr_out(w2.intensity, 'cf'); o['nout'] = len(w2.data)
    return o

def _run_reuse(c):
    lentil = vlib.import_lentil()
    wl = c['wavelength']; out = {}
    na = H7._np_attr(c['new_amp'], 'gi', wl); no = H7._np_attr(c['new_opd'], 'gi', wl) * (wl / 4)
    for name in ('seg', 'mono'):
        P = H7.build_plane(c[name], 'gi', wl)
        first = (lentil.Wavefront(wl) * P).field          # first use
        P.amplitude = na; P.opd = no                       # setters; mask / _slice untouched
        again = lentil.Wavefront(wl) * P
        cp = lentil.Wavefront(wl) * P.copy()
        fresh = lentil.Wavefront(wl) * H7.build_plane(dict(c[name], amp=c['new_amp'], opd=c['new_opd']), 'gi', wl)
        # rescale / resample return a new plane whose bounding slices must be those of the NEW mask (not the old `_slice`)
        P0 = H7.build_plane(c[name], 'gi', wl)
        sc = c.get('scale', 2.0)
        try:
            P2 = P0.rescale(sc) if c.get('how', 'rescale') == 'rescale' else P0.resample(P0.pixelscale[0] / sc)
        except IndexError:
            # a small segment can vanish from the order-0 rescaled mask and `_plane_slice` then raises: C17's domain (reported);
            # here the class only asks that a rescaled plane, when there is one, carries the slices of its new mask
            P2 = None
        cls = type(P2) if P2 is not None else None
        resc = None
        if P2 is not None:
            kw = dict(amplitude=P2.amplitude, opd=P2.opd, mask=P2.mask, pixelscale=P2.pixelscale)
            if cls is lentil.Pupil: kw['focal_length'] = P2.focal_length
            F2 = cls(**kw)
            r2 = lentil.Wavefront(wl) * P2; f2 = lentil.Wavefront(wl) * F2
            resc = {'same_field': bool(np.array_equal(r2.field, f2.field)), 'same_int': bool(np.array_equal(r2.intensity, f2.intensity)),
                    'shape': [int(x) for x in r2.shape], 'nfields': len(r2.data), 'nfresh': len(f2.data)}
        out[name] = {'rescaled': resc, 'again': H7.arr_out(again.field, 'gi'), 'copy': H7.arr_out(cp.field, 'gi'), 'fresh': H7.arr_out(fresh.field, 'gi'),
                     'again_I': H7.arr_out(again.intensity, 'gi'), 'fresh_I': H7.arr_out(fresh.intensity, 'gi'), 'first_shape': list(first.shape)}
    return out

def impl(c):
    if c['kind'] == 'reuse':
        try:
            return _run_reuse(c)
        except (ValueError, IndexError, TypeError, AttributeError) as e:
            return {'exc': type(e).__name__, 'msg': str(e)[:200]}
    if c['kind'] == 'mixed':
        try:
            return {'seg': _run_mixed(c, c['seg']), 'mono': _run_mixed(c, c['mono'])}
        except (ValueError, IndexError, TypeError) as e:
            return {'exc': type(e).__name__, 'msg': str(e)[:200]}
    if c['kind'] == 'tilt':
        try:
            return _run_tilt(c)
        except (ValueError, IndexError, TypeError) as e:
            return {'exc': type(e).__name__, 'msg': str(e)[:200]}
    try:
        return {'seg': _run(c, c['seg']), 'mono': _run(c, c['mono'])}
    except (ValueError, IndexError, TypeError) as e:
        return {'exc': type(e).__name__, 'msg': str(e)[:200]}

def _req(c, planes):
    mode = c['mode']
    r = {'op': 'c03.run' if 'prop' in c else 'c07.run', 'mode': mode, 'wavelength': vlib.fbits(c['wavelength']), 'focal': vlib.fbits(math.inf),
         'px': None, 'planes': [H7.plane_req(dict(p, px=[1, 1] if p['px'][0] == p['px'][1] else [1, 2]), mode) for p in planes]}
    if 'prop' in c:
        p = c['prop']
        r['prop'] = {'dx': vlib.fl(p['dx']), 'du': vlib.fl(p['du']), 'os': p['os'], 'shape': p['shape'], 'prop_shape': p['prop_shape'] or p['shape']}
    return r

def _box_req(pl):
    """a plane for c03.extok: only the mask matters (bounding boxes); amplitude and OPD are dummies"""
    r = H7.plane_req(dict(pl, px=None, amp={'scalar': 1.0}, opd={'scalar': 0.0}), 'cf')
    return r

def _prop_req(p):
    r = {'dx': vlib.fl(p['dx']), 'du': vlib.fl(p['du']), 'os': p['os'], 'shape': p['shape'], 'prop_shape': p['prop_shape'] or p['shape']}
    mk = p.get('mask')
    if mk is not None:
        # the model takes lentil.boundary(mask): first/last row and column of the support
        m = np.array(mk['v']).reshape(mk['shape'])
        rows = np.where(m.any(axis=1))[0]; cols = np.where(m.any(axis=0))[0]
        r['mask'] = [int(rows[0]), int(rows[-1]), int(cols[0]), int(cols[-1])]
    return r

def _mixed_req(c, planes):
    els = []
    for x in c['order']:
        if isinstance(x, dict): els.append({'kind': 'tilt', 'x': vlib.fbits(x['x']), 'y': vlib.fbits(x['y'])})
        else: els.append(H7.plane_req(dict(planes[x], px=[1, 1] if planes[x]['px'][0] == planes[x]['px'][1] else [1, 2]), 'cf'))
    return {'op': 'c03.chain', 'wavelength': vlib.fbits(c['wavelength']), 'wtilt': None if c['wtilt'] is None else vlib.fl(c['wtilt']),
            'elements': els, 'prop': _prop_req(c['prop'])}

def requests(c, io):
    if c['kind'] == 'reuse': return []          # oracle-only
    if c.get('extreme') == 'big': return []          # oracle-only (size)
    if c['kind'] == 'mixed':
        ext = [{'op': 'c03.extok', 'planes': [_box_req(pl[x]) for x in c['order'] if not isinstance(x, dict)]} for pl in (c['seg'], c['mono'])]
        return [_mixed_req(c, c['seg']), _mixed_req(c, c['mono'])] + ext
    if c['kind'] == 'tilt':
        # the fitted OPD and tilt coefficients come from np.linalg.lstsq (trusted contract, C04): the model takes the fitted plane
        if 'exc' in io: return []
        sh = c['shape']
        pl = {'kind': 'pupil', 'amp': {'shape': sh, 'v': vlib.fl(io['pre']['amp'])}, 'opd': {'shape': sh, 'v': vlib.fl(io['pre']['opd'])},
              'mask': {'shape': sh, 'layers': c['layers']}, 'px': [int(x) for x in c['dx']], 'fl': vlib.fbits(c['fl']),
              'seg_tilts': [[vlib.fl(t) for t in l] for l in io['pre']['seg_tilts']]}
        return [{'op': 'c03.chain', 'wavelength': vlib.fbits(c['wavelength']), 'wtilt': None, 'elements': [pl],
                 'prop': {'dx': vlib.fl(c['dx']), 'du': vlib.fl(c['du']), 'os': c['os'], 'shape': [c['oshape']] * 2, 'prop_shape': [c['pshape']] * 2}}]
    # third/fourth request: the theorems' input-level hypothesis ExtOK evaluated by the model on both descriptions
    ext = [{'op': 'c03.extok', 'planes': [_box_req(p) for p in pl]} for pl in (c['seg'], c['mono'])]
    return [_req(c, c['seg']), _req(c, c['mono'])] + ext

def _scale(c, key='field', pre=False):
    """bound on the compared quantity (tolerance = 1e-9*(1 + this)): |field| <= prod max|amp| before propagation and
    <= prod max|amp| * (number of pupil samples) after the unitary DFT; intensity: its square"""
    f = 1.0
    for p in c['mono']:
        a = p['amp']
        f *= max(abs(x) for x in a['v']) if 'v' in a else abs(a['scalar'])
    if 'prop' in c and not pre: f *= max(p['mask']['shape'][0] * p['mask']['shape'][1] for p in c['mono'])
    return f if key == 'field' else f * f

def _cmp_pre(c, a, m, mode, sc):
    """real wavefront `a` (wf_out) vs model wavefront answer `m`: field list on a canvas, field, intensity"""
    box = H7._field_box(a['data'] + m['data'])
    ci = H7._canvas(a['data'], box, H7._np_arr); cm = H7._canvas(m['data'], box, lambda f: H7._dec_arr(f, mode))
    if not H7._close(ci, cm, mode, _scale(c, 'field', True)): return f'fields differ on the canvas (max {np.max(np.abs(ci - cm)):.3g})'
    for key in ('field', 'intensity'):
        if key in a:
            if isinstance(m.get(key), str) or key not in m: return f'model {key}: {m.get(key)}'
            if not H7._close(H7._np_arr(a[key]), H7._dec_arr(m[key], mode), mode, _scale(c, key, True)): return f'{key} (before propagation) differs'
    return None

def _cmp_chain(real_fields, real_field, real_int, m, bound):
    """real per-field list (data, offset, tilt values) and propagated views vs the answer of c03.chain"""
    if not m.get('ok'): return f"model refused ({m.get('err')})"
    key = lambda f: (f['off'], f['shape'], [[round(v, 15) for v in t] for t in f['tilts']])
    mf = [dict(f, tilts=[vlib.unfl(t) for t in f['tilts']]) for f in m['fields']]
    A = sorted(real_fields, key=key); B = sorted(mf, key=key)
    if len(A) != len(B): return f'{len(A)} fields, model {len(B)}'
    for x, y in zip(A, B):
        if x['off'] != y['off'] or x['shape'] != y['shape']: return f"field placement differs: {x['off']}/{x['shape']} vs {y['off']}/{y['shape']}"
        if x['tilts'] != y['tilts']: return f"per-field tilt list differs: impl {x['tilts']} model {y['tilts']}"
        if not H7._close(H7._np_arr(x), H7._dec_arr(y, 'cf'), 'cf', bound[0]): return 'field data before propagation differ'
    for k, real, b in (('field', real_field, bound[1]), ('intensity', real_int, bound[1] ** 2)):
        if isinstance(m.get(k), str) or k not in m: return f'model {k}: {m.get(k)}'
        x, y = H7._np_arr(real), H7._dec_arr(m[k], 'cf')
        if not H7._close(x, y, 'cf', b): return f'propagated {k} differs (max {np.max(np.abs(x - y)):.3g})'
    return None

def compare(c, io, mo):
    if c['kind'] == 'reuse': return None
    if c.get('extreme') == 'big': return None
    if c['kind'] == 'mixed':
        if 'exc' in io: return f"implementation raised {io['exc']}: {io.get('msg')}"
        b = (_scale(c, 'field', True), _scale(c, 'field'))
        for name, m in zip(('seg', 'mono'), mo[2:]):
            if not m.get('ok') or m.get('extok') is not True:
                return f'{name}: the generator\'s scope test and the theorems\' hypothesis ExtOK disagree: model says {m}'
        for name, m in zip(('seg', 'mono'), mo[:2]):
            d = _cmp_chain(io[name]['fields'], io[name]['field'], io[name]['intensity'], m, b)
            if d: return f'{name}: {d}'
        return None
    if c['kind'] == 'tilt':
        if 'exc' in io or not mo: return None
        a = max(abs(x) for x in io['pre']['amp']); n = c['shape'][0] * c['shape'][1]
        return _cmp_chain(io['pre']['fields'], io['field'], io['intensity'], mo[0], (max(1.0, a), max(1.0, a) * n))
    if 'exc' in io: return f"implementation raised {io['exc']}: {io.get('msg')}"
    mode = c['mode']; sc = _scale(c)
    for name, m in zip(('seg', 'mono'), mo[2:]):
        if not m.get('ok') or m.get('extok') is not True:
            return f'{name}: the generator\'s scope test (no one-element field) and the theorems\' hypothesis ExtOK disagree: model says {m}'
    for name, m in zip(('seg', 'mono'), mo[:2]):
        if not m.get('ok'): return f"model refused ({m.get('err')})"
        a = io[name]
        pre = m['pre'] if 'prop' in c else m
        d = _cmp_pre(c, a['pre'], pre, mode, sc)
        if d: return f'{name}: {d}'
        if 'prop' in c:
            for key in ('field', 'intensity'):
                if isinstance(m[key], str): return f'{name}: model {key}: {m[key]}'
                x, y = H7._np_arr(a[key]), H7._dec_arr(m[key], mode)
                if not H7._close(x, y, mode, _scale(c, key)): return f'{name}: propagated {key} differs (max {np.max(np.abs(x - y)):.3g})'
    return None

# ------------------------------------------------------------------------------------------ oracle (real code only)
def _chip_arr(ch):
    e = ch['ext']
    return (np.array(ch['re']) + 1j * np.array(ch['im'])).reshape(e[1] - e[0] + 1, e[3] - e[2] + 1)

def _oracle_tilt(c, io):
    S0, S1 = io['shape']
    tb = (-(S0 // 2), -(S0 // 2) + S0 - 1, -(S1 // 2), -(S1 // 2) + S1 - 1)
    def place(chips):
        out = np.zeros((S0, S1), dtype=complex)
        for ch in chips:
            e = ch['ext']; d = _chip_arr(ch)
            for i in range(d.shape[0]):
                for j in range(d.shape[1]):
                    r, q = e[0] + i, e[2] + j
                    if tb[0] <= r <= tb[1] and tb[2] <= q <= tb[3]: out[r - tb[0], q - tb[2]] += d[i, j]
        return out
    total = place(io['chips'])
    pk = sum(float(np.max(np.abs(_chip_arr(ch)))) for ch in io['chips'])
    sc = 1.0 + pk
    tol = 1e-9 * (1.0 + pk * pk)
    f = H7._np_arr(io['field']); I = H7._np_arr(io['intensity']).real
    if np.max(np.abs(f - total)) > 1e-9 * sc: return 'Wavefront.field is not the coherent sum of the per-segment fields'
    if np.max(np.abs(I - H7._nsq(total))) > tol:
        return (f'contributions of different segments landing on the same samples were not added coherently: '
                f'intensity != |sum of fields|^2 (max {np.max(np.abs(I - H7._nsq(total))):.3g}; {len(io["chips"])} fields, extents {[ch["ext"] for ch in io["chips"]]})')
    # cropped sub-arrays carrying offsets (tilt as metadata) vs the whole arrays (tilt left in the OPD), segment by segment
    if len(io['chips']) == len(io['full']):
        for k, (ch, fu) in enumerate(zip(io['chips'], io['full'])):
            e, E = ch['ext'], fu['ext']
            F = _chip_arr(fu)
            if not (E[0] <= e[0] and e[1] <= E[1] and E[2] <= e[2] and e[3] <= E[3]): continue
            crop = F[e[0] - E[0]:e[1] - E[0] + 1, e[2] - E[2]:e[3] - E[2] + 1]
            if np.max(np.abs(crop - _chip_arr(ch))) > 1e-9 * sc:
                return f'segment {k}: the windowed field with fitted tilt differs from the same window of the full propagation (max {np.max(np.abs(crop - _chip_arr(ch))):.3g})'
    return None

def oracle(c, io):
    if 'exc' in io: return f"raised {io['exc']}: {io.get('msg')}"
    if c['kind'] == 'tilt': return _oracle_tilt(c, io)
    if c['kind'] == 'reuse':
        for name in ('seg', 'mono'):
            r = io[name]
            q = r['rescaled']
            if q is not None and (not (q['same_field'] and q['same_int']) or q['nfields'] != q['nfresh']):
                return f"{name}: a {c.get('how')}d plane (scale {c.get('scale')}) does not act like a plane freshly constructed from its attributes (stale bounding slices?): {q}"
            if r['again'] != r['fresh']: return f'{name}: a plane given new amplitude/OPD through the setters does not act like a freshly constructed one'
            if r['copy'] != r['fresh']: return f'{name}: the copy of a re-assigned plane does not act like a freshly constructed one'
            if r['again_I'] != r['fresh_I']: return f'{name}: intensity after re-assignment differs from the fresh plane'
        if io['seg']['fresh'] != io['mono']['fresh']: return 'segmented and monolithic field differ (re-assigned attributes)'
        return None
    if c['kind'] == 'mixed':
        want = ([] if c['wtilt'] is None else [list(c['wtilt'])]) + [[x['x'], x['y']] for x in c['order'] if isinstance(x, dict)]
        for name in ('seg', 'mono'):
            for f in io[name]['fields']:
                if f['tilts'] != want: return f'{name}: a field carries the tilt list {f["tilts"]}, the chain applied {want}'
        for key in ('field', 'intensity'):
            x, y = H7._np_arr(io['seg'][key]), H7._np_arr(io['mono'][key])
            if not H7._close(x, y, 'cf', _scale(c, key)):
                return f'segmented and monolithic {key} differ after a tilt / segmented plane / tilt chain and propagation (max {np.max(np.abs(x - y)):.3g})'
        for name in ('seg', 'mono'):
            f = H7._np_arr(io[name]['field'])
            if not H7._close(H7._np_arr(io[name]['intensity']), H7._nsq(f), 'cf', _scale(c, 'intensity')): return f'{name}: intensity != |field|^2 after propagation'
        return None
    mode = c['mode']; sc = _scale(c)
    s, m = io['seg'], io['mono']
    for key in ('field', 'intensity'):
        x, y = H7._np_arr(s['pre'][key]), H7._np_arr(m['pre'][key])
        if not H7._close(x, y, mode, _scale(c, key, True)):
            return f'segmented and monolithic {key} differ after the chain of planes (max {np.max(np.abs(x - y)):.3g})'
    # the field after the chain against the independent statement of what planes do (amplitude * exp(+2 pi i opd/lambda) inside
    # the mask, 0 outside; pixel (i, j) at global (i - S0//2, j - S1//2)); the result must depend on opd only through opd/lambda
    S0, S1 = m['pre']['shape']
    tb = (-(S0 // 2), -(S0 // 2) + S0 - 1, -(S1 // 2), -(S1 // 2) + S1 - 1)
    want = np.ones((S0, S1), dtype=complex)
    for p in c['mono']: want = want * H7.plane_factor(p, mode, c['wavelength'], tb)
    got = H7._np_arr(m['pre']['field'])
    if not H7._close(got, want, mode, _scale(c, 'field', True)):
        return f'monolithic field after the chain is not the product of amplitude * exp(2 pi i opd/lambda) over the planes (max {np.max(np.abs(got - want)):.3g})'
    # coherent addition: the intensity is the squared modulus of the summed complex amplitudes
    for name, r in (('segmented', s), ('monolithic', m)):
        if r['pre'].get('reread_same') is False: return f'{name}: reading intensity/field again on the same wavefront gave different values'
        f = H7._np_arr(r['pre']['field'])
        if not H7._close(H7._np_arr(r['pre']['intensity']), H7._nsq(f), mode, _scale(c, 'intensity', True)): return f'{name}: intensity != |field|^2 before propagation'
    if 'prop' in c:
        for name, r in (('segmented', s), ('monolithic', m)):
            if r.get('reread_same') is False:
                return f'{name}: reading field / intensity / insert repeatedly on the same propagated wavefront gave different values (a view modified Wavefront.data)'
        for key in ('field', 'intensity'):
            x, y = H7._np_arr(s[key]), H7._np_arr(m[key])
            if not H7._close(x, y, mode, _scale(c, key)):
                return f'segmented and monolithic {key} differ after propagation (max {np.max(np.abs(x - y)):.3g})'
        for name, r in (('segmented', s), ('monolithic', m)):
            f = H7._np_arr(r['field'])
            if not H7._close(H7._np_arr(r['intensity']), H7._nsq(f), mode, _scale(c, 'intensity')):
                return f'{name}: contributions were not added coherently (intensity != |sum of fields|^2, max {np.max(np.abs(H7._np_arr(r["intensity"]) - H7._nsq(f))):.3g})'
    return None

def shrink(c):
    if c['kind'] in ('tilt', 'mixed', 'reuse'): return
    if len(c['seg']) > 1:
        for i in range(len(c['seg'])):
            d = dict(c); d['seg'] = c['seg'][:i] + c['seg'][i + 1:]; d['mono'] = c['mono'][:i] + c['mono'][i + 1:]
            if any(len(p['mask']['layers']) > 1 for p in d['seg']): yield d
    if 'prop' in c and c['prop']['prop_shape']:
        d = dict(c); d['prop'] = dict(c['prop'], prop_shape=None); yield d

# ------------------------------------------------------------------------------------------ known finding
WITNESS = {'kind': 'seg', 'mode': 'gi', 'wavelength': H7.WL_GI,
           'seg': [{'kind': 'pupil', 'amp': {'shape': [4, 4], 'v': [1] * 16}, 'opd': {'scalar': 0}, 'px': [1.0, 1.0], 'fl': 2.0,
                    'mask': {'shape': [4, 4], 'ndim': 3, 'layers': [[1 if k == 5 else 0 for k in range(16)], [1 if k in (10, 11, 14, 15) else 0 for k in range(16)]]}}],
           'mono': [{'kind': 'pupil', 'amp': {'shape': [4, 4], 'v': [1] * 16}, 'opd': {'scalar': 0}, 'px': [1.0, 1.0], 'fl': 2.0,
                     'mask': {'shape': [4, 4], 'ndim': 2, 'layers': [[1 if k in (5, 10, 11, 14, 15) else 0 for k in range(16)]]}}]}

def matches_finding(kf, c, msg):
    if kf.get('id') != 'KF-C03-one-pixel-segment' or c.get('kind') != 'seg': return False
    return (H7.has_one_element_field(c['seg']) or H7.has_one_element_field(c['mono'])) and 'segmented and monolithic' in msg

def replay_finding(kf):
    io = impl(WITNESS)
    msg = oracle(WITNESS, io)
    return msg if msg and matches_finding(kf, WITNESS, msg) else None
