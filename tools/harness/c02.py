"""C02 — far-field propagation puts the Fraunhofer field on the right output samples.

Tie: Gen/Window.lean (window block of propagate_dft, _mask_shape, _mask_shift), Gen/PropagateMeta.lean (alpha, dft2 call
arguments, metadata, shape/prop_shape defaults, mask guard and out_extent branch) and Gen/Extent.lean are regenerated from the repository (translator);
Model/Propagate.lean + Model/Fourier.lean (np.fix split, Wavefront.field) and `boundary` of Model/Geometry.lean (lentil.util.boundary: hand definition, the C20 model,
not translated; pinned) are hand models run at Float and compared here with the real `lentil.propagate_dft` (placement exactly, values to 1e-9 relative).
Oracle: direct Fraunhofer double sum per output sample in np.longdouble on the real result, exact zeros outside the
evaluated window, metadata."""
import numpy as np
from harness.common import *
import vlib

LEVEL_TEXT = ('Lean 4 theorems, for all input fields/offsets, samplings, tilt shifts, output extents (whole array or '
              'mask box), propagation shapes and oversampling factors: Wavefront.field[i][j] of the propagated wavefront equals the sum over '
              'the input fields whose window out_extent ∩ prop_extent contains the sample of sqrt|ar ac| Σ f(x,y) exp(-2πi(ar X (g-s_f) + ac Y (g-s_f))) '
              'with s_f that field\'s own shift (propagateDft_sample_fraunhofer, stated at C/R by composing with C01 dft2_eq_defining_sum; '
              'this per-field sum IS the general statement when shifts differ) with alpha = dx·du/(λ z os) per axis, and exactly zero elsewhere; '
              'shape/prop_shape/mask only select samples; oversampling only divides alpha and multiplies the grid; wavelength, focal length, '
              'du/oversample and the flipped plane type are carried. The integer/fractional split of the shift is derived: the model takes the real '
              'shift, splits it with trunc (np.fix) and fix_split_spec proves |sub| < 1, sub has the sign of the shift and fix+sub = shift, '
              'propagateField_sample_shift states the sample formula in terms of the shift itself, and propagateDft_sample_of_shifts / call_sample_of_shifts lift it to the whole '
              'wavefront and to the call as written, without a mask and (call_mask_sample_of_shifts) with a mask of the output shape, where the sum is restricted to the bounding box of the mask\'s support: the input is a list of (field, real shift), every window is centred at trunc(shift) — no free split parameter is left. The mask box is computed by the model from the mask '
              'values with C20\'s boundary (mask_extent_is_support_bbox: it is the bounding box of the non-zero samples). Window arithmetic, '
              '_dft_alpha, its call site, shape·oversample, the metadata hand-over and every argument of the dft2 call and of the output Field are '
              'regenerated from propagate.py/extent.py/field.py on every run; lentil.util.boundary itself is NOT regenerated: it is the hand definition `boundary` of Model/Geometry.lean '
              '(the C20 model, trusted here, tied by the mask-box comparison and the pin on util.py:boundary). The model\'s split and mask box are compared with '
              'the ones read off the code\'s own array_extent/dft2 calls. The call as the caller writes it (propagateDftCall): shape=None is the wavefront shape, '
              'prop_shape=None is shape, an int is a square (shape_defaults), without a mask the call is propagateDft at the resolved shapes (call_no_mask, '
              'call_all_defaults), with a mask of the output shape it is propagateDft on the mask\'s bounding box and an all-zero mask is IndexError '
              '(call_mask_matching), the call ends in ValueError iff the mask differs from the output array in EITHER dimension (call_mask_refused_iff), so an '
              'accepted mask has the output shape (accepted_mask_has_output_shape; former_mask_witness_refused: the 8x10 / 10x8 masks of the fixed finding are refused) — the '
              'defaults, the broadcasting, the guard, the threshold and both out_extent calls are regenerated from propagate_dft. For a common shift the sum over fields is '
              'the Fraunhofer sum of Wavefront.field of the input (propagateDft_common_shift; propagateDft_common_real_shift with the split derived by np.fix: window centred at trunc(shift), value at g − shift). '
              'The call on a wavefront of any plane type (propagateDftTyped: _propagate_ptype as regenerated in Gen.codePropagate, placed by the regenerated statement positions '
              'Gen.dftPtypeStmt / Gen.dftMaskGuardStmt): pupil -> image and image -> pupil run the SAME propagateDftCall with the plane type flipped (both_directions_same_call), '
              'a wavefront without plane type is refused with TypeError before the mask guard, whatever the mask (untyped_refused_before_mask_guard). '
              'The split of each field\'s shift (fix_shift = np.fix(shift), subpx_shift = shift - fix_shift) and the arguments of field.shift(...) are regenerated '
              '(Gen.dftShiftSplit over abstract rounding operations, Gen.dftShiftArgs) and shift_split_is_generated proves the model\'s tfieldOfShift is that split with np.fix = truncation.')
LEVEL_NOTE = ('Partial: trunc on floats enters as the class operation TruncLike.trunc (Float truncation in the driver, floor/ceil by sign at R); '
              'the two are tied by the differential check of every split and by a probe of 8 adversarial doubles per case (integers +-1 ulp, halves, '
              '+-0.0, subnormals, up to 2**52) compared exactly with np.fix. oversample also scales the shift, which is C04\'s Field.shift. '
              'Trusted: Lean kernel, py2lean subset semantics, NumPy dot/exp/broadcast_to/fix as modelled, generator coverage.')
TECHNIQUE = 'Lean 4 proof (omega + ring) over translator-regenerated window kernel + Float model with differential correspondence'
GEN = ['Extent', 'FftScratch', 'FieldDispatch', 'FieldIdx', 'FieldMerge', 'FourierWiring', 'Helper', 'Helper20', 'Hex', 'Mesh', 'PlanePhase', 'PlaneType', 'PropagateMeta', 'Util', 'Window', 'FieldAccum']      # every Gen module the model, lemmas and driver import (transitively)
OPS = ['C02']
RULE = ('cases: pupils 1..6 x 1..6 (even/odd/non-square, off-centre support, 1..3 segments) with dyadic amplitude and OPD, '
        'alpha per axis in [0.02,0.35] (scalar or per-axis dx/du), oversample 1..3, output shape None/int/pair, prop_shape <= shape, '
        'random masks (rectangles with holes, single pixels; 1 in 12 all-zero, 1 in 6 of a wrong shape in one or both dimensions), optional Tilt planes (sub-pixel to beyond the output), and the '
        'image->pupil direction (second propagation of a propagated wavefront); distinct = (direction, pupil shape, offsets, os, '
        'shape, prop_shape, mask box, tilt class); non-trivial = window clipped / mask / tilt / per-axis sampling / offset field'
        ' Extremes stream (5% of quick, 240 cases in search/thorough): every length scaled by 1e-9..1e3, per-axis pixel scales differing by a relative 1e-5..5e-3 only, large (64..100) critically sampled pupils with an odd dimension (oracle only). Untyped stream (8 quick / 60 search / 120 thorough): wavefront through a plain Plane (plane type none), every second with a mask of the wrong shape. Every result is READ four times (Wavefront.field, Wavefront.intensity, field again, intensity again: field.insert and field.reduce -> _disjoint -> _merge); the oracle requires every read to equal the Fraunhofer reference (|.|^2 for intensity).')
TRUSTED = ['Field.shift (the real-valued shift of a field, in output samples) as proved in C04; lentil.boundary = C20 model boundary∘gtMask (boundary_is_bbox)',
           'np.dot(E1.dot(f), E2), np.exp, np.outer, np.fix, np.broadcast_to as modelled in Model/Fourier.lean and Model/Propagate.lean',
           'lentil.fourier.dft2 = Model dft2 (checked by C01); lentil.field.insert = Model insertArr (checked by C06)']
UNPROVEN = ['np.fix on IEEE doubles = TruncLike.trunc: class operation, tied differentially (splits of every case + adversarial probe)',
            'np.broadcast_to(x, (2,)) for an int or a pair: NumPy contract (ShapeArg.bcast2)']
ASSUMPTIONS = ['untyped wavefronts (plane type none: only plain lentil.Plane met) are generated with and without masks, masks of the wrong shape included: TypeError expected (oracle), model = propagateDftTyped; they carry no tilt (focal length is inf there)',
               'oversample is an integer >= 1 (the docstring says float; a non-integer oversample gives float shapes and fails downstream: not supported by propagate_dft, not generated)',
               'shape >= 1, prop_shape >= 1; the wavefront has passed through a plane (wavefront.shape is a pair)',
               'a mask whose shape differs from shape*oversample in one or both dimensions must be refused with ValueError (oracle; corpus case mask-8x10-for-8x8-output)',
               'a mask without support must be refused: ValueError or NumPy\'s IndexError are both accepted as the refusal',
               'generated tilt shifts keep a fractional part in [0.05,0.95] so that np.fix is insensitive to rounding (the truncation probe covers the rest)']

WL, Z = 5e-7, 8.0
MASK_MSG = 'mask shape mismatch not refused'

def _dy(rng, lo, hi, q=8):
    return float(rng.integers(int(lo * q), int(hi * q) + 1)) / q

def _pupil(rng, kmax=6, wl=None):
    m, n = pick_shape(rng, kmax, allow_one=True)
    if m * n <= 2 and rng.integers(0, 4): m, n = pick_shape(rng, kmax, allow_one=False)
    t = rng.integers(0, 6)
    amp = rng.integers(0, 4, (m, n)) / 2.0
    if t == 0: amp[:] = 1.0
    if t in (1, 2) and m > 2: amp[0, :] = 0       # off-centre support
    if t in (2, 3) and n > 2: amp[:, -1] = 0
    if t == 4 and m > 3 and n > 3: amp[:2, :] = 0; amp[:, :1] = 0
    if not amp.any(): amp[rng.integers(0, m), rng.integers(0, n)] = 1.0
    opd = rng.integers(-4, 5, (m, n)) * ((WL if wl is None else wl) / 16)
    nseg = 1
    seg = None
    if m * n >= 4 and rng.integers(0, 3) == 0:
        nseg = int(rng.integers(2, 4))
        seg = rng.integers(0, nseg + 1, (m, n))       # 0 = no segment
        for k in range(1, nseg + 1):
            if not (seg == k).any(): seg[rng.integers(0, m), rng.integers(0, n)] = k
        # every label must still be present
        if any(not (seg == k).any() for k in range(1, nseg + 1)): seg = None; nseg = 1
    return {'shape': [int(m), int(n)], 'amp': [float(x) for x in amp.ravel()], 'opd': [float(x) for x in opd.ravel()],
            'seg': None if seg is None else [int(x) for x in seg.ravel()]}

def _wz(c):
    return c.get('wl', WL), c.get('z', Z)

def _stage(rng, in_shape, dx, tier, allow_tilt=True, wl=WL, z=Z):
    """parameters of one propagate_dft call given the input wavefront's shape and pixelscale"""
    WL, Z = wl, z
    os_ = int(rng.integers(1, 4)) if rng.integers(0, 8) else 4
    big = 14 if tier != 'thorough' else 20
    t = rng.integers(0, 5)
    if t == 0: shape = None
    elif t == 1: shape = int(rng.integers(1, max(2, big // os_)))
    else: shape = [int(rng.integers(1, max(2, big // os_))), int(rng.integers(1, max(2, big // os_)))]
    if shape is None and max(in_shape) * os_ > big: os_ = 1
    sh = list(in_shape) if shape is None else ([shape, shape] if isinstance(shape, int) else shape)
    t = rng.integers(0, 4)
    if t <= 1: prop_shape = None
    elif t == 2: prop_shape = int(rng.integers(1, min(sh) + 1))
    else: prop_shape = [int(rng.integers(1, sh[0] + 1)), int(rng.integers(1, sh[1] + 1))]
    # sampling: alpha target per axis
    if rng.integers(0, 2):
        a = float(rng.choice([1 / 4, 1 / 5, 1 / 8, 1 / 6, 0.11, 0.3, 0.07])); al = [a, a]
    else:
        al = [float(rng.uniform(0.02, 0.35)), float(rng.uniform(0.02, 0.35))]
    du = [al[0] * WL * Z * os_ / dx[0], al[1] * WL * Z * os_ / dx[1]]
    scalar_du = bool(du[0] == du[1] and rng.integers(0, 2))
    mask = None
    if rng.integers(0, 3) == 0:
        S = [sh[0] * os_, sh[1] * os_]
        mk = np.zeros(S, dtype=int)
        k = rng.integers(0, 3)
        if k == 0: mk[rng.integers(0, S[0]), rng.integers(0, S[1])] = 1
        else:
            r0, r1 = sorted(rng.integers(0, S[0], 2)); c0, c1 = sorted(rng.integers(0, S[1], 2))
            mk[r0:r1 + 1, c0:c1 + 1] = 1
            if k == 2 and (r1 - r0) * (c1 - c0) > 1:   # holes
                holes = rng.integers(0, 2, mk.shape); mk = mk * holes
                mk[r0, c0] = 1; mk[r1, c1] = 1
        # support values: 0/1 ints, booleans, or positive floats of any size (the bounding box is that of the support)
        kind = ['int', 'bool', 'float'][int(rng.integers(0, 3))]
        bits = [int(x) for x in mk.ravel()]
        if kind == 'float':
            # positive support of any size; entries at or below the threshold 0 (zero, negative) are not support
            bits = [float(b) * float(rng.choice([0.25, 1.0, 3.0])) if b else float(rng.choice([0.0, 0.0, -0.5, -2.0])) for b in bits]
        mask = {'shape': [int(S[0]), int(S[1])], 'bits': bits, 'dtype': kind}
        bad = int(rng.integers(0, 12))
        if bad == 0:
            # all-zero (or all sub-threshold) mask: no support, lentil.boundary has nothing to bound -> refusal expected
            mask['bits'] = [0.0 if kind != 'float' else float(rng.choice([0.0, -1.0])) for _ in bits]; mask['bad'] = 'empty'
            if kind != 'float': mask['bits'] = [int(b) for b in mask['bits']]
        elif bad <= 2:
            # mask whose shape is not the output shape: both dimensions wrong (refused) or only one (the guard as written lets it pass)
            which = 'both' if bad == 1 else ['rows', 'cols'][int(rng.integers(0, 2))]
            S2 = [int(S[0] + (int(rng.integers(1, 4)) if which in ('both', 'rows') else 0)), int(S[1] + (int(rng.integers(1, 4)) if which in ('both', 'cols') else 0))]
            mk2 = np.zeros(S2, dtype=float); mk2[:S[0], :S[1]] = np.array(bits, dtype=float).reshape(S)
            mask = {'shape': S2, 'bits': [float(x) if kind == 'float' else int(x) for x in mk2.ravel()], 'dtype': kind, 'bad': which}
    tilts = []
    if allow_tilt and rng.integers(0, 3) == 0:
        for _ in range(int(rng.integers(1, 3))):
            S = [sh[0] * os_, sh[1] * os_]
            k = rng.integers(0, 4)
            rng_px = [0.9, 3.0, max(S) * 0.75, max(S) * 1.5][k]
            px = [float(rng.uniform(-rng_px, rng_px)), float(rng.uniform(-rng_px, rng_px))]
            tilts.append(px)
    return {'os': os_, 'shape': shape, 'prop_shape': prop_shape, 'du': du, 'scalar_du': scalar_du, 'mask': mask, 'tilt_px': tilts, 'z': Z}

def _fix_tilts(stage):
    """make the total tilt shift (in px) keep a fractional part in [0.05, 0.95]; convert px -> angles.
    row shift = +z*thx/du0*os, col shift = -z*thy/du1*os"""
    tot = [sum(t[0] for t in stage['tilt_px']), sum(t[1] for t in stage['tilt_px'])]
    for a in (0, 1):
        fr = abs(tot[a]) % 1.0
        if stage['tilt_px'] and (fr < 0.05 or fr > 0.95):
            stage['tilt_px'][0][a] += 0.3
    du, os_ = stage['du'], stage['os']
    Zs = stage.get('z', Z)
    stage['tilt'] = [[t[0] * du[0] / (Zs * os_), -t[1] * du[1] / (Zs * os_)] for t in stage['tilt_px']]

SCALES = [1e-9, 1e-6, 1e-3, 1.0, 1e3]

def _case(rng, tier, k, scale=1.0, near_equal=False):
    """one case; `scale` multiplies every length (pixel scales, wavelength, focal length, OPD): nothing observable may
    change; `near_equal`: per-axis pixel scales that differ by a relative 1e-5 .. 5e-3 only"""
    wl = float(rng.choice([5e-7, 4.25e-7, 6.5e-7, 1.1e-6])) * scale; z = float(rng.choice([8.0, 2.5, 20.0, 0.75])) * scale
    p = _pupil(rng, 6 if tier != 'thorough' else 8, wl=wl)
    eps = lambda: float(rng.choice([-1, 1]) * 10 ** rng.uniform(-5, -2.3))
    if rng.integers(0, 2): dx = [scale / 64, scale / 64]; scalar_dx = True
    else: dx = [float(rng.choice([1 / 64, 1 / 32, 3 / 128])) * scale, float(rng.choice([1 / 64, 1 / 32, 3 / 128])) * scale]; scalar_dx = dx[0] == dx[1]
    if near_equal and rng.integers(0, 2): dx = [dx[0], dx[0] * (1 + eps())]; scalar_dx = False
    st = _stage(rng, p['shape'], dx, tier, wl=wl, z=z)
    if near_equal:
        a0 = st['du'][0] * dx[0]          # keep alpha_r, make the column pitch almost the row pitch
        st['du'] = [st['du'][0], st['du'][0] * (1 + eps())]; st['scalar_du'] = False
    _fix_tilts(st)
    c = {'kind': 'dft', 'pupil': p, 'dx': dx, 'scalar_dx': bool(scalar_dx), 'wl': wl, 'z': z, 'stages': [st]}
    if scale != 1.0: c['scale'] = scale
    if near_equal: c['near_equal'] = True
    if p['seg'] is not None and rng.integers(0, 2):
        # per-segment tilts: ramps in the OPD of each segment, extracted by fit_tilt -> fields with different shifts
        S = _sh2(st, p['shape']); S = [S[0] * st['os'], S[1] * st['os']]
        m, n = p['shape']
        lab = np.array(p['seg']).reshape(m, n)
        r = np.arange(m)[:, None] - m // 2; cc = np.arange(n)[None, :] - n // 2
        opd = np.array(p['opd']).reshape(m, n)
        for kk in range(1, int(lab.max()) + 1):
            px = [float(rng.uniform(-0.45, 0.45) * S[0]), float(rng.uniform(-0.45, 0.45) * S[1])]
            thx, thy = px[0] * st['du'][0] / (z * st['os']), -px[1] * st['du'][1] / (z * st['os'])
            opd = opd + (lab == kk) * (thx * r * dx[0] - thy * cc * dx[1])
        p['opd'] = [float(x) for x in opd.ravel()]
        c['fit_tilt'] = True
    if k % 5 == 4:
        # image -> pupil: propagate the image-plane wavefront of stage 0 again
        st0 = c['stages'][0]
        st0['mask'] = None
        sh = p['shape'] if st0['shape'] is None else ([st0['shape']] * 2 if isinstance(st0['shape'], int) else st0['shape'])
        in_shape = [sh[0] * st0['os'], sh[1] * st0['os']]
        if max(in_shape) <= 10:
            dx1 = [st0['du'][0] / st0['os'], st0['du'][1] / st0['os']]
            st1 = _stage(rng, in_shape, dx1, tier, allow_tilt=bool(rng.integers(0, 2)), wl=wl, z=z)
            if st1['shape'] is None and max(in_shape) * st1['os'] > 14: st1['shape'] = [5, 6]; st1['mask'] = None; st1['prop_shape'] = None
            _fix_tilts(st1)
            c['stages'].append(st1)
    return c

def _untyped(rng, tier, k):
    """a wavefront that met only a plain lentil.Plane (plane type none) handed to propagate_dft: one stage, no tilt; every second case with a
    mask of the wrong shape (both dimensions) — the plane-type check must come first (TypeError, not ValueError)"""
    while True:
        c = _case(rng, tier, 0)
        if len(c['stages']) == 1 and not c.get('fit_tilt'): break
    st = c['stages'][0]
    st['tilt_px'] = []; st['tilt'] = []
    c['untyped'] = True
    if k % 2:
        sh = _sh2(st, c['pupil']['shape']); S = [sh[0] * st['os'], sh[1] * st['os']]
        S2 = [S[0] + int(rng.integers(1, 4)), S[1] + int(rng.integers(1, 4))]
        mk = np.zeros(S2, dtype=int); mk[:S[0], :S[1]] = 1
        st['mask'] = {'shape': S2, 'bits': [int(x) for x in mk.ravel()], 'dtype': 'int', 'bad': 'both'}
    return c

def _critical(rng, lo=64, hi=100):
    """large pupil filling its array, at least one ODD dimension, critically sampled (alpha = 1/n per axis), output = input
    shape, no tilt/mask: the regime where a DFT could be swapped for an FFT — the optical axis must stay at floor(n/2).
    Too large for the interpreted model: checked by the oracle only (`nomodel`)."""
    m, n = int(rng.integers(lo, hi)), int(rng.integers(lo, hi))
    if m % 2 == 0 and n % 2 == 0: m += 1
    wl = float(rng.choice([5e-7, 6.5e-7])); z = float(rng.choice([8.0, 2.5]))
    amp = rng.integers(1, 4, (m, n)) / 2.0
    opd = rng.integers(-4, 5, (m, n)) * (wl / 16)
    dx = [1 / 64, 1 / 64]
    du = [wl * z / (m * dx[0]), wl * z / (n * dx[1])]
    st = {'os': 1, 'shape': None, 'prop_shape': None, 'du': du, 'scalar_du': False, 'mask': None, 'tilt_px': [], 'tilt': [], 'z': z}
    return {'kind': 'dft', 'nomodel': True, 'critical': True, 'wl': wl, 'z': z, 'dx': dx, 'scalar_dx': True, 'stages': [st],
            'pupil': {'shape': [m, n], 'amp': [float(x) for x in amp.ravel()], 'opd': [float(x) for x in opd.ravel()], 'seg': None}}

def _extremes(rng, tier, n):
    """extremes stream: tiny/huge physical scales, near-equal per-axis pixel scales, large critically sampled transforms"""
    out = []
    for k in range(n):
        t = k % 12
        if t == 11: out.append(_critical(rng, 64, 100 if tier != 'quick' else 72))
        elif t % 2 == 0: out.append(_case(rng, 'quick', k, scale=float(rng.choice(SCALES)), near_equal=bool(rng.integers(0, 2))))
        else: out.append(_case(rng, 'quick', k, scale=1e-4 if rng.integers(0, 2) else 1.0, near_equal=True))
    return out

def generate(rng, tier):
    n = {'quick': 240, 'thorough': 3000, 'search': 300}[tier]
    out = [_case(rng, tier, k) for k in range(n)]
    out += _extremes(rng, tier, {'quick': 12, 'thorough': 240, 'search': 240}[tier])
    out += [_untyped(rng, tier, k) for k in range({'quick': 8, 'thorough': 120, 'search': 60}[tier])]
    # IEEE tie of the model's truncation (TruncLike.trunc at Float) with np.fix: adversarial doubles per case
    for c in out:
        if not c.get('nomodel'): c['fix_probe'] = _fix_probe(rng)
    return out

def _fix_probe(rng):
    v = []
    for _ in range(8):
        k = float(rng.integers(-40, 41)) if rng.integers(0, 4) else float(rng.choice([-1, 1])) * float(2 ** int(rng.integers(20, 53)))
        t = int(rng.integers(0, 7))
        if t == 0: x = k
        elif t == 1: x = float(np.nextafter(k, np.inf))
        elif t == 2: x = float(np.nextafter(k, -np.inf))
        elif t == 3: x = k + 0.5
        elif t == 4: x = k + float(rng.uniform(-1, 1))
        elif t == 5: x = float(rng.choice([-0.0, 0.0, 5e-324, -5e-324, 1 - 2.0 ** -53, -(1 - 2.0 ** -53)]))
        else: x = float(rng.uniform(-1, 1)) * 10.0 ** float(rng.uniform(-12, 15))
        v.append(x)
    return v

# ------------------------------------------------------------------------------------------ implementation
def _sh2(stage, in_shape):
    s = stage['shape']
    return list(in_shape) if s is None else ([s, s] if isinstance(s, int) else list(s))

def _build(c):
    """the wavefront entering the last propagation, built with the real code"""
    import lentil
    p = c['pupil']
    m, n = p['shape']
    amp = np.array(p['amp']).reshape(m, n); opd = np.array(p['opd']).reshape(m, n)
    mask = None
    if p['seg'] is not None:
        seg = np.array(p['seg']).reshape(m, n)
        mask = np.array([(seg == k).astype(int) for k in range(1, seg.max() + 1)])
    dx = c['dx'][0] if c['scalar_dx'] else tuple(c['dx'])
    wl, z = _wz(c)
    if c.get('untyped'):
        # a plain Plane: the wavefront keeps plane type none (it has met no pupil / image plane)
        return lentil.Wavefront(wavelength=wl) * lentil.Plane(amplitude=amp, opd=opd, mask=mask, pixelscale=dx)
    pupil = lentil.Pupil(amplitude=amp, opd=opd, mask=mask, pixelscale=dx, focal_length=z)
    if c.get('fit_tilt'): pupil = pupil.fit_tilt()
    w = lentil.Wavefront(wavelength=wl) * pupil
    return w

def _apply_tilts(w, stage):
    import lentil
    for th in stage.get('tilt', []):
        w = w * lentil.Tilt(x=th[0], y=th[1])
    return w

def _call(w, stage):
    import lentil
    du = stage['du'][0] if stage['scalar_du'] else tuple(stage['du'])
    mask = None
    if stage['mask'] is not None:
        mask = np.array(stage['mask']['bits']).reshape(stage['mask']['shape'])
        if stage['mask'].get('dtype') == 'bool': mask = mask.astype(bool)
    shape = stage['shape'] if not isinstance(stage['shape'], list) else tuple(stage['shape'])
    ps = stage['prop_shape'] if not isinstance(stage['prop_shape'], list) else tuple(stage['prop_shape'])
    return lentil.propagate_dft(w, pixelscale=du, shape=shape, prop_shape=ps, oversample=stage['os'], mask=mask)

def _cx(a):
    a = np.asarray(a, dtype=complex)
    return {'shape': list(a.shape), 're': [float(x) for x in a.real.ravel()], 'im': [float(x) for x in a.imag.ravel()]}

class _Observe:
    """observe, during one propagate_dft call, the integer part of the shift the code chose for each field (second argument
    of `array_extent(prop_shape_out, fix_shift)`) and the arguments of each `lentil.fourier.dft2` call"""
    def __enter__(self):
        import lentil, lentil.extent, lentil.fourier
        self.fix, self.dft = [], {}
        self._ae, self._d2 = lentil.extent.array_extent, lentil.fourier.dft2
        def ae(*a, **k):
            if len(a) == 2 and isinstance(a[1], np.ndarray) and not k: self.fix.append([float(a[1][0]), float(a[1][1])])
            return self._ae(*a, **k)
        def d2(*a, **k):
            if 'shift' in k and self.fix:
                self.dft[len(self.fix) - 1] = {'shift': [float(k['shift'][0]), float(k['shift'][1])], 'shape': [int(x) for x in k.get('shape', (0, 0))],
                                               'offset': [int(x) for x in k.get('offset', (0, 0))]}
            return self._d2(*a, **k)
        lentil.extent.array_extent = ae; lentil.fourier.dft2 = d2
        return self
    def __exit__(self, *exc):
        import lentil.extent, lentil.fourier
        lentil.extent.array_extent = self._ae; lentil.fourier.dft2 = self._d2

def impl(c):
    vlib.import_lentil()
    import lentil
    w = _build(c)
    for st in c['stages'][:-1]:
        w = _call(_apply_tilts(w, st), st)
    st = c['stages'][-1]
    w = _apply_tilts(w, st)
    du = np.broadcast_to(st['du'][0] if st['scalar_du'] else st['du'], (2,))
    in_fields = []
    for f in w.data:
        s = f.shift(z=w.focal_length, wavelength=w.wavelength, pixelscale=du, oversample=st['os'], indexing='ij')
        d = _cx(f.data); d.update({'off': [int(f.offset[0]), int(f.offset[1])], 'shift': [float(s[0]), float(s[1])],
                                   # angles of the Tilt elements this field carries: Tilt(x, y) stores self.x = y, self.y = x
                                   'angles': [[float(t.y), float(t.x)] for t in f.tilt]})
        in_fields.append(d)
    inp = {'fields': in_fields, 'canvas': _cx(w.field), 'shape': [int(x) for x in w.shape],
           'pixelscale': [float(x) for x in w.pixelscale], 'wavelength': float(w.wavelength), 'focal_length': float(w.focal_length),
           'ptype': str(w.ptype)}
    try:
        with _Observe() as ob:
            o = _call(w, st)
    except Exception as e:
        return {'in': inp, 'exc': type(e).__name__, 'msg': str(e)[:200]}
    # the code's own split of each field's shift: fix from the propagation extent it built, sub from the dft2 call
    observed = len(ob.fix) == len(in_fields)
    k_out = 0
    for k, f in enumerate(in_fields):
        if observed and all(v == int(v) for v in ob.fix[k]):
            f['fix'] = [int(ob.fix[k][0]), int(ob.fix[k][1])]
            if k in ob.dft and k_out < len(o.data):
                off = o.data[k_out].offset; k_out += 1
                # shift argument = (fix - intersect_shift) + sub
                f['sub'] = [ob.dft[k]['shift'][a] - (f['fix'][a] - int(off[a])) for a in (0, 1)]
                f['dft_offset'] = ob.dft[k]['offset']
            else:
                f['sub'] = [f['shift'][a] - f['fix'][a] for a in (0, 1)]
        else:
            observed = False
            fx = np.fix(f['shift']); f['fix'] = [int(fx[0]), int(fx[1])]; f['sub'] = [f['shift'][a] - f['fix'][a] for a in (0, 1)]
    # the propagated wavefront is read as a caller does: Wavefront.field, Wavefront.intensity, and both AGAIN (a view must not change the
    # wavefront: Wavefront.intensity goes through field.reduce -> _disjoint -> _merge, Wavefront.field through field.insert)
    try:
        f1 = o.field; i1 = o.intensity; f2 = o.field; i2 = o.intensity
    except Exception as e:
        return {'in': inp, 'exc': type(e).__name__, 'msg': 'reading Wavefront.field / Wavefront.intensity of the result: ' + str(e)[:160]}
    reads = {'int1': [float(x) for x in np.asarray(i1, dtype=float).ravel()], 'int2': [float(x) for x in np.asarray(i2, dtype=float).ravel()],
             'int_shape': [int(x) for x in np.shape(i1)], 'field2': _cx(f2)}
    return {'in': inp, 'observed_split': observed, 'reads': reads,
            'out_fields': [{'shape': list(f.data.shape), 'off': [int(f.offset[0]), int(f.offset[1])],
                            'pixelscale': [float(x) for x in np.broadcast_to(f.pixelscale, (2,))]} for f in o.data],
            'out': _cx(f1), 'wavelength': float(o.wavelength), 'focal_length': float(o.focal_length),
            'pixelscale': [float(x) for x in o.pixelscale], 'ptype': str(o.ptype), 'shape': [int(x) for x in o.shape]}

def _mask_box(stage):
    if stage['mask'] is None: return None
    mk = np.array(stage['mask']['bits']).reshape(stage['mask']['shape'])
    rows = np.where((mk > 0).any(axis=1))[0]; cols = np.where((mk > 0).any(axis=0))[0]
    if not len(rows): return 'empty'
    return [int(rows[0]), int(rows[-1]), int(cols[0]), int(cols[-1])]

def _bits_field(f):
    # the model splits the field's shift itself (np.fix model); the code's own split is compared with it in `compare`
    return {'shape': f['shape'], 'off': f['off'], 're': vlib.fl(f['re']), 'im': vlib.fl(f['im']), 'shift': vlib.fl(f['shift'])}

def requests(c, io):
    if c.get('nomodel'): return []
    st = c['stages'][-1]
    inp = io['in']
    # the call's arguments as written (None / int / pair): defaults and broadcasting are resolved by the model's generated code
    return [{'op': 'c02.propagate_dft', 'fields': [_bits_field(f) for f in inp['fields']],
             'dx': vlib.fl(inp['pixelscale']), 'du': vlib.fl(st['du']), 'wl': vlib.fbits(inp['wavelength']), 'z': vlib.fbits(inp['focal_length']),
             'os': st['os'], 'wshape': inp['shape'], 'wtype': inp['ptype'], 'shape': st['shape'], 'prop_shape': st['prop_shape'],
             'mask_values': None if st['mask'] is None else {'shape': st['mask']['shape'], 'v': vlib.fl([float(b) for b in st['mask']['bits']])}}] + \
           ([{'op': 'c02.fix', 'v': vlib.fl(c['fix_probe'])}] if c.get('fix_probe') else [])

def _arr(d):
    return (np.array(vlib.unfl(d['re'])) + 1j * np.array(vlib.unfl(d['im']))).reshape(d['shape'])

def _tol(io):
    return 1e-9 * (1.0 + float(np.sum(np.abs(np.array(io['in']['canvas']['re']) + 1j * np.array(io['in']['canvas']['im'])))))

def _check_observed(io):
    """the split the model is fed is the one the code itself used: observation must have worked, the two parts must add up to
    the field's shift, and the offset handed to dft2 must be the field's offset"""
    if 'exc' in io: return None
    if not io.get('observed_split'):
        return ('could not observe the fix/sub-pixel split of propagate_dft (it no longer calls lentil.extent.array_extent / lentil.fourier.dft2 '
                'through the module attributes, or fix_shift is not integral): the tie of the shift split is broken')
    for k, f in enumerate(io['in']['fields']):
        for a in (0, 1):
            if abs(f['fix'][a] + f['sub'][a] - f['shift'][a]) > 1e-9 * (1 + abs(f['shift'][a])):
                return f"field {k}: integer part {f['fix']} + sub-pixel part {f['sub']} handed to dft2 is not the field's shift {f['shift']}"
            if abs(f['sub'][a]) >= 1 + 1e-9: return f"field {k}: sub-pixel part {f['sub']} of the shift split is not below one sample"
        if 'dft_offset' in f and f['dft_offset'] != f['off']: return f"field {k}: dft2 was called with offset {f['dft_offset']}, the field's offset is {f['off']}"
    return None

def compare(c, io, mo):
    r = _check_observed(io)
    if r: return r
    if c.get('nomodel'): return None
    m = mo[0]
    if len(mo) > 1:
        if not mo[1].get('ok'): return f"model refused the truncation probe: {mo[1].get('err')}"
        want = [int(np.fix(x)) for x in c['fix_probe']]
        if list(mo[1]['fix']) != want: return f"np.fix{c['fix_probe']} = {want}, the model's truncation gives {list(mo[1]['fix'])}"
    if 'exc' in io:
        if m.get('ok'): return f"implementation raised {io['exc']}: {io.get('msg')}, the model answered"
        if m.get('err') != io['exc']: return f"implementation raised {io['exc']}: {io.get('msg')}, the model refuses with {m.get('err')}"
        return None
    if not m.get('ok'): return f"model refused ({m.get('err')}), the implementation answered"
    if list(m['out_shape']) != io['shape']: return f"output shape: implementation {io['shape']}, model {m['out_shape']} (shape/prop_shape defaults, broadcasting, oversample)"
    if m.get('ptype') != io['ptype']: return f"output plane type: implementation {io['ptype']}, model {m.get('ptype')} (input {io['in']['ptype']})"
    # the split the model derives (np.fix of the field's shift) is the split the code used
    for k, (f, sp) in enumerate(zip(io['in']['fields'], m['splits'])):
        msub = vlib.unfl(sp[2:])
        if list(sp[:2]) != f['fix'] or any(abs(a - b) > 1e-9 * (1 + abs(s_)) for a, b, s_ in zip(msub, f['sub'], f['shift'])):
            return f"field {k}: the code split its shift {f['shift']} into {f['fix']} + {f['sub']}, np.fix gives {list(sp[:2])} + {msub}"
    if m.get('mask_box') != _mask_box(c['stages'][-1]): return f"mask bounding box: model {m.get('mask_box')} vs support {_mask_box(c['stages'][-1])}"
    got = (np.array(io['out']['re']) + 1j * np.array(io['out']['im'])).reshape(io['out']['shape'])
    want = _arr(m['canvas'])
    if got.shape != want.shape: return f'Wavefront.field shape {got.shape} vs model {want.shape}'
    d = float(np.max(np.abs(got - want))) if got.size else 0.0
    if d > _tol(io): return f'Wavefront.field differs from the model by {d:.3e}'
    # samples outside every output field of the model must be exactly zero in the implementation
    cover = np.zeros(got.shape, bool)
    for f in m['fields']:
        e = ext_of(f['shape'], f['off'])
        r0 = max(0, e[0] + got.shape[0] // 2); r1 = min(got.shape[0] - 1, e[1] + got.shape[0] // 2)
        c0 = max(0, e[2] + got.shape[1] // 2); c1 = min(got.shape[1] - 1, e[3] + got.shape[1] // 2)
        if r0 <= r1 and c0 <= c1: cover[r0:r1 + 1, c0:c1 + 1] = True
    if np.any(got[~cover] != 0): return 'Wavefront.field is non-zero outside every output field of the model'
    # evaluated region as an observable (not the list of (shape, offset)): union of the output fields' extents on the canvas
    cov_i = np.zeros(got.shape, bool)
    for f in io['out_fields']:
        e = ext_of(f['shape'], f['off'])
        r0 = max(0, e[0] + got.shape[0] // 2); r1 = min(got.shape[0] - 1, e[1] + got.shape[0] // 2)
        c0 = max(0, e[2] + got.shape[1] // 2); c1 = min(got.shape[1] - 1, e[3] + got.shape[1] // 2)
        if r0 <= r1 and c0 <= c1: cov_i[r0:r1 + 1, c0:c1 + 1] = True
    if not np.array_equal(cov_i, cover): return f'evaluated region of the output differs from the model ({int(cov_i.sum())} vs {int(cover.sum())} samples)'
    for key in ('wavelength', 'focal_length'):
        if key in m and abs(io[key] - vlib.bitsf(m[key])) > 1e-15 * abs(io[key]): return f"output {key}: impl {io[key]!r} model {vlib.bitsf(m[key])!r}"
    ps = vlib.unfl(m['pixelscale'])
    if any(abs(x - y) > 1e-12 * abs(y) for x, y in zip(io['pixelscale'], ps)): return f"output pixelscale {io['pixelscale']} vs model {ps}"
    return None

# ------------------------------------------------------------------------------------------ oracle (real code only)
def fraunhofer(canvas, ar, ac, gr, gc):
    """unitary Fraunhofer sum of an input canvas (origin at floor(n/2)) at real output coordinates gr x gc, longdouble"""
    L = np.longdouble
    m, n = canvas.shape
    x = (np.arange(m) - m // 2).astype(L); y = (np.arange(n) - n // 2).astype(L)
    twopi = L(2) * np.arccos(L(-1))
    pr = twopi * L(ar) * np.outer(np.asarray(gr, dtype=L), x)       # (G0, m)
    pc = twopi * L(ac) * np.outer(y, np.asarray(gc, dtype=L))       # (n, G1)
    E1 = np.cos(pr) - 1j * np.sin(pr); E2 = np.cos(pc) - 1j * np.sin(pc)
    return (E1 @ canvas.astype(np.clongdouble) @ E2) * np.sqrt(abs(L(ar) * L(ac)))

def oracle(c, io):
    st = c['stages'][-1]
    bad = (st['mask'] or {}).get('bad')
    if io['in']['ptype'] not in ('pupil', 'image'):
        # not a wavefront "that has passed planes from a pupil to an image plane (or back)": nothing may be answered, whatever the mask
        if io.get('exc') == 'TypeError': return None
        return f"a wavefront of plane type {io['in']['ptype']} must be refused with TypeError, got {io.get('exc', 'a result')}" + (f" ({io.get('msg')})" if 'exc' in io else '')
    if 'exc' in io:
        # a mask without support, or of the wrong shape, must be refused (ValueError; NumPy's IndexError for the empty support is accepted as a refusal)
        if bad == 'empty' and io['exc'] in ('ValueError', 'IndexError'): return None
        if bad in ('both', 'rows', 'cols') and io['exc'] == 'ValueError': return None
        return f"propagate_dft raised {io['exc']}: {io.get('msg')}"
    inp = io['in']
    os_ = st['os']
    sh = _sh2(st, inp['shape'])
    S = [sh[0] * os_, sh[1] * os_]
    if bad == 'empty': return 'a mask without any sample above the threshold was accepted'
    if bad in ('both', 'rows', 'cols'):
        return f"{MASK_MSG}: mask of shape {st['mask']['shape']} accepted for an output array of shape {S}"
    ps = sh if st['prop_shape'] is None else ([st['prop_shape']] * 2 if isinstance(st['prop_shape'], int) else st['prop_shape'])
    P = [ps[0] * os_, ps[1] * os_]
    # metadata
    if io['shape'] != S: return f"output shape {io['shape']} != shape*oversample {S}"
    if io['wavelength'] != inp['wavelength']: return 'wavelength not carried'
    if io['focal_length'] != inp['focal_length']: return 'focal length not carried'
    want_ps = [st['du'][0] / os_, st['du'][1] / os_]
    if any(abs(a - b) > 1e-12 * b for a, b in zip(io['pixelscale'], want_ps)): return f"output sampling {io['pixelscale']} != du/oversample {want_ps}"
    if io['ptype'] == inp['ptype'] or io['ptype'] not in ('pupil', 'image'): return f"plane type {inp['ptype']} -> {io['ptype']}"
    for f in io['out_fields']:
        if any(abs(x - y) > 1e-12 * y for x, y in zip(f['pixelscale'], want_ps)): return f"output Field.pixelscale {f['pixelscale']} != du/oversample {want_ps}"
    dx = inp['pixelscale']
    z = inp['focal_length']
    ar = dx[0] * st['du'][0] / (inp['wavelength'] * z * os_)
    ac = dx[1] * st['du'][1] / (inp['wavelength'] * z * os_)
    rows = np.arange(S[0]); cols = np.arange(S[1])
    out_r = np.ones(S[0], bool); out_c = np.ones(S[1], bool)
    box = _mask_box(st)
    if box is not None:
        out_r &= (rows >= box[0]) & (rows <= box[1]); out_c &= (cols >= box[2]) & (cols <= box[3])
    gr = rows - S[0] // 2; gc = cols - S[1] // 2
    got = (np.array(io['out']['re']) + 1j * np.array(io['out']['im'])).reshape(io['out']['shape'])
    if got.shape != tuple(S): return f'Wavefront.field has shape {got.shape}, expected {S}'
    want = np.zeros(S, dtype=np.clongdouble); win_any = np.zeros(S, bool)
    for f in inp['fields']:
        # image displacement of this field in output samples, from the angles of the Tilt elements it carries:
        # rows +z*thx/du0*os, columns -z*thy/du1*os
        sr = sum(z * th[0] / st['du'][0] * os_ for th in f['angles'])
        sc = sum(-z * th[1] / st['du'][1] * os_ for th in f['angles'])
        fr, fc = f['fix']          # the integer part the code chose (observed); any split within one sample is legitimate
        if abs(fr - sr) > 1 + 1e-9 or abs(fc - sc) > 1 + 1e-9:
            return f"field shifted by ({sr:.4f},{sc:.4f}) samples but its propagation window is centred at ({fr},{fc})"
        # propagation window: P samples whose centre sample floor(P/2) sits at global coordinate fix
        in_r = out_r & (gr >= fr - P[0] // 2) & (gr <= fr - P[0] // 2 + P[0] - 1)
        in_c = out_c & (gc >= fc - P[1] // 2) & (gc <= fc - P[1] // 2 + P[1] - 1)
        win = np.outer(in_r, in_c)
        d = (np.array(f['re']) + 1j * np.array(f['im'])).reshape(f['shape'])
        e = ext_of(f['shape'], f['off'])
        cv = np.zeros((e[1] - e[0] + 1, e[3] - e[2] + 1), dtype=complex); cv[:, :] = d
        # the field on its own canvas: coordinates e[0].. ; use fraunhofer() with explicit coordinates
        L = np.longdouble
        x = np.arange(e[0], e[1] + 1).astype(L); y = np.arange(e[2], e[3] + 1).astype(L)
        twopi = L(2) * np.arccos(L(-1))
        pr = twopi * L(ar) * np.outer((gr - L(sr)).astype(L), x); pc = twopi * L(ac) * np.outer(y, (gc - L(sc)).astype(L))
        F = ((np.cos(pr) - 1j * np.sin(pr)) @ cv.astype(np.clongdouble) @ (np.cos(pc) - 1j * np.sin(pc))) * np.sqrt(abs(L(ar) * L(ac)))
        want += np.where(win, F, 0); win_any |= win
    if np.any(got[~win_any] != 0):
        i, j = np.argwhere((got != 0) & ~win_any)[0]
        return f'sample ({i},{j}) outside the evaluated window is {got[i, j]} (must be exactly 0)'
    # the input-plane field the fields add up to must be what Wavefront.field shows (independent of the field list)
    canvas = (np.array(inp['canvas']['re']) + 1j * np.array(inp['canvas']['im'])).reshape(inp['canvas']['shape'])
    same_shift = len({(tuple(f['fix']), tuple(round(v, 12) for v in f['sub'])) for f in inp['fields']}) <= 1
    if same_shift and inp['fields']:
        f0 = inp['fields'][0]
        sr = sum(z * th[0] / st['du'][0] * os_ for th in f0['angles']); sc = sum(-z * th[1] / st['du'][1] * os_ for th in f0['angles'])
        Fc = fraunhofer(canvas, ar, ac, gr - np.longdouble(sr), gc - np.longdouble(sc))
        want_c = np.where(win_any, Fc, 0)
        if float(np.max(np.abs(want_c - want))) > _tol(io): return 'sum over the fields differs from the Fraunhofer sum of Wavefront.field of the input'
    d = np.abs(got - want.astype(complex))
    if win_any.any() and float(d[win_any].max()) > _tol(io):
        k = np.argwhere((d > _tol(io)) & win_any)[0]
        return (f'sample ({k[0]},{k[1]}) = {got[k[0], k[1]]:.6g} but the Fraunhofer sum with alpha=({ar:.4g},{ac:.4g}) gives '
                f'{complex(want[k[0], k[1]]):.6g} (max error {float(d[win_any].max()):.3e})')
    # every read of the result shows the same Fraunhofer sum: Wavefront.intensity (= |field|^2), Wavefront.field again, Wavefront.intensity again
    rd = io.get('reads')
    if rd is not None:
        W = want.astype(complex); WI = np.abs(W) ** 2
        tol = _tol(io); tol_i = tol * (1.0 + 2.0 * (float(np.max(np.abs(W))) if W.size else 0.0))
        nf = len(io.get('out_fields', []))
        if rd['int_shape'] != list(S): return f"Wavefront.intensity has shape {rd['int_shape']}, expected {S}"
        for name, what, ref, t_ in (('int1', 'Wavefront.intensity (first read, after Wavefront.field)', WI, tol_i),
                                    ('field2', 'Wavefront.field read again after Wavefront.intensity', W, tol),
                                    ('int2', 'Wavefront.intensity read a second time', WI, tol_i)):
            v = ((np.array(rd[name]['re']) + 1j * np.array(rd[name]['im'])).reshape(rd[name]['shape']) if name == 'field2' else np.array(rd[name]).reshape(S))
            if v.shape != ref.shape: return f'{what}: shape {v.shape}, expected {ref.shape}'
            e_ = np.abs(v - ref)
            if e_.size and float(e_.max()) > t_:
                k = np.argwhere(e_ > t_)[0]
                return (f'{what} differs from the Fraunhofer sum of the input field at sample ({k[0]},{k[1]}): {v[k[0], k[1]]:.6g} vs {ref[k[0], k[1]]:.6g} '
                        f'(max error {float(e_.max()):.3e}, {nf} output fields; the first Wavefront.field read was exact)')
    return None

# ------------------------------------------------------------------------------------------ coverage
def signature(c):
    st = c['stages'][-1]
    tl = 'none' if not st['tilt_px'] else ('sub' if all(abs(v) < 1 for t in st['tilt_px'] for v in t) else 'px')
    return (f"sc={c.get('scale')} ne={c.get('near_equal')} {len(c['stages'])} {c['pupil']['shape']} seg={c['pupil']['seg'] is not None} amp0={[i for i, a in enumerate(c['pupil']['amp']) if a == 0][:6]} "
            f"os={st['os']} shape={st['shape']} prop={st['prop_shape']} mask={_mask_box(st)} tilt={tl} "
            f"wl={c.get('wl', WL):.3g} z={c.get('z', Z):g} fit={bool(c.get('fit_tilt'))} dx={'s' if c['scalar_dx'] else 'p'} du={'iso' if st['du'][0] == st['du'][1] else 'aniso'}" + (' untyped' if c.get('untyped') else ''))

def nontrivial(c):
    st = c['stages'][-1]
    return bool(st['prop_shape'] is not None or st['mask'] is not None or st['tilt_px'] or st['du'][0] != st['du'][1]
                or c['dx'][0] != c['dx'][1] or len(c['stages']) > 1 or c['pupil']['seg'] is not None or 0.0 in c['pupil']['amp'])

def tags(c):
    st = c['stages'][-1]
    t = ['dir:' + ('pupil->image' if len(c['stages']) == 1 else 'image->pupil'), f"os={st['os']}"]
    m, n = c['pupil']['shape']
    t.append('pupil:' + ('1x1' if m == n == 1 else 'square-even' if m == n and m % 2 == 0 else 'square-odd' if m == n else 'non-square'))
    if c['pupil']['seg'] is not None: t.append('segmented')
    if st['mask'] is not None: t.append('mask')
    if c.get('untyped'): t.append('untyped:' + ('bad-mask' if (st['mask'] or {}).get('bad') else 'mask' if st['mask'] is not None else 'no-mask'))
    if st['prop_shape'] is not None: t.append('prop_shape')
    if st['tilt_px']: t.append('tilt')
    if c.get('fit_tilt'): t.append('per-field-tilt')
    if c.get('scale'): t.append(f"scale={c['scale']:g}")
    if c.get('near_equal'): t.append('near-equal-per-axis')
    if c.get('critical'): t.append('critical-large-odd')
    t.append(f"wl={c.get('wl', WL):.3g}"); t.append(f"z={c.get('z', Z):g}")
    if st['du'][0] != st['du'][1]: t.append('du:per-axis')
    if c['dx'][0] != c['dx'][1]: t.append('dx:per-axis')
    t.append('shape:' + ('default' if st['shape'] is None else 'int' if isinstance(st['shape'], int) else 'pair'))
    return t

def shrink(c):
    st = c['stages'][-1]
    for key, val in (('mask', None), ('prop_shape', None), ('tilt_px', [])):
        if st.get(key) not in (None, []):
            d = json_copy(c); d['stages'][-1][key] = val
            if key == 'tilt_px': d['stages'][-1]['tilt'] = []
            yield d
    if c['pupil']['seg'] is not None:
        d = json_copy(c); d['pupil']['seg'] = None; yield d
    if len(c['stages']) > 1:
        d = json_copy(c); d['stages'] = d['stages'][:1]; yield d

def json_copy(c):
    import json
    return json.loads(json.dumps(c))
