"""C14 — unit conversions are consistent; Spectrum.to preserves integral/values; Planck's law is unit-independent.

Tie: Gen/Units.lean (waveTo, fluxTo, constants) is regenerated from lentil/radiometry.py on every run and the theorems are
about it; Model/Units.lean (Spectrum.to, planck_*) is hand-written and compared with the implementation here: factors
exactly, conversions/integrals through the ℚ-instantiated driver, Planck through the Float-instantiated driver."""
import itertools, warnings
from fractions import Fraction
import numpy as np
import vlib
from harness.speccommon import *

LEVEL_TEXT = ('Lean 4 theorems over tables regenerated from radiometry.py (decimal literals as exact rationals): wavelength factors '
              'form a cocycle with identity and round trips (64 triples, any field of characteristic 0); the 27 flux triples as '
              'identities of rational functions in flux, wave, H, C; Spectrum.to preserves the trapezoid integral of a density and '
              'the values of a unitless spectrum, composes and round-trips; exitance = pi x radiance and Planck unit-independence between Gen.planckExitance and Gen.planckRadiance, each translated from its own source function, '
              'with exp uninterpreted; flux-unit composition at spectrum level; the multi-argument to() loop (model applyTo) is proved for ARBITRARY argument lists: arguments compose and a refusal stops the call with the accepted prefix applied (applyTo_append), an unknown name is a ValueError wherever it stands (applyTo_unknown_stops), any number of wavelength units act as the last one (applyTo_waves_last_wins; two-argument instances applyTo_wave_last_wins, applyTo_refusal_keeps_prefix), wavelength and flux conversion commute (spectrum_to_wave_flux_commute), and on a density with non-zero wavelengths any list of valid unit names in any order equals ONE conversion to the last flux unit and ONE to the last wavelength unit named (applyTo_normal_form); Spectrum.to\'s per-sample steps (which of wave/value is multiplied or divided by which factor, the metre detour of flux conversion) are regenerated as Gen.toStep* and the model is defined through them (bridge lemmas toWave_eq/toFlux_eq); a converted grid stays valid (toWave_valid); the name dispatch of Unit() is regenerated as the table Gen.unitOfName (every lower-cased name of every branch ↦ the `name` attribute of the class returned): the canonical names indexing the conversion tables are fixed points (unit_canonical_names_fixed), the documented aliases meter/micron/nanometer resolve like m/um/nm, every accepted name resolves to a canonical name of exactly one of the two tables and nothing else is accepted (unit_aliases_resolve); the `waveunit`/`valueunit` setters and getters (Unit(name).name) and the two name lists Spectrum.to dispatches on are regenerated (Gen.reportedUnit, toWaveNames, toFluxNames): every unit a spectrum reports is a target `to` accepts, the lists are the canonical names of the two tables, the aliases of Unit() are not among them (reported_units_are_to_targets). Partial: Wien peak and Stefan-Boltzmann total are checked numerically only.')
LEVEL_NOTE = ('what the theorems establish: CONSISTENCY of the conversion tables (cocycle, identity, round trips) and of Spectrum.to/Planck with them, plus absolute anchors — wave_factor_absolute (every wavelength factor = ratio of hand-written SI sizes), flux_factor_absolute (photlam→wlam = f·h·c/λ, wlam↔flam = 10³), constants_near_codata (H, C, K within 1e-6 of CODATA 2018), planck_closed_form (the translated functions are 2hc²/(λ⁵(e^{hc/λkT}−1)) and 2π·…); exp itself is uninterpreted, so the unit-independence theorems hold for any function of λ[m] and T in its place. partial: the clauses "peaks where Wien\'s law says" and "integrates to the Stefan-Boltzmann total" have no theorem '
              '(they need d/dλ of Planck\'s law and ∫x³/(eˣ−1)=π⁴/15); they are evaluated numerically on the implementation in every '
              'run. Trusted: tools/specs/c14.py (if-chain/literal reader), np.exp, np.trapz as Σ Δx·(y₀+y₁)/2.')
TECHNIQUE = 'Lean 4 proof (norm_num/field_simp/ring over generated tables, induction on lists) + differential correspondence at ℚ and Float'
GEN = ['Units', 'SpectrumOps']
OPS = ['C14']
RULE = ('all 64 wavelength-unit triples and all 27 flux-unit triples (exhaustive, every run) with random dyadic wavelengths/fluxes; '
        'random spectra (2..9 dyadic samples, every wave unit, unitless and the 3 flux units) through 1..3 chained Spectrum.to '
        'targets incl. unit aliases and refused calls; Planck radiance/exitance at random temperatures 200..12000 K in all 4x3 unit '
        'pairs; Wien/Stefan-Boltzmann numerics; vegaflux bands; names outside the tables (exhaustive, every run: each of the 7 `to` methods with an unknown name and with a name of the other table, Unit() and vegaflux() with unknown names: must be ValueError). distinct = (kind, units, sizes); non-trivial = units differ')
TRUSTED = ['str.lower() (Unit compares name.lower(); the table Gen.unitOfName is on lower-cased names)', 'np.exp; np.trapz computes Σ (x[k+1]-x[k])·(y[k+1]+y[k])/2',
           'tools/specs/c14.py reads the if/elif dispatch chains and decimal literals of the unit classes']
UNPROVEN = ['Spectrum.to(*units): the theorems about arbitrary argument lists are about the model applyTo, which is compared with the implementation on 1..3 arguments only; a flux unit named for a UNITLESS spectrum inside a longer list is covered by applyTo_append + spectrum_to_flux_unitless_refused, not by the normal form',
            'Wien and Stefan-Boltzmann are numerical checks on the implementation (no theorem): the peak of planck_radiance is located on a 40001-point grid spanning ±2 % around b/T (resolution 1e-6) and must satisfy λ_max·T = hc/(k·4.965114231744276) to 2e-6, plus a coarse global search to 2e-3; ∫ planck_exitance dλ over 2e-8…2e-2 m on 400001 log-spaced points must equal σT⁴ = 2π⁵k⁴/(15h³c²)·T⁴ to 1e-5 (trapezoid error of that grid ≈ 1e-7, truncated tails < 1e-9 for 1500 K ≤ T ≤ 9000 K)',
            'preservation of the default (Simpson) integral by Spectrum.to — only the trapezoid integral is proved',
            'Planck radiance peaks where Wien\'s displacement law says (numerical check on the implementation only)',
            'Planck exitance integrates to the Stefan-Boltzmann total σT⁴ (numerical check on the implementation only)',
            'vegaflux: unit consistency is a theorem about the translated function (vegaflux_unit_consistent) and the translation is compared with the implementation; agreement of the (m, photlam) value with independent Jansky zero points is an oracle check']
ASSUMPTIONS = ['observation outside C14\'s statement (Planck functions, Spectrum.to): Blackbody.vegamag(valueunit="wlam"/"flam") stores photlam numbers under the requested label and its sample() disagrees with its value; visible in the tags vegamag:values-not-in-requested-flux-unit / vegamag:sample-differs-from-value; the bbto stream checks to() relative to the stored values',
               'Spectrum.to() accepts only the canonical names m/um/nm/angstrom although its docstring says "as accepted by Unit()" and Unit() also accepts meter/micron/nanometer: such calls raise ValueError today; they are generated, counted (tag to:alias-refused) and reported as a defect candidate, the model follows the code',
               'module constants are compared with CODATA values to 1e-6 (C = 299792456 is off by 6.7e-9: noted, inside the tolerance)',
               'flux identities need wave, H, C ≠ 0; the module constant C = 299792456 (a typo for …458) is taken as it is — every '
               'statement here is independent of its value']

W = ['m', 'um', 'nm', 'angstrom']
LONG = {'meter': 'm', 'micron': 'um', 'nanometer': 'nm'}
NOTES = {}
# reference constants (CODATA 2018 exact SI values) and the Vega zero points of the vegaflux docstring (nm, Jy)
REF = {'H': 6.62607015e-34, 'C': 299792458.0, 'K': 1.380649e-23}
VEGA = {'U': (360, 1790), 'B': (438, 4036), 'V': (545, 3636), 'R': (641, 3064), 'I': (798, 2416), 'J': (1220, 1589), 'H': (1630, 1021), 'K': (2190, 640),
        'W1': (3353, 310), 'W2': (4603, 172), 'W3': (11561, 31.7), 'W4': (22088, 8.36)}
F = ['photlam', 'flam', 'wlam']
ALIAS = {'m': ['m', 'meter'], 'um': ['um', 'micron'], 'nm': ['nm', 'nanometer'], 'angstrom': ['angstrom']}
MPU = {'m': Fraction(1), 'um': Fraction(1, 10**6), 'nm': Fraction(1, 10**9), 'angstrom': Fraction(1, 10**10)}   # metres per unit
BANDS = ['U', 'B', 'V', 'R', 'I', 'J', 'H', 'K', 'W1', 'W2', 'W3', 'W4']

def _extremes(rng, k):
    """physical scales a small sample around the visible never reaches (radio wavelengths x hot sources, far-UV x cold sources) and
    Blackbody objects (standard and Vega-magnitude) pushed through Spectrum.to"""
    out = []
    for i in range(k):
        if i % 2 == 0:
            # Planck's law from 1e-8 m to 1e3 m and 3 K to 1e6 K, wavelengths given in any unit
            lam_m = [10.0 ** float(x) for x in sorted(rng.uniform(-8, 3, 4))]
            out.append({'kind': 'planck', 'temp': float(10.0 ** rng.uniform(0.5, 6)), 'wu': W[int(rng.integers(0, 4))], 'vu': F[int(rng.integers(0, 3))],
                        'wave_nm': [x * 1e9 for x in lam_m], 'alias': False, 'extreme': True})
        else:
            m = int(rng.integers(2, 7))
            out.append({'kind': 'bbto', 'vega': bool(rng.integers(0, 2)), 'wave_nm': [float(x) for x in sorted(rng.choice(np.arange(300, 3000), m, replace=False))],
                        'temp': float(int(rng.integers(2000, 12000))), 'mag': float(int(rng.integers(-2, 12))), 'band': BANDS[int(rng.integers(0, 12))],
                        'wu': W[int(rng.integers(0, 4))], 'vu': F[int(rng.integers(0, 3))],
                        'units': [(W + F)[int(x)] for x in rng.integers(0, 7, int(rng.integers(1, 4)))]})
    return out

def generate(rng, tier):
    n = {'quick': 200, 'thorough': 5000, 'search': 1500}[tier]
    out = _extremes(rng, {'quick': 12, 'thorough': 300, 'search': 300}[tier])
    for a, b, c in itertools.product(W, W, W):
        out.append({'kind': 'wave', 'a': a, 'b': b, 'c': c, 'x': dyadic(rng, 1, 2000, 4)})
    for a, b, c in itertools.product(F, F, F):
        out.append({'kind': 'flux', 'a': a, 'b': b, 'c': c, 'flux': dyadic(rng, 1, 500, 6), 'wave_m': dyadic(rng, 100, 3000, 2) * 2.0 ** -30})
    for k in range(n):
        t = k % 5
        if t in (0, 1, 2):
            m = int(rng.integers(2, 10))
            wu = W[int(rng.integers(0, 4))]
            vu = [None, 'photlam', 'flam', 'wlam'][int(rng.integers(0, 4))]
            wave = inc_grid(rng, m, bits=3)
            value = [dyadic(rng, 0, 64, 4) for _ in range(m)]
            tg = []
            for _ in range(int(rng.integers(1, 4))):
                r = int(rng.integers(0, 12))
                if r < 7: tg.append(W[int(rng.integers(0, 4))])
                elif r < 11: tg.append(F[int(rng.integers(0, 3))])
                else: tg.append(['furlong', 'jansky'][int(rng.integers(0, 2))])
            if rng.integers(0, 4) == 0: tg = [x.upper() if rng.integers(0, 2) else x for x in tg]
            if rng.integers(0, 8) == 0: tg = [ALIAS[x][-1] if x in ALIAS else x for x in tg]      # 'meter', 'micron', 'nanometer' as accepted by Unit()
            dt = ['float', 'float', 'int64', 'int32'][int(rng.integers(0, 4))]      # integer-stored flux samples / counts
            if dt != 'float': value = [float(int(v) + 1) for v in value]
            out.append({'kind': 'to', 'wave': wave, 'value': value, 'wu': wu, 'vu': vu, 'units': tg, 'back': bool(rng.integers(0, 2)), 'dtype': dt, 'via_copy': bool(rng.integers(0, 2)), 'samp_unit': W[int(rng.integers(0, 4))]})
        elif t == 3:
            out.append({'kind': 'planck', 'temp': float(int(rng.integers(200, 12000))), 'wu': W[int(rng.integers(0, 4))], 'vu': F[int(rng.integers(0, 3))],
                        'wave_nm': [float(int(x)) for x in sorted(rng.choice(np.arange(150, 30000), 4, replace=False))], 'alias': bool(rng.integers(0, 2))})
        else:
            if k % 10 == 4: out.append({'kind': 'laws', 'temp': float(int(rng.integers(1500, 9000)))})
            else: out.append({'kind': 'vega', 'band': BANDS[int(rng.integers(0, 12))], 'wu': W[int(rng.integers(0, 4))], 'vu': F[int(rng.integers(0, 3))]})
    # names outside the tables: every `else: raise ValueError` of the seven `to` methods, of Unit() and of vegaflux (exhaustive, every run)
    out += [{'kind': 'unknown', 'call': list(cl), 'x': dyadic(rng, 1, 500, 4), 'wave_m': dyadic(rng, 100, 3000, 2) * 2.0 ** -30} for cl in UNKNOWN]
    return out

UNKNOWN = ([('to', u, bad) for u in W for bad in ('parsec', 'photlam')] + [('to', u, bad) for u in F for bad in ('jansky', 'nm')]
           + [('unit', bad, None) for bad in ('parsec', 'jansky', '')] + [('vega', bad, None) for bad in ('Q', 'w5', '')])

def signature(c):
    k = c['kind']
    if k == 'unknown': return f"unknown {c['call']}"
    if k in ('wave', 'flux'): return f"{k} {c['a']} {c['b']} {c['c']}"
    if k == 'to': return f"to {c.get('dtype')} {c['wu']} {c['vu']} {c['units']} n={len(c['wave'])} {c['wave'][0]} {c['value'][0]}"
    if k == 'planck': return f"planck {c['temp']} {c['wu']} {c['vu']} {c.get('extreme', False)}"
    if k == 'bbto': return f"bbto {c['vega']} {c['temp']} {c['wu']} {c['vu']} {c['units']} {c['band']}"
    if k == 'laws': return f"laws {c['temp']}"
    return f"vega {c['band']} {c['wu']} {c['vu']}"

def nontrivial(c):
    k = c['kind']
    if k in ('wave', 'flux'): return not (c['a'] == c['b'] == c['c'])
    if k == 'to': return any(u.lower() != c['wu'] and u.lower() != c['vu'] for u in c['units'])
    return True

def tags(c):
    t = [c['kind']] + NOTES.pop(id(c), [])
    if c['kind'] == 'unknown': t.append('unknown:' + c['call'][0] + ':' + str(c['call'][1]))
    if c['kind'] == 'to':
        t.append('to:' + ('unitless' if c['vu'] is None else 'density')); t.append('to:dtype=' + c.get('dtype', 'float'))
        for u in c['units']:
            t.append('to:target:' + ('wave' if u.lower() in W else 'flux' if u.lower() in F else 'unknown'))
    return t

# ------------------------------------------------------------------------------------------ implementation
def _rad():
    vlib.import_lentil()
    import lentil.radiometry as R
    return R

def impl(c):
    with warnings.catch_warnings(), np.errstate(all='ignore'):
        warnings.simplefilter('ignore')
        return _impl(c)

def _impl(c):
    R = _rad()
    k = c['kind']
    if k == 'unknown':
        what, u, bad = c['call']
        try:
            if what == 'to': r = R.Unit(u).to(bad) if u in W else R.Unit(u).to(c['x'], bad, c['wave_m'])
            elif what == 'unit': r = R.Unit(u)
            else: r = R.vegaflux(u)
            return {'returned': repr(r)[:80]}
        except Exception as e:
            return {'exc': type(e).__name__, 'msg': str(e)[:100]}
    if k == 'wave':
        a, b, cc = c['a'], c['b'], c['c']
        al = lambda u: ALIAS[u][-1]
        return {'ab': float(R.Unit(a).to(b)), 'bc': float(R.Unit(b).to(cc)), 'ac': float(R.Unit(a).to(cc)), 'aa': float(R.Unit(a).to(a)),
                'ba': float(R.Unit(b).to(a)), 'ab_alias': float(R.Unit(al(a)).to(al(b).upper())), 'name': R.Unit(al(a)).name}
    if k == 'flux':
        a, b, cc, f, w = c['a'], c['b'], c['c'], c['flux'], c['wave_m']
        ab = float(R.Unit(a).to(f, b, w))
        return {'ab': ab, 'abc': float(R.Unit(b).to(ab, cc, w)), 'ac': float(R.Unit(a).to(f, cc, w)), 'aba': float(R.Unit(b).to(ab, a, w)),
                'aa': float(R.Unit(a).to(f, a, w)), 'H': R.H, 'C': R.C, 'K': R.K}
    if k == 'to':
        s = R.Spectrum(np.array(c['wave']), np.array(c['value']).astype({'int64': np.int64, 'int32': np.int32}.get(c.get('dtype'), float)), waveunit=c['wu'], valueunit=c['vu'])
        i0 = float(np.trapz(s.value, s.wave))
        samp = None
        if c.get('samp_unit'):
            # sample(…, waveunit=other) converts a COPY: the original stays, the samples are the same physical spectrum per `other`
            fo = float(MPU[c['wu']] / MPU[c['samp_unit']])
            xs_ = [float(x) * fo for x in s.wave]
            before = (s.wave.tobytes(), s.value.tobytes(), s.waveunit, s.valueunit)
            samp = {'xs': xs_, 'v': [float(x) for x in s.sample(np.array(xs_), waveunit=c['samp_unit'])],
                    'unchanged': before == (s.wave.tobytes(), s.value.tobytes(), s.waveunit, s.valueunit)}
        if c.get('via_copy'):
            s0, s = s, s.copy()
            if (s.waveunit, s.valueunit) != (s0.waveunit, s0.valueunit) or s is s0: samp = dict(samp or {}, copy_units=[s.waveunit, s.valueunit])
        exc = None
        try:
            s.to(*c['units'])
        except (TypeError, ValueError) as e:
            exc = type(e).__name__
        if exc == 'ValueError' and any(u.lower() in LONG for u in c['units']) and all(u.lower() in W or u.lower() in F or u.lower() in LONG for u in c['units']):
            NOTES[id(c)] = ['to:alias-refused']
        out = {'wave': [float(x) for x in s.wave], 'value': [float(x) for x in s.value], 'wu': s.waveunit, 'vu': s.valueunit, 'exc': exc,
               'trapz0': i0, 'trapz': float(np.trapz(s.value, s.wave)), 'integrate': float(s.integrate(method='trapz')), 'H': R.H, 'C': R.C, 'samp': samp}
        if c['back'] and exc is None:
            # round trip: back to the original units
            s.to(c['wu']) if c['vu'] is None else s.to(c['vu'], c['wu'])
            out['rt_wave'] = [float(x) for x in s.wave]; out['rt_value'] = [float(x) for x in s.value]
            out['rt_units'] = [s.waveunit, s.valueunit]
        return out
    if k == 'planck':
        wu = ALIAS[c['wu']][-1] if c['alias'] else c['wu']
        wave = np.array([float(Fraction(x) * MPU['nm'] / MPU[c['wu']]) for x in c['wave_nm']])
        w0 = wave.copy()
        rad = [float(x) for x in R.planck_radiance(wave, c['temp'], wu, c['vu'])]
        touched = None if np.array_equal(wave, w0) else [float(x) for x in wave]
        wave = w0.copy()
        exi_ = [float(x) for x in R.planck_exitance(wave, c['temp'], wu, c['vu'])]
        if touched is None and not np.array_equal(wave, w0): touched = [float(x) for x in wave]
        wave = w0.copy()
        bbo = R.Blackbody(wave, c['temp'], waveunit=wu, valueunit=c['vu'])
        return {'wave': [float(x) for x in w0], 'rad': rad, 'exi': exi_, 'bb': [float(x) for x in bbo.value], 'bbwave': [float(x) for x in bbo.wave],
                'touched': touched, 'H': R.H, 'C': R.C, 'K': R.K}
        return {'wave': [float(x) for x in wave], 'rad': [float(x) for x in R.planck_radiance(wave, c['temp'], wu, c['vu'])],
                'exi': [float(x) for x in R.planck_exitance(wave, c['temp'], wu, c['vu'])],
                'bb': [float(x) for x in R.Blackbody(wave, c['temp'], waveunit=wu, valueunit=c['vu']).value],
                'H': R.H, 'C': R.C, 'K': R.K}
    if k == 'bbto':
        wave = np.array([float(Fraction(x) * MPU['nm'] / MPU[c['wu']]) for x in c['wave_nm']])
        if c['vega']: b = R.Blackbody.vegamag(wave, c['temp'], c['mag'], c['band'], waveunit=c['wu'], valueunit=c['vu'])
        else: b = R.Blackbody(wave, c['temp'], waveunit=c['wu'], valueunit=c['vu'])
        out = {'wave0': [float(x) for x in b.wave], 'value0': [float(x) for x in b.value], 'H': R.H, 'C': R.C}
        if c['vega']:
            # observation (outside C14's statement): vegamag computes photlam numbers and stores them under the requested label;
            # compare with the photlam construction converted physically, and .sample() with .value
            ref = R.Blackbody.vegamag(wave, c['temp'], c['mag'], c['band'], waveunit=c['wu'], valueunit='photlam')
            phys = [float(v) * _to_wlam('photlam', x * 1e-9, R.H, R.C) / _to_wlam(c['vu'], x * 1e-9, R.H, R.C) for v, x in zip(ref.value, c['wave_nm'])]
            notes = []
            if not all_close(out['value0'], phys, 1e-9): notes.append('vegamag:values-not-in-requested-flux-unit')
            try:
                if not all_close([float(x) for x in b.sample(wave, c['wu'])], out['value0'], 1e-9): notes.append('vegamag:sample-differs-from-value')
            except Exception: notes.append('vegamag:sample-raises')
            NOTES[id(c)] = notes or ['vegamag:consistent']
        b.to(*c['units'])
        out.update({'wave': [float(x) for x in b.wave], 'value': [float(x) for x in b.value], 'wu': b.waveunit, 'vu': b.valueunit})
        return out
    if k == 'laws':
        T = c['temp']
        lam = np.geomspace(2e-8, 2e-2, 400001)     # metres
        M = R.planck_exitance(lam, T, 'm', 'wlam')
        total = float(np.trapz(M, lam))
        b_guess = R.H * R.C / (R.K * 4.965114231744276) / T
        fine = np.linspace(0.98 * b_guess, 1.02 * b_guess, 40001)
        Lf = R.planck_radiance(fine, T, 'm', 'wlam')
        peak = float(fine[int(np.argmax(Lf))])
        coarse = np.geomspace(2e-8, 2e-2, 20001)
        gpeak = float(coarse[int(np.argmax(R.planck_radiance(coarse, T, 'm', 'wlam')))])
        return {'total': total, 'peak': peak, 'global_peak': gpeak, 'H': R.H, 'C': R.C, 'K': R.K}
    if k == 'vega':
        f, w = R.vegaflux(c['band'], c['wu'], c['vu'])
        f0, w0 = R.vegaflux(c['band'], 'm', 'photlam')
        return {'flux': float(f), 'wave': float(w), 'flux0': float(f0), 'wave0': float(w0), 'H': R.H, 'C': R.C}

def requests(c, io):
    k = c['kind']
    if '_harness_exc' in io or k == 'unknown': return []
    if k == 'wave':
        return [{'op': 'c14.wave_factor', 'a': x, 'b': y} for x, y in ((c['a'], c['b']), (c['b'], c['c']), (c['a'], c['c']), (c['a'], c['a']), (c['b'], c['a']))]
    if k == 'flux':
        base = {'H': q(io['H']), 'C': q(io['C']), 'wave': q(c['wave_m'])}
        return [dict(base, op='c14.flux', a=c['a'], b=c['b'], flux=q(c['flux'])), dict(base, op='c14.flux', a=c['a'], b=c['c'], flux=q(c['flux'])),
                {'op': 'c14.consts'}]
    if k == 'to':
        return [{'op': 'c14.to', 'wave': qs(c['wave']), 'value': qs(c['value']), 'wu': c['wu'], 'vu': c['vu'],
                 'units': [u.lower() for u in c['units']], 'H': q(io['H']), 'C': q(io['C'])}]
    if k == 'vega':
        return [{'op': 'c14.vega', 'band': c['band'], 'wu': c['wu'], 'vu': c['vu'], 'H': q(io['H']), 'C': q(io['C'])}]
    if k == 'planck':
        rs = []
        for fn in ('radiance', 'exitance'):
            for w in io['wave']:
                rs.append({'op': 'c14.planck', 'fn': fn, 'wu': c['wu'], 'vu': c['vu'], 'wave': vlib.fbits(w), 'temp': vlib.fbits(c['temp']), 'pi': vlib.fbits(np.pi),
                           'H': vlib.fbits(io['H']), 'C': vlib.fbits(io['C']), 'K': vlib.fbits(io['K'])})
        return rs
    return []

def _cancel(c, io, i):
    """relative error of exp(x)-1 in float64 at x = hc/(λkT): 2^-52/x (the code's formula, kept as it is, loses digits for x << 1)"""
    lam = c['wave_nm'][i] * 1e-9
    x = io['H'] * io['C'] / (lam * io['K'] * c['temp'])
    return 4 * 2.0 ** -52 / x if x < 1 else 0.0

def compare(c, io, mo):
    k = c['kind']
    if k == 'unknown': return None
    if k == 'wave':
        for key, m in zip(('ab', 'bc', 'ac', 'aa', 'ba'), mo):
            if not m.get('ok'): return f'model: {m}'
            if float(unq(m['q'])) != io[key]: return f"factor {key} ({c['a']},{c['b']},{c['c']}): impl {io[key]!r} model {unq(m['q'])}"
        if io['ab_alias'] != io['ab']: return f"alias spelling gives another factor: {io['ab_alias']} vs {io['ab']}"
        if io['name'] != c['a']: return f"Unit alias of {c['a']} has name {io['name']}"
        return None
    if k == 'flux':
        for key, m in zip(('ab', 'ac'), mo):
            if not m.get('ok'): return f'model: {m}'
            if not close(float(unq(m['q'])), io[key], 1e-13): return f"flux {key} ({c['a']},{c['b']},{c['c']}): impl {io[key]!r} model {float(unq(m['q']))!r}"
        cs = mo[2]
        if float(unq(cs['H'])) != io['H'] or float(unq(cs['C'])) != io['C'] or float(unq(cs['K'])) != io['K']: return 'module constants H, C, K differ from the generated ones'
        return None
    if k == 'to':
        m = mo[0]
        if not m.get('ok'): return f'model: {m}'
        if m['exc'] != io['exc']: return f"Spectrum.to{tuple(c['units'])}: impl exc {io['exc']} model {m['exc']}"
        if m['wu'] != io['wu'] or m['vu'] != io['vu']: return f"units after to: impl {io['wu']},{io['vu']} model {m['wu']},{m['vu']}"
        if not all_close([float(x) for x in unqs(m['wave'])], io['wave'], 1e-13): return f"wave after to{tuple(c['units'])} differs"
        if not all_close([float(x) for x in unqs(m['value'])], io['value'], 1e-12): return f"value after to{tuple(c['units'])} differs: impl {io['value'][:3]} model {[float(x) for x in unqs(m['value'])][:3]}"
        if not close(float(unq(m['trapz'])), io['trapz'], 1e-12): return 'trapezoid integral differs'
        if not close(io['integrate'], io['trapz'], 1e-13): return 'Spectrum.integrate(trapz) differs from np.trapz'
        return None
    if k == 'vega':
        m = mo[0]
        if not m.get('ok'): return f'model: {m}'
        if not close(float(unq(m['flux'])), io['flux'], 1e-13) or not close(float(unq(m['wave'])), io['wave'], 1e-14):
            return f"vegaflux({c['band']},{c['wu']},{c['vu']}): impl ({io['flux']!r}, {io['wave']!r}) model ({float(unq(m['flux']))!r}, {float(unq(m['wave']))!r})"
        return None
    if k == 'planck':
        got = io['rad'] + io['exi']
        for i_, (g, m) in enumerate(zip(got, mo)):
            if not m.get('ok'): return f'model: {m}'
            v = vlib.bitsf(m['v'])
            if not (np.isfinite(g) and np.isfinite(v)):
                if (np.isnan(g) == np.isnan(v)) and (np.isinf(g) == np.isinf(v)): continue
            if not close(v, g, 1e-9 + _cancel(c, io, i_ % len(io['wave']))): return f"planck ({c['wu']},{c['vu']}, T={c['temp']}): impl {g!r} model {v!r}"
        return None
    return None

# ------------------------------------------------------------------------------------------ oracle
def _to_wlam(u, lam_m, H, C):
    """independent reference: W m^-2 per unit of flux in `u` (wavelength in metres)"""
    return {'photlam': H * C / lam_m, 'flam': 1e-3, 'wlam': 1.0}[u]

def oracle(c, io):
    k = c['kind']
    if k == 'unknown':
        # a name outside the unit / band tables is refused with ValueError, never converted with some factor
        if io.get('exc') != 'ValueError': return f"{c['call']}: a name outside the documented table is not refused with ValueError: {io}"
        return None
    if k == 'wave':
        a, b, cc = c['a'], c['b'], c['c']
        ref = float(MPU[a] / MPU[b])
        if not close(io['ab'], ref, 1e-15): return f"Unit('{a}').to('{b}') = {io['ab']!r}, 1 {a} = {ref!r} {b}"
        if not close(io['ab'] * io['bc'], io['ac'], 4e-16): return f"{a}->{b}->{cc} = {io['ab'] * io['bc']!r} but {a}->{cc} = {io['ac']!r}"
        if io['aa'] != 1: return f"{a}->{a} = {io['aa']!r}"
        if not close(c['x'] * io['ab'] * io['ba'], c['x'], 4e-16): return f"round trip {a}->{b}->{a} of {c['x']} gives {c['x'] * io['ab'] * io['ba']!r}"
        return None
    if k == 'flux':
        a, b, cc, f, w = c['a'], c['b'], c['c'], c['flux'], c['wave_m']
        H, C = io['H'], io['C']
        ref = f * _to_wlam(a, w, H, C) / _to_wlam(b, w, H, C)
        if not close(io['ab'], ref, 1e-13): return f"{a}->{b} of {f} at {w} m = {io['ab']!r}, physically {ref!r}"
        if not close(io['abc'], io['ac'], 1e-13): return f"{a}->{b}->{cc} = {io['abc']!r} but {a}->{cc} = {io['ac']!r}"
        if io['aa'] != f: return f"{a}->{a} changed the flux"
        if not close(io['aba'], f, 1e-13): return f"round trip {a}->{b}->{a} of {f} gives {io['aba']!r}"
        return None
    if k == 'to' and io.get('samp'):
        sp = io['samp']
        if 'copy_units' in sp: return f"Spectrum.copy() of a ({c['wu']}, {c['vu']}) spectrum has units {sp['copy_units']}"
        if not sp['unchanged']: return f"sample(waveunit='{c['samp_unit']}') changed the spectrum"
        kk = float(MPU[c['wu']] / MPU[c['samp_unit']]) if c['vu'] is not None else 1.0
        ref = [float(v) / kk for v in c['value']]          # sampled at its own knots: the same density per the other unit
        if not all_close(sp['v'], ref, 1e-12): return f"sample at the spectrum's own wavelengths with waveunit='{c['samp_unit']}' ({c['wu']}, {c['vu']}): {sp['v'][:3]} instead of {ref[:3]}"
    if k == 'to':
        units = [u.lower() for u in c['units']]
        known = [u for u in units if u in W or u in F]
        if io['exc'] is not None:
            # a refusal is legitimate only for an unknown unit (ValueError) or a flux target on a unitless spectrum (TypeError)
            if io['exc'] == 'ValueError' and any(u not in W and u not in F and u not in LONG for u in units): return None
            if io['exc'] == 'ValueError' and any(u in LONG for u in units):
                # Unit() accepts 'meter'/'micron'/'nanometer' but Spectrum.to() raises ValueError('Unknown unit') for them:
                # reported to the coordinator as a defect candidate; counted here (ASSUMPTIONS), not silently filed as an unknown unit
                return None
            if io['exc'] == 'TypeError' and c['vu'] is None and any(u in F for u in units): return None
            return f"Spectrum.to{tuple(c['units'])} raised {io['exc']}"
        if any(u not in W and u not in F and u not in LONG for u in units): return f"Spectrum.to{tuple(c['units'])} accepted an unknown unit"
        units = [LONG.get(u, u) for u in units]
        if c['vu'] is None:
            if io['value'] != c['value']: return 'unitless spectrum: values changed by a wavelength-unit conversion'
        elif all(u in W for u in units):
            if not close(io['trapz'], io['trapz0'], 1e-12): return f"density spectrum: integral {io['trapz0']!r} became {io['trapz']!r} after to{tuple(c['units'])}"
        # physical reference: wavelengths
        wu_final = [u for u in units if u in W][-1] if any(u in W for u in units) else c['wu']
        refw = [float(Fraction(x) * MPU[c['wu']] / MPU[wu_final]) for x in c['wave']]
        if io['wu'] != wu_final or not all_close(io['wave'], refw, 1e-14): return f"wavelengths after to{tuple(c['units'])} are not the same physical wavelengths"
        if c['vu'] is not None:
            vu_final = [u for u in units if u in F][-1] if any(u in F for u in units) else c['vu']
            H, C = io['H'], io['C']
            refv = []
            for x, v in zip(c['wave'], c['value']):
                lam = float(Fraction(x) * MPU[c['wu']])
                per_m = v / float(MPU[c['wu']])                                  # density per metre
                per_m = per_m * _to_wlam(c['vu'], lam, H, C) / _to_wlam(vu_final, lam, H, C)
                refv.append(per_m * float(MPU[wu_final]))                        # density per final unit
            if io['vu'] != vu_final or not all_close(io['value'], refv, 1e-12): return f"values after to{tuple(c['units'])} are not the same physical density"
        if 'rt_wave' in io:
            if io['rt_units'] != [c['wu'], c['vu']]: return 'round trip did not restore the units'
            if not all_close(io['rt_wave'], c['wave'], 1e-14) or not all_close(io['rt_value'], c['value'], 1e-12): return 'round trip did not restore the spectrum'
        return None
    if k == 'planck':
        if io.get('touched') is not None: return f"planck_* rescaled the caller's wavelength array in place: {io['wave'][:3]} {c['wu']} became {io['touched'][:3]} (the same grid used again describes other wavelengths)"
        if 'bbwave' in io and not all_close(io['bbwave'], io['wave'], 1e-15): return f"Blackbody(wave, …, waveunit='{c['wu']}').wave is {io['bbwave'][:3]}, given {io['wave'][:3]}"
        H, C, K = io['H'], io['C'], io['K']
        for i, x in enumerate(c['wave_nm']):
            lam = x * 1e-9
            with np.errstate(all='ignore'):
                L = 2 * H * C ** 2 / (lam ** 5 * np.expm1(H * C / (lam * K * c['temp'])))     # W m^-2 sr^-1 m^-1 (expm1: accurate for small x)
            ref = L / _to_wlam(c['vu'], lam, H, C) * float(MPU[c['wu']])
            xx = H * C / (lam * K * c['temp'])
            if xx > 700 or xx < 1e-13: continue          # exp overflows / exp(x)-1 has no digits left: outside float64, not a unit question
            if not close(io['exi'][i], np.pi * io['rad'][i], 1e-14): return f"exitance {io['exi'][i]!r} != pi x radiance {np.pi * io['rad'][i]!r} at {x} nm, T={c['temp']} ({c['wu']},{c['vu']})"
            if not close(io['rad'][i], ref, 1e-11 + _cancel(c, io, i)): return f"planck_radiance({c['wu']},{c['vu']}) at {x} nm, T={c['temp']}: {io['rad'][i]!r}, physically {ref!r}"
            if not close(io['exi'][i], np.pi * io['rad'][i], 1e-14): return f"exitance {io['exi'][i]!r} != pi x radiance {np.pi * io['rad'][i]!r}"
            if io['bb'][i] != io['rad'][i]: return 'Blackbody.value differs from planck_radiance'
        return None
    if k == 'bbto':
        units = [u.lower() for u in c['units']]
        wu_f = [u for u in units if u in W][-1] if any(u in W for u in units) else c['wu']
        vu_f = [u for u in units if u in F][-1] if any(u in F for u in units) else c['vu']
        if io['wu'] != wu_f or io['vu'] != vu_f: return f"Blackbody.to{tuple(c['units'])}: units {io['wu']},{io['vu']}"
        H, C = io['H'], io['C']
        kind = 'Blackbody.vegamag' if c['vega'] else 'Blackbody'
        for x_nm, w0, v0, w1, v1 in zip(c['wave_nm'], io['wave0'], io['value0'], io['wave'], io['value']):
            lam = x_nm * 1e-9
            if not close(w1, float(Fraction(x_nm) * MPU['nm'] / MPU[wu_f]), 1e-13): return f"{kind}.to{tuple(c['units'])}: wavelength {w1!r} is not {x_nm} nm"
            ref = v0 / float(MPU[c['wu']]) * _to_wlam(c['vu'], lam, H, C) / _to_wlam(vu_f, lam, H, C) * float(MPU[wu_f])
            if not close(v1, ref, 1e-11): return f"{kind}({c['wu']},{c['vu']}).to{tuple(c['units'])}: value at {x_nm} nm became {v1!r}; the same physical density is {ref!r}"
        return None
    if k == 'laws':
        H, C, K, T = io['H'], io['C'], io['K'], c['temp']
        for k_, v_ in (('H', H), ('C', C), ('K', K)):
            if not close(v_, REF[k_], 1e-6): return f"module constant {k_} = {v_!r}, reference {REF[k_]!r}"
        sigma = 2 * np.pi ** 5 * K ** 4 / (15 * H ** 3 * C ** 2)
        if not close(io['total'], sigma * T ** 4, 1e-5): return f"∫ exitance dλ = {io['total']!r}, Stefan-Boltzmann σT⁴ = {sigma * T ** 4!r}"
        b = H * C / (K * 4.965114231744276)
        if not close(io['peak'] * T, b, 2e-6): return f"radiance peaks at λT = {io['peak'] * T!r}, Wien b = {b!r}"
        if not close(io['global_peak'] * T, b, 2e-3): return f"global radiance peak at λT = {io['global_peak'] * T!r}, Wien b = {b!r}"
        return None
    if k == 'vega':
        H, C = io['H'], io['C']
        lam = io['wave0']
        if not close(io['wave'], lam / float(MPU[c['wu']]), 1e-14): return f"vegaflux wavelength in {c['wu']}"
        ref = io['flux0'] * _to_wlam('photlam', lam, H, C) / _to_wlam(c['vu'], lam, H, C) * float(MPU[c['wu']])
        if not close(io['flux'], ref, 1e-12): return f"vegaflux({c['band']},{c['wu']},{c['vu']}) = {io['flux']!r}, from (m, photlam): {ref!r}"
        # independent of lentil: photons s^-1 m^-2 m^-1 from the Jansky zero point, F·1e-26/(h·λ), literal CODATA h
        lam_nm, jy = VEGA[c['band']]
        if not close(io['wave0'], lam_nm * 1e-9, 1e-12): return f"vegaflux({c['band']}): central wavelength {io['wave0']!r} m, tabulated {lam_nm} nm"
        phot = jy * 1e-26 / (REF['H'] * lam_nm * 1e-9)
        if not close(io['flux0'], phot, 1e-6): return f"vegaflux({c['band']},'m','photlam') = {io['flux0']!r}, from {jy} Jy: {phot!r}"
        for k_ in ('H', 'C'):
            if not close(io[k_], REF[k_], 1e-6): return f"module constant {k_} = {io[k_]!r}, reference {REF[k_]!r}"
        return None
