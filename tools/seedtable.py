#!/usr/bin/env python3
"""Write notes/seeded_table.md: one row per seeded change (from seeded/<id>/meta.json and the last seedtest result.json)."""
import json, os
HERE = os.path.dirname(os.path.abspath(__file__)); VERIF = os.path.dirname(HERE)
rows = []
for sid in sorted(os.listdir(os.path.join(VERIF, 'seeded'))):
    d = os.path.join(VERIF, 'seeded', sid)
    if not os.path.exists(os.path.join(d, 'meta.json')): continue
    m = json.load(open(os.path.join(d, 'meta.json')))
    r = json.load(open(os.path.join(d, 'result.json'))) if os.path.exists(os.path.join(d, 'result.json')) else {}
    sig = []
    for p, v in r.get('checks', {}).items():
        kinds = sorted({l.strip().split(':')[0].replace('broken ', '') for l in v.get('lines', []) if l.strip().startswith(('broken', 'failing'))})
        nf = any('no-failing-input-found' in l for l in v.get('lines', []))
        sig.append(f"{p}: exit {v['exit']}" + (f" ({', '.join(kinds)}{'; no failing input' if nf else ''})" if kinds else ''))
    rows.append((sid, m['property'], ' '.join(m.get('files', [])), m['summary'].replace('|', '/').replace('\n', ' ')[:260],
                 ('OBSOLETE (no longer a defect) — ' if m.get('obsolete') else '') + ('caught' if r.get('caught') else ('MISSED' if r else 'not run'))
                 + ('' if r.get('valid') is None or m.get('obsolete') else (', validated' if r.get('valid') else ', NOT VALID'))
                 + (', rebased' if m.get('rebased_onto') else ''), '; '.join(sig)))
hdr = ('# Seeded changes (`tools/seedtest.py`; rounds 1–7: `Cnn-m*`, `-r2m*` … `-r7m*`; `C20-fix-b0375c5-reverted` = the repaired window defect put back)\n\n'
       'validated = the 146 existing tests pass with the change, the author\'s demonstration exits 1 with it and 0 without it (re-run on the current /repo HEAD).\n'
       'caught = the property\'s quick check exits 1 with a VIOLATION line; "no failing input" marks a structural-only report. rebased = the patch was ported by\n'
       'hand after a `fix:` commit changed its context (original kept as `patch.orig.diff`).\n\n')
out = [hdr + '| id | property | files | change | verdict | signals |', '|---|---|---|---|---|---|']
out += ['| ' + ' | '.join(x) + ' |' for x in rows]
open(os.path.join(VERIF, 'notes', 'seeded_table.md'), 'w').write('\n'.join(out) + '\n')
print(len(rows), 'rows;', sum(1 for x in rows if 'caught' in x[4] and 'OBSOLETE' not in x[4]), 'caught;', sum(1 for x in rows if 'no failing input' in x[5]), 'structural only')
