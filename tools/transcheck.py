"""Correspondence check *of the translator*: every plainly translated function (not a block extraction) is evaluated in
Lean (generated Driver/GenEval/<Module>.lean) and in Python (the original function object in the repository) on the same
integer arguments, and the flattened results are compared exactly."""
import importlib, json, os, subprocess, sys
import vlib

RUN_TMPL = '''import Driver.Loop
{imports}
open Lean Drv
def dispatch (op : String) (j : Json) : Option (R Json) :=
  match (do let fn ← getStr j "fn"; let a ← getInts j "a"; pure (fn, a) : R (String × Array Int)) with
  | .error e => some (.error e)
  | .ok (fn, a) =>
    match op with
{cases}
    | _ => none
def main : IO Unit := Drv.mainLoop dispatch
'''

def _flat(x):
    if isinstance(x, (bool,)): return [bool(x)]
    if isinstance(x, slice): return [int(x.start), int(x.stop)]
    if isinstance(x, (list, tuple)):
        out = []
        for y in x: out += _flat(y)
        return out
    if hasattr(x, 'tolist') and not isinstance(x, (int,)):
        return _flat(x.tolist())
    return [int(x)]

def _pyargs(kinds, ints):
    it = iter(ints); args = []
    for k in kinds:
        if k == 'int': args.append(next(it))
        elif k == 'pair': args.append((next(it), next(it)))
        elif k == 'ext': args.append((next(it), next(it), next(it), next(it)))
        elif k == 'slice2': a, b, c, d = next(it), next(it), next(it), next(it); args.append((slice(a, b), slice(c, d)))
        elif k == 'none': args.append(None)
        else: return None
    return args

def selfcheck(genreport, modules, rng, n):
    """returns (evaluations, [disagreement strings])"""
    vlib.import_lentil()
    todo = []
    for m in modules:
        e = genreport.get(m)
        if not e or not e.get('ok') or 'functions' not in e: continue
        for f in e['functions']:
            if f['block'] or not all(isinstance(k, str) for k in f['kinds']): continue
            todo.append((m, e['src'], f))
    if not todo: return 0, []
    mods = sorted({m for m, _, _ in todo})
    d = os.path.join(vlib.LEAN, 'Driver', 'Run'); os.makedirs(d, exist_ok=True)
    name = 'TransCheck_' + '_'.join(mods)
    text = RUN_TMPL.format(imports='\n'.join(f'import Driver.GenEval.{m}' for m in mods),
                           cases='\n'.join(f'    | "{m}" => (GenEval.{m}.eval fn a).map fun r => .ok r' for m in mods))
    path = os.path.join(d, name + '.lean')
    if not os.path.exists(path) or open(path).read() != text: open(path, 'w').write(text)
    b = vlib.lake_build([f'Driver.Run.{name}'])
    if not b['ok']: return 0, ['translator self-check driver does not build: ' + '; '.join(f"{x['file']}:{x['line']} {x['msg']}" for x in b['errors'][:3])]
    reqs, want = [], []
    for m, src, f in todo:
        pymod = importlib.import_module(src[:-3].replace('/', '.'))
        fn = getattr(pymod, f['py'])
        for k in range(n):
            span = 3 if k % 3 == 0 else 9
            ints = [int(x) for x in rng.integers(-span, span + 1, f['nparams'])]
            args = _pyargs(f['kinds'], ints)
            if args is None: break
            try: w = _flat(fn(*args))
            except Exception as ex: w = {'exc': type(ex).__name__}
            reqs.append({'op': m, 'fn': f['lean'], 'a': ints}); want.append((f['py'], ints, w))
    data = '\n'.join(json.dumps(r, separators=(',', ':')) for r in reqs) + '\n'
    p = subprocess.run(['lake', 'env', 'lean', '--run', os.path.join('Driver', 'Run', name + '.lean')], cwd=vlib.LEAN, input=data,
                       capture_output=True, text=True, timeout=1800)
    lines = [l for l in p.stdout.split('\n') if l.strip()]
    if len(lines) != len(reqs): return 0, [f'translator self-check driver failed: {(p.stderr or p.stdout)[-400:]}']
    bad = []
    for (py, ints, w), l in zip(want, lines):
        got = json.loads(l)
        g = got if isinstance(got, dict) and 'exc' in got else _flat(got)
        if isinstance(w, dict) and isinstance(g, dict): ok = w['exc'] == g['exc']
        else: ok = (g == w)
        if not ok:
            bad.append(f'{py}{tuple(ints)}: python {w} lean {g}')
            if len(bad) >= 5: break
    return len(reqs), bad
