#!/bin/bash
# sweep.sh <tier> <seeds...> : run every registered check with the given seeds (self-test for false alarms); evidence goes to a scratch dir
tier=$1; shift
export VERIF_OUT=$(mktemp -d)
/venv/bin/python tools/setup.py > /dev/null 2>&1
for s in "$@"; do for i in $(seq -w 1 20); do
  out=$(VERIF_SEED=$s timeout 3000 /venv/bin/python tools/check.py C$i --tier $tier 2>&1); rc=$?
  echo "seed=$s C$i rc=$rc $(echo "$out" | grep -v '^KNOWN\|^note' | tail -1 | cut -c1-160)"
  if [ $rc -ne 0 ]; then echo "$out" | tail -15; fi
done; done
rm -rf $VERIF_OUT
