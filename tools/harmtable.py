#!/usr/bin/env python3
"""harmtable.py — notes/harmless_table.md from harmless/*/result.json (written by tools/harmtest.py)."""
import glob, json, os
VERIF = os.path.dirname(os.path.dirname(os.path.abspath(__file__)))
rows, tot = [], {}
for d in sorted(glob.glob(os.path.join(VERIF, 'harmless', '*'))):
    mf, rf = os.path.join(d, 'meta.json'), os.path.join(d, 'result.json')
    if not os.path.exists(mf): continue
    m = json.load(open(mf)); r = json.load(open(rf)) if os.path.exists(rf) else {}
    out = ', '.join(f'{p}: {o}' for p, o in (r.get('outcome') or {}).items()) or 'not run'
    broke = sorted({l.strip().split(':')[0].replace('broken ', '') for v in r.get('checks', {}).values() for l in v['lines'] if l.strip().startswith('broken')})
    for o in (r.get('outcome') or {}).values(): tot[o] = tot.get(o, 0) + 1
    rows.append(f"| {os.path.basename(d)} | {', '.join(m.get('files', []))} | {m.get('summary', '')[:200].replace('|', '/')} | {r.get('valid')} | {out} | {', '.join(broke)} |")
with open(os.path.join(VERIF, 'notes', 'harmless_table.md'), 'w') as f:
    f.write('# Behaviour-preserving refactors (false-alarm control; `tools/harmtest.py`, prompt `notes/HARMLESS_PROMPT.md`)\n\n'
            'valid = the 146 tests pass and the author\'s `equiv.py` finds the changed library bit-identical to the pristine one.\n'
            'Outcome: held = exit 0; structural = exit 1 `… no-failing-input-found` (a tie broke, the failing-input search found nothing);\n'
            'FALSE-INPUT = a concrete failing input on behaviour-preserving code (would be a defect of an oracle); infra = exit 2.\n\n'
            f'Totals: {tot}\n\n| id | files | refactor | valid | outcome | what broke |\n|---|---|---|---|---|---|\n' + '\n'.join(rows) + '\n')
print(tot)
