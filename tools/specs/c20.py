"""C20 — translator specs: index kernels of util.pad (2-D and cube), util.subarray, helper.boundary_slice and the
hex-grid walk tables of segmented.py.  (helper.slice_offset is already generated into Gen/Helper.lean.)"""
import ast, os
from py2lean import Refuse, V, S


def _canon(nodes, extra_locals=()):
    """ast.dump of a statement list with local variable names replaced by v0, v1, … in order of first appearance (names that are
    stored to, loop variables and `extra_locals`); formatting, comments and the choice of local names do not matter"""
    if not isinstance(nodes, list): nodes = [nodes]
    import copy
    nodes = copy.deepcopy(nodes)
    local = set(extra_locals)
    for n in nodes:
        for x in ast.walk(n):
            if isinstance(x, ast.Name) and isinstance(x.ctx, ast.Store): local.add(x.id)
    ren = {}
    class R(ast.NodeTransformer):
        def visit_Name(self, x):
            if x.id in local:
                if x.id not in ren: ren[x.id] = f'v{len(ren)}'
                return ast.copy_location(ast.Name(id=ren[x.id], ctx=x.ctx), x)
            return x
    return '\n'.join(ast.dump(R().visit(n)) for n in nodes)

def _same_shape(nodes, template_src, extra_locals=(), what=''):
    want = _canon(ast.parse(template_src).body, extra_locals)
    got = _canon(nodes, extra_locals)
    if got != want: raise Refuse(f'{what}: structure changed: ' + ' ; '.join(ast.unparse(n) for n in (nodes if isinstance(nodes, list) else [nodes]))[:200])

def _slices(sub):
    """[(lower, upper) source text] of a subscript whose index is a tuple of slices (`:` -> ('', ''))"""
    idx = sub.slice
    elts = idx.elts if isinstance(idx, ast.Tuple) else [idx]
    out = []
    for e in elts:
        if not isinstance(e, ast.Slice) or e.step is not None: raise Refuse('slice expected: ' + ast.unparse(sub))
        out.append((ast.unparse(e.lower) if e.lower else '', ast.unparse(e.upper) if e.upper else ''))
    return out


# ---------------------------------------------------------------------------------------------- real-valued expressions
def _real(e, env):
    """Python float expression -> Lean term over a scalar type K (classes Add Sub Mul Div Neg NatCast IntCast; `sqrtN k` = np.sqrt(k)).
    `env` maps Python names / attribute texts to Lean terms of type K."""
    src = ast.unparse(e)
    if src in env: return env[src]
    if isinstance(e, ast.Constant) and isinstance(e.value, int) and not isinstance(e.value, bool) and e.value >= 0: return f'(({e.value} : Nat) : K)'
    if isinstance(e, ast.Constant) and isinstance(e.value, float) and e.value == int(e.value) and e.value >= 0: return f'(({int(e.value)} : Nat) : K)'
    if isinstance(e, ast.UnaryOp) and isinstance(e.op, ast.USub): return f'(-{_real(e.operand, env)})'
    if isinstance(e, ast.BinOp):
        op = {ast.Add: '+', ast.Sub: '-', ast.Mult: '*', ast.Div: '/'}.get(type(e.op))
        if op: return f'({_real(e.left, env)} {op} {_real(e.right, env)})'
    if isinstance(e, ast.Call) and ast.unparse(e.func) == 'np.sqrt' and len(e.args) == 1 and isinstance(e.args[0], ast.Constant) \
            and isinstance(e.args[0].value, int) and e.args[0].value >= 0:
        return f'sqrtN {e.args[0].value}'
    raise Refuse('real expression ' + src)

KCLASSES = '{K : Type} [Add K] [Sub K] [Mul K] [Div K] [Neg K] [NatCast K] [IntCast K]'

# ---------------------------------------------------------------------------------------------- util.pad
def _pad_block(tr, stmts):
    """index block of util.pad: from `dr = ...` up to (excluding) the copy; `offset` (0 for 2-D arrays, 1 for cubes:
    `offset = 0; if array.ndim == 3: offset = 1`) is specialised by the spec. Checked structurally: the offset rule, and that the copy
    writes `padded[(:,) rmin1:rmax1, cmin1:cmax1] = array[(:,) rmin0:rmax0, cmin0:cmax0]` in the 2-D and the cube branch."""
    # the specialisation of `offset` is only sound if the code still sets it this way
    ok0 = any(isinstance(x, ast.Assign) and ast.unparse(x.targets[0]) == 'offset' and ast.unparse(x.value) == '0' for x in stmts)
    ifs = [x for x in stmts if isinstance(x, ast.If) and not x.orelse and len(x.body) == 1 and isinstance(x.body[0], ast.Assign)
           and ast.unparse(x.body[0].targets[0]) == 'offset' and ast.unparse(x.body[0].value) == '1'
           and ast.unparse(x.test).replace(' ', '') in ('array.ndim==3', '3==array.ndim', 'array.ndim>2', 'array.ndim>=3')]
    if not ok0 or len(ifs) != 1: raise Refuse('pad: `offset = 0; if array.ndim == 3: offset = 1` not found')
    keep, on = [], False
    for s_ in stmts:
        src = ast.unparse(s_)
        if src.startswith('dr ='): on = True
        if on and isinstance(s_, ast.If) and 'array.ndim' in src: break
        if on: keep.append(s_)
    if not keep: raise Refuse('pad: index block not found')
    copies = [x for x in ast.walk(ast.Module(body=list(stmts), type_ignores=[])) if isinstance(x, ast.Assign) and isinstance(x.targets[0], ast.Subscript)
              and isinstance(x.value, ast.Subscript) and ast.unparse(x.value.value) == 'array']
    if len(copies) != 2: raise Refuse(f'pad: expected the 2-D and the cube copy, found {len(copies)} copies')
    seen = set()
    for cp in copies:
        dst, src = _slices(cp.targets[0]), _slices(cp.value)
        if ast.unparse(cp.targets[0].value) != 'padded': raise Refuse('pad: copy target changed')
        lead = [('', '')] * (len(dst) - 2)
        if dst != lead + [('rmin1', 'rmax1'), ('cmin1', 'cmax1')] or src != lead + [('rmin0', 'rmax0'), ('cmin0', 'cmax0')] or len(dst) not in (2, 3):
            raise Refuse('pad: copy statement changed: ' + ast.unparse(cp))
        seen.add(len(dst))
    if seen != {2, 3}: raise Refuse('pad: need one 2-D and one cube copy')
    def final(env):
        for k in ('rmin0', 'rmax0', 'cmin0', 'cmax0', 'rmin1', 'rmax1', 'cmin1', 'cmax1'):
            if k not in env: raise Refuse(f'pad: {k} not assigned')
        return V([V([env[k] for k in ('rmin0', 'rmax0', 'cmin0', 'cmax0')]), V([env[k] for k in ('rmin1', 'rmax1', 'cmin1', 'cmax1')])])
    return keep, final

# ---------------------------------------------------------------------------------------------- util.subarray
def _subarray_ret(tr, st, env):
    if not (isinstance(st.value, ast.Subscript) and ast.unparse(st.value.value) == 'a' and _slices(st.value) == [('rmin', 'rmax'), ('cmin', 'cmax')]):
        raise Refuse('subarray: return expression changed')
    return V([env['rmin'], env['rmax'], env['cmin'], env['cmax']])

# ---------------------------------------------------------------------------------------------- helper.boundary_slice
def _bslice_block(tr, stmts):
    srcs = [ast.unparse(s) for s in stmts]
    start = [i for i, s in enumerate(srcs) if s.replace(' ', '').startswith('rmin,rmax,cmin,cmax=lentil.boundary(x,threshold)')]
    if not start: raise Refuse('boundary_slice: call to lentil.boundary not found')
    return stmts[start[0]:], None

def _bslice_ret(tr, st, env):
    v = st.value
    ok = (isinstance(v, ast.Subscript) and ast.unparse(v.value) == 'np.s_' and _slices(v) == [('rmin', 'rmax'), ('cmin', 'cmax')]) or \
         (isinstance(v, ast.Tuple) and [ast.unparse(e).replace(' ', '') for e in v.elts] == ['slice(rmin,rmax)', 'slice(cmin,cmax)'])
    if not ok: raise Refuse('boundary_slice: return expression changed')
    return V([V([env['rmin'], env['rmax']]), V([env['cmin'], env['cmax']])])


# ---------------------------------------------------------------------------------------------- util.window
def _window_generator(repo):
    """util.window: the whole decision tree (one-element passthrough, neither / slice / both / shape) is translated statement by
    statement into `Gen.windowAct`; conditions, the two consistency asserts, the four slice bounds of the returned view and the
    arguments handed to lentil.pad come from the source text. Anything outside this small statement language is refused."""
    mod = ast.parse(open(os.path.join(repo, 'lentil/util.py')).read())
    fn = [n for n in mod.body if isinstance(n, ast.FunctionDef) and n.name == 'window']
    if not fn: raise Refuse('window not found')
    fn = fn[0]
    if [a.arg for a in fn.args.args] != ['img', 'shape', 'slice'] or [ast.unparse(d) for d in fn.args.defaults] != ['None', 'None']:
        raise Refuse('window: signature changed')
    body = [x for x in fn.body if not (isinstance(x, ast.Expr) and isinstance(x.value, ast.Constant))]
    if not body or ast.unparse(body[0]) != 'img = np.asarray(img)': raise Refuse('window: `img = np.asarray(img)` not first')
    SH = {0: 'sh.1', 1: 'sh.2'}; SL = {0: 'sl.1', 1: 'sl.2.1', 2: 'sl.2.2.1', 3: 'sl.2.2.2'}
    def ix(e):
        if isinstance(e, ast.Subscript) and isinstance(e.value, ast.Name) and isinstance(e.slice, ast.Constant) and isinstance(e.slice.value, int):
            t = {'shape': SH, 'slice': SL}.get(e.value.id)
            if t is not None and e.slice.value in t: return t[e.slice.value]
        if isinstance(e, ast.Constant) and isinstance(e.value, int) and not isinstance(e.value, bool):
            return f'({e.value} : Int)'
        if isinstance(e, ast.BinOp) and type(e.op) in (ast.Add, ast.Sub, ast.Mult):
            return f"({ix(e.left)} {({ast.Add: '+', ast.Sub: '-', ast.Mult: '*'})[type(e.op)]} {ix(e.right)})"
        if isinstance(e, ast.UnaryOp) and isinstance(e.op, ast.USub): return f'(-{ix(e.operand)})'
        raise Refuse('window: integer expression ' + ast.unparse(e))
    def cond(e):
        if isinstance(e, ast.BoolOp):
            op = ' && ' if isinstance(e.op, ast.And) else ' || '
            return '(' + op.join(cond(v) for v in e.values) + ')'
        if isinstance(e, ast.UnaryOp) and isinstance(e.op, ast.Not): return f'(!{cond(e.operand)})'
        if isinstance(e, ast.Compare) and len(e.ops) == 1:
            l, o, r = e.left, e.ops[0], e.comparators[0]
            if isinstance(l, ast.Name) and l.id in ('shape', 'slice') and isinstance(r, ast.Constant) and r.value is None and isinstance(o, (ast.Is, ast.IsNot)):
                v = {'shape': 'shNone', 'slice': 'slNone'}[l.id]
                return v if isinstance(o, ast.Is) else f'(!{v})'
            sym = {ast.Eq: '=', ast.NotEq: '≠', ast.Lt: '<', ast.LtE: '≤', ast.Gt: '>', ast.GtE: '≥'}.get(type(o))
            if sym:
                L = 'size' if ast.unparse(l) == 'img.size' else ix(l)
                R_ = 'size' if ast.unparse(r) == 'img.size' else ix(r)
                return f'decide ({L} {sym} {R_})'
        raise Refuse('window: condition ' + ast.unparse(e))
    def ret(e):
        if isinstance(e, ast.Name) and e.id == 'img': return 'WindowAct.whole'
        if isinstance(e, ast.Subscript) and isinstance(e.value, ast.Name) and e.value.id == 'img':
            idx = e.slice
            elts = list(idx.elts) if isinstance(idx, ast.Tuple) else []
            # `img[..., a:b, c:d]` (the slices address the LAST two axes: rows and columns also of a cube) or `img[a:b, c:d]` (the FIRST two axes)
            from_end = bool(elts) and isinstance(elts[0], ast.Constant) and elts[0].value is Ellipsis
            if from_end: elts = elts[1:]
            if not (len(elts) == 2 and all(isinstance(t, ast.Slice) and t.step is None and t.lower is not None and t.upper is not None for t in elts)):
                raise Refuse('window: returned view is not img[a:b, c:d] or img[..., a:b, c:d]: ' + ast.unparse(e))
            views.append(from_end)
            a, b = elts
            return f'WindowAct.view {ix(a.lower)} {ix(a.upper)} {ix(b.lower)} {ix(b.upper)}'
        if isinstance(e, ast.Call) and ast.unparse(e.func) in ('lentil.pad', 'pad') and not e.keywords and len(e.args) == 2 \
                and ast.unparse(e.args[0]) == 'img' and ast.unparse(e.args[1]) == 'shape':
            return 'WindowAct.pad sh.1 sh.2'
        raise Refuse('window: return value ' + ast.unparse(e))
    views = []
    def block(stmts, ind):
        if not stmts: return 'WindowAct.fallthrough'
        st, rest = stmts[0], stmts[1:]
        pad = ' ' * ind
        if isinstance(st, ast.Return) and st.value is not None: return ret(st.value)
        if isinstance(st, ast.Assert) and st.msg is None:
            return f'if {cond(st.test)} then\n{pad}  {block(rest, ind + 2)}\n{pad}else WindowAct.refuse'
        if isinstance(st, ast.If):
            # an `if` whose branches all return; statements after it are reached only by falling through
            t = block(st.body + rest, ind + 2); f = block((st.orelse or []) + rest, ind + 2)
            return f'if {cond(st.test)} then\n{pad}  {t}\n{pad}else\n{pad}  {f}'
        raise Refuse('window: statement ' + ast.unparse(st)[:80])
    tree = block(body[1:], 2)
    if not views or len(set(views)) != 1: raise Refuse('window: no returned view, or views that address different axes')
    lean = ('/-- `util.window`: the returned view is `img[..., r0:r1, c0:c1]` (`true`: the slices address the LAST two axes — rows and columns, also of a\n'
            'cube `(depth, rows, cols)`) or `img[r0:r1, c0:c1]` (`false`: the FIRST two axes — depth and rows of a cube) -/\n'
            f"def windowSliceAxesFromEnd : Bool := {'true' if views[0] else 'false'}\n\n"
            '/-- what `util.window` does with its input: return it unchanged, return the view `img[r0:r1, c0:c1]`, hand it to `lentil.pad`\n'
            'with a target shape, fail an `assert`, or fall off the end (returns `None`) -/\n'
            'inductive WindowAct where\n  | whole | view (r0 r1 c0 c1 : Int) | pad (s0 s1 : Int) | refuse | fallthrough\n  deriving DecidableEq, Repr\n\n'
            '/-- `util.window(img, shape, slice)`: decision tree translated from the source. `size` = `img.size`, `shNone`/`slNone` = the argument\n'
            'is `None`, `sh`/`sl` = its entries otherwise -/\n'
            'def windowAct (size : Int) (shNone slNone : Bool) (sh : Int × Int) (sl : Int × Int × Int × Int) : WindowAct :=\n  '
            + tree + '\n')
    return lean, ['window: decision tree, asserts, view bounds, the axes the view addresses (leading Ellipsis) and the pad call translated; `img = np.asarray(img)` and the signature checked structurally']


# ---------------------------------------------------------------------------------------------- util.centroid
def _centroid_generator(repo):
    """util.centroid statement by statement: normalisation img/np.sum(img), the index grids np.mgrid[a:nr, b:nc] (lower bounds translated,
    upper bounds must be the shape), which grid each np.dot pairs with the image, the order of the returned pair."""
    mod = ast.parse(open(os.path.join(repo, 'lentil/util.py')).read())
    fn = [n for n in mod.body if isinstance(n, ast.FunctionDef) and n.name == 'centroid']
    if not fn: raise Refuse('centroid not found')
    fn = fn[0]
    if [a.arg for a in fn.args.args] != ['img'] or fn.args.defaults: raise Refuse('centroid: signature changed')
    body = [x for x in fn.body if not (isinstance(x, ast.Expr) and isinstance(x.value, ast.Constant))]
    if len(body) != 7: raise Refuse(f'centroid: 7 statements expected, found {len(body)}')
    u = lambda x: ast.unparse(x).replace(' ', '')
    if u(body[0]) != 'img=np.asarray(img)': raise Refuse('centroid: `img = np.asarray(img)` not first')
    nrm = body[1]
    if not (isinstance(nrm, ast.Assign) and u(nrm.targets[0]) == 'img'): raise Refuse('centroid: normalisation statement changed')
    def wx(e):
        if u(e) == 'img': return 'v'
        if u(e) in ('np.sum(img)', 'img.sum()'): return 'total'
        if isinstance(e, ast.BinOp) and type(e.op) in (ast.Div, ast.Mult):
            return f"({wx(e.left)} {'/' if isinstance(e.op, ast.Div) else '*'} {wx(e.right)})"
        raise Refuse('centroid: normalisation expression ' + ast.unparse(e))
    weight = wx(nrm.value)
    if u(body[2]).replace('(nr,nc)', 'nr,nc') != 'nr,nc=img.shape': raise Refuse('centroid: `nr, nc = img.shape` changed')
    g = body[3]
    if not (isinstance(g, ast.Assign) and isinstance(g.targets[0], ast.Tuple) and len(g.targets[0].elts) == 2 and isinstance(g.value, ast.Subscript)
            and u(g.value.value) == 'np.mgrid'): raise Refuse('centroid: index grids are not np.mgrid[...]')
    gnames = [u(t) for t in g.targets[0].elts]
    sl = _slices(g.value)
    if len(sl) != 2 or [x[1] for x in sl] != ['nr', 'nc']: raise Refuse('centroid: grid upper bounds are not (nr, nc): ' + ast.unparse(g))
    def lo(t):
        try: v = int(t)
        except ValueError: raise Refuse('centroid: grid lower bound ' + t)
        return f'({v} : Int)'
    grid = {gnames[0]: f'({lo(sl[0][0])} + i)', gnames[1]: f'({lo(sl[1][0])} + j)'}     # mgrid axis 0 varies with the row index, axis 1 with the column index
    comp = {}
    for st in body[4:6]:
        v = st.value if isinstance(st, ast.Assign) else None
        if not (v is not None and isinstance(v, ast.Call) and u(v.func) == 'np.dot' and len(v.args) == 2 and not v.keywords):
            raise Refuse('centroid: component is not np.dot(grid.ravel(), img.ravel()): ' + ast.unparse(st))
        a = [u(x) for x in v.args]
        gn = [x[:-len('.ravel()')] for x in a if x.endswith('.ravel()') and x[:-len('.ravel()')] in grid]
        if len(gn) != 1 or 'img.ravel()' not in a: raise Refuse('centroid: np.dot operands changed: ' + ast.unparse(st))
        comp[u(st.targets[0])] = grid[gn[0]]
    r = body[6]
    if not (isinstance(r, ast.Return) and isinstance(r.value, ast.Tuple) and len(r.value.elts) == 2 and all(u(e) in comp for e in r.value.elts)):
        raise Refuse('centroid: return changed')
    c0, c1 = (comp[u(e)] for e in r.value.elts)
    lean = ('/-- `util.centroid`: the index-grid value that multiplies sample `(i, j)` in returned component `k` (0 or 1) — from `np.mgrid[…]`, the\n'
            'operands of the two `np.dot` calls and the order of the returned pair -/\n'
            f'def centroidGrid (k : Nat) (i j : Int) : Int :=\n  match k with\n  | 0 => {c0}\n  | _ => {c1}\n\n'
            '/-- `util.centroid`: the normalisation of one sample, `total` = `np.sum(img)` -/\n'
            f'def centroidWeight {{K : Type}} [Mul K] [Div K] (v total : K) : K := {weight}\n\n'
            '/-- `util.centroid` on an `nr × nc` image over any scalar type (`sum n f` = Σ_{i<n} f i; both `ravel()`s enumerate samples alike) -/\n'
            'def centroid {K : Type} [Mul K] [Div K] [IntCast K] (sum : Nat → (Nat → K) → K) (nr nc : Nat) (img : Nat → Nat → K) : K × K :=\n'
            '  let total := sum nr fun i => sum nc fun j => img i j\n'
            '  (sum nr fun i => sum nc fun j => ((centroidGrid 0 i j : Int) : K) * centroidWeight (img i j) total,\n'
            '   sum nr fun i => sum nc fun j => ((centroidGrid 1 i j : Int) : K) * centroidWeight (img i j) total)\n')
    return lean, ['centroid: normalisation, mgrid lower bounds, grid/component pairing and return order translated; asarray, shape unpacking, mgrid upper bounds and the np.dot/ravel form checked structurally']


# ---------------------------------------------------------------------------------------------- util.rebin
def _rebin_generator(repo):
    """util.rebin: the target shape handed to `reshape` and the two summed axes, in the 2-D and in the cube branch, translated from the source
    (`img.shape[k]`, `factor`, `//`, the intermediate tuple `rebinned_shape`); the complex guard, the ndim test and the return are matched."""
    mod = ast.parse(open(os.path.join(repo, 'lentil/util.py')).read())
    fn = [n for n in mod.body if isinstance(n, ast.FunctionDef) and n.name == 'rebin']
    if not fn: raise Refuse('rebin not found')
    fn = fn[0]
    if [a.arg for a in fn.args.args] != ['img', 'factor'] or fn.args.defaults: raise Refuse('rebin: signature changed')
    body = [x for x in fn.body if not (isinstance(x, ast.Expr) and isinstance(x.value, ast.Constant))]
    u = lambda x: ast.unparse(x).replace(' ', '')
    if len(body) != 4 or u(body[0]) != 'img=np.asarray(img)': raise Refuse('rebin: statement list changed')
    g = body[1]
    if not (isinstance(g, ast.If) and u(g.test) == 'np.iscomplexobj(img)' and not g.orelse and len(g.body) == 1 and isinstance(g.body[0], ast.Raise)
            and u(g.body[0].exc).startswith('ValueError(')): raise Refuse('rebin: complex guard changed')
    br = body[2]
    if not (isinstance(br, ast.If) and u(br.test) in ('img.ndim==3', '3==img.ndim') and br.orelse): raise Refuse('rebin: `if img.ndim == 3 … else` not found')
    if not (isinstance(body[3], ast.Return) and isinstance(body[3].value, ast.Name)): raise Refuse('rebin: return changed')
    out = body[3].value.id
    def branch(stmts, names):
        env = {}
        def ix(e):
            t = u(e)
            if t in names: return names[t]
            if t == 'factor': return 'f'
            if isinstance(e, ast.Subscript) and isinstance(e.value, ast.Name) and e.value.id in env and isinstance(e.slice, ast.Constant) \
                    and isinstance(e.slice.value, int) and 0 <= e.slice.value < len(env[e.value.id]):
                return env[e.value.id][e.slice.value]
            if isinstance(e, ast.BinOp) and type(e.op) in (ast.FloorDiv, ast.Mult, ast.Add, ast.Sub):
                return f"({ix(e.left)} {({ast.FloorDiv: '/', ast.Mult: '*', ast.Add: '+', ast.Sub: '-'})[type(e.op)]} {ix(e.right)})"
            if isinstance(e, ast.Constant) and isinstance(e.value, int) and not isinstance(e.value, bool): return f'({e.value} : Int)'
            raise Refuse('rebin: integer expression ' + ast.unparse(e))
        for st in stmts[:-1]:
            if not (isinstance(st, ast.Assign) and isinstance(st.targets[0], ast.Name) and isinstance(st.value, ast.Tuple)): raise Refuse('rebin: statement ' + ast.unparse(st)[:80])
            env[st.targets[0].id] = [ix(e) for e in st.value.elts]
        st = stmts[-1]
        if not (isinstance(st, ast.Assign) and u(st.targets[0]) == out): raise Refuse('rebin: the branch does not assign the returned name')
        axes, e = [], st.value
        while isinstance(e, ast.Call) and isinstance(e.func, ast.Attribute) and e.func.attr == 'sum':
            if len(e.args) != 1 or e.keywords or not u(e.args[0]).lstrip('-').isdigit(): raise Refuse('rebin: sum call ' + ast.unparse(e)[:80])
            axes.append(int(u(e.args[0]))); e = e.func.value
        axes.reverse()
        if not (isinstance(e, ast.Call) and isinstance(e.func, ast.Attribute) and e.func.attr == 'reshape' and u(e.func.value) == 'img' and not e.keywords):
            raise Refuse('rebin: not img.reshape(...).sum(..).sum(..)')
        if len(axes) != 2: raise Refuse('rebin: two summed axes expected')
        return [ix(a) for a in e.args], axes
    d3, a3 = branch(br.body, {'img.shape[0]': 'd', 'img.shape[1]': 's0', 'img.shape[2]': 's1'})
    d2, a2 = branch(br.orelse, {'img.shape[0]': 's0', 'img.shape[1]': 's1'})
    ax = lambda a: '[' + ', '.join(f'({x} : Int)' for x in a) + ']'
    lean = ('/-- `util.rebin`, 2-D branch: the shape handed to `img.reshape` and the axes summed afterwards (in order) -/\n'
            f"def rebinReshape2 (s0 s1 f : Int) : List Int := [{', '.join(d2)}]\n"
            f'def rebinSumAxes2 : List Int := {ax(a2)}\n\n'
            '/-- `util.rebin`, cube branch (`img.ndim == 3`, shape `(d, s0, s1)`) -/\n'
            f"def rebinReshape3 (d s0 s1 f : Int) : List Int := [{', '.join(d3)}]\n"
            f'def rebinSumAxes3 : List Int := {ax(a3)}\n')
    return lean, ['rebin: reshape target shapes and summed axes of both branches translated; asarray, complex guard, ndim test and return matched']

UTIL = {
    'pad#2': {'py_name': 'pad', 'lean_name': 'padIdx2', 'block': _pad_block,
              'params': [('array', ('attr', {'shape': 'pair'})), ('shape', 'pair'), ('offset', ('const', 0))]},
    'pad#3': {'py_name': 'pad', 'lean_name': 'padIdx3', 'block': _pad_block,
              'params': [('array', ('attr', {'shape': ('vec', 3)})), ('shape', 'pair'), ('offset', ('const', 1))]},
    'subarray': {'params': [('a', ('attr', {'shape': 'pair'})), ('shape', 'pair'), ('shift', 'pair')],
                 'ret_override': _subarray_ret, 'lean_name': 'subarrayIdx'},
}
HELPER20 = {
    'boundary_slice': {'params': [('b', 'ext'), ('x', ('attr', {'shape': 'pair'})), ('pad', 'pair')],
                       'call_as': {'lentil.boundary(x, threshold)': 'b'}, 'block': _bslice_block,
                       'ret_override': _bslice_ret},
}

# ---------------------------------------------------------------------------------------------- segmented.py tables
def _hex_generator(repo):
    """hex_directions as a Lean list; the ring walk's start cell and loop structure are checked against a template
    (anything else is refused); hex_add as component-wise addition"""
    src = open(os.path.join(repo, 'lentil/segmented.py')).read()
    mod = ast.parse(src)
    dirs = None
    fns = {}
    for node in mod.body:
        if isinstance(node, ast.Assign) and ast.unparse(node.targets[0]) == 'hex_directions':
            dirs = node.value
        if isinstance(node, ast.FunctionDef): fns[node.name] = node
    if dirs is None or not isinstance(dirs, ast.List): raise Refuse('hex_directions not found')
    table = []
    for e in dirs.elts:
        if not (isinstance(e, ast.Call) and ast.unparse(e.func) == 'Hex' and len(e.args) == 3): raise Refuse('hex_directions entry')
        vals = []
        for a in e.args:
            v = ast.literal_eval(a)
            if not isinstance(v, int): raise Refuse('hex_directions entry not int')
            vals.append(v)
        table.append(tuple(vals))
    def body_src(name, want):
        if name not in fns: raise Refuse(f'{name} not found')
        body = [s for s in fns[name].body if not (isinstance(s, ast.Expr) and isinstance(s.value, ast.Constant))]
        _same_shape(body, want, [a.arg for a in fns[name].args.args], name)
    body_src('hex_add', 'return Hex(a.q + b.q, a.r + b.r, a.s + b.s)')
    body_src('hex_direction', 'return hex_directions[direction]')
    body_src('hex_neighbor', 'return hex_add(hex, hex_direction(direction))')
    # ring walk: start expression is translated, the loop is matched against the template
    ring = fns.get('hex_ring')
    if ring is None: raise Refuse('hex_ring not found')
    st = [s for s in ring.body if not (isinstance(s, ast.Expr) and isinstance(s.value, ast.Constant))]
    if len(st) != 4: raise Refuse('hex_ring: shape changed')
    s0 = st[1]
    if not (isinstance(s0, ast.Assign) and isinstance(s0.targets[0], ast.Name) and isinstance(s0.value, ast.Call)
            and ast.unparse(s0.value.func) == 'Hex' and len(s0.value.args) == 3):
        raise Refuse('hex_ring: start cell changed')
    # everything but the start cell's components is compared structurally (local names, formatting and comments are free)
    import copy
    st2 = copy.deepcopy(st); st2[1].value.args = [ast.Constant(0), ast.Constant(0), ast.Constant(0)]
    # the LOOPS are translated statement by statement into folds over the state (results, hex): `for v in range(E)` becomes
    # `(List.range E).foldl (fun st v => …) st`, `results.append(hex)` and `hex = hex_neighbor(hex, v)` become state updates in source order
    if not (isinstance(st[0], ast.Assign) and ast.unparse(st[0]).replace(' ', '') == 'results=[]' and isinstance(st[3], ast.Return) and ast.unparse(st[3].value) == 'results'):
        raise Refuse('hex_ring: accumulator / return changed')
    hexvar = s0.targets[0].id
    def fold(stmts, loopvars, depth):
        ind = '  ' * (depth + 1); out = []
        for x in stmts:
            if isinstance(x, ast.For):
                if not (isinstance(x.target, ast.Name) and isinstance(x.iter, ast.Call) and ast.unparse(x.iter.func) == 'range' and len(x.iter.args) == 1 and not x.orelse):
                    raise Refuse('hex_ring: loop ' + ast.unparse(x).split('\n')[0])
                b = x.iter.args[0]
                if isinstance(b, ast.Constant) and isinstance(b.value, int) and b.value >= 0: bound = str(b.value)
                elif isinstance(b, ast.Name) and b.id == 'radius': bound = 'radius'
                else: raise Refuse('hex_ring: loop bound ' + ast.unparse(b))
                v = x.target.id
                out.append(f'{ind}let st := (List.range {bound}).foldl (fun st {v} =>\n' + fold(x.body, loopvars + [v], depth + 1) + f') st')
            elif isinstance(x, ast.Expr) and isinstance(x.value, ast.Call) and ast.unparse(x.value.func) == 'results.append' and [ast.unparse(a) for a in x.value.args] == [hexvar]:
                out.append(f'{ind}let st := (st.1 ++ [st.2], st.2)')
            elif (isinstance(x, ast.Assign) and ast.unparse(x.targets[0]) == hexvar and isinstance(x.value, ast.Call) and ast.unparse(x.value.func) == 'hex_neighbor'
                  and len(x.value.args) == 2 and ast.unparse(x.value.args[0]) == hexvar and ast.unparse(x.value.args[1]) in loopvars):
                out.append(f'{ind}let st := (st.1, hexNeighbor st.2 {ast.unparse(x.value.args[1])})')
            else: raise Refuse('hex_ring: statement ' + ast.unparse(x).split('\n')[0])
        return '\n'.join(out) + f'\n{ind}st'
    ring_fold = fold([st[2]], [], 0)
    # hex_neighbor / hex_direction: call expressions translated
    def callx(e, env):
        if isinstance(e, ast.Name) and e.id in env: return env[e.id]
        if isinstance(e, ast.Call) and not e.keywords:
            f = ast.unparse(e.func)
            if f == 'hex_add' and len(e.args) == 2: return f'(hexAdd {callx(e.args[0], env)} {callx(e.args[1], env)})'
            if f == 'hex_direction' and len(e.args) == 1: return f'(hexDirection {callx(e.args[0], env)})'
        if isinstance(e, ast.Subscript) and ast.unparse(e.value) == 'hex_directions': return f'(hexDirections.getD {callx(e.slice, env)} (0, 0, 0))'
        raise Refuse('hex grid expression ' + ast.unparse(e))
    def ret_of(name, params):
        f = fns.get(name)
        b = [x for x in f.body if not (isinstance(x, ast.Expr) and isinstance(x.value, ast.Constant))] if f else []
        if len(b) != 1 or not isinstance(b[0], ast.Return) or [a.arg for a in f.args.args] != params: raise Refuse(name + ': shape changed')
        return callx(b[0].value, {q: q for q in params})
    dir_l = ret_of('hex_direction', ['direction']); nb_l = ret_of('hex_neighbor', ['hex', 'direction'])
    def lin(e):
        u = ast.unparse(e)
        if u == 'radius': return 'radius'
        if u == '-radius': return '(-radius)'
        if isinstance(e, ast.Constant) and isinstance(e.value, int): return f'({e.value} : Int)'
        raise Refuse('hex_ring: start component ' + u)
    start = ', '.join(lin(a) for a in s0.value.args)
    # segment numbering of hex_segments: centre is 0 (kept iff `0 not in drop`), then seg = 1, 2, ... along the rings
    seg = fns.get('hex_segments')
    if seg is None: raise Refuse('hex_segments not found')
    params = [a.arg for a in seg.args.args]
    body = [x for x in seg.body if not (isinstance(x, ast.Expr) and isinstance(x.value, ast.Constant))]
    centre = [x for x in body if isinstance(x, ast.If) and 'drop' in ast.unparse(x.test)]
    loops = [i for i, x in enumerate(body) if isinstance(x, ast.For)]
    if len(centre) != 1 or len(loops) != 1 or loops[0] == 0: raise Refuse('hex_segments: segment loop changed')
    # the numbering is TRANSLATED statement by statement into folds over the state (kept, seg): kept = the (segment number, cell) pairs whose
    # hexagon is appended to `mask`, in order.  A cell enters through the `shift=` of the hexagon call: (0, 0) is the centre cell, (r, c) bound by
    # `r, c = hex_to_rc(h, <pitch>, rotate)` is the cell `h`.
    HEXCALL = 'lentil.hexagon(shape, seg_radius, shift=SHIFT, antialias=antialias, rotate=rotate)'
    def nat_expr(e, names):
        if isinstance(e, ast.Constant) and isinstance(e.value, int) and e.value >= 0: return str(e.value)
        if isinstance(e, ast.Name) and e.id in names: return e.id
        if isinstance(e, ast.BinOp) and isinstance(e.op, (ast.Add, ast.Sub)):
            return f"({nat_expr(e.left, names)} {'+' if isinstance(e.op, ast.Add) else '-'} {nat_expr(e.right, names)})"
        raise Refuse('hex_segments: index expression ' + ast.unparse(e))
    def seg_fold(stmts, names, cellof, depth):
        ind = '  ' * (depth + 1); out = []
        for x in stmts:
            u = ast.unparse(x)
            if isinstance(x, ast.For) and isinstance(x.target, ast.Name) and isinstance(x.iter, ast.Call) and not x.orelse:
                f = ast.unparse(x.iter.func); v = x.target.id
                if f == 'range' and len(x.iter.args) == 2:
                    a, b = (nat_expr(q, names) for q in x.iter.args)
                    out.append(f"{ind}let st := (List.range' {a} ({b} - {a})).foldl (fun st {v} =>\n" + seg_fold(x.body, names + [v], cellof, depth + 1) + ') st')
                elif f == 'hex_ring' and len(x.iter.args) == 1:
                    out.append(f'{ind}let st := (hexRing {nat_expr(x.iter.args[0], names)}).foldl (fun st {v} =>\n' + seg_fold(x.body, names, dict(cellof, **{'@cellvar': v}), depth + 1) + ') st')
                else: raise Refuse('hex_segments: loop ' + u.split('\n')[0])
            elif isinstance(x, ast.Assign) and isinstance(x.targets[0], ast.Tuple) and isinstance(x.value, ast.Call) and ast.unparse(x.value.func) == 'hex_to_rc':
                names_rc = [ast.unparse(t) for t in x.targets[0].elts]
                args = [ast.unparse(a).replace(' ', '') for a in x.value.args]
                if len(names_rc) != 2 or len(args) != 3 or args[0] != cellof.get('@cellvar') or args[1] != 'seg_radius+seg_gap/2' or args[2] != 'rotate' or x.value.keywords:
                    raise Refuse('hex_segments: centre of a segment: ' + u)
                cellof['(' + ', '.join(names_rc) + ')'] = args[0]                 # shift=(r, c) now means the cell h
            elif isinstance(x, ast.If) and not x.orelse and len(x.body) == 1:
                t = x.test
                if not (isinstance(t, ast.Compare) and len(t.ops) == 1 and isinstance(t.ops[0], ast.NotIn) and ast.unparse(t.comparators[0]) == 'drop'):
                    raise Refuse('hex_segments: condition ' + ast.unparse(t))
                who = 'st.2' if ast.unparse(t.left) == 'seg' else nat_expr(t.left, [])
                call = x.body[0]
                if not (isinstance(call, ast.Expr) and isinstance(call.value, ast.Call) and ast.unparse(call.value.func) == 'mask.append' and len(call.value.args) == 1):
                    raise Refuse('hex_segments: kept segment is not appended to mask: ' + ast.unparse(call))
                hx = call.value.args[0]
                shift = [k.value for k in getattr(hx, 'keywords', []) if k.arg == 'shift']
                if len(shift) != 1: raise Refuse('hex_segments: hexagon call ' + ast.unparse(hx))
                sh = ast.unparse(shift[0])
                if ast.unparse(hx) != HEXCALL.replace('SHIFT', sh): raise Refuse('hex_segments: hexagon call ' + ast.unparse(hx))
                if sh == '(0, 0)': cell = '(0, 0, 0)'
                elif sh in cellof: cell = cellof[sh]
                else: raise Refuse('hex_segments: shift ' + sh)
                out.append(f'{ind}let st := (if drop.contains {who} then st.1 else st.1 ++ [({who}, {cell})], st.2)')
            elif isinstance(x, ast.Assign) and ast.unparse(x.targets[0]) == 'seg' and isinstance(x.value, ast.Constant) and isinstance(x.value.value, int) and x.value.value >= 0:
                out.append(f'{ind}let st := (st.1, {x.value.value})')
            elif u.replace(' ', '') == 'seg+=1': out.append(f'{ind}let st := (st.1, st.2 + 1)')
            else: raise Refuse('hex_segments: statement ' + u.split('\n')[0])
        return '\n'.join(out) + f'\n{ind}st'
    ci = body.index(centre[0])
    if not (ci < loops[0] - 1): raise Refuse('hex_segments: centre segment is not drawn before the rings')
    kept_fold = seg_fold([centre[0], body[loops[0] - 1], body[loops[0]]], ['rings'], {}, 0)
    # array size, inner radius and grid pitch: TRANSLATED (real-valued expressions over seg_radius, seg_gap, rings, pad, sqrt(3))
    env = {'seg_radius': 'seg_radius', 'seg_gap': 'seg_gap', 'rings': '((rings : Nat) : K)', 'pad': '((pad : Nat) : K)'}
    asg = {ast.unparse(x.targets[0]): x.value for x in body if isinstance(x, ast.Assign) and len(x.targets) == 1}
    if 'inner_radius' not in asg or 'size' not in asg: raise Refuse('hex_segments: inner_radius / size not found')
    inner_l = _real(asg['inner_radius'], env)
    sz = asg['size']
    if not (isinstance(sz, ast.Call) and isinstance(sz.func, ast.Attribute) and sz.func.attr == 'astype' and ast.unparse(sz.args[0]) == 'int'
            and isinstance(sz.func.value, ast.Call) and ast.unparse(sz.func.value.func) == 'np.ceil' and len(sz.func.value.args) == 1):
        raise Refuse('hex_segments: size is not np.ceil(...).astype(int)')
    size_l = _real(sz.func.value.args[0], dict(env, inner_radius=f'(hexInner sqrtN seg_radius)'))
    rc_calls = [x for x in ast.walk(seg) if isinstance(x, ast.Call) and ast.unparse(x.func) == 'hex_to_rc']
    if len(rc_calls) != 1 or len(rc_calls[0].args) != 3 or ast.unparse(rc_calls[0].args[0]) != 'h' or ast.unparse(rc_calls[0].args[2]) != 'rotate':
        raise Refuse('hex_segments: hex_to_rc call changed')
    pitch_l = _real(rc_calls[0].args[1], env)
    # hex_to_xy / hex_to_rc
    xy = fns.get('hex_to_xy'); rcf = fns.get('hex_to_rc')
    if xy is None or rcf is None: raise Refuse('hex_to_xy / hex_to_rc not found')
    henv = {'radius': 'radius', 'hex.q': '((h.1 : Int) : K)', 'hex.r': '((h.2.1 : Int) : K)', 'hex.s': '((h.2.2 : Int) : K)'}
    xb = [x for x in xy.body if not (isinstance(x, ast.Expr) and isinstance(x.value, ast.Constant))]
    if len(xb) != 2 or not isinstance(xb[0], ast.If) or ast.unparse(xb[0].test) != 'rotate' or not isinstance(xb[1], ast.Return) \
            or not isinstance(xb[1].value, ast.Tuple) or [ast.unparse(t) for t in xb[1].value.elts] != ['x', 'y']:
        raise Refuse('hex_to_xy: shape changed')
    def branch(stmts):
        d = {ast.unparse(t.targets[0]): t.value for t in stmts if isinstance(t, ast.Assign)}
        if set(d) != {'x', 'y'} or len(stmts) != 2: raise Refuse('hex_to_xy: branch changed')
        return _real(d['x'], henv), _real(d['y'], henv)
    (xr, yr), (xu, yu) = branch(xb[0].body), branch(xb[0].orelse)
    rb = [x for x in rcf.body if not (isinstance(x, ast.Expr) and isinstance(x.value, ast.Constant))]
    if len(rb) != 2 or ast.unparse(rb[0]).replace(' ', '').replace('(x,y)', 'x,y') != 'x,y=hex_to_xy(hex,radius,rotate)' or not isinstance(rb[1], ast.Return) \
            or not isinstance(rb[1].value, ast.Tuple) or len(rb[1].value.elts) != 2:
        raise Refuse('hex_to_rc: shape changed')
    renv = {'x': 'xy.1', 'y': 'xy.2'}
    rc_l = f'({_real(rb[1].value.elts[0], renv)}, {_real(rb[1].value.elts[1], renv)})'
    lean = ('/-- `segmented.hex_directions` -/\n'
            'def hexDirections : List (Int × Int × Int) :=\n  [' + ', '.join(f'({a}, {b}, {c})' for a, b, c in table) + ']\n\n'
            '/-- start cell of `segmented.hex_ring(radius)` -/\n'
            f'def hexRingStart (radius : Int) : Int × Int × Int := ({start})\n\n'
            '/-- `segmented.hex_add` -/\n'
            'def hexAdd (a b : Int × Int × Int) : Int × Int × Int := (a.1 + b.1, a.2.1 + b.2.1, a.2.2 + b.2.2)\n\n'
            '/-- `segmented.hex_direction` / `segmented.hex_neighbor` (list indexing outside 0..5 cannot occur: the ring loop runs i over range(6)) -/\n'
            f'def hexDirection (direction : Nat) : Int × Int × Int := {dir_l}\n'
            f'def hexNeighbor (hex : Int × Int × Int) (direction : Nat) : Int × Int × Int := {nb_l}\n\n'
            '/-- `segmented.hex_ring(radius)`: the two nested loops TRANSLATED into folds over the state `(results, hex)` -/\n'
            'def hexRing (radius : Nat) : List (Int × Int × Int) :=\n'
            '  let st : List (Int × Int × Int) × (Int × Int × Int) := ([], hexRingStart (radius : Int))\n'
            + ring_fold + '.1\n\n'
            '/-- `hex_segments`: the (segment number, cell) pairs whose hexagon is drawn, in order — the centre test, `seg = 1` and the ring loops TRANSLATED\n'
            'into folds over the state `(kept, seg)` -/\n'
            'def keptCells (rings : Nat) (drop : List Nat) : List (Nat × (Int × Int × Int)) :=\n'
            '  let st : List (Nat × (Int × Int × Int)) × Nat := ([], 0)\n'
            + kept_fold + '.1\n\n'
            '/-- `hex_segments`: `inner_radius` -/\n'
            f'def hexInner {KCLASSES} (sqrtN : Nat → K) (seg_radius : K) : K := {inner_l}\n\n'
            '/-- `hex_segments`: the argument of `np.ceil` in `size` -/\n'
            f'def hexSizeArg {KCLASSES} (sqrtN : Nat → K) (rings pad : Nat) (seg_radius seg_gap : K) : K :=\n  {size_l}\n\n'
            '/-- `hex_segments`: the grid pitch handed to `hex_to_rc` -/\n'
            f'def hexPitch {KCLASSES} (seg_radius seg_gap : K) : K := {pitch_l}\n\n'
            '/-- `hex_to_xy` -/\n'
            f'def hexToXY {KCLASSES} (sqrtN : Nat → K) (h : Int × Int × Int) (radius : K) (rotate : Bool) : K × K :=\n'
            f'  if rotate then ({xr}, {yr})\n  else ({xu}, {yu})\n\n'
            '/-- `hex_to_rc` -/\n'
            f'def hexToRC {KCLASSES} (sqrtN : Nat → K) (h : Int × Int × Int) (radius : K) (rotate : Bool) : K × K :=\n'
            f'  let xy := hexToXY sqrtN h radius rotate\n  {rc_l}\n')
    return lean, ['hex_ring loops, hex_neighbor and hex_direction TRANSLATED (Gen.hexRing folds, Gen.hexNeighbor); the hex_segments numbering (centre test, seg counter, ring loops, drop test) TRANSLATED (Gen.keptCells); hex_add body matched structurally (alpha-renamed AST); inner radius, array-size argument, grid pitch, hex_to_xy and hex_to_rc translated']


# ---------------------------------------------------------------------------------------------- helper.mesh
def _mesh_generator(repo):
    mod = ast.parse(open(os.path.join(repo, 'lentil/helper.py')).read())
    fn = [n for n in mod.body if isinstance(n, ast.FunctionDef) and n.name == 'mesh']
    if not fn: raise Refuse('mesh not found')
    fn = fn[0]
    body = [x for x in fn.body if not (isinstance(x, ast.Expr) and isinstance(x.value, ast.Constant))]
    asg = {ast.unparse(x.targets[0]).strip('()'): x.value for x in body if isinstance(x, ast.Assign) and len(x.targets) == 1}
    if ast.unparse(asg.get('nr', ast.Constant(0))) != 'shape[0]' or ast.unparse(asg.get('nc', ast.Constant(0))) != 'shape[1]': raise Refuse('mesh: nr/nc')
    mg = asg.get('rr, cc')
    if not (isinstance(mg, ast.Call) and ast.unparse(mg.func) == 'np.meshgrid' and len(mg.args) == 2
            and [(k.arg, ast.unparse(k.value)) for k in mg.keywords] == [('indexing', "'ij'")]):
        raise Refuse("mesh: np.meshgrid(..., indexing='ij') not found")
    def intx(e, n):
        if isinstance(e, ast.Name) and e.id == n: return 'n'
        if isinstance(e, ast.Constant) and isinstance(e.value, int) and not isinstance(e.value, bool): return f'({e.value} : Int)'
        if isinstance(e, ast.BinOp) and type(e.op) in (ast.Add, ast.Sub, ast.Mult):
            return f"({intx(e.left, n)} {{ast.Add: '+', ast.Sub: '-', ast.Mult: '*'}}[type(e.op)] {intx(e.right, n)})".replace("{ast.Add: '+', ast.Sub: '-', ast.Mult: '*'}[type(e.op)]", {ast.Add: '+', ast.Sub: '-', ast.Mult: '*'}[type(e.op)])
        raise Refuse('mesh: integer expression ' + ast.unparse(e))
    def axis(e, n, sh):
        # np.arange(n) - np.floor(<int expr>/2.0) - shift[k]  ->  per index i:  (i - floor(<int expr>/2)) - s   (floor of a half = Int floor division)
        env = {f'np.arange({n})': '((i : Int) : K)', sh: 's'}
        for x in ast.walk(e):
            if isinstance(x, ast.Call) and ast.unparse(x.func) == 'np.floor' and len(x.args) == 1:
                a = x.args[0]
                if not (isinstance(a, ast.BinOp) and isinstance(a.op, ast.Div) and isinstance(a.right, ast.Constant) and a.right.value in (2, 2.0)):
                    raise Refuse('mesh: np.floor argument is not <int>/2.0: ' + ast.unparse(a))
                env[ast.unparse(x)] = f'(((({intx(a.left, n)}) / 2 : Int)) : K)'
        return _real(e, env)
    row, col = axis(mg.args[0], 'nr', 'shift[0]'), axis(mg.args[1], 'nc', 'shift[1]')
    if row != col: raise Refuse('mesh: row and column coordinates are built differently')
    if ast.unparse(asg.get('angle', ast.Constant(0))) != 'np.deg2rad(angle)': raise Refuse('mesh: angle conversion changed')
    renv = {'rr': 'rr', 'cc': 'cc', 'np.cos(angle)': 'ca', 'np.sin(angle)': 'sa'}
    r_l, c_l = _real(asg['r'], renv), _real(asg['c'], renv)
    if not (isinstance(body[-1], ast.Return) and isinstance(body[-1].value, ast.Tuple) and [ast.unparse(t) for t in body[-1].value.elts] == ['r', 'c']):
        raise Refuse('mesh: return changed')
    lean = ('/-- `helper.mesh`: coordinate of index `i` on an axis of length `n` shifted by `s` (`np.arange(n) - np.floor(n/2.0) - shift`) -/\n'
            f'def meshCoord {KCLASSES} (n i : Int) (s : K) : K := {row}\n\n'
            '/-- `helper.mesh`: the rotated pair `(r, c)` from `(rr, cc)`; `ca`, `sa` = cos and sin of the angle -/\n'
            f'def meshRot {KCLASSES} (rr cc ca sa : K) : K × K := ({r_l}, {c_l})\n')
    return lean, ["mesh: per-axis coordinate and rotation pair translated; meshgrid(indexing='ij'), deg2rad and the return checked structurally"]

MODULES = [
    {'name': 'Util', 'src': 'lentil/util.py', 'sigs': UTIL, 'props': ['C20', 'C09']},
    {'name': 'Helper20', 'src': 'lentil/helper.py', 'sigs': HELPER20, 'props': ['C20']},
    {'name': 'Hex', 'src': 'lentil/segmented.py', 'generator': _hex_generator, 'props': ['C20']},
    {'name': 'Mesh', 'src': 'lentil/helper.py', 'generator': _mesh_generator, 'props': ['C20', 'C11']},
    {'name': 'UtilCentroid', 'src': 'lentil/util.py', 'generator': _centroid_generator, 'props': ['C20', 'C11']},
    {'name': 'UtilRebin', 'src': 'lentil/util.py', 'generator': _rebin_generator, 'props': ['C20']},
    {'name': 'UtilWindow', 'src': 'lentil/util.py', 'generator': _window_generator, 'props': ['C20']},
]
