"""C20 — translator specs: index kernels of util.pad (2-D and cube), util.subarray, helper.boundary_slice and the
hex-grid walk tables of segmented.py.  (helper.slice_offset is already generated into Gen/Helper.lean.)"""
import ast, os
from py2lean import Refuse, V, S


def _canon(nodes, extra_locals=()):
    """ast.dump of a statement list with local variable names replaced by v0, v1, … in order of first appearance (names that are
    stored to, loop variables and `extra_locals`); formatting, comments and the choice of local names do not matter"""
    if not isinstance(nodes, list): nodes = [nodes]
    import copy
    nodes = copy.deepcopy(nodes)
    local = set(extra_locals)
    for n in nodes:
        for x in ast.walk(n):
            if isinstance(x, ast.Name) and isinstance(x.ctx, ast.Store): local.add(x.id)
    ren = {}
    class R(ast.NodeTransformer):
        def visit_Name(self, x):
            if x.id in local:
                if x.id not in ren: ren[x.id] = f'v{len(ren)}'
                return ast.copy_location(ast.Name(id=ren[x.id], ctx=x.ctx), x)
            return x
    return '\n'.join(ast.dump(R().visit(n)) for n in nodes)

def _same_shape(nodes, template_src, extra_locals=(), what=''):
    want = _canon(ast.parse(template_src).body, extra_locals)
    got = _canon(nodes, extra_locals)
    if got != want: raise Refuse(f'{what}: structure changed: ' + ' ; '.join(ast.unparse(n) for n in (nodes if isinstance(nodes, list) else [nodes]))[:200])

def _slices(sub):
    """[(lower, upper) source text] of a subscript whose index is a tuple of slices (`:` -> ('', ''))"""
    idx = sub.slice
    elts = idx.elts if isinstance(idx, ast.Tuple) else [idx]
    out = []
    for e in elts:
        if not isinstance(e, ast.Slice) or e.step is not None: raise Refuse('slice expected: ' + ast.unparse(sub))
        out.append((ast.unparse(e.lower) if e.lower else '', ast.unparse(e.upper) if e.upper else ''))
    return out

# ---------------------------------------------------------------------------------------------- util.pad
def _pad_block(tr, stmts):
    """index block of util.pad: from `dr = ...` up to (excluding) the copy; `offset` (0 for 2-D arrays, 1 for cubes:
    `offset = 0; if array.ndim == 3: offset = 1`) is specialised by the spec. Checked structurally: the offset rule, and that the copy
    writes `padded[(:,) rmin1:rmax1, cmin1:cmax1] = array[(:,) rmin0:rmax0, cmin0:cmax0]` in the 2-D and the cube branch."""
    # the specialisation of `offset` is only sound if the code still sets it this way
    ok0 = any(isinstance(x, ast.Assign) and ast.unparse(x.targets[0]) == 'offset' and ast.unparse(x.value) == '0' for x in stmts)
    ifs = [x for x in stmts if isinstance(x, ast.If) and not x.orelse and len(x.body) == 1 and isinstance(x.body[0], ast.Assign)
           and ast.unparse(x.body[0].targets[0]) == 'offset' and ast.unparse(x.body[0].value) == '1'
           and ast.unparse(x.test).replace(' ', '') in ('array.ndim==3', '3==array.ndim', 'array.ndim>2', 'array.ndim>=3')]
    if not ok0 or len(ifs) != 1: raise Refuse('pad: `offset = 0; if array.ndim == 3: offset = 1` not found')
    keep, on = [], False
    for s_ in stmts:
        src = ast.unparse(s_)
        if src.startswith('dr ='): on = True
        if on and isinstance(s_, ast.If) and 'array.ndim' in src: break
        if on: keep.append(s_)
    if not keep: raise Refuse('pad: index block not found')
    copies = [x for x in ast.walk(ast.Module(body=list(stmts), type_ignores=[])) if isinstance(x, ast.Assign) and isinstance(x.targets[0], ast.Subscript)
              and isinstance(x.value, ast.Subscript) and ast.unparse(x.value.value) == 'array']
    if len(copies) != 2: raise Refuse(f'pad: expected the 2-D and the cube copy, found {len(copies)} copies')
    seen = set()
    for cp in copies:
        dst, src = _slices(cp.targets[0]), _slices(cp.value)
        if ast.unparse(cp.targets[0].value) != 'padded': raise Refuse('pad: copy target changed')
        lead = [('', '')] * (len(dst) - 2)
        if dst != lead + [('rmin1', 'rmax1'), ('cmin1', 'cmax1')] or src != lead + [('rmin0', 'rmax0'), ('cmin0', 'cmax0')] or len(dst) not in (2, 3):
            raise Refuse('pad: copy statement changed: ' + ast.unparse(cp))
        seen.add(len(dst))
    if seen != {2, 3}: raise Refuse('pad: need one 2-D and one cube copy')
    def final(env):
        for k in ('rmin0', 'rmax0', 'cmin0', 'cmax0', 'rmin1', 'rmax1', 'cmin1', 'cmax1'):
            if k not in env: raise Refuse(f'pad: {k} not assigned')
        return V([V([env[k] for k in ('rmin0', 'rmax0', 'cmin0', 'cmax0')]), V([env[k] for k in ('rmin1', 'rmax1', 'cmin1', 'cmax1')])])
    return keep, final

# ---------------------------------------------------------------------------------------------- util.subarray
def _subarray_ret(tr, st, env):
    if not (isinstance(st.value, ast.Subscript) and ast.unparse(st.value.value) == 'a' and _slices(st.value) == [('rmin', 'rmax'), ('cmin', 'cmax')]):
        raise Refuse('subarray: return expression changed')
    return V([env['rmin'], env['rmax'], env['cmin'], env['cmax']])

# ---------------------------------------------------------------------------------------------- helper.boundary_slice
def _bslice_block(tr, stmts):
    srcs = [ast.unparse(s) for s in stmts]
    start = [i for i, s in enumerate(srcs) if s.replace(' ', '').startswith('rmin,rmax,cmin,cmax=lentil.boundary(x,threshold)')]
    if not start: raise Refuse('boundary_slice: call to lentil.boundary not found')
    return stmts[start[0]:], None

def _bslice_ret(tr, st, env):
    v = st.value
    ok = (isinstance(v, ast.Subscript) and ast.unparse(v.value) == 'np.s_' and _slices(v) == [('rmin', 'rmax'), ('cmin', 'cmax')]) or \
         (isinstance(v, ast.Tuple) and [ast.unparse(e).replace(' ', '') for e in v.elts] == ['slice(rmin,rmax)', 'slice(cmin,cmax)'])
    if not ok: raise Refuse('boundary_slice: return expression changed')
    return V([V([env['rmin'], env['rmax']]), V([env['cmin'], env['cmax']])])

UTIL = {
    'pad#2': {'py_name': 'pad', 'lean_name': 'padIdx2', 'block': _pad_block,
              'params': [('array', ('attr', {'shape': 'pair'})), ('shape', 'pair'), ('offset', ('const', 0))]},
    'pad#3': {'py_name': 'pad', 'lean_name': 'padIdx3', 'block': _pad_block,
              'params': [('array', ('attr', {'shape': ('vec', 3)})), ('shape', 'pair'), ('offset', ('const', 1))]},
    'subarray': {'params': [('a', ('attr', {'shape': 'pair'})), ('shape', 'pair'), ('shift', 'pair')],
                 'ret_override': _subarray_ret, 'lean_name': 'subarrayIdx'},
}
HELPER20 = {
    'boundary_slice': {'params': [('b', 'ext'), ('x', ('attr', {'shape': 'pair'})), ('pad', 'pair')],
                       'call_as': {'lentil.boundary(x, threshold)': 'b'}, 'block': _bslice_block,
                       'ret_override': _bslice_ret},
}

# ---------------------------------------------------------------------------------------------- segmented.py tables
def _hex_generator(repo):
    """hex_directions as a Lean list; the ring walk's start cell and loop structure are checked against a template
    (anything else is refused); hex_add as component-wise addition"""
    src = open(os.path.join(repo, 'lentil/segmented.py')).read()
    mod = ast.parse(src)
    dirs = None
    fns = {}
    for node in mod.body:
        if isinstance(node, ast.Assign) and ast.unparse(node.targets[0]) == 'hex_directions':
            dirs = node.value
        if isinstance(node, ast.FunctionDef): fns[node.name] = node
    if dirs is None or not isinstance(dirs, ast.List): raise Refuse('hex_directions not found')
    table = []
    for e in dirs.elts:
        if not (isinstance(e, ast.Call) and ast.unparse(e.func) == 'Hex' and len(e.args) == 3): raise Refuse('hex_directions entry')
        vals = []
        for a in e.args:
            v = ast.literal_eval(a)
            if not isinstance(v, int): raise Refuse('hex_directions entry not int')
            vals.append(v)
        table.append(tuple(vals))
    def body_src(name, want):
        if name not in fns: raise Refuse(f'{name} not found')
        body = [s for s in fns[name].body if not (isinstance(s, ast.Expr) and isinstance(s.value, ast.Constant))]
        _same_shape(body, want, [a.arg for a in fns[name].args.args], name)
    body_src('hex_add', 'return Hex(a.q + b.q, a.r + b.r, a.s + b.s)')
    body_src('hex_direction', 'return hex_directions[direction]')
    body_src('hex_neighbor', 'return hex_add(hex, hex_direction(direction))')
    # ring walk: start expression is translated, the loop is matched against the template
    ring = fns.get('hex_ring')
    if ring is None: raise Refuse('hex_ring not found')
    st = [s for s in ring.body if not (isinstance(s, ast.Expr) and isinstance(s.value, ast.Constant))]
    if len(st) != 4: raise Refuse('hex_ring: shape changed')
    s0 = st[1]
    if not (isinstance(s0, ast.Assign) and isinstance(s0.targets[0], ast.Name) and isinstance(s0.value, ast.Call)
            and ast.unparse(s0.value.func) == 'Hex' and len(s0.value.args) == 3):
        raise Refuse('hex_ring: start cell changed')
    # everything but the start cell's components is compared structurally (local names, formatting and comments are free)
    import copy
    st2 = copy.deepcopy(st); st2[1].value.args = [ast.Constant(0), ast.Constant(0), ast.Constant(0)]
    _same_shape(st2, 'results = []\nhex = Hex(0, 0, 0)\nfor i in range(6):\n    for j in range(radius):\n        results.append(hex)\n'
                     '        hex = hex_neighbor(hex, i)\nreturn results', ['radius'], 'hex_ring')
    def lin(e):
        u = ast.unparse(e)
        if u == 'radius': return 'radius'
        if u == '-radius': return '(-radius)'
        if isinstance(e, ast.Constant) and isinstance(e.value, int): return f'({e.value} : Int)'
        raise Refuse('hex_ring: start component ' + u)
    start = ', '.join(lin(a) for a in s0.value.args)
    # segment numbering of hex_segments: centre is 0 (kept iff `0 not in drop`), then seg = 1, 2, ... along the rings
    seg = fns.get('hex_segments')
    if seg is None: raise Refuse('hex_segments not found')
    params = [a.arg for a in seg.args.args]
    body = [x for x in seg.body if not (isinstance(x, ast.Expr) and isinstance(x.value, ast.Constant))]
    centre = [x for x in body if isinstance(x, ast.If) and 'drop' in ast.unparse(x.test)]
    loops = [i for i, x in enumerate(body) if isinstance(x, ast.For)]
    if len(centre) != 1 or len(loops) != 1 or loops[0] == 0: raise Refuse('hex_segments: segment loop changed')
    _same_shape(centre, 'if 0 not in drop:\n    mask.append(lentil.hexagon(shape, seg_radius, shift=(0, 0), antialias=antialias, rotate=rotate))',
                params + ['mask', 'shape'], 'hex_segments centre segment')
    _same_shape(body[loops[0] - 1:loops[0] + 1],
                'seg = 1\nfor ring in range(1, rings + 1):\n    for h in hex_ring(ring):\n        r, c = hex_to_rc(h, seg_radius + seg_gap / 2, rotate)\n'
                '        if seg not in drop:\n            mask.append(lentil.hexagon(shape, seg_radius, shift=(r, c), antialias=antialias, rotate=rotate))\n        seg += 1',
                params + ['mask', 'shape'], 'hex_segments numbering loop')
    # array size: structurally the formula the model's `hexSegmentsSize` evaluates
    sz = [x for x in body if isinstance(x, ast.Assign) and ast.unparse(x.targets[0]) in ('size', 'inner_radius')]
    _same_shape(sz, 'inner_radius = seg_radius * np.sqrt(3) / 2\nsize = np.ceil((rings * 2 + 1) * inner_radius * 2 + rings * 2 * seg_gap + pad * 2).astype(int)',
                params, 'hex_segments array size')
    lean = ('/-- `segmented.hex_directions` -/\n'
            'def hexDirections : List (Int × Int × Int) :=\n  [' + ', '.join(f'({a}, {b}, {c})' for a, b, c in table) + ']\n\n'
            '/-- start cell of `segmented.hex_ring(radius)` -/\n'
            f'def hexRingStart (radius : Int) : Int × Int × Int := ({start})\n\n'
            '/-- `segmented.hex_add` -/\n'
            'def hexAdd (a b : Int × Int × Int) : Int × Int × Int := (a.1 + b.1, a.2.1 + b.2.1, a.2.2 + b.2.2)\n')
    return lean, ['hex_ring loop, hex_neighbor/hex_direction/hex_add bodies, the hex_segments numbering loop and array-size formula matched structurally (alpha-renamed AST)']

MODULES = [
    {'name': 'Util', 'src': 'lentil/util.py', 'sigs': UTIL, 'props': ['C20', 'C09']},
    {'name': 'Helper20', 'src': 'lentil/helper.py', 'sigs': HELPER20, 'props': ['C20']},
    {'name': 'Hex', 'src': 'lentil/segmented.py', 'generator': _hex_generator, 'props': ['C20']},
]
