"""C20 — translator specs: index kernels of util.pad (2-D and cube), util.subarray, helper.boundary_slice and the
hex-grid walk tables of segmented.py.  (helper.slice_offset is already generated into Gen/Helper.lean.)"""
import ast, os
from py2lean import Refuse, V, S

# ---------------------------------------------------------------------------------------------- util.pad
def _pad_block(tr, stmts):
    """index block of util.pad: from `dr = ...` up to (excluding) the `if array.ndim < 3` copy; `offset` (0 for 2-D
    arrays, 1 for cubes: `if array.ndim == 3: offset = 1`) is specialised by the spec"""
    srcs = [ast.unparse(s) for s in stmts]
    # the specialisation of `offset` is only sound if the code still sets it this way
    pre = [i for i, s in enumerate(srcs) if s.startswith('offset = 0')]
    if not pre or not srcs[pre[0] + 1].replace(' ', '').startswith('ifarray.ndim==3:\n') or \
            [ast.unparse(x) for x in stmts[pre[0] + 1].body] != ['offset = 1'] or stmts[pre[0] + 1].orelse:
        raise Refuse('pad: `offset = 0; if array.ndim == 3: offset = 1` not found')
    keep, on = [], False
    for s, src in zip(stmts, srcs):
        if src.startswith('dr ='): on = True
        if on and isinstance(s, ast.If) and 'array.ndim' in src: break
        if on: keep.append(s)
    if not keep: raise Refuse('pad: index block not found')
    tail = stmts[len(stmts) - 2]
    want = ('if array.ndim < 3:\n    padded = np.zeros((shape[0], shape[1]), dtype=array.dtype)\n'
            '    padded[rmin1:rmax1, cmin1:cmax1] = array[rmin0:rmax0, cmin0:cmax0]\nelse:\n'
            '    padded = np.zeros((array.shape[0], shape[0], shape[1]), dtype=array.dtype)\n'
            '    padded[:, rmin1:rmax1, cmin1:cmax1] = array[:, rmin0:rmax0, cmin0:cmax0]')
    if ast.unparse(tail) != want: raise Refuse('pad: copy statement changed: ' + ast.unparse(tail)[:200])
    def final(env):
        for k in ('rmin0', 'rmax0', 'cmin0', 'cmax0', 'rmin1', 'rmax1', 'cmin1', 'cmax1'):
            if k not in env: raise Refuse(f'pad: {k} not assigned')
        return V([V([env[k] for k in ('rmin0', 'rmax0', 'cmin0', 'cmax0')]), V([env[k] for k in ('rmin1', 'rmax1', 'cmin1', 'cmax1')])])
    return keep, final

# ---------------------------------------------------------------------------------------------- util.subarray
def _subarray_ret(tr, st, env):
    if ast.unparse(st.value) != 'a[rmin:rmax, cmin:cmax]': raise Refuse('subarray: return expression changed')
    return V([env['rmin'], env['rmax'], env['cmin'], env['cmax']])

# ---------------------------------------------------------------------------------------------- helper.boundary_slice
def _bslice_block(tr, stmts):
    srcs = [ast.unparse(s) for s in stmts]
    start = [i for i, s in enumerate(srcs) if s.startswith('rmin, rmax, cmin, cmax = lentil.boundary(x, threshold)')]
    if not start: raise Refuse('boundary_slice: call to lentil.boundary not found')
    return stmts[start[0]:], None

def _bslice_ret(tr, st, env):
    if ast.unparse(st.value) != 'np.s_[rmin:rmax, cmin:cmax]': raise Refuse('boundary_slice: return expression changed')
    return V([V([env['rmin'], env['rmax']]), V([env['cmin'], env['cmax']])])

UTIL = {
    'pad#2': {'py_name': 'pad', 'lean_name': 'padIdx2', 'block': _pad_block,
              'params': [('array', ('attr', {'shape': 'pair'})), ('shape', 'pair'), ('offset', ('const', 0))]},
    'pad#3': {'py_name': 'pad', 'lean_name': 'padIdx3', 'block': _pad_block,
              'params': [('array', ('attr', {'shape': ('vec', 3)})), ('shape', 'pair'), ('offset', ('const', 1))]},
    'subarray': {'params': [('a', ('attr', {'shape': 'pair'})), ('shape', 'pair'), ('shift', 'pair')],
                 'ret_override': _subarray_ret, 'lean_name': 'subarrayIdx'},
}
HELPER20 = {
    'boundary_slice': {'params': [('b', 'ext'), ('x', ('attr', {'shape': 'pair'})), ('pad', 'pair')],
                       'call_as': {'lentil.boundary(x, threshold)': 'b'}, 'block': _bslice_block,
                       'ret_override': _bslice_ret},
}

# ---------------------------------------------------------------------------------------------- segmented.py tables
def _hex_generator(repo):
    """hex_directions as a Lean list; the ring walk's start cell and loop structure are checked against a template
    (anything else is refused); hex_add as component-wise addition"""
    src = open(os.path.join(repo, 'lentil/segmented.py')).read()
    mod = ast.parse(src)
    dirs = None
    fns = {}
    for node in mod.body:
        if isinstance(node, ast.Assign) and ast.unparse(node.targets[0]) == 'hex_directions':
            dirs = node.value
        if isinstance(node, ast.FunctionDef): fns[node.name] = node
    if dirs is None or not isinstance(dirs, ast.List): raise Refuse('hex_directions not found')
    table = []
    for e in dirs.elts:
        if not (isinstance(e, ast.Call) and ast.unparse(e.func) == 'Hex' and len(e.args) == 3): raise Refuse('hex_directions entry')
        vals = []
        for a in e.args:
            v = ast.literal_eval(a)
            if not isinstance(v, int): raise Refuse('hex_directions entry not int')
            vals.append(v)
        table.append(tuple(vals))
    def body_src(name, want):
        if name not in fns: raise Refuse(f'{name} not found')
        got = '\n'.join(ast.unparse(s) for s in fns[name].body if not (isinstance(s, ast.Expr) and isinstance(s.value, ast.Constant)))
        if got != want: raise Refuse(f'{name}: body changed: {got[:200]}')
    body_src('hex_add', 'return Hex(a.q + b.q, a.r + b.r, a.s + b.s)')
    body_src('hex_direction', 'return hex_directions[direction]')
    body_src('hex_neighbor', 'return hex_add(hex, hex_direction(direction))')
    # ring walk: start expression is translated, the loop is matched against the template
    ring = fns.get('hex_ring')
    if ring is None: raise Refuse('hex_ring not found')
    st = [s for s in ring.body if not (isinstance(s, ast.Expr) and isinstance(s.value, ast.Constant))]
    if len(st) != 4 or ast.unparse(st[0]) != 'results = []' or ast.unparse(st[3]) != 'return results':
        raise Refuse('hex_ring: shape changed')
    loop = ast.unparse(st[2])
    if loop != 'for i in range(6):\n    for j in range(radius):\n        results.append(hex)\n        hex = hex_neighbor(hex, i)':
        raise Refuse('hex_ring: loop changed: ' + loop[:200])
    s0 = st[1]
    if not (isinstance(s0, ast.Assign) and ast.unparse(s0.targets[0]) == 'hex' and isinstance(s0.value, ast.Call)
            and ast.unparse(s0.value.func) == 'Hex' and len(s0.value.args) == 3):
        raise Refuse('hex_ring: start cell changed')
    def lin(e):
        u = ast.unparse(e)
        if u == 'radius': return 'radius'
        if u == '-radius': return '(-radius)'
        if isinstance(e, ast.Constant) and isinstance(e.value, int): return f'({e.value} : Int)'
        raise Refuse('hex_ring: start component ' + u)
    start = ', '.join(lin(a) for a in s0.value.args)
    # segment numbering of hex_segments: centre is 0 (kept iff `0 not in drop`), then seg = 1, 2, ... along the rings
    seg = fns.get('hex_segments')
    if seg is None: raise Refuse('hex_segments not found')
    segsrc = ast.unparse(seg)
    for needle in ('if 0 not in drop:\n        mask.append(lentil.hexagon(shape, seg_radius, shift=(0, 0), antialias=antialias, rotate=rotate))',
                   'seg = 1\n    for ring in range(1, rings + 1):\n        for h in hex_ring(ring):\n            r, c = hex_to_rc(h, seg_radius + seg_gap / 2, rotate)\n'
                   '            if seg not in drop:\n                mask.append(lentil.hexagon(shape, seg_radius, shift=(r, c), antialias=antialias, rotate=rotate))\n            seg += 1'):
        if needle not in segsrc: raise Refuse('hex_segments: segment loop changed')
    lean = ('/-- `segmented.hex_directions` -/\n'
            'def hexDirections : List (Int × Int × Int) :=\n  [' + ', '.join(f'({a}, {b}, {c})' for a, b, c in table) + ']\n\n'
            '/-- start cell of `segmented.hex_ring(radius)` -/\n'
            f'def hexRingStart (radius : Int) : Int × Int × Int := ({start})\n\n'
            '/-- `segmented.hex_add` -/\n'
            'def hexAdd (a b : Int × Int × Int) : Int × Int × Int := (a.1 + b.1, a.2.1 + b.2.1, a.2.2 + b.2.2)\n')
    return lean, ['hex_ring loop, hex_neighbor/hex_direction/hex_add bodies and the hex_segments numbering loop matched against templates']

MODULES = [
    {'name': 'Util', 'src': 'lentil/util.py', 'sigs': UTIL, 'props': ['C20', 'C09']},
    {'name': 'Helper20', 'src': 'lentil/helper.py', 'sigs': HELPER20, 'props': ['C20']},
    {'name': 'Hex', 'src': 'lentil/segmented.py', 'generator': _hex_generator, 'props': ['C20']},
]
