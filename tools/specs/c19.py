"""Translator spec for C19: how `detector.pixel`, `convolvable.jitter` and `convolvable.smear` build their transfer
functions -> lean/LentilVerif/Gen/BlurWiring.lean.

The three bodies are evaluated symbolically over a small vectorised-float fragment (anything else is refused):
  `v = np.fft.fftfreq(img.shape[k])`            a vector indexed along image axis k (length `img.shape[k]`)
  element-wise `+ - * / ** 2`, unary minus, `np.sinc np.exp np.sqrt` on vectors / grids / scalars, `np.sin np.cos` on
  scalars, `np.pi`, numeric literals, the scalar parameters
  `A[:, np.newaxis]`, `A[np.newaxis, :]`, `np.dot(column, row)` (outer product), `np.meshgrid(x, y)` (x along columns)
  smear's `angle = np.radians(angle)` (the `angle is None` branch must stay `np.random.uniform(0, 2 * np.pi)`)
  the closing `np.abs(np.fft.ifft2(np.fft.fft2(img)*kernel))` and, for jitter/smear, `out * np.sum(img) / np.sum(out)`

Emitted per function: `bw<Fn>Kernel fns… s0 s1 params… i j : R` (entry `[i, j]` of `kernel`, operations in the order of the
source) and `bw<Fn>KernelShape s0 s1 : Int × Int` (its rows and columns in terms of the image shape), plus
`bw<Fn>Renorm : Bool`. Model/Blur.lean *defines* its kernels by these, so e.g. swapping the factors of the outer product in
`pixel` changes the model's kernel shape to `(s1, s0)` and `C19.kernel_shape_eq_image_shape` no longer checks."""
import ast, os, re
from py2lean import Refuse

def _u(n): return ast.unparse(n)

class Sc:                       # scalar: lean expression
    def __init__(s, e): s.e = e
class Vec:                      # vector along an image axis: length symbol, entry at a Lean index expression
    def __init__(s, ln, at): s.ln = ln; s.at = at
class Grid:                     # 2-D: rows, cols symbols ('1' = broadcast axis), entry at (i, j)
    def __init__(s, r, c, at): s.r = r; s.c = c; s.at = at

UN = {'np.sinc': 'sinc', 'np.exp': 'exp', 'np.sqrt': 'sqrt', 'np.sin': 'sin', 'np.cos': 'cos'}

class Opaque:                   # an array that is only passed on (img, out)
    def __init__(s, name): s.name = name

def _lift(f, a, b=None):
    """apply the Lean expression builder f element-wise with NumPy broadcasting of scalars"""
    xs = [a] if b is None else [a, b]
    grids = [x for x in xs if isinstance(x, Grid)]; vecs = [x for x in xs if isinstance(x, Vec)]
    if grids and vecs: raise Refuse('mixing a vector and a grid in one expression')
    def ent(x, *idx): return x.e if isinstance(x, Sc) else x.at(*idx)
    if grids:
        r = {g.r for g in grids}; c = {g.c for g in grids}
        if len(r) != 1 or len(c) != 1: raise Refuse(f'grids of different shape combined: {sorted(r)} x {sorted(c)}')
        return Grid(r.pop(), c.pop(), lambda i, j: f(*[ent(x, i, j) for x in xs]))
    if vecs:
        if len({v.ln for v in vecs}) != 1: raise Refuse('vectors of different length combined')
        return Vec(vecs[0].ln, lambda i: f(*[ent(x, i) for x in xs]))
    return Sc(f(*[x.e for x in xs]))

def _expr(e, env, where):
    if isinstance(e, ast.Name):
        if e.id not in env: raise Refuse(f'{where}: unknown name {e.id}')
        return env[e.id]
    if isinstance(e, ast.Constant) and isinstance(e.value, (int, float)) and not isinstance(e.value, bool):
        if float(e.value) != int(e.value): raise Refuse(f'{where}: non-integer literal {e.value}')
        return Sc(f'ofInt {int(e.value)}' if e.value >= 0 else f'(-(ofInt {-int(e.value)}))')
    if _u(e) == 'np.pi': return Sc('pi')
    if isinstance(e, ast.UnaryOp) and isinstance(e.op, ast.USub):
        return _lift(lambda a: f'(-{a})', _expr(e.operand, env, where))
    if isinstance(e, ast.BinOp):
        if isinstance(e.op, ast.Pow):
            if not (isinstance(e.right, ast.Constant) and e.right.value == 2): raise Refuse(f'{where}: only ** 2 is supported')
            return _lift(lambda a: f'({a} * {a})', _expr(e.left, env, where))
        ops = {ast.Add: '+', ast.Sub: '-', ast.Mult: '*', ast.Div: '/'}
        if type(e.op) not in ops: raise Refuse(f'{where}: unsupported operator in {_u(e)[:50]}')
        o = ops[type(e.op)]
        return _lift(lambda a, b: f'({a} {o} {b})', _expr(e.left, env, where), _expr(e.right, env, where))
    if isinstance(e, ast.Call) and _u(e.func) == 'np.radians' and len(e.args) == 1 and not e.keywords:
        a = _expr(e.args[0], env, where)
        if not isinstance(a, Sc): raise Refuse(f'{where}: np.radians of a non-scalar')
        return Sc(f'({a.e} * (pi / ofInt 180))')
    if isinstance(e, ast.Call) and _u(e.func) == 'np.random.uniform' and len(e.args) == 2 and not e.keywords:
        lo, hi = _expr(e.args[0], env, where), _expr(e.args[1], env, where)
        if not (isinstance(lo, Sc) and isinstance(hi, Sc)): raise Refuse(f'{where}: np.random.uniform with non-scalar bounds')
        return Sc(f'({lo.e} + (({hi.e} - {lo.e}) * u))')          # u: the generator's uniform [0, 1) variate
    if isinstance(e, ast.Call) and _u(e.func) in UN and len(e.args) == 1 and not e.keywords:
        fn = UN[_u(e.func)]
        a = _expr(e.args[0], env, where)
        if fn in ('sin', 'cos') and not isinstance(a, Sc): raise Refuse(f'{where}: {fn} of a non-scalar')
        return _lift(lambda x: f'({fn} {x})', a)
    if isinstance(e, ast.Call) and _u(e.func) == 'np.fft.fftfreq' and len(e.args) == 1 and not e.keywords:
        a = e.args[0]
        if not (isinstance(a, ast.Subscript) and _u(a.value) == 'img.shape' and isinstance(a.slice, ast.Constant) and a.slice.value in (0, 1)):
            raise Refuse(f'{where}: fftfreq argument is not img.shape[0|1]: {_u(a)[:40]}')
        k = a.slice.value
        return Vec(f's{k}', lambda i, k=k: f'(freq s{k} {i})')
    if isinstance(e, ast.Subscript) and isinstance(e.slice, ast.Tuple) and len(e.slice.elts) == 2:
        v = _expr(e.value, env, where)
        if not isinstance(v, Vec): raise Refuse(f'{where}: newaxis indexing of a non-vector: {_u(e)[:50]}')
        a, b = (_u(x) for x in e.slice.elts)
        if (a, b) == (':', 'np.newaxis'): return Grid(v.ln, '1', lambda i, j, v=v: v.at(i))
        if (a, b) == ('np.newaxis', ':'): return Grid('1', v.ln, lambda i, j, v=v: v.at(j))
        raise Refuse(f'{where}: unsupported indexing {_u(e)[:50]}')
    if isinstance(e, ast.Call) and _u(e.func) == 'np.dot' and len(e.args) == 2 and not e.keywords:
        a, b = _expr(e.args[0], env, where), _expr(e.args[1], env, where)
        if not (isinstance(a, Grid) and isinstance(b, Grid) and a.c == '1' and b.r == '1'):
            raise Refuse(f'{where}: np.dot is only supported as column · row (outer product): {_u(e)[:60]}')
        return Grid(a.r, b.c, lambda i, j, a=a, b=b: f'({a.at(i, "0")} * {b.at("0", j)})')
    if isinstance(e, ast.Call) and _u(e.func) == 'np.outer' and len(e.args) == 2 and not e.keywords:
        a, b = _expr(e.args[0], env, where), _expr(e.args[1], env, where)
        if not (isinstance(a, Vec) and isinstance(b, Vec)): raise Refuse(f'{where}: np.outer of non-vectors')
        return Grid(a.ln, b.ln, lambda i, j, a=a, b=b: f'({a.at(i)} * {b.at(j)})')
    raise Refuse(f'{where}: unsupported expression {_u(e)[:60]}')

def _apply_expr(e, where):
    """the closing expression as a composition of the four stages: abs, ifft2, fft2 and the product with the kernel"""
    if isinstance(e, ast.Name) and e.id in ('img', 'kernel'): return e.id
    if isinstance(e, ast.Call) and len(e.args) == 1 and not e.keywords and _u(e.func) in ('np.abs', 'np.fft.ifft2', 'np.fft.fft2'):
        return {'np.abs': 'absF', 'np.fft.ifft2': 'ifft2F', 'np.fft.fft2': 'fft2F'}[_u(e.func)] + f' ({_apply_expr(e.args[0], where)})'
    if isinstance(e, ast.BinOp) and isinstance(e.op, ast.Mult):
        l, r = e.left, e.right
        if isinstance(r, ast.Name) and r.id == 'kernel': return f'mulF ({_apply_expr(l, where)}) kernel'
        if isinstance(l, ast.Name) and l.id == 'kernel': return f'mulF ({_apply_expr(r, where)}) kernel'
    raise Refuse(f'{where}: unsupported blur application {_u(e)[:70]}')

def _renorm_expr(e, where, total=None):
    """`out * np.sum(img) / np.sum(out)`: element `out`, totals `sumImg`, `sumOut`; `total` names a local bound to `np.sum(out)`
    by an earlier `total = np.sum(out)` (None: no such local)"""
    if isinstance(e, ast.Name) and e.id == 'out': return 'out'
    if isinstance(e, ast.Name) and total is not None and e.id == total: return 'sumOut'
    if _u(e) == 'np.sum(img)': return 'sumImg'
    if _u(e) == 'np.sum(out)': return 'sumOut'
    if isinstance(e, ast.BinOp) and isinstance(e.op, (ast.Mult, ast.Div)):
        return f'({_renorm_expr(e.left, where, total)} {"*" if isinstance(e.op, ast.Mult) else "/"} {_renorm_expr(e.right, where, total)})'
    raise Refuse(f'{where}: unsupported renormalisation {_u(e)[:70]}')

def _translate(fn, scalars, where, none_branch=False):
    """none_branch: translate smear's `angle is None` branch (the direction is drawn from the global generator) instead of the
    given-angle branch"""
    params = [a.arg for a in fn.args.args]
    if params[0] != 'img' or params[1:] != scalars: raise Refuse(f'{where}: parameters changed: {params}')
    defaults = {p: _u(d) for p, d in zip(params[-len(fn.args.defaults):], fn.args.defaults)} if fn.args.defaults else {}
    env = {p: Sc(p) for p in scalars}
    body = list(fn.body)
    if body and isinstance(body[0], ast.Expr) and isinstance(body[0].value, ast.Constant): body = body[1:]
    kernel, renorm, apply_ = None, None, None
    total, guard = None, False      # local bound to np.sum(out); `if total == 0: return out` seen
    for s in body:
        t = _u(s)
        if t == 'img = np.asarray(img)': continue
        if isinstance(s, ast.If) and _u(s.test) == 'angle is None':
            ok = (len(s.body) == 1 and len(s.orelse) == 1 and all(isinstance(x, ast.Assign) and _u(x.targets[0]) == 'angle' for x in (s.body[0], s.orelse[0])))
            if not ok: raise Refuse(f'{where}: angle handling changed: {t[:120]!r}')
            env['angle'] = _expr((s.body[0] if none_branch else s.orelse[0]).value, env, where)
            if not isinstance(env['angle'], Sc): raise Refuse(f'{where}: angle is not a scalar')
            continue
        if isinstance(s, ast.Assign) and len(s.targets) == 1:
            tg = s.targets[0]
            if isinstance(tg, ast.Tuple) and _u(s.value).startswith('np.meshgrid('):
                c = s.value
                if len(c.args) != 2 or c.keywords or len(tg.elts) != 2: raise Refuse(f'{where}: meshgrid call changed: {t[:60]}')
                x, y = _expr(c.args[0], env, where), _expr(c.args[1], env, where)
                if not (isinstance(x, Vec) and isinstance(y, Vec)): raise Refuse(f'{where}: meshgrid of non-vectors')
                env[tg.elts[0].id] = Grid(y.ln, x.ln, lambda i, j, x=x: x.at(j))
                env[tg.elts[1].id] = Grid(y.ln, x.ln, lambda i, j, y=y: y.at(i))
                continue
            if isinstance(tg, ast.Name):
                if tg.id == 'out':
                    if total is not None or guard: raise Refuse(f'{where}: `out` reassigned after its total was taken')
                    apply_ = _apply_expr(s.value, where); continue
                if apply_ is not None:
                    # after the blur only `<name> = np.sum(out)` is understood (the total the guard and the rescaling share)
                    if ast.unparse(s.value) != 'np.sum(out)' or total is not None or guard:
                        raise Refuse(f'{where}: unexpected statement after the blur `{t[:70]}`')
                    total = tg.id; continue
                env[tg.id] = _expr(s.value, env, where)
                if tg.id == 'kernel': kernel = env[tg.id]
                continue
        if isinstance(s, ast.If) and apply_ is not None and not guard:
            # the zero-total guard: `if <total> == 0: return out` (the un-normalised blur is returned when it has no signal)
            tt = ast.unparse(s.test)
            ok = (tt in ([f'{total} == 0'] if total is not None else []) + ['np.sum(out) == 0'] and not s.orelse and len(s.body) == 1
                  and isinstance(s.body[0], ast.Return) and s.body[0].value is not None and ast.unparse(s.body[0].value) == 'out')
            if not ok: raise Refuse(f'{where}: unsupported guard before the renormalisation `{t[:90]}`')
            guard = True; continue
        if isinstance(s, ast.Return):
            if apply_ is None:
                apply_, renorm = _apply_expr(s.value, where), None
            else: renorm = _renorm_expr(s.value, where, total)
            break
        raise Refuse(f'{where}: unexpected statement `{t[:70]}`')
    if not (isinstance(kernel, Grid) and apply_ is not None): raise Refuse(f'{where}: kernel / application / return not found')
    if kernel.r == '1' or kernel.c == '1': raise Refuse(f'{where}: kernel is not two-dimensional')
    if (guard or total is not None) and not renorm: raise Refuse(f'{where}: a total / zero-total guard without a renormalising return')
    return kernel, renorm, defaults, apply_, guard

def _pixelate(repo):
    """detector.pixelate: `img = lentil.detector.pixel(img, oversample)` then `return lentil.rescale(img, <scale>, order=…, mode=…, unitary=…)`"""
    mod = ast.parse(open(os.path.join(repo, 'lentil/detector.py')).read())
    fn = [n for n in mod.body if isinstance(n, ast.FunctionDef) and n.name == 'pixelate']
    if not fn: raise Refuse('detector.py: pixelate not found')
    fn = fn[0]
    if [a.arg for a in fn.args.args] != ['img', 'oversample'] or fn.args.defaults: raise Refuse('pixelate: signature changed')
    body = [s for s in fn.body if not (isinstance(s, ast.Expr) and isinstance(s.value, ast.Constant))]
    if len(body) != 2 or _u(body[0]) != 'img = lentil.detector.pixel(img, oversample)' or not isinstance(body[1], ast.Return):
        raise Refuse('pixelate: expected `img = lentil.detector.pixel(img, oversample)` and one return')
    c = body[1].value
    if not (isinstance(c, ast.Call) and _u(c.func) == 'lentil.rescale' and len(c.args) == 2 and _u(c.args[0]) == 'img'):
        raise Refuse(f'pixelate: rescale call changed: {_u(c)[:80]}')
    scale = _expr(c.args[1], {'oversample': Sc('oversample')}, 'pixelate')
    kws = {k.arg: _u(k.value) for k in c.keywords}
    if set(kws) != {'order', 'mode', 'unitary'} or kws['mode'] not in ("'nearest'", "'constant'", "'reflect'", "'wrap'") \
            or kws['unitary'] not in ('True', 'False') or not kws['order'].isdigit():
        raise Refuse(f'pixelate: rescale keywords changed: {kws}')
    nearest = 'true' if kws['mode'] == "'nearest'" else 'false'
    return (f'/-- `lentil/detector.py:pixelate` (line {fn.lineno}): `pixel(img, oversample)` then `rescale(·, bwPixelateScale, order, mode, unitary)` -/\n'
            f'def bwPixelateScale (ofInt : Int → R) (oversample : R) : R := {scale.e}\n'
            f'def bwPixelateOrder : Int := {kws["order"]}\n'
            f'def bwPixelateModeNearest : Bool := {nearest}\n'
            f'def bwPixelateUnitary : Bool := {"true" if kws["unitary"] == "True" else "false"}\n')

FNS = [('Pixel', 'lentil/detector.py', 'pixel', ['oversample'], {'oversample': '1'}),
       ('Jitter', 'lentil/convolvable.py', 'jitter', ['scale', 'pixelscale', 'oversample'], {'pixelscale': '1', 'oversample': '1'}),
       ('Smear', 'lentil/convolvable.py', 'smear', ['distance', 'angle', 'pixelscale', 'oversample'],
        {'angle': 'None', 'pixelscale': '1', 'oversample': '1'})]

def generate(repo):
    L = ['section\nvariable {R : Type} [Add R] [Sub R] [Mul R] [Neg R] [Div R]\n']
    for name, src, fname, scalars, want_defaults in FNS:
        mod = ast.parse(open(os.path.join(repo, src)).read())
        fn = [n for n in mod.body if isinstance(n, ast.FunctionDef) and n.name == fname]
        if not fn: raise Refuse(f'{src}: function {fname} not found')
        k, renorm, defaults, apply_, guard = _translate(fn[0], scalars, fname)
        # default arguments (wave 12): which parameters have one is fixed; the scalar defaults must be integer literals and are EMITTED
        # (bw<Name>Default<Param>), so that C19.samples_call_is_default_call is a statement about them; `angle=None` stays structural
        if set(defaults) != set(want_defaults): raise Refuse(f'{fname}: the set of default arguments changed: {defaults}')
        if 'angle' in want_defaults and defaults['angle'] != 'None': raise Refuse(f'{fname}: default of angle is not None: {defaults}')
        for p_, d_ in defaults.items():
            if p_ == 'angle': continue
            if not re.fullmatch(r'-?\d+', d_): raise Refuse(f'{fname}: default of {p_} is not an integer literal: {d_}')
            L.append(f'/-- `{fname}`: the default of `{p_}` (the value used by a call that expresses its extent in samples) -/\n'
                     f'def bw{name}Default{p_.capitalize()} : Int := {d_}\n')
        ps = ' '.join(scalars)
        L.append(f'/-- `{src}:{fname}` (line {fn[0].lineno}): entry `[i, j]` of `kernel`, operations in source order; `freq n i` is '
                 f'`np.fft.fftfreq(n)[i]` -/\n'
                 f'def bw{name}Kernel (sinc exp sqrt sin cos : R → R) (pi : R) (ofInt : Int → R) (freq : Int → Int → R)\n'
                 f'    (s0 s1 : Int) ({ps} : R) (i j : Int) : R :=\n  {k.at("i", "j")}\n'
                 f'/-- rows and columns of that kernel in terms of the image shape `(s0, s1)` -/\n'
                 f'def bw{name}KernelShape (s0 s1 : Int) : Int × Int := ({k.r}, {k.c})\n'
                 f'/-- whether the result is rescaled, and by which expression of an output sample and the totals `np.sum(img)`, `np.sum(out)` -/\n'
                 f'def bw{name}Renorm : Bool := {"true" if renorm else "false"}\n'
                 f'def bw{name}RenormExpr (out sumImg sumOut : R) : R := {renorm if renorm else "out"}\n'
                 f'/-- whether `if np.sum(out) == 0: return out` guards that rescaling (a frame whose blur has no signal is returned un-normalised) -/\n'
                 f'def bw{name}RenormGuard : Bool := {"true" if guard else "false"}\n')
        if fname == 'smear':
            kn, _, _, _, _ = _translate(fn[0], scalars, fname, none_branch=True)
            psn = ' '.join(p for p in scalars if p != 'angle')
            L.append(f'/-- `{fname}` with `angle=None`: the direction is `np.random.uniform(lo, hi)` = `lo + (hi − lo)·u`, `u` the uniform [0, 1) variate '
                     f'of the global generator, used as written in the source (no unit conversion unless the source applies one) -/\n'
                     f'def bw{name}KernelNone (sinc exp sqrt sin cos : R → R) (pi : R) (ofInt : Int → R) (freq : Int → Int → R)\n'
                     f'    (s0 s1 : Int) ({psn} u : R) (i j : Int) : R :=\n  {kn.at("i", "j")}\n')
    L.append(_pixelate(repo))
    L.append('end\n')
    # the closing composition, per function (generic in the four stages)
    for name, src, fname, scalars, _ in FNS:
        mod = ast.parse(open(os.path.join(repo, src)).read())
        fn = [n for n in mod.body if isinstance(n, ast.FunctionDef) and n.name == fname][0]
        _, _, _, apply_, _ = _translate(fn, scalars, fname)
        L.append(f'/-- `{fname}`: how the output is composed from `np.abs`, `np.fft.ifft2`, `np.fft.fft2` and the product with the kernel -/\n'
                 f'def bw{name}Apply {{I X Y O Kn : Type}} (absF : Y → O) (ifft2F : X → Y) (fft2F : I → X) (mulF : X → Kn → X) (img : I) (kernel : Kn) : O :=\n'
                 f'  {apply_}\n')
    return '\n'.join(L), ['blur kernels: element-wise float expressions translated in source order; NumPy broadcasting of scalars; '
                          'np.radians(angle) = angle·(π/180); np.random.uniform(lo, hi) = lo + (hi − lo)·u; scalar defaults emitted (bw…Default…), angle=None pinned']

MODULES = [
    {'name': 'BlurWiring', 'src': 'lentil/convolvable.py', 'generator': generate, 'props': ['C19'], 'imports': []},
]
