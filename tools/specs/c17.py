"""C17 — regenerated sampling grid of lentil.util.rescale (tie 1).

`Gen/RescaleGrid.lean` is translated from the source on every run:
    shape = np.ceil((img.shape[0]*scale, img.shape[1]*scale)).astype(int)          -> rescaleCeilArg
    x = (np.arange(shape[1], dtype=np.float64) - shape[1]/2.)/scale + img.shape[1]/2.   -> rescaleCoordX
    y = (np.arange(shape[0], dtype=np.float64) - shape[0]/2.)/scale + img.shape[0]/2.   -> rescaleCoordY
    xx, yy = np.meshgrid(x, y) ; map_coordinates(img, [yy, xx], …)                  -> rescaleCoordOrder
The arithmetic expressions are translated term by term (names: output sizes S0/S1, input sizes n0/n1, scale s, sample index k),
so using the wrong axis' size, another centre convention or another spacing changes a definition that `Props/C17.lean`
(`grid_uses_own_axis`, `coord_grid`, `rescale_one_coordinates_are_integers`) and the driver depend on."""
import ast, os
from py2lean import Refuse

def _robust(gen, what):
    """a source shape the spec did not anticipate is a readable refusal (tie broken), never a crash"""
    def wrapped(repo):
        try:
            return gen(repo)
        except Refuse:
            raise
        except (AttributeError, IndexError, KeyError, TypeError, ValueError, AssertionError) as e:
            import traceback
            tb = traceback.extract_tb(e.__traceback__)[-1]
            raise Refuse(f'{what}: source has a shape this translator does not understand '
                         f'({type(e).__name__}: {e}; while reading `{(tb.line or "").strip()[:70]}`)')
    wrapped.__name__ = getattr(gen, '__name__', 'generator')
    return wrapped

SRC = 'lentil/util.py'
ENV = {'shape[0]': 'S0', 'shape[1]': 'S1', 'img.shape[0]': 'n0', 'img.shape[1]': 'n1', 'scale': 's'}

def _expr(e):
    src = ast.unparse(e)
    if src in ENV: return ENV[src]
    if isinstance(e, ast.Constant) and isinstance(e.value, (int, float)):
        if float(e.value) == 2.0: return 'two'
        raise Refuse(f'constant {src}')
    if isinstance(e, ast.Call) and ast.unparse(e.func) in ('np.arange', 'numpy.arange'):
        return ('k', ENV.get(ast.unparse(e.args[0])))          # arange(S): the running index, length S
    if isinstance(e, ast.BinOp):
        op = {ast.Add: '+', ast.Sub: '-', ast.Mult: '*', ast.Div: '/'}.get(type(e.op))
        if op is None: raise Refuse(f'operator in {src}')
        l, r = _expr(e.left), _expr(e.right)
        lens = [x[1] for x in (l, r) if isinstance(x, tuple)]
        l = l[0] if isinstance(l, tuple) else l; r = r[0] if isinstance(r, tuple) else r
        out = f'({l} {op} {r})'
        return (out, lens[0]) if lens else out
    raise Refuse(f'expression not understood: {src}')

ENV_ARG = {'shape': 'sh', 'shape[0]': 'sh0', 'shape[1]': 'sh1', 'scale': 's'}

def _ceil_tuple(st, env):
    """`shape = np.ceil((a, b)).astype(int)` -> (lean a, lean b)"""
    global ENV
    if not (isinstance(st, ast.Assign) and len(st.targets) == 1 and ast.unparse(st.targets[0]) == 'shape'): raise Refuse(f'shape branch: {ast.unparse(st)[:60]}')
    v = st.value
    if not (isinstance(v, ast.Call) and isinstance(v.func, ast.Attribute) and v.func.attr == 'astype' and [ast.unparse(a) for a in v.args] == ['int']
            and isinstance(v.func.value, ast.Call) and ast.unparse(v.func.value.func) in ('np.ceil', 'numpy.ceil') and len(v.func.value.args) == 1
            and isinstance(v.func.value.args[0], ast.Tuple) and len(v.func.value.args[0].elts) == 2): raise Refuse(f'shape branch: {ast.unparse(st)[:80]}')
    saved = ENV
    try:
        ENV = env
        return tuple(_expr(x) for x in v.func.value.args[0].elts)
    finally:
        ENV = saved

def _shape_branches(fn):
    """the `shape=` argument: `if shape is None: <default> else: if np.isscalar(shape): <scalar> else: <tuple>`"""
    top = [st for st in fn.body if isinstance(st, ast.If) and ast.unparse(st.test) == 'shape is None']
    if len(top) != 1 or len(top[0].body) != 1 or len(top[0].orelse) != 1 or not isinstance(top[0].orelse[0], ast.If): raise Refuse('util.rescale: `if shape is None` dispatch')
    inner = top[0].orelse[0]
    if ast.unparse(inner.test) not in ('np.isscalar(shape)', 'numpy.isscalar(shape)') or len(inner.body) != 1 or len(inner.orelse) != 1: raise Refuse(f'shape dispatch: {ast.unparse(inner.test)}')
    return _ceil_tuple(inner.body[0], ENV_ARG), _ceil_tuple(inner.orelse[0], ENV_ARG)

def _complex_branch(fn):
    """`if np.iscomplexobj(img): out.real = map_coordinates(img.real, C, order=order, mode=mode); out.imag = …(img.imag, …) else: out = map_coordinates(img, C, …)`"""
    top = [st for st in fn.body if isinstance(st, ast.If) and ast.unparse(st.test) in ('np.iscomplexobj(img)', 'numpy.iscomplexobj(img)')]
    if len(top) != 1 or len(top[0].orelse) != 1: raise Refuse('util.rescale: complex dispatch')
    def call(v):
        if not (isinstance(v, ast.Call) and ast.unparse(v.func).endswith('map_coordinates') and len(v.args) == 2): raise Refuse(f'interpolation call: {ast.unparse(v)[:60]}')
        return ast.unparse(v.args[0]), ast.unparse(v.args[1]), sorted((k.arg, ast.unparse(k.value)) for k in v.keywords)
    e = top[0].orelse[0]
    if not (isinstance(e, ast.Assign) and ast.unparse(e.targets[0]) == 'out'): raise Refuse('real branch')
    rsrc, rco, rkw = call(e.value)
    if rsrc != 'img': raise Refuse(f'real branch interpolates {rsrc}')
    parts = []
    for st in top[0].body:
        if not isinstance(st, ast.Assign): raise Refuse('complex branch statement')
        t = ast.unparse(st.targets[0])
        if t == 'out':
            if ast.unparse(st.value).replace(' ', '') not in ('np.zeros(shape,dtype=np.complex128)', 'np.zeros(shape,dtype=complex)'): raise Refuse(f'complex output buffer: {ast.unparse(st.value)}')
            continue
        src, co, kw = call(st.value)
        if co != rco or kw != rkw: raise Refuse(f'complex part {t} interpolated differently from the real branch: {co} {kw}')
        parts.append((t, src))
    return parts, rkw

def generator(repo):
    tree = ast.parse(open(os.path.join(repo, SRC)).read())
    fn = [n for n in tree.body if isinstance(n, ast.FunctionDef) and n.name == 'rescale']
    if not fn: raise Refuse('util.rescale not found')
    ceil_arg, coords, order, mesh = None, {}, None, None
    nodes = list(ast.walk(fn[0]))
    for st in [n for n in nodes if isinstance(n, ast.Assign)] + [n for n in nodes if isinstance(n, ast.Call)]:
        if isinstance(st, ast.Assign) and len(st.targets) == 1:
            t, v = ast.unparse(st.targets[0]), st.value
            if t == 'shape' and isinstance(v, ast.Call) and 'np.ceil' in ast.unparse(v) and 'img.shape' in ast.unparse(v):
                inner = v
                while isinstance(inner, ast.Call) and ast.unparse(inner.func) not in ('np.ceil', 'numpy.ceil'):
                    inner = inner.func.value if isinstance(inner.func, ast.Attribute) else inner.args[0]
                tup = inner.args[0]
                if not isinstance(tup, ast.Tuple) or len(tup.elts) != 2: raise Refuse('ceil argument')
                ceil_arg = tuple(_expr(x) for x in tup.elts)
            elif t in ('x', 'y') and 'arange' in ast.unparse(v):
                r = _expr(v)
                if not isinstance(r, tuple): raise Refuse(f'{t} grid')
                coords[t] = r
            elif isinstance(st.targets[0], ast.Tuple) and 'meshgrid' in ast.unparse(v):
                if ast.unparse(v).replace(' ', '') != 'np.meshgrid(x,y)': raise Refuse(f'meshgrid: {ast.unparse(v)}')
                order_names = [e.id for e in st.targets[0].elts]      # meshgrid(x, y) returns (X, Y)
                mesh = {order_names[0]: 'x', order_names[1]: 'y'}
        if mesh is not None and isinstance(st, ast.Call) and ast.unparse(st.func).endswith('map_coordinates') and len(st.args) >= 2 and isinstance(st.args[1], ast.List):
            o = [mesh.get(ast.unparse(e)) for e in st.args[1].elts]
            if order is not None and o != order: raise Refuse('map_coordinates calls use different coordinate orders')
            order = o
    if ceil_arg is None or set(coords) != {'x', 'y'} or order is None: raise Refuse('util.rescale: shape / grid / map_coordinates not found')
    cls = '{K : Type} [Add K] [Sub K] [Mul K] [Div K]'
    out = [f'/-- argument of `np.ceil` for the output shape -/\ndef rescaleCeilArg {cls} (n0 n1 s : K) : K × K := ({ceil_arg[0]}, {ceil_arg[1]})\n']
    for nm, lean in (('x', 'rescaleCoordX'), ('y', 'rescaleCoordY')):
        e, length = coords[nm]
        out.append(f'/-- `{nm}[k]`: input-array coordinate of output sample `k` (the vector has `{length}` entries) -/\n'
                   f'def {lean} {cls} (S0 S1 n0 n1 s two k : K) : K := {e}\n'
                   f'def {lean}Len : String := "{length}"\n')
    out.append('/-- coordinate arrays handed to `map_coordinates`, in order (first = along axis 0) -/\n'
               f'def rescaleCoordOrder : List String := [{", ".join(chr(34) + x + chr(34) for x in order)}]\n')
    sc, tu = _shape_branches(fn[0])
    out.append('/-- argument of `np.ceil` for an explicit scalar `shape=` (`np.isscalar(shape)`) -/\n'
               f'def rescaleCeilArgScalar {cls} (sh s : K) : K × K := ({sc[0]}, {sc[1]})\n')
    out.append('/-- argument of `np.ceil` for an explicit `shape=(shape[0], shape[1])` -/\n'
               f'def rescaleCeilArgPair {cls} (sh0 sh1 s : K) : K × K := ({tu[0]}, {tu[1]})\n')
    parts, kw = _complex_branch(fn[0])
    q = chr(34)
    out.append('/-- complex input: (part of the output written, part of the input interpolated) — same coordinates and options as the real branch -/\n'
               f'def rescaleComplexParts : List (String × String) := [{", ".join(f"({q}{a}{q}, {q}{b}{q})" for a, b in parts)}]\n')
    out.append('/-- keyword options of the interpolation of `img` (all branches) -/\n'
               f'def rescaleInterpOptions : List (String × String) := [{", ".join(f"({q}{a}{q}, {q}{b}{q})" for a, b in kw)}]\n')
    return '\n'.join(out), [f'ceil {ceil_arg} coords {coords} order {order} shape-scalar {sc} shape-pair {tu} complex {parts} options {kw}']

MODULES = [{'name': 'RescaleGrid', 'src': SRC, 'generator': _robust(generator, 'util.rescale grid'), 'props': ['C17']}]


# ---------------------------------------------------------------------------------------------- Plane.rescale / Plane.resample wiring
def _rx(e, env):
    """small real expression -> Lean over K (names through env, + - * /)"""
    src = ast.unparse(e)
    if src in env: return env[src]
    if isinstance(e, ast.BinOp):
        op = {ast.Add: '+', ast.Sub: '-', ast.Mult: '*', ast.Div: '/'}.get(type(e.op))
        if op is None: raise Refuse(f'operator in {src}')
        return f'({_rx(e.left, env)} {op} {_rx(e.right, env)})'
    raise Refuse(f'plane wiring: expression not understood: {src}')

def _rescale_call(c):
    """lentil.rescale(X, scale=scale, …) -> (array expr, {kw: text})"""
    if not (isinstance(c, ast.Call) and ast.unparse(c.func) == 'lentil.rescale' and len(c.args) == 1): raise Refuse(f'rescale call: {ast.unparse(c)[:60]}')
    kw = {k.arg: ast.unparse(k.value) for k in c.keywords}
    if kw.get('scale') != 'scale': raise Refuse('rescale call must pass scale=scale')
    return ast.unparse(c.args[0]), kw

def plane_generator(repo):
    tree = ast.parse(open(os.path.join(repo, 'lentil', 'plane.py')).read())
    cls = [n for n in tree.body if isinstance(n, ast.ClassDef) and n.name == 'Plane'][0]
    fn = {n.name: n for n in cls.body if isinstance(n, ast.FunctionDef)}
    if 'rescale' not in fn or 'resample' not in fn: raise Refuse('Plane.rescale / resample not found')
    steps, rows, px, factor = [], [], None, {}
    def s(x): return '"' + x + '"'
    for st in fn['rescale'].body:
        src = ast.unparse(st)
        if isinstance(st, ast.Expr) and isinstance(st.value, ast.Constant): continue
        if isinstance(st, ast.Assign) and src.startswith('plane = '):
            steps.append('copy:' + ast.unparse(st.value))
        elif isinstance(st, ast.If) and ast.unparse(st.test) in ('plane.amplitude.ndim > 1', 'plane.opd.ndim > 1'):
            attr = ast.unparse(st.test).split('.')[1]
            if len(st.body) != 1 or st.orelse or ast.unparse(st.body[0].targets[0]) != f'plane.{attr}': raise Refuse(f'{attr} block')
            v = st.body[0].value
            post = 'one'
            if isinstance(v, ast.BinOp):        # the interpolated array times/divided by something
                if not isinstance(v.op, ast.Div): raise Refuse(f'{attr}: post-factor {ast.unparse(v)[:40]}')
                post = _rx(ast.BinOp(left=ast.Name(id='one'), op=ast.Div(), right=v.right), {'one': 'one', 'scale': 's'})
                v = v.left
            arr, kw = _rescale_call(v)
            if arr != f'plane.{attr}': raise Refuse(f'{attr}: rescales {arr}')
            rows.append((attr, 'ndim > 1', kw.get('order'), kw.get('mode'), kw.get('unitary'))); factor[attr] = post; steps.append(attr)
        elif isinstance(st, ast.If) and ast.unparse(st.test) == 'plane._mask.ndim == 2':
            arr, kw = _rescale_call(st.body[0].value)
            lc = st.orelse[0].value
            inner = lc.args[0] if isinstance(lc, ast.Call) else lc
            if not isinstance(inner, ast.ListComp): raise Refuse('segmented mask branch')
            arr2, kw2 = _rescale_call(inner.elt)
            if kw != kw2: raise Refuse('monolithic and segmented masks are rescaled with different options')
            rows.append(('mask', 'always (each segment)', kw.get('order'), kw.get('mode'), kw.get('unitary'))); steps.append('mask')
        elif src == 'plane._mask[np.nonzero(plane._mask)] = 1': steps.append('binarise')
        elif src == 'plane._mask = plane._mask.astype(int)': steps.append('astype(int)')
        elif src == 'plane._slice = _plane_slice(plane._mask)': steps.append('slice')
        elif isinstance(st, ast.If) and ast.unparse(st.test) == 'plane.pixelscale is not None':
            t = st.body[0].value
            if not isinstance(t, ast.Tuple) or len(t.elts) != 2: raise Refuse('pixelscale update')
            env = {'plane.pixelscale[0]': 'px0', 'plane.pixelscale[1]': 'px1', 'scale': 's'}
            px = (_rx(t.elts[0], env), _rx(t.elts[1], env)); steps.append('pixelscale')
        elif isinstance(st, ast.Return):
            if ast.unparse(st.value) != 'plane': raise Refuse('rescale must return the copy')
        else: raise Refuse(f'Plane.rescale: statement not understood: {src[:70]}')
    if px is None or set(factor) != {'amplitude', 'opd'}: raise Refuse('Plane.rescale: pieces missing')
    # resample
    guards, rs = [], None
    node = [x for x in fn['resample'].body if isinstance(x, ast.If)]
    if len(node) != 1: raise Refuse('resample guards')
    n = node[0]
    while True:
        exc = n.body[0].exc
        guards.append((ast.unparse(n.test), ast.unparse(exc.func) if isinstance(exc, ast.Call) else ast.unparse(exc)))
        if len(n.orelse) == 1 and isinstance(n.orelse[0], ast.If): n = n.orelse[0]
        else: break
    ret = [x for x in fn['resample'].body if isinstance(x, ast.Return)][0].value
    if not (isinstance(ret, ast.Call) and ast.unparse(ret.func) == 'self.rescale'): raise Refuse('resample must call self.rescale')
    kw = {k.arg: k.value for k in ret.keywords}
    rs = _rx(kw['scale'] if 'scale' in kw else ret.args[0], {'self.pixelscale[0]': 'px0', 'self.pixelscale[1]': 'px1', 'pixelscale': 'new'})
    K = '{K : Type} [Add K] [Sub K] [Mul K] [Div K]'
    out = ['/-- steps of `Plane.rescale` in source order -/\n' + f'def prSteps : List String := [{", ".join(s(x) for x in steps)}]\n',
           '/-- (attribute, guard, order, mode, unitary) of each `lentil.rescale` call -/\n'
           f'def prInterp : List (String × String × String × String × String) := [{", ".join("(" + ", ".join(s(str(x)) for x in r) + ")" for r in rows)}]\n',
           f'/-- factor applied to the interpolated amplitude -/\ndef prAmplitudeFactor {K} (one s : K) : K := {factor["amplitude"]}\n',
           f'/-- factor applied to the interpolated OPD -/\ndef prOpdFactor {K} (one s : K) : K := {factor["opd"]}\n',
           f'/-- `plane._pixelscale = (…, …)` -/\ndef prPixelscale {K} (px0 px1 s : K) : K × K := ({px[0]}, {px[1]})\n',
           '/-- guards of `Plane.resample`, in order: (test, exception) -/\n'
           f'def prResampleGuards : List (String × String) := [{", ".join("(" + s(a) + ", " + s(b) + ")" for a, b in guards)}]\n',
           f'/-- scale factor `resample` hands to `rescale` -/\ndef prResampleScale {K} (px0 px1 new : K) : K := {rs}\n']
    return '\n'.join(out), [f'steps {steps}', f'factor {factor}', f'px {px}', f'resample {rs} guards {guards}']

MODULES.append({'name': 'PlaneRescale', 'src': 'lentil/plane.py', 'generator': _robust(plane_generator, 'Plane.rescale/resample wiring'), 'props': ['C17']})
