"""C17 — regenerated sampling grid of lentil.util.rescale (tie 1).

`Gen/RescaleGrid.lean` is translated from the source on every run:
    shape = np.ceil((img.shape[0]*scale, img.shape[1]*scale)).astype(int)          -> rescaleCeilArg
    x = (np.arange(shape[1], dtype=np.float64) - shape[1]/2.)/scale + img.shape[1]/2.   -> rescaleCoordX
    y = (np.arange(shape[0], dtype=np.float64) - shape[0]/2.)/scale + img.shape[0]/2.   -> rescaleCoordY
    xx, yy = np.meshgrid(x, y) ; map_coordinates(img, [yy, xx], …)                  -> rescaleCoordOrder
The arithmetic expressions are translated term by term (names: output sizes S0/S1, input sizes n0/n1, scale s, sample index k),
so using the wrong axis' size, another centre convention or another spacing changes a definition that `Props/C17.lean`
(`grid_uses_own_axis`, `coord_grid`, `rescale_one_coordinates_are_integers`) and the driver depend on."""
import ast, os
from py2lean import Refuse

SRC = 'lentil/util.py'
ENV = {'shape[0]': 'S0', 'shape[1]': 'S1', 'img.shape[0]': 'n0', 'img.shape[1]': 'n1', 'scale': 's'}

def _expr(e):
    src = ast.unparse(e)
    if src in ENV: return ENV[src]
    if isinstance(e, ast.Constant) and isinstance(e.value, (int, float)):
        if float(e.value) == 2.0: return 'two'
        raise Refuse(f'constant {src}')
    if isinstance(e, ast.Call) and ast.unparse(e.func) in ('np.arange', 'numpy.arange'):
        return ('k', ENV.get(ast.unparse(e.args[0])))          # arange(S): the running index, length S
    if isinstance(e, ast.BinOp):
        op = {ast.Add: '+', ast.Sub: '-', ast.Mult: '*', ast.Div: '/'}.get(type(e.op))
        if op is None: raise Refuse(f'operator in {src}')
        l, r = _expr(e.left), _expr(e.right)
        lens = [x[1] for x in (l, r) if isinstance(x, tuple)]
        l = l[0] if isinstance(l, tuple) else l; r = r[0] if isinstance(r, tuple) else r
        out = f'({l} {op} {r})'
        return (out, lens[0]) if lens else out
    raise Refuse(f'expression not understood: {src}')

def generator(repo):
    tree = ast.parse(open(os.path.join(repo, SRC)).read())
    fn = [n for n in tree.body if isinstance(n, ast.FunctionDef) and n.name == 'rescale']
    if not fn: raise Refuse('util.rescale not found')
    ceil_arg, coords, order, mesh = None, {}, None, None
    nodes = list(ast.walk(fn[0]))
    for st in [n for n in nodes if isinstance(n, ast.Assign)] + [n for n in nodes if isinstance(n, ast.Call)]:
        if isinstance(st, ast.Assign) and len(st.targets) == 1:
            t, v = ast.unparse(st.targets[0]), st.value
            if t == 'shape' and isinstance(v, ast.Call) and 'np.ceil' in ast.unparse(v) and 'img.shape' in ast.unparse(v):
                inner = v
                while isinstance(inner, ast.Call) and ast.unparse(inner.func) not in ('np.ceil', 'numpy.ceil'):
                    inner = inner.func.value if isinstance(inner.func, ast.Attribute) else inner.args[0]
                tup = inner.args[0]
                if not isinstance(tup, ast.Tuple) or len(tup.elts) != 2: raise Refuse('ceil argument')
                ceil_arg = tuple(_expr(x) for x in tup.elts)
            elif t in ('x', 'y') and 'arange' in ast.unparse(v):
                r = _expr(v)
                if not isinstance(r, tuple): raise Refuse(f'{t} grid')
                coords[t] = r
            elif isinstance(st.targets[0], ast.Tuple) and 'meshgrid' in ast.unparse(v):
                if ast.unparse(v).replace(' ', '') != 'np.meshgrid(x,y)': raise Refuse(f'meshgrid: {ast.unparse(v)}')
                order_names = [e.id for e in st.targets[0].elts]      # meshgrid(x, y) returns (X, Y)
                mesh = {order_names[0]: 'x', order_names[1]: 'y'}
        if mesh is not None and isinstance(st, ast.Call) and ast.unparse(st.func).endswith('map_coordinates') and len(st.args) >= 2 and isinstance(st.args[1], ast.List):
            o = [mesh.get(ast.unparse(e)) for e in st.args[1].elts]
            if order is not None and o != order: raise Refuse('map_coordinates calls use different coordinate orders')
            order = o
    if ceil_arg is None or set(coords) != {'x', 'y'} or order is None: raise Refuse('util.rescale: shape / grid / map_coordinates not found')
    cls = '{K : Type} [Add K] [Sub K] [Mul K] [Div K]'
    out = [f'/-- argument of `np.ceil` for the output shape -/\ndef rescaleCeilArg {cls} (n0 n1 s : K) : K × K := ({ceil_arg[0]}, {ceil_arg[1]})\n']
    for nm, lean in (('x', 'rescaleCoordX'), ('y', 'rescaleCoordY')):
        e, length = coords[nm]
        out.append(f'/-- `{nm}[k]`: input-array coordinate of output sample `k` (the vector has `{length}` entries) -/\n'
                   f'def {lean} {cls} (S0 S1 n0 n1 s two k : K) : K := {e}\n'
                   f'def {lean}Len : String := "{length}"\n')
    out.append('/-- coordinate arrays handed to `map_coordinates`, in order (first = along axis 0) -/\n'
               f'def rescaleCoordOrder : List String := [{", ".join(chr(34) + x + chr(34) for x in order)}]\n')
    return '\n'.join(out), [f'ceil {ceil_arg} coords {coords} order {order}']

MODULES = [{'name': 'RescaleGrid', 'src': SRC, 'generator': generator, 'props': ['C17']}]
