"""C06: `lentil.field._merge_slices` — the per-field slice of the general (non-origin) branch.

The loop body `frmin, ... = field.extent; row = slice(frmin-rmin, frmax-rmin+1); col = slice(fcmin-cmin, fcmax-cmin+1)` is
translated as a function of the bounding box (`rmin, rmax, cmin, cmax = boundary(fields)`) and one field extent. `Lentil.mergeL` (Model/Field.lean) addresses its members through this generated definition (`Gen.mergeSlice`), so a change of
`_merge_slices` flows into `merge_emb`; `Props/C06.merge_slices_spec` states its closed form and that it is in range."""
import ast
from py2lean import V, S, Refuse

def _merge_slices_step(tr, stmts):
    ifs = [s for s in stmts if isinstance(s, ast.If)]
    if len(ifs) != 1: raise Refuse('_merge_slices: branch not found')
    if ast.unparse(ifs[0].test) != 'rmin == 0 and rmax == 0 and (cmin == 0) and (cmax == 0)': raise Refuse('_merge_slices: origin test changed')
    if ast.unparse(ifs[0].body).strip() != 'out = [Ellipsis for field in fields]': raise Refuse('_merge_slices: origin branch changed')
    loops = [s for s in ifs[0].orelse if isinstance(s, ast.For)]
    if len(loops) != 1 or len(ifs[0].orelse) != 1 or ast.unparse(loops[0].target) != 'field' or ast.unparse(loops[0].iter) != 'fields':
        raise Refuse('_merge_slices: loop not found')
    body = list(loops[0].body)
    if ast.unparse(body[-1]).strip() != 'out.append((row, col))': raise Refuse('_merge_slices: append changed')
    return body[:-1], lambda env: V([env['row'], env['col']])

class _Subst(ast.NodeTransformer):
    """replace sub-expressions (matched by their unparsed text) by fresh integer parameter names / comparisons"""
    def __init__(self, table): self.table = table; self.hits = set()
    def visit(self, node):
        if isinstance(node, ast.expr):
            t = ast.unparse(node)
            if t in self.table:
                self.hits.add(t)
                return ast.parse(self.table[t], mode='eval').body
        return super().visit(node)

def _test(pick, table=None, what=''):
    """block hook: translate the TEST expression of the `if` statement chosen by `pick(stmts)`; `table` maps opaque
    sub-expressions (e.g. `len(fields)`) to integer parameters, every entry must occur"""
    def hook(tr, stmts):
        node = pick(stmts)
        if not isinstance(node, ast.If): raise Refuse(f'{what}: if-statement not found')
        test = node.test
        if table:
            sub = _Subst(table); test = ast.fix_missing_locations(sub.visit(ast.parse(ast.unparse(test), mode='eval').body))
            if sub.hits != set(table): raise Refuse(f'{what}: test changed: {ast.unparse(node.test)[:80]}')
        return [], lambda env: tr.expr(test, env)
    return hook

def _first_if(stmts):
    ifs = [s for s in stmts if isinstance(s, ast.If)]
    return ifs[0] if ifs else None

def _overlap_many(stmts):
    """overlap(): else-branch `fields = _reduce(fields); if len(fields) > 1: return False else: return True`"""
    top = _first_if(stmts)
    if top is None or len(top.orelse) != 2 or ast.unparse(top.orelse[0]).strip() != 'fields = _reduce(fields)': raise Refuse('overlap: many-branch changed')
    node = top.orelse[1]
    if not (isinstance(node, ast.If) and ast.unparse(node.body).strip() == 'return False' and ast.unparse(node.orelse).strip() == 'return True'):
        raise Refuse('overlap: many-branch returns changed')
    return node

def _overlap_pair(stmts):
    top = _first_if(stmts)
    if top is None or ast.unparse(top.body).strip() != 'return lentil.extent.intersect(fields[0].extent, fields[1].extent)':
        raise Refuse('overlap: pair branch changed')
    return top

def _reduce_merges(stmts):
    """reduce(): `for f in fields: if len(f['field']) > 1: out.append(_merge(f['field'])) else: out.append(f['field'][0])`"""
    loops = [s for s in stmts if isinstance(s, ast.For)]
    if len(loops) != 1 or ast.unparse(loops[0].target) != 'f' or ast.unparse(loops[0].iter) != 'fields' or len(loops[0].body) != 1:
        raise Refuse('reduce: loop changed')
    node = loops[0].body[0]
    if not (isinstance(node, ast.If) and ast.unparse(node.body).strip() == "out.append(_merge(f['field']))"
            and ast.unparse(node.orelse).strip() == "out.append(f['field'][0])"):
        raise Refuse('reduce: branches changed')
    return node

def _merge_refuse(stmts):
    top = _first_if(stmts)
    if top is None or not isinstance(top.body[0], ast.Raise) or top.orelse: raise Refuse('merge: refusal changed')
    rest = [s for s in stmts if not isinstance(s, (ast.If, ast.Expr))]
    if len(rest) != 1 or ast.unparse(rest[0]).strip() != 'return _merge((a, b))': raise Refuse('merge: accepted branch changed')
    return top

def _disjoint_step(tr, stmts):
    """structural recogniser for `_disjoint` (loop form): `merged = True; while merged: merged = False; for m, n in
    combinations(range(len(fields)), 2): if <extents intersect>: <merge step>; merged = True; break` and `return fields`, i.e. scan
    the pairs in `combinations` order, merge the FIRST intersecting pair, rescan the shortened list from the start, stop when a
    full scan finds nothing — the iteration the model's fuel recursion `Lentil.disjoint` performs (`disjoint_succ_some`: one step;
    `reduce_terminates`: at most len(fields) steps; `reduce_fixed_point_iff`: the exit condition). The merge step is
    `fields[a]['field'].extend(fields[b]['field']); fields[r]['extent'] = boundary(fields[r]['field']); fields.pop(p)`;
    emits (a, b, r, p) with 0 for m, 1 for n."""
    import re
    body = [s for s in stmts if not (isinstance(s, ast.Expr) and isinstance(getattr(s, 'value', None), ast.Constant))]
    if len(body) != 3: raise Refuse('_disjoint: expected `merged = True`, a while loop and `return fields`')
    init, loop, ret = body
    if not (isinstance(init, ast.Assign) and ast.unparse(init) == 'merged = True'): raise Refuse('_disjoint: loop flag initialisation changed')
    if not (isinstance(ret, ast.Return) and ast.unparse(ret) == 'return fields'): raise Refuse('_disjoint: does not return fields')
    if not (isinstance(loop, ast.While) and ast.unparse(loop.test) == 'merged' and not loop.orelse and len(loop.body) == 2
            and ast.unparse(loop.body[0]) == 'merged = False' and isinstance(loop.body[1], ast.For)):
        raise Refuse('_disjoint: `while merged: merged = False; for …` not found')
    lp = loop.body[1]
    if ast.unparse(lp.target) != '(m, n)' or ast.unparse(lp.iter) != 'combinations(range(len(fields)), 2)' or len(lp.body) != 1 or lp.orelse:
        raise Refuse('_disjoint: pair scan changed')
    node = lp.body[0]
    if not isinstance(node, ast.If) or node.orelse or ast.unparse(node.test) != "lentil.extent.intersect(fields[m]['extent'], fields[n]['extent'])":
        raise Refuse('_disjoint: pair test changed')
    step = [ast.unparse(x).strip() for x in node.body]
    idx = {'m': 0, 'n': 1}
    pats = [r"fields\[(m|n)\]\['field'\]\.extend\(fields\[(m|n)\]\['field'\]\)", r"fields\[(m|n)\]\['extent'\] = boundary\(fields\[(m|n)\]\['field'\]\)",
            r"fields\.pop\((m|n)\)", r"merged = True", r"break"]
    if len(step) != 5: raise Refuse('_disjoint: merge step has %d statements' % len(step))
    ms = [re.fullmatch(pt, b) for pt, b in zip(pats, step)]
    if not all(ms): raise Refuse('_disjoint: merge step changed: ' + '; '.join(step)[:120])
    keep, src = ms[0].group(1), ms[0].group(2)
    if ms[1].group(1) != ms[1].group(2): raise Refuse('_disjoint: extent recomputed from another group')
    vals = [idx[keep], idx[src], idx[ms[1].group(1)], idx[ms[2].group(1)]]
    return [], lambda env: V([S(f'({v} : Int)', const=v) for v in vals])

_SZ = ('attr', {'size': 'int'})
_OFF = ('attr', {'offset': 'pairk'})     # the offsets with their container type: `==` would compare that too
FIELDMERGE = {
    '_merge_slices#step': {'py_name': '_merge_slices', 'lean_name': 'mergeSlice',
                           'params': [('rmin', 'int'), ('rmax', 'int'), ('cmin', 'int'), ('cmax', 'int'),
                                      ('field', ('attr', {'extent': 'ext'}))],
                           'block': _merge_slices_step},
}


# ------------------------------------------------------------------------------------------------ insert: the accumulation
def _acc_expr(e):
    """the right-hand side of `out[out_slice] += …` as a term over {data, weight, *, |·|²}: `field.data[field_slice]` is the
    data, `np.abs(X**2)` / `np.abs(X)**2` / `abs(X)**2` all mean |X|² (equal for complex numbers), a bare `np.abs(X)` or
    anything else is refused"""
    t = ast.unparse(e)
    if t == 'field.data[field_slice]': return '.data'
    if t == 'weight': return '.weight'
    if isinstance(e, ast.BinOp) and isinstance(e.op, ast.Mult): return f'(.mul {_acc_expr(e.left)} {_acc_expr(e.right)})'
    def is_abs(c): return isinstance(c, ast.Call) and ast.unparse(c.func) in ('np.abs', 'abs', 'np.absolute') and len(c.args) == 1 and not c.keywords
    def is_sq(b): return isinstance(b, ast.BinOp) and isinstance(b.op, ast.Pow) and isinstance(b.right, ast.Constant) and b.right.value == 2
    if is_abs(e) and is_sq(e.args[0]): return f'(.nsq {_acc_expr(e.args[0].left)})'
    if is_sq(e) and is_abs(e.left): return f'(.nsq {_acc_expr(e.left.args[0])})'
    raise Refuse(f'insert: accumulated expression not understood: {t[:80]}')

def generate_accum(repo):
    """Gen/FieldAccum.lean: the two accumulation statements at the end of `lentil.field.insert`
    (`if intensity: out[out_slice] += … else: out[out_slice] += …`) as terms the model evaluates (`Lentil.insertTerm`)"""
    import os
    mod = ast.parse(open(os.path.join(repo, 'lentil/field.py')).read())
    fn = [n for n in mod.body if isinstance(n, ast.FunctionDef) and n.name == 'insert']
    if not fn: raise Refuse('field.py: insert not found')
    body = [s for s in fn[0].body if not (isinstance(s, ast.Expr) and isinstance(s.value, ast.Constant))]
    if len(body) < 3 or not isinstance(body[-1], ast.Return) or ast.unparse(body[-1].value) != 'out': raise Refuse('insert: does not end in `return out`')
    br = body[-2]
    if not (isinstance(br, ast.If) and ast.unparse(br.test) == 'intensity' and len(br.body) == 1 and len(br.orelse) == 1):
        raise Refuse('insert: final `if intensity:` with one statement per branch not found')
    terms, inplace = [], []
    for st in (br.body[0], br.orelse[0]):
        if isinstance(st, ast.AugAssign) and isinstance(st.op, ast.Add): inplace.append(True)
        elif isinstance(st, ast.Assign) and len(st.targets) == 1: inplace.append(False)
        else: raise Refuse('insert: accumulation statement is neither `+=` nor `=`: ' + ast.unparse(st)[:80])
        tgt = st.target if isinstance(st, ast.AugAssign) else st.targets[0]
        if ast.unparse(tgt) != 'out[out_slice]': raise Refuse('insert: accumulation target changed: ' + ast.unparse(tgt)[:60])
        terms.append(_acc_expr(st.value))
    b = lambda x: 'true' if x else 'false'
    text = f"""/-- terms of the accumulation statements of `lentil.field.insert` -/
inductive AccExpr where
  | data | weight
  | mul (a b : AccExpr)
  | nsq (a : AccExpr)
deriving Repr, DecidableEq

/-- translated from `field.py:insert`: `if intensity: out[out_slice] += <this>` -/
def insertAccumIntensity : AccExpr := {terms[0]}
/-- translated from `field.py:insert`: `else: out[out_slice] += <this>` -/
def insertAccumField : AccExpr := {terms[1]}
/-- both statements accumulate in place (`+=`) rather than overwrite (`=`): (intensity branch, field branch) -/
def insertAccumInPlace : Bool × Bool := ({b(inplace[0])}, {b(inplace[1])})
"""
    return text, ['insert: accumulation statements of both branches']

FIELDDISPATCH = {
    # Field.__mul__: `if self.size == 1 and other.size == 1:` -> _mul_scalar, else _mul_array
    '__mul__#both_one': {'py_name': '__mul__', 'lean_name': 'mulBothOne', 'params': [('self', _SZ), ('other', _SZ)],
                         'block': _test(_first_if, what='Field.__mul__')},
    # Field._mul_scalar: `if np.array_equal(self.offset, other.offset):`
    '_mul_scalar#same': {'py_name': '_mul_scalar', 'lean_name': 'mulScalarSame', 'params': [('self', _OFF), ('other', _OFF)],
                         'block': _test(_first_if, what='Field._mul_scalar')},
    # overlap(): `if len(fields) == 2:` / `if len(fields) > 1: return False`
    'overlap#pair': {'py_name': 'overlap', 'lean_name': 'overlapIsPair', 'params': [('n', 'int')],
                     'block': _test(_overlap_pair, {'len(fields)': 'n'}, 'overlap')},
    'overlap#many': {'py_name': 'overlap', 'lean_name': 'overlapManyFalse', 'params': [('n', 'int')],
                     'block': _test(_overlap_many, {'len(fields)': 'n'}, 'overlap')},
    # reduce(): `if len(f['field']) > 1:` -> _merge, else the field itself
    'reduce#merges': {'py_name': 'reduce', 'lean_name': 'reduceMerges', 'params': [('n', 'int')],
                      'block': _test(_reduce_merges, {"len(f['field'])": 'n'}, 'reduce')},
    # merge(): `if enforce_overlap and not overlap((a, b)): raise`   (booleans as 0/1)
    'merge#refuse': {'py_name': 'merge', 'lean_name': 'mergeRefuses', 'params': [('enf', 'int'), ('ov', 'int')],
                     'block': _test(_merge_refuse, {'enforce_overlap': 'enf == 1', 'overlap((a, b))': 'ov == 1'}, 'merge')},
    # _disjoint: (group kept, group whose fields are appended, group whose extent is recomputed, group popped), m = 0, n = 1
    '_disjoint#step': {'py_name': '_disjoint', 'lean_name': 'disjointStep', 'params': [], 'block': _disjoint_step},
}

MODULES = [
    {'name': 'FieldAccum', 'src': 'lentil/field.py', 'generator': generate_accum, 'props': ['C06', 'C07', 'C02', 'C03', 'C04', 'C05', 'C09'], 'imports': []},
    {'name': 'FieldDispatch', 'src': 'lentil/field.py', 'sigs': FIELDDISPATCH, 'props': ['C06', 'C07', 'C02', 'C03', 'C04', 'C05', 'C09'], 'imports': []},
    {'name': 'FieldMerge', 'src': 'lentil/field.py', 'sigs': FIELDMERGE, 'props': ['C06', 'C07', 'C02', 'C03', 'C04', 'C05', 'C09'], 'imports': []},
]
