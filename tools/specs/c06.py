"""C06: `lentil.field._merge_slices` — the per-field slice of the general (non-origin) branch.

The loop body `frmin, ... = field.extent; row = slice(frmin-rmin, frmax-rmin+1); col = slice(fcmin-cmin, fcmax-cmin+1)` is
translated as a function of the bounding box (`rmin, rmax, cmin, cmax = boundary(fields)`) and one field extent. `Lentil.mergeL` (Model/Field.lean) addresses its members through this generated definition (`Gen.mergeSlice`), so a change of
`_merge_slices` flows into `merge_emb`; `Props/C06.merge_slices_spec` states its closed form and that it is in range."""
import ast
from py2lean import V, Refuse

def _merge_slices_step(tr, stmts):
    ifs = [s for s in stmts if isinstance(s, ast.If)]
    if len(ifs) != 1: raise Refuse('_merge_slices: branch not found')
    if ast.unparse(ifs[0].test) != 'rmin == 0 and rmax == 0 and (cmin == 0) and (cmax == 0)': raise Refuse('_merge_slices: origin test changed')
    if ast.unparse(ifs[0].body).strip() != 'out = [Ellipsis for field in fields]': raise Refuse('_merge_slices: origin branch changed')
    loops = [s for s in ifs[0].orelse if isinstance(s, ast.For)]
    if len(loops) != 1 or len(ifs[0].orelse) != 1 or ast.unparse(loops[0].target) != 'field' or ast.unparse(loops[0].iter) != 'fields':
        raise Refuse('_merge_slices: loop not found')
    body = list(loops[0].body)
    if ast.unparse(body[-1]).strip() != 'out.append((row, col))': raise Refuse('_merge_slices: append changed')
    return body[:-1], lambda env: V([env['row'], env['col']])

FIELDMERGE = {
    '_merge_slices#step': {'py_name': '_merge_slices', 'lean_name': 'mergeSlice',
                           'params': [('rmin', 'int'), ('rmax', 'int'), ('cmin', 'int'), ('cmax', 'int'),
                                      ('field', ('attr', {'extent': 'ext'}))],
                           'block': _merge_slices_step},
}

MODULES = [
    {'name': 'FieldMerge', 'src': 'lentil/field.py', 'sigs': FIELDMERGE, 'props': ['C06', 'C07', 'C02', 'C03'], 'imports': []},
]
